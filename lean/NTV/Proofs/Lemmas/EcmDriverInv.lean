import NTV.Proofs.Lemmas.EcmDriverRun
import Mathlib.Algebra.Order.GroupWithZero.Basic
import Mathlib.Algebra.Order.Ring.Int
import Mathlib.Tactic.Ring
import Mathlib.Tactic.Linarith
/-! Invariants of the work-stack driver, for both build profiles.
* `InvA` (no hypothesis on the profile): the keys of the map are pairwise distinct, the current stream
  is a suffix of the initial one, every key was accepted by `is_prime` on a segment of the initial stream.
* `InvB` (dev profile, or release with `x < 2^(2^64)` so that no u64 multiplicity can wrap):
  `∏ stack^mult · ∏ map = x`, all multiplicities ≥ 1, keys ≥ 2.
* `sortPairs` of a list with distinct keys is strictly increasing in the keys. -/
namespace NTV.Ecm
open NTV.Draw (Stream)

/-! ## `result.sort()` -/

theorem insertSorted_perm (v : Int × Nat) (l : List (Int × Nat)) : (insertSorted v l).Perm (v :: l) := by
  induction l with
  | nil => simp [insertSorted]
  | cons u us ih =>
    unfold insertSorted
    split
    · exact List.Perm.refl _
    · exact (List.Perm.cons u ih).trans (List.Perm.swap v u us)

theorem sortPairs_perm (l : List (Int × Nat)) : (sortPairs l).Perm l := by
  unfold sortPairs
  induction l with
  | nil => exact List.Perm.refl _
  | cons a l ih =>
    simp only [List.foldr_cons]
    exact (insertSorted_perm a _).trans (List.Perm.cons a ih)

theorem insertSorted_pairwise (v : Int × Nat) (l : List (Int × Nat))
    (hl : l.Pairwise (fun a b => a.1 < b.1)) (hne : ∀ u ∈ l, u.1 ≠ v.1) :
    (insertSorted v l).Pairwise (fun a b => a.1 < b.1) := by
  induction l with
  | nil => simp [insertSorted]
  | cons u us ih =>
    rw [List.pairwise_cons] at hl
    have hu : u.1 ≠ v.1 := hne u (by simp)
    unfold insertSorted
    split
    · rename_i hle
      have hlt : v.1 < u.1 := by
        unfold pairLe at hle
        simp only [Bool.or_eq_true, decide_eq_true_eq, Bool.and_eq_true, beq_iff_eq] at hle
        rcases hle with h | h
        · exact h
        · exact absurd h.1.symm hu
      rw [List.pairwise_cons]
      refine ⟨?_, List.pairwise_cons.mpr hl⟩
      intro w hw
      rcases List.mem_cons.mp hw with h | h
      · rw [h]; exact hlt
      · exact lt_trans hlt (hl.1 w h)
    · rename_i hle
      have hlt : u.1 < v.1 := by
        unfold pairLe at hle
        simp only [Bool.or_eq_true, decide_eq_true_eq, Bool.and_eq_true, beq_iff_eq, not_or] at hle
        have := hle.1
        omega
      rw [List.pairwise_cons]
      refine ⟨?_, ih hl.2 (fun w hw => hne w (List.mem_cons_of_mem _ hw))⟩
      intro w hw
      have := (insertSorted_perm v us).mem_iff.mp hw
      rcases List.mem_cons.mp this with h | h
      · rw [h]; exact hlt
      · exact hl.1 w h

/-- sorting an association list with distinct keys gives strictly increasing keys -/
theorem sortPairs_pairwise (l : List (Int × Nat)) (hnd : (l.map Prod.fst).Nodup) :
    (sortPairs l).Pairwise (fun a b => a.1 < b.1) := by
  induction l with
  | nil => simp [sortPairs]
  | cons a l ih =>
    rw [List.map_cons, List.nodup_cons] at hnd
    have : sortPairs (a :: l) = insertSorted a (sortPairs l) := rfl
    rw [this]
    refine insertSorted_pairwise a _ (ih hnd.2) ?_
    intro u hu heq
    have hul : u ∈ l := (sortPairs_perm l).mem_iff.mp hu
    exact hnd.1 (heq ▸ List.mem_map_of_mem hul)

/-! ## u64 arithmetic that does not wrap -/

theorem addU64_exact (prof : Profile) (a b c : Nat) (h : addU64 prof a b = .ok c)
    (hnw : prof = .dev ∨ a + b < two64) : c = a + b := by
  unfold addU64 at h
  split at h
  · injection h with h; exact h.symm
  · rename_i hge
    rcases hnw with hd | hlt
    · subst hd; cases h
    · exact absurd hlt hge

theorem mulU64_exact (prof : Profile) (a b c : Nat) (h : mulU64 prof a b = .ok c)
    (hnw : prof = .dev ∨ a * b < two64) : c = a * b := by
  unfold mulU64 at h
  split at h
  · injection h with h; exact h.symm
  · rename_i hge
    rcases hnw with hd | hlt
    · subst hd; cases h
    · exact absurd hlt hge

/-! ## `map.entry(now).or_insert(0) += multiplicity` -/

theorem mapAdd_keys (prof : Profile) (m : List (Int × Nat)) (p : Int) (mult : Nat) (m' : List (Int × Nat))
    (h : mapAdd prof m p mult = .ok m') :
    (p ∈ m.map Prod.fst ∧ m'.map Prod.fst = m.map Prod.fst) ∨
    (p ∉ m.map Prod.fst ∧ m'.map Prod.fst = m.map Prod.fst ++ [p]) := by
  induction m generalizing m' with
  | nil =>
    unfold mapAdd at h
    cases hadd : addU64 prof 0 mult with
    | error e => rw [hadd] at h; cases h
    | ok c =>
      rw [hadd] at h
      simp only [Except.map] at h
      injection h with h
      subst h
      right; simp
  | cons qe rest ih =>
    obtain ⟨q, e⟩ := qe
    unfold mapAdd at h
    split at h
    · rename_i hq
      have hq' : q = p := by simpa using hq
      cases hadd : addU64 prof e mult with
      | error e' => rw [hadd] at h; cases h
      | ok c =>
        rw [hadd] at h
        simp only [Except.map] at h
        injection h with h
        subst h
        left; simp [hq']
    · rename_i hq
      have hq' : q ≠ p := by simpa using hq
      cases hrec : mapAdd prof rest p mult with
      | error e' => rw [hrec] at h; cases h
      | ok r =>
        rw [hrec] at h
        simp only [Except.map] at h
        injection h with h
        subst h
        rcases ih r hrec with ⟨h1, h2⟩ | ⟨h1, h2⟩
        · left; exact ⟨by simp [h1], by simp [h2]⟩
        · right
          refine ⟨?_, by simp [h2]⟩
          simp only [List.map_cons, List.mem_cons, not_or]
          exact ⟨fun hh => hq' hh.symm, h1⟩

theorem mapAdd_exact (prof : Profile) (m : List (Int × Nat)) (p : Int) (mult : Nat) (m' : List (Int × Nat))
    (h : mapAdd prof m p mult = .ok m')
    (hnw : prof = .dev ∨ (mult < two64 ∧ ∀ e, (p, e) ∈ m → e + mult < two64)) :
    prodPairs m' = prodPairs m * p ^ mult ∧
    (1 ≤ mult → (∀ e ∈ m, 1 ≤ e.2) → ∀ e ∈ m', 1 ≤ e.2) := by
  induction m generalizing m' with
  | nil =>
    unfold mapAdd at h
    cases hadd : addU64 prof 0 mult with
    | error e => rw [hadd] at h; cases h
    | ok c =>
      rw [hadd] at h
      simp only [Except.map] at h
      injection h with h
      subst h
      have hc := addU64_exact _ _ _ _ hadd (by
        rcases hnw with h | h
        · exact Or.inl h
        · right; have := h.1; omega)
      refine ⟨by simp [prodPairs, hc], ?_⟩
      intro hm _ e he
      simp only [List.mem_singleton] at he
      subst he
      simp only [hc]; omega
  | cons qe rest ih =>
    obtain ⟨q, e⟩ := qe
    unfold mapAdd at h
    split at h
    · rename_i hq
      have hq' : q = p := by simpa using hq
      cases hadd : addU64 prof e mult with
      | error e' => rw [hadd] at h; cases h
      | ok c =>
        rw [hadd] at h
        simp only [Except.map] at h
        injection h with h
        subst h
        have hc := addU64_exact _ _ _ _ hadd (by
          rcases hnw with h | h
          · exact Or.inl h
          · right; exact h.2 e (by simp [hq']))
        refine ⟨by simp only [prodPairs, hc, hq', pow_add]; ring, ?_⟩
        intro hm hall w hw
        rcases List.mem_cons.mp hw with h1 | h1
        · subst h1; simp only [hc]; omega
        · exact hall w (List.mem_cons_of_mem _ h1)
    · cases hrec : mapAdd prof rest p mult with
      | error e' => rw [hrec] at h; cases h
      | ok r =>
        rw [hrec] at h
        simp only [Except.map] at h
        injection h with h
        subst h
        obtain ⟨i1, i2⟩ := ih r hrec (by
          rcases hnw with h | h
          · exact Or.inl h
          · right; exact ⟨h.1, fun e' he' => h.2 e' (List.mem_cons_of_mem _ he')⟩)
        refine ⟨by simp only [prodPairs, i1]; ring, ?_⟩
        intro hm hall w hw
        rcases List.mem_cons.mp hw with h1 | h1
        · subst h1; exact hall _ (by simp)
        · exact i2 hm (fun w' hw' => hall w' (List.mem_cons_of_mem _ hw')) w h1

/-! ## positivity and divisibility of `prodPairs` -/

theorem prodPairs_pos (l : List (Int × Nat)) (h : ∀ e ∈ l, 1 ≤ e.1) : 1 ≤ prodPairs l := by
  induction l with
  | nil => simp [prodPairs]
  | cons a l ih =>
    simp only [prodPairs]
    have h1 : 1 ≤ a.1 ^ a.2 := one_le_pow₀ (h a (by simp))
    have h2 := ih (fun e he => h e (List.mem_cons_of_mem _ he))
    nlinarith

theorem prodPairs_mem_dvd (l : List (Int × Nat)) (p : Int) (e : Nat) (h : (p, e) ∈ l) :
    p ^ e ∣ prodPairs l := by
  induction l with
  | nil => simp at h
  | cons a l ih =>
    simp only [prodPairs]
    rcases List.mem_cons.mp h with h1 | h1
    · subst h1; exact Dvd.intro _ rfl
    · exact Dvd.dvd.mul_left (ih h1) _

/-- the build profile cannot wrap a multiplicity: dev (overflow checks), or release with an input
below `2^(2^64)` (every multiplicity e satisfies `2^e ≤ p^e ≤ x`) -/
def NoWrap (prof : Profile) (x : Int) : Prop := prof = .dev ∨ x < 2 ^ two64

theorem exp_bound (a : Int) (n : Nat) (x : Int) (ha : 2 ≤ a) (hx : 0 < x) (hd : a ^ n ∣ x)
    (hlt : x < 2 ^ two64) : n < two64 := by
  have h1 : (2 : Int) ^ n ≤ a ^ n := pow_le_pow_left₀ (by norm_num) ha n
  have h2 : a ^ n ≤ x := Int.le_of_dvd hx hd
  have h3 : (2 : Int) ^ n < 2 ^ two64 := lt_of_le_of_lt (le_trans h1 h2) hlt
  exact (pow_lt_pow_iff_right₀ (by norm_num : (1 : Int) < 2)).mp h3

theorem noWrap_bound {prof : Profile} {x : Int} (hnw : NoWrap prof x) (a : Int) (n : Nat)
    (ha : 2 ≤ a) (hx : 0 < x) (hd : a ^ n ∣ x) : prof = .dev ∨ n < two64 := by
  rcases hnw with h | h
  · exact Or.inl h
  · exact Or.inr (exp_bound a n x ha hx hd h)

/-! ## the arithmetic invariant -/

structure InvB (x : Int) (st : DState) : Prop where
  value : prodPairs st.stack * prodPairs st.map = x
  stackPos : ∀ e ∈ st.stack, 1 ≤ e.1
  multPos : ∀ e ∈ st.stack, 1 ≤ e.2
  mapGe : ∀ e ∈ st.map, 2 ≤ e.1
  mapExp : ∀ e ∈ st.map, 1 ≤ e.2

theorem invB_step (ecmFn : Int → Nat → Nat → Stream → EcmRes) (prof : Profile) (bsel : Int → Option Nat) (x : Int)
    (hE : ∀ now b1 b2 s fac c s', 1 < now → ecmFn now b1 b2 s = .found fac c s' → fac ∣ now ∧ 0 < fac)
    (hx : 1 ≤ x) (hnw : NoWrap prof x) (st st' : DState) (hinv : InvB x st)
    (hs : Step ecmFn prof bsel st st') : InvB x st' := by
  obtain ⟨hval, hpos, hmult, hge, hexp⟩ := hinv
  -- facts shared by all cases, from `stack = dropLast ++ [(now, mult)]`
  have key : ∀ now mult, st.stack.getLast? = some (now, mult) →
      st.stack = st.stack.dropLast ++ [(now, mult)] ∧
      (∀ e ∈ st.stack.dropLast, 1 ≤ e.1) ∧ (∀ e ∈ st.stack.dropLast, 1 ≤ e.2) ∧ 1 ≤ now ∧ 1 ≤ mult ∧
      prodPairs st.stack.dropLast * now ^ mult * prodPairs st.map = x := by
    intro now mult hsome
    have hstack := eq_dropLast_append _ _ hsome
    refine ⟨hstack, fun e he => hpos e (by rw [hstack]; exact List.mem_append_left _ he),
      fun e he => hmult e (by rw [hstack]; exact List.mem_append_left _ he),
      hpos (now, mult) (by rw [hstack]; simp), hmult (now, mult) (by rw [hstack]; simp), ?_⟩
    rw [← hval]
    conv_rhs => rw [hstack, prodPairs_append]
    simp [prodPairs]
  have hmapPos : 1 ≤ prodPairs st.map := prodPairs_pos _ (fun e he => by have := hge e he; omega)
  cases hs with
  | drop now mult h hle =>
    obtain ⟨_, hposD, hmultD, hnow1, _, hv⟩ := key now mult h
    have hone : now = 1 := by omega
    refine ⟨?_, hposD, hmultD, hge, hexp⟩
    simp only
    rw [← hv, hone]; simp
  | prime now mult s m h hgt hp hm =>
    obtain ⟨_, hposD, hmultD, hnow1, hmult1, hv⟩ := key now mult h
    have hDpos : 1 ≤ prodPairs st.stack.dropLast := prodPairs_pos _ hposD
    have hbound : prof = .dev ∨ (mult < two64 ∧ ∀ e, (now, e) ∈ st.map → e + mult < two64) := by
      rcases hnw with hd | hlt
      · exact Or.inl hd
      · right
        refine ⟨exp_bound now mult x (by omega) (by omega) ⟨prodPairs st.stack.dropLast * prodPairs st.map, ?_⟩ hlt, ?_⟩
        · rw [← hv]; ring
        · intro e he
          obtain ⟨c, hc⟩ := prodPairs_mem_dvd _ _ _ he
          refine exp_bound now (e + mult) x (by omega) (by omega) ⟨prodPairs st.stack.dropLast * c, ?_⟩ hlt
          rw [← hv, hc, pow_add]; ring
    obtain ⟨hprod, hexp'⟩ := mapAdd_exact _ _ _ _ _ hm hbound
    refine ⟨?_, hposD, hmultD, ?_, hexp' hmult1 hexp⟩
    · simp only
      rw [hprod, ← hv]; ring
    · intro e he
      simp only at he
      have hk : e.1 ∈ m.map Prod.fst := List.mem_map_of_mem he
      rcases mapAdd_keys _ _ _ _ _ hm with ⟨_, h2⟩ | ⟨_, h2⟩
      · rw [h2] at hk
        obtain ⟨w, hw, hw1⟩ := List.mem_map.mp hk
        rw [← hw1]; exact hge w hw
      · rw [h2] at hk
        rcases List.mem_append.mp hk with hk | hk
        · obtain ⟨w, hw, hw1⟩ := List.mem_map.mp hk
          rw [← hw1]; exact hge w hw
        · simp only [List.mem_singleton] at hk
          omega
  | power now mult s base k m h hgt hp hpp hk hm =>
    obtain ⟨_, hposD, hmultD, hnow1, hmult1, hv⟩ := key now mult h
    obtain ⟨hpow, hbase⟩ := perfectPower_spec now hgt base k hpp
    have hbase2 : 2 ≤ base := by
      by_contra hc
      have : base = 1 := by omega
      rw [this] at hpow
      simp at hpow
      omega
    have hpw : base ^ (mult * k) = now ^ mult := by
      rw [← hpow, ← pow_mul, Nat.mul_comm]
    have hm' : m = mult * k := mulU64_exact _ _ _ _ hm
      (noWrap_bound hnw base (mult * k) hbase2 (by omega)
        ⟨prodPairs st.stack.dropLast * prodPairs st.map, by rw [hpw, ← hv]; ring⟩)
    refine ⟨?_, ?_, ?_, hge, hexp⟩
    · simp only [prodPairs_append, prodPairs]
      rw [hm', hpw, ← hv]; ring
    · intro e he
      rcases List.mem_append.mp he with he | he
      · exact hposD e he
      · simp only [List.mem_singleton] at he
        subst he; exact hbase
    · intro e he
      rcases List.mem_append.mp he with he | he
      · exact hmultD e he
      · simp only [List.mem_singleton] at he
        subst he
        simp only [hm']
        exact Nat.mul_pos hmult1 (by omega)
  | retry now mult s base k b b2 fac nowcount s' count h hgt hp hpp hk hb hb2 hf hc h1 =>
    obtain ⟨hstack, _, _, _, _, _⟩ := key now mult h
    refine ⟨?_, ?_, ?_, hge, hexp⟩
    · simp only; rw [← hstack]; exact hval
    · simp only; rw [← hstack]; exact hpos
    · simp only; rw [← hstack]; exact hmult
  | split now mult s base k b b2 fac nowcount s' count h hgt hp hpp hk hb hb2 hf hc h1 =>
    obtain ⟨_, hposD, hmultD, hnow1, hmult1, hv⟩ := key now mult h
    obtain ⟨hdvd, hfacpos⟩ := hE _ _ _ _ _ _ _ hgt hf
    have hmul : fac * Int.tdiv now fac = now := Int.mul_tdiv_cancel' hdvd
    have hother : 1 ≤ Int.tdiv now fac := by
      by_contra hc
      have h0 : Int.tdiv now fac ≤ 0 := by omega
      have : fac * Int.tdiv now fac ≤ 0 := Int.mul_nonpos_of_nonneg_of_nonpos (by omega) h0
      omega
    refine ⟨?_, ?_, ?_, hge, hexp⟩
    · simp only [prodPairs_append, prodPairs]
      have : now ^ mult = fac ^ mult * Int.tdiv now fac ^ mult := by rw [← mul_pow, hmul]
      rw [← hv, this]; ring
    · intro e he
      rcases List.mem_append.mp he with he | he
      · exact hposD e he
      · simp only [List.mem_cons, List.not_mem_nil, or_false] at he
        rcases he with he | he
        · subst he; exact hfacpos
        · subst he; exact hother
    · intro e he
      rcases List.mem_append.mp he with he | he
      · exact hmultD e he
      · simp only [List.mem_cons, List.not_mem_nil, or_false] at he
        rcases he with he | he
        · subst he; exact hmult1
        · subst he; exact hmult1

/-! ## the structural invariant (any profile, any splitting routine that returns a suffix) -/

/-- p was accepted by the primality test reading a segment `s₁ … s₂` of the stream s0 -/
def Accepted (s0 : Stream) (p : Int) : Prop :=
  ∃ s₁ s₂ : Stream, s₁ <:+ s0 ∧ s₂ <:+ s₁ ∧ isPrimeS p s₁ = some (true, s₂)

structure InvA (s0 : Stream) (st : DState) : Prop where
  keys : (st.map.map Prod.fst).Nodup
  suffix : st.stream <:+ s0
  accepted : ∀ e ∈ st.map, Accepted s0 e.1

theorem invA_step (ecmFn : Int → Nat → Nat → Stream → EcmRes) (prof : Profile) (bsel : Int → Option Nat) (s0 : Stream)
    (hS : ∀ now b1 b2 s fac c s', ecmFn now b1 b2 s = .found fac c s' → s' <:+ s)
    (st st' : DState) (hinv : InvA s0 st) (hs : Step ecmFn prof bsel st st') : InvA s0 st' := by
  obtain ⟨hkeys, hsuf, hacc⟩ := hinv
  cases hs with
  | drop now mult h hle => exact ⟨hkeys, hsuf, hacc⟩
  | prime now mult s m h hgt hp hm =>
    have hs1 := isPrimeS_suffix _ _ _ _ hp
    have hnowacc : Accepted s0 now := ⟨st.stream, s, hsuf, hs1, hp⟩
    refine ⟨?_, hs1.trans hsuf, ?_⟩
    · simp only
      rcases mapAdd_keys _ _ _ _ _ hm with ⟨_, h2⟩ | ⟨h1, h2⟩
      · rw [h2]; exact hkeys
      · rw [h2]
        rw [List.nodup_append]
        refine ⟨hkeys, by simp, ?_⟩
        intro a ha c hc hac
        simp only [List.mem_singleton] at hc
        subst hc
        exact h1 (hac ▸ ha)
    · intro e he
      simp only at he
      have hk : e.1 ∈ m.map Prod.fst := List.mem_map_of_mem he
      rcases mapAdd_keys _ _ _ _ _ hm with ⟨_, h2⟩ | ⟨_, h2⟩
      · rw [h2] at hk
        obtain ⟨w, hw, hw1⟩ := List.mem_map.mp hk
        rw [← hw1]; exact hacc w hw
      · rw [h2] at hk
        rcases List.mem_append.mp hk with hk | hk
        · obtain ⟨w, hw, hw1⟩ := List.mem_map.mp hk
          rw [← hw1]; exact hacc w hw
        · simp only [List.mem_singleton] at hk
          rw [hk]; exact hnowacc
  | power now mult s base k m h hgt hp hpp hk hm =>
    exact ⟨hkeys, (isPrimeS_suffix _ _ _ _ hp).trans hsuf, hacc⟩
  | retry now mult s base k b b2 fac nowcount s' count h hgt hp hpp hk hb hb2 hf hc h1 =>
    exact ⟨hkeys, ((hS _ _ _ _ _ _ _ hf).trans (isPrimeS_suffix _ _ _ _ hp)).trans hsuf, hacc⟩
  | split now mult s base k b b2 fac nowcount s' count h hgt hp hpp hk hb hb2 hf hc h1 =>
    exact ⟨hkeys, ((hS _ _ _ _ _ _ _ hf).trans (isPrimeS_suffix _ _ _ _ hp)).trans hsuf, hacc⟩

/-! ## consequences for `factorizeWith` -/

/-- structural facts about a returned result (any profile) -/
theorem factorizeWith_structure (ecmFn : Int → Nat → Nat → Stream → EcmRes)
    (hS : ∀ now b1 b2 s fac c s', ecmFn now b1 b2 s = .found fac c s' → s' <:+ s)
    (x : Int) (bsel : Int → Option Nat) (stream : Stream) (fuel : Nat) (prof : Profile)
    (result : List (Int × Nat)) (count : Nat) (rest : Stream)
    (h : factorizeWith ecmFn x bsel stream fuel prof = .ok result count rest) :
    1 ≤ x ∧ result.Pairwise (fun a b => a.1 < b.1) ∧ rest <:+ stream ∧
      ∀ pe ∈ result, Accepted stream pe.1 := by
  unfold factorizeWith at h
  split at h
  · cases h
  · rename_i hx
    obtain ⟨fin, hr, _, hres, _, hrest⟩ := driverLoop_ok_run _ _ _ _ _ _ _ _ h
    have hinv : InvA stream fin :=
      run_invariant (InvA stream) (fun st st' hi hs => invA_step ecmFn prof bsel stream hS st st' hi hs)
        ⟨by simp, List.suffix_refl _, by simp⟩ hr
    refine ⟨by omega, ?_, ?_, ?_⟩
    · rw [hres]; exact sortPairs_pairwise _ hinv.keys
    · rw [hrest]; exact hinv.suffix
    · intro pe hpe
      rw [hres] at hpe
      exact hinv.accepted pe ((sortPairs_perm _).mem_iff.mp hpe)

/-- arithmetic facts about a returned result (no wrapped multiplicity) -/
theorem factorizeWith_arith (ecmFn : Int → Nat → Nat → Stream → EcmRes)
    (hE : ∀ now b1 b2 s fac c s', 1 < now → ecmFn now b1 b2 s = .found fac c s' → fac ∣ now ∧ 0 < fac)
    (x : Int) (bsel : Int → Option Nat) (stream : Stream) (fuel : Nat) (prof : Profile) (hnw : NoWrap prof x)
    (result : List (Int × Nat)) (count : Nat) (rest : Stream)
    (h : factorizeWith ecmFn x bsel stream fuel prof = .ok result count rest) :
    prodPairs result = x ∧ ∀ pe ∈ result, 2 ≤ pe.1 ∧ 1 ≤ pe.2 := by
  unfold factorizeWith at h
  split at h
  · cases h
  · rename_i hx
    have hx1 : 1 ≤ x := by omega
    obtain ⟨fin, hr, hstack, hres, _, _⟩ := driverLoop_ok_run _ _ _ _ _ _ _ _ h
    have hinv : InvB x fin :=
      run_invariant (InvB x) (fun st st' hi hs => invB_step ecmFn prof bsel x hE hx1 hnw st st' hi hs)
        ⟨by simp [prodPairs], by intro e he; simp at he; subst he; exact hx1,
          by intro e he; simp at he; subst he; exact le_refl 1, by simp, by simp⟩ hr
    refine ⟨?_, ?_⟩
    · rw [hres, prodPairs_sortPairs, ← hinv.value, hstack]; simp [prodPairs]
    · intro pe hpe
      rw [hres] at hpe
      have := (sortPairs_perm _).mem_iff.mp hpe
      exact ⟨hinv.mapGe pe this, hinv.mapExp pe this⟩

/-- `x = 1`: the stack entry (1, 1) is dropped and the result is empty (one iteration suffices) -/
theorem factorizeWith_one (ecmFn : Int → Nat → Nat → Stream → EcmRes) (bsel : Int → Option Nat) (stream : Stream)
    (fuel : Nat) (prof : Profile) :
    factorizeWith ecmFn 1 bsel stream (fuel + 1) prof = .ok [] 0 stream := by
  unfold factorizeWith
  simp only [show ¬ ((1 : Int) ≤ 0) by omega, ↓reduceIte]
  unfold driverLoop
  simp only [List.getLast?_singleton, le_refl, ↓reduceIte, List.dropLast_singleton]
  cases fuel with
  | zero => simp [driverLoop, sortPairs]
  | succ f => simp [driverLoop, sortPairs]

/-- `x ≤ 0`: the documented `panic!("x <= 0")` -/
theorem factorizeWith_nonpos (ecmFn : Int → Nat → Nat → Stream → EcmRes) (x : Int) (hx : x ≤ 0) (bsel : Int → Option Nat)
    (stream : Stream) (fuel : Nat) (prof : Profile) :
    factorizeWith ecmFn x bsel stream fuel prof = .panic "other" := by
  unfold factorizeWith; simp [hx]

/-! ## the two instances -/

theorem seq_hE (prof : Profile) : ∀ now b1 b2 s fac c s', 1 < now →
    (fun now b1 b2 (s : Stream) => ecm now b1 b2 s (s.length + 1) prof) now b1 b2 s = .found fac c s' →
    fac ∣ now ∧ 0 < fac := by
  intro now b1 b2 s fac c s' hnow hf
  obtain ⟨h1, _, h3⟩ := ecm_found_proper now hnow b1 b2 s _ _ fac c s' hf
  exact ⟨h3, by omega⟩

theorem par_hE (prof : Profile) : ∀ now b1 b2 s fac c s', 1 < now →
    (fun now b1 b2 (s : Stream) => ecmParallel now b1 b2 s (s.length + 1) prof) now b1 b2 s = .found fac c s' →
    fac ∣ now ∧ 0 < fac := by
  intro now b1 b2 s fac c s' hnow hf
  obtain ⟨h1, _, h3⟩ := ecmParallel_found_proper now hnow b1 b2 s _ _ fac c s' hf
  exact ⟨h3, by omega⟩

theorem seq_hS (prof : Profile) : ∀ now b1 b2 s fac c s',
    (fun now b1 b2 (s : Stream) => ecm now b1 b2 s (s.length + 1) prof) now b1 b2 s = .found fac c s' →
    s' <:+ s := fun now b1 b2 s fac c s' hf => ecm_suffix now b1 b2 s _ prof fac c s' hf

theorem par_hS (prof : Profile) : ∀ now b1 b2 s fac c s',
    (fun now b1 b2 (s : Stream) => ecmParallel now b1 b2 s (s.length + 1) prof) now b1 b2 s = .found fac c s' →
    s' <:+ s := fun now b1 b2 s fac c s' hf => ecmParallel_suffix now b1 b2 s _ prof fac c s' hf

end NTV.Ecm
