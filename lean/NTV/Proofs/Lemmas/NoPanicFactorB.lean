import NTV.Proofs.Lemmas.NoPanicFactorA
/-! Panic-freedom of `factorize_mod_p`, part B: equal-degree splitting, the degree assertion of the
normalisation loop, and the assembly. -/
open Polynomial
namespace NTV.PolyMod
open NTV.PolyG NTV.Hensel

section prime
variable (p : ℕ) [hp : Fact p.Prime]

/-- a non-zero polynomial all of whose irreducible factors have degree d has a degree divisible by d -/
theorem dvd_natDegree_of_factor_degrees (d : ℕ) (G : (ZMod p)[X]) :
    G ≠ 0 → (∀ q : (ZMod p)[X], Irreducible q → q ∣ G → q.natDegree = d) → d ∣ G.natDegree := by
  induction G using WfDvdMonoid.induction_on_irreducible with
  | zero => intro h; exact absurd rfl h
  | unit u hu => intro _ _; rw [natDegree_eq_zero_of_isUnit hu]; exact dvd_zero d
  | mul a i ha hi ih =>
    intro _ h
    rw [natDegree_mul hi.ne_zero ha, h i hi (dvd_mul_right i a)]
    exact dvd_add (dvd_refl d) (ih ha (fun q hq hqa => h q hq (hqa.trans (dvd_mul_left a i))))

/-- the pieces handled by `final_split`: non-constant, all irreducible factors of degree d -/
def EqDeg (d : Nat) (poly : Poly) : Prop :=
  GoodNZ p poly ∧ 1 ≤ nd p poly ∧ ∀ q : (ZMod p)[X], Irreducible q → q ∣ mp p poly → q.natDegree = d

theorem EqDeg.d_pos {d : Nat} {poly : Poly} (h : EqDeg p d poly) : 1 ≤ d := by
  obtain ⟨h1, h2, h3⟩ := h
  have hnu : ¬ IsUnit (mp p poly) := by
    intro hu
    have := natDegree_eq_zero_of_isUnit hu
    unfold nd at h2; omega
  obtain ⟨q, hq, hqd⟩ := WfDvdMonoid.exists_irreducible_factor hnu (GoodNZ.mp_ne_zero p h1)
  rw [← h3 q hq hqd]
  exact hq.natDegree_pos

theorem EqDeg.dvd {d : Nat} {poly : Poly} (h : EqDeg p d poly) : d ∣ nd p poly :=
  dvd_natDegree_of_factor_degrees p d _ (GoodNZ.mp_ne_zero p h.1) h.2.2

/-- k = deg / d is at least 1 (the `unreachable!()` is unreachable) -/
theorem EqDeg.k_pos {d : Nat} {poly : Poly} (h : EqDeg p d poly) : degU poly / d ≠ 0 := by
  rw [degU_nd p h.1]
  have hd := h.d_pos p
  have := Nat.le_of_dvd (by have := h.2.1; omega) (h.dvd p)
  exact Nat.ne_of_gt (Nat.div_pos this hd)

/-- when k = 1 the piece has degree exactly d (the degree assertion of the caller holds) -/
theorem EqDeg.deg_of_k_one {d : Nat} {poly : Poly} (h : EqDeg p d poly) (hk : degU poly / d = 1) :
    degU poly = d := by
  rw [degU_nd p h.1] at hk ⊢
  obtain ⟨c, hc⟩ := h.dvd p
  have hd := h.d_pos p
  rw [hc, Nat.mul_div_cancel_left c hd] at hk
  rw [hc, hk, mul_one]

/-- a proper non-constant divisor and its cofactor are again such pieces -/
theorem EqDeg.split {d : Nat} {poly b : Poly} (h : EqDeg p d poly) (hb : GoodNZ p b) (hdvd : mp p b ∣ mp p poly)
    (hb0 : degU b ≠ 0) (hb1 : degU b ≠ degU poly) :
    EqDeg p d b ∧ EqDeg p d (polyDivrem poly b p).1 := by
  obtain ⟨e1, e2⟩ := divide_out p h.1 hb hdvd
  have hn := nd_mul p h.1 e1
  rw [degU_nd p hb] at hb0 hb1
  rw [degU_nd p h.1] at hb1
  refine ⟨⟨hb, by omega, fun q hq hqb => h.2.2 q hq (hqb.trans hdvd)⟩, e2, by omega, fun q hq hqb => ?_⟩
  exact h.2.2 q hq (hqb.trans ⟨mp p b, e1⟩)

/-! ### odd p: Cantor–Zassenhaus -/

omit hp in
theorem drawCoeffs_length (n : Nat) : ∀ (s : NTV.Draw.Stream) (acc raw : List Int) (s1 : NTV.Draw.Stream),
    drawCoeffs (p : Int) n s acc = some (raw, s1) → s1.length + n ≤ s.length := by
  induction n with
  | zero =>
    intro s acc raw s1 h
    simp only [drawCoeffs, Option.some.injEq, Prod.mk.injEq] at h
    rw [h.2]; omega
  | succ n ih =>
    intro s acc raw s1 h
    simp only [drawCoeffs] at h
    split at h
    · simp at h
    · rename_i c s2 hdraw
      have := range_length _ _ _ _ _ hdraw
      have := ih _ _ _ _ h
      omega

/-- outcome allowed for `final_split_odd` started with n chunks: `inconclusive stream`, or success with
at most n chunks left and pieces of degree d -/
def PostOdd (d n : Nat) : M (List Poly × NTV.Draw.Stream) → Prop
  | .error e => e = "inconclusive stream"
  | .ok (res, s') => s'.length ≤ n ∧ ∀ x ∈ res, degU x = d

theorem PostOdd.mono {d n m : Nat} (h : n ≤ m) {r : M (List Poly × NTV.Draw.Stream)} (hr : PostOdd d n r) :
    PostOdd d m r := by
  cases r with
  | error e => exact hr
  | ok v => obtain ⟨_, s'⟩ := v; exact ⟨Nat.le_trans hr.1 h, hr.2⟩

theorem finalSplitOdd_post (d : Nat) : ∀ (fuel : Nat) (poly : Poly) (result : List Poly) (s : NTV.Draw.Stream),
    EqDeg p d poly → (∀ x ∈ result, degU x = d) → s.length < fuel →
    PostOdd d s.length (finalSplitOdd (p : Int) d fuel poly result s) := by
  intro fuel
  induction fuel with
  | zero => intro poly result s _ _ h; omega
  | succ fuel ih =>
    intro poly result s hpoly hres hs
    have hd := hpoly.d_pos p
    simp only [finalSplitOdd]
    rw [if_neg (by omega), if_neg (hpoly.k_pos p)]
    split
    · rename_i hk
      refine ⟨Nat.le_refl _, ?_⟩
      intro x hx
      rcases List.mem_append.mp hx with hx | hx
      · exact hres x hx
      · simp only [List.mem_singleton] at hx; subst hx; exact hpoly.deg_of_k_one p hk
    split
    · rfl
    rename_i raw s1 hdraw
    have hs1 := drawCoeffs_length p _ _ _ _ _ hdraw
    obtain ⟨b, hg⟩ := polyGcd_total_good p
      (polyModSub (polyModpow (fromRaw raw) (Int.tdiv ((p : Int) ^ d - 1) 2) poly p) [1] p) poly
      (good_polyModSub p hp.out.pos _ _) hpoly.1.1
    rw [hg, ok_bind']
    split
    · exact PostOdd.mono (by omega) (ih _ _ _ hpoly hres (by omega))
    · rename_i hcond
      simp only [Bool.or_eq_true, decide_eq_true_eq, not_or] at hcond
      obtain ⟨g1, g2⟩ := gcd_out p (good_polyModSub p hp.out.pos _ _) hpoly.1.1 (Or.inr hpoly.1.2) hg
      obtain ⟨hb, hdiv⟩ := hpoly.split p g2 g1.2.1 hcond.1.2 hcond.2
      have h1 := ih b result s1 hb hres (by omega)
      cases hr1 : finalSplitOdd (p : Int) d fuel b result s1 with
      | error e => rw [hr1] at h1; rw [error_bind']; exact h1
      | ok v =>
        obtain ⟨r1, s2⟩ := v
        rw [hr1] at h1
        obtain ⟨hs2, hr1'⟩ : s2.length ≤ s1.length ∧ ∀ x ∈ r1, degU x = d := h1
        rw [ok_bind']
        exact PostOdd.mono (by omega) (ih _ r1 s2 hdiv hr1' (by omega))

omit hp in
/-- the degree assertion of the normalisation loop never fires on pieces of degree d -/
theorem normaliseAll_total (d e : Nat) : ∀ (l : List Poly) (result : Factors), (∀ x ∈ l, degU x = d) →
    ∃ r, normaliseAll (p : Int) d e l result = .ok r := by
  intro l
  induction l with
  | nil => intro result _; exact ⟨_, rfl⟩
  | cons factor rest ih =>
    intro result h
    simp only [normaliseAll]
    rw [if_neg (by simpa using h factor (by simp))]
    exact ih _ (fun x hx => h x (by simp [hx]))

end prime
end NTV.PolyMod
