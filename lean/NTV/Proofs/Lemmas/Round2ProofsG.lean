import NTV.Proofs.Lemmas.Round2ProofsF
/-! The starting order `non_monic_initial_order` (Z[θ] ∩ Z[1/θ]) and `find_integral_basis`. -/
open Matrix Finset
namespace NTV.Round2
open NTV.Ord NTV.PolyG
open NTV.RowOps (toM Rect ent)

/-- the matrix handed to `hnf_reduce` by `non_monic_initial_order` -/
def startBasis (f : List Int) : QMat :=
  (List.range (degU f)).map (fun i => (List.range (degU f)).map (fun j =>
    if i = 0 then (if j = 0 then 1 else 0)
    else if 1 ≤ j ∧ j ≤ i then ((coefAt f (degU f - (i - j)) : Int) : Rat) else 0))

theorem startBasis_rect (f : List Int) : Rect (degU f) (degU f) (startBasis f) := by
  refine ⟨by simp [startBasis], ?_⟩
  intro r hr
  simp only [startBasis, List.mem_map, List.mem_range] at hr
  obtain ⟨i, _, rfl⟩ := hr
  simp

theorem startBasis_row0 (f : List Int) (hn : 0 < degU f) :
    toM (degU f) (degU f) (startBasis f) ⟨0, hn⟩ = fun j => if j.val = 0 then 1 else 0 := by
  ext j
  simp [toM, ent, startBasis, List.getD_eq_getElem?_getD, hn, j.isLt]

theorem nonMonicInitialOrder_inv (f : List Int) (S : QMat) (h : nonMonicInitialOrder f = .ok S) :
    0 < degU f ∧ hnfReduce (startBasis f) = .ok S := by
  unfold nonMonicInitialOrder at h
  simp only at h
  split at h
  · cases h
  · split at h
    · cases h
    · exact ⟨by omega, h⟩

/-- a successful `hnf_reduce` returns a square matrix; if the result is non-singular, so was the input -/
theorem hnfReduce_ok_nonsing (A : QMat) (n : Nat) (hn : 0 < n) (hA : Rect n n A) (S : QMat)
    (h : hnfReduce A = .ok S) : Rect n n S ∧ ((toM n n S).det ≠ 0 → (toM n n A).det ≠ 0) := by
  have hLpos : 0 < lcmDen A 1 := lcmDen_pos A 1 one_pos
  have hLq : ((lcmDen A 1 : Int) : Rat) ≠ 0 := by
    have : lcmDen A 1 ≠ 0 := by omega
    exact_mod_cast this
  have hsc : scaled A n = scaledBy (lcmDen A 1) A n := rfl
  rw [hnfReduce_unfold A n hA, hsc] at h
  obtain ⟨H, r, hH, rH, hrn, hlat⟩ := NTV.Hnf.hnfNew_lattice _ n n (scaledBy_rect (lcmDen A 1) A n) hn hn
  rw [hH] at h
  simp only at h
  -- the normal form has n rows, otherwise the rescaling loop index-panics
  have hr : r = n := by
    have h' := h
    unfold unscale at h'
    obtain ⟨_, hrow⟩ := tabulate_inv _ _ _ h'
    have h1 := hrow (n - 1) (by omega) (by omega)
    obtain ⟨_, hcol⟩ := tabulate_inv _ _ _ h1
    have h2 := hcol 0 hn (by omega)
    obtain ⟨row, hrow', _⟩ := (bind_ok _ _ _).mp h2
    unfold idx at hrow'
    split at hrow'
    · rename_i x hx
      have : n - 1 < H.length := by
        by_contra hc
        rw [List.getElem?_eq_none (by omega)] at hx
        cases hx
      rw [rH.1] at this
      omega
    · cases hrow'
  subst hr
  rw [unscale_ok r _ H rH] at h
  have hS : unscaled r (lcmDen A 1) H = S := by injection h
  subst hS
  refine ⟨unscaled_rect r _ H, ?_⟩
  intro hdS hdA
  apply hdS
  obtain ⟨C, hC⟩ := NTV.Hnf.InLattice.exists_mul (fun i => (hlat _).mp (NTV.Hnf.InLattice.row i))
  have hsd : (NTV.Hnf.toM r r (scaledBy (lcmDen A 1) A r)).det = 0 := by
    have := congrArg Matrix.det (scaledBy_map (lcmDen A 1) A r hA (lcmDen_spec A 1).2.1)
    rw [det_map_cast, Matrix.det_smul, hdA, mul_zero] at this
    exact_mod_cast this
  rw [unscaled_toM, Matrix.det_smul, det_map_cast, hC, Matrix.det_mul, hsd]
  simp

/-- the starting order of a successful run: a non-singular stored order containing 1 -/
theorem start_good (f : List Int) (S : QMat) (d : Int) (hS : nonMonicInitialOrder f = .ok S)
    (hd : discriminantOrd S f = .ok d) (hd0 : d ≠ 0) :
    0 < degU f ∧ Rect (degU f) (degU f) S ∧ (toM (degU f) (degU f) S).det ≠ 0 ∧ fromBasis S = .ok S ∧
      ∃ c : Fin (degU f) → ℤ, castV c ᵥ* toM (degU f) (degU f) S = fun j => if j.val = 0 then 1 else 0 := by
  obtain ⟨hn, hred⟩ := nonMonicInitialOrder_inv f S hS
  obtain ⟨rS, hns⟩ := hnfReduce_ok_nonsing _ _ hn (startBasis_rect f) S hred
  have dS : (toM (degU f) (degU f) S).det ≠ 0 := by
    intro h0
    obtain ⟨dd, fl, _, _, _, hv⟩ := (discriminantOrd_ok_iff S _ rS f d).mp hd
    unfold discValue at hv
    rw [h0] at hv
    simp only [mul_zero, zero_div] at hv
    exact hd0 (by exact_mod_cast hv.symm)
  have dB := hns dS
  obtain ⟨O, hO, rO, U, hU, hrel⟩ := fromBasis_spans (startBasis f) _ hn (startBasis_rect f) dB
  have hOS : O = S := by
    unfold fromBasis at hO
    rw [hred] at hO
    injection hO with hO
    exact hO.symm
  subst hOS
  refine ⟨hn, rS, dS, ?_, ?_⟩
  · have := hnfReduce_canonical (startBasis f) O _ hn (startBasis_rect f) rO U hU hrel
    unfold fromBasis
    rw [this, hred]
  · refine ⟨(U⁻¹) ⟨0, hn⟩, ?_⟩
    have hinv : toM (degU f) (degU f) (startBasis f) = (U⁻¹).map (Int.castRingHom ℚ) * toM (degU f) (degU f) O := by
      rw [hrel, ← Matrix.mul_assoc, ← Matrix.map_mul, Matrix.nonsing_inv_mul _ hU]
      simp
    rw [← startBasis_row0 f hn, hinv]
    ext j
    simp [Matrix.vecMul, dotProduct, Matrix.mul_apply, castV]

end NTV.Round2
