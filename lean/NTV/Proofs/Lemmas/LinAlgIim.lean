import NTV.Proofs.Lemmas.LinAlgProofs
/-! Correctness of the model of `subspace::iim` (Cohen 2.3.5 transposed):
`iim M V = ok X → X * M = V`, and `LinearlyDependent` ⇒ the rows of `M` are linearly dependent. -/
open Matrix
namespace NTV.LinAlg
open NTV.RowOps (toM Rect)

/-! ### entries after the elimination step -/

theorem ent_oob_col {n m : Nat} {a : QMat} (hr : Rect n m a) (r c : Nat) (hc : m ≤ c) : ent a r c = 0 := by
  unfold ent NTV.RowOps.ent
  by_cases h : r < n
  · have hl := hr.row_length r h
    simp only [List.getD_eq_getElem?_getD] at hl ⊢
    have : (a[r]?.getD [])[c]? = none := by simp; omega
    simp [this]
  · have : a[r]? = none := by simp; rw [hr.1]; omega
    simp [List.getD_eq_getElem?_getD, this]

theorem ent_oob_row {n m : Nat} {a : QMat} (hr : Rect n m a) (r c : Nat) (h : n ≤ r) : ent a r c = 0 := by
  unfold ent NTV.RowOps.ent
  have : a[r]? = none := by simp; rw [hr.1]; omega
  simp [List.getD_eq_getElem?_getD, this]

theorem getD_mapIdx (row : QRow) (g : Nat → ℚ → ℚ) (c : Nat) (hc : c < row.length) :
    (row.mapIdx g).getD c 0 = g c (row.getD c 0) := by
  simp [List.getD_eq_getElem?_getD, List.getElem?_mapIdx, List.getElem?_eq_getElem hc]

theorem ent_mapIdx {n m : Nat} {a : QMat} (hr : Rect n m a) (f : Nat → QRow → QRow) (r c : Nat) (h : r < n) :
    ent (a.mapIdx f) r c = (f r (a.getD r [])).getD c 0 := by
  have h' : r < a.length := by rw [hr.1]; exact h
  unfold ent NTV.RowOps.ent
  simp [List.getD_eq_getElem?_getD, List.getElem?_mapIdx, List.getElem?_eq_getElem h']

theorem Rect.mapIdx' {n m : Nat} {a : QMat} (hr : Rect n m a) (f : Nat → QRow → QRow)
    (hf : ∀ i r, r.length = m → (f i r).length = m) : Rect n m (a.mapIdx f) := by
  refine ⟨by simpa using hr.1, ?_⟩
  intro r hrm
  obtain ⟨i, hi, rfl⟩ := List.mem_iff_getElem.mp hrm
  simp only [List.getElem_mapIdx]
  apply hf
  have hi' : i < a.length := by simpa using hi
  exact hr.2 _ (List.getElem_mem hi')

theorem getD_iimElimRow (cv row : QRow) (j k : Nat) (hk : k < row.length) :
    (iimElimRow cv j row).getD k 0
      = if j < k then row.getD k 0 - cv.getD k 0 * row.getD j 0 else row.getD k 0 := by
  unfold iimElimRow
  simp only
  rw [getD_mapIdx _ _ _ hk]

theorem length_iimElimRow (cv row : QRow) (j : Nat) : (iimElimRow cv j row).length = row.length := by
  simp [iimElimRow]

/-! ### relations between the rows of `M` and a row of `B` -/

/-- `Σ_l x_l · (row l of M) = t · (row i of B)` on the `m` columns -/
def RelG (n m : Nat) (M B : QMat) (i : Nat) (x : Nat → ℚ) (t : ℚ) : Prop :=
  ∀ c, c < m → ∑ l ∈ Finset.range n, x l * ent M l c = t * ent B i c

theorem RelG.of_swapCols {n m r : Nat} {M B : QMat} (hm : Rect n m M) (hb : Rect r m B) (p q : Nat)
    (hp : p < m) (hq : q < m) (i : Nat) (hi : i < r) (x : Nat → ℚ) (t : ℚ)
    (h : RelG n m (swapCols M p q) (swapCols B p q) i x t) : RelG n m M B i x t := by
  intro c hc
  let c' := if c = q then p else if c = p then q else c
  have hc' : c' < m := by
    show (if c = q then p else if c = p then q else c) < m
    split
    · exact hp
    · split
      · exact hq
      · exact hc
  have key : ∀ {k : Nat} {A : QMat} (_ : Rect k m A) (l : Nat), l < k → ent (swapCols A p q) l c' = ent A l c := by
    intro k A hA l hl
    rw [ent_swapCols hA p q hp hq l c' hl]
    show (if c' = q then ent A l p else if c' = p then ent A l q else ent A l c') = _
    by_cases e1 : c = q
    · have : c' = p := by simp [c', e1]
      rw [this, e1]
      by_cases e2 : p = q
      · simp [e2]
      · simp [e2]
    · by_cases e2 : c = p
      · have : c' = q := by simp [c', e2]
        rw [this, e2]; simp
      · have : c' = c := by simp [c', e1, e2]
        rw [this]; simp [e1, e2]
  have := h c' hc'
  rw [key hb i hi] at this
  rw [← this]
  apply Finset.sum_congr rfl
  intro l hl
  rw [key hm l (Finset.mem_range.mp hl)]

theorem RelG.push_swapCols {n m r : Nat} {M B : QMat} (hm : Rect n m M) (hb : Rect r m B) (p q : Nat)
    (hp : p < m) (hq : q < m) (i : Nat) (hi : i < r) (x : Nat → ℚ) (t : ℚ)
    (h : RelG n m M B i x t) : RelG n m (swapCols M p q) (swapCols B p q) i x t := by
  intro c hc
  have key : ∀ {k : Nat} {A : QMat} (_ : Rect k m A) (l : Nat), l < k →
      ent (swapCols A p q) l c = ent A l (if c = q then p else if c = p then q else c) := by
    intro k A hA l hl
    rw [ent_swapCols hA p q hp hq l c hl]
    split
    · rfl
    · split <;> rfl
  have hc' : (if c = q then p else if c = p then q else c) < m := by
    split
    · exact hp
    · split
      · exact hq
      · exact hc
  rw [key hb i hi, ← h _ hc']
  apply Finset.sum_congr rfl
  intro l hl
  rw [key hm l (Finset.mem_range.mp hl)]

/-- state before iteration `j` of the elimination loop of `iim` -/
structure II (n m r : Nat) (M0 B0 : QMat) (j : Nat) (M B : QMat) : Prop where
  rm : Rect n m M
  rb : Rect r m B
  tri : ∀ l k, l < j → l < k → ent M l k = 0
  diag : ∀ l, l < j → ent M l l ≠ 0
  back : ∀ i x t, i < r → RelG n m M B i x t → RelG n m M0 B0 i x t
  fwd : ∀ i x t, i < r → RelG n m M0 B0 i x t → RelG n m M B i x t

variable {n m r : Nat} {M0 B0 : QMat}

theorem II.swap {j : Nat} {M B : QMat} (h : II n m r M0 B0 j M B) (i : Nat) (hji : j < i) (hi : i < m) :
    II n m r M0 B0 j (swapCols M i j) (swapCols B i j) := by
  have hj : j < m := by omega
  refine ⟨Rect.swapCols' h.rm _ _, Rect.swapCols' h.rb _ _, ?_, ?_, ?_, ?_⟩
  · intro l k hl hlk
    by_cases hln : l < n
    · rw [ent_swapCols h.rm i j hi hj l k hln]
      by_cases e1 : k = j
      · rw [if_pos e1]; exact h.tri l i hl (by omega)
      · rw [if_neg e1]
        by_cases e2 : k = i
        · rw [if_pos e2]; exact h.tri l j hl hl
        · rw [if_neg e2]; exact h.tri l k hl hlk
    · exact ent_oob_row (Rect.swapCols' h.rm _ _) l k (by omega)
  · intro l hl
    by_cases hln : l < n
    · rw [ent_swapCols h.rm i j hi hj l l hln, if_neg (by omega), if_neg (by omega)]
      exact h.diag l hl
    · exact absurd (ent_oob_row h.rm l l (by omega)) (h.diag l hl)
  · intro i' x t hi' hrel
    exact h.back i' x t hi' (RelG.of_swapCols h.rm h.rb i j hi hj i' hi' x t hrel)
  · intro i' x t hi' hrel
    exact RelG.push_swapCols h.rm h.rb i j hi hj i' hi' x t (h.fwd i' x t hi' hrel)

theorem getD_iimCoefs {j : Nat} {M : QMat} (hm : Rect n m M) (hj : j < n) (k : Nat) (hk : k < m) :
    (iimCoefs j M).getD k 0 = if j < k then (ent M j j)⁻¹ * ent M j k else 0 := by
  unfold iimCoefs
  simp only
  rw [getD_mapIdx _ _ _ (by rw [hm.row_length j hj]; exact hk)]
  rfl

/-- entries of `M` after the elimination, uniformly in the row (uses the triangular shape above) -/
theorem ent_iimElimM {j : Nat} {M : QMat} (hm : Rect n m M) (hj : j < n)
    (tri : ∀ l k, l < j → l < k → ent M l k = 0) (hp : ent M j j ≠ 0) (l k : Nat) (hl : l < n) (hk : k < m) :
    ent (iimElimM j (iimCoefs j M) M) l k
      = if j < k then ent M l k - (ent M j j)⁻¹ * ent M j k * ent M l j else ent M l k := by
  unfold iimElimM
  rw [ent_mapIdx hm _ l k hl]
  have hlen : (M.getD l []).length = m := hm.row_length l hl
  by_cases h1 : l < j
  · rw [if_pos h1]
    by_cases h2 : j < k
    · rw [if_pos h2, tri l j h1 h1]; ring_nf; rfl
    · rw [if_neg h2]; rfl
  · rw [if_neg h1]
    by_cases h2 : l = j
    · subst h2
      rw [if_pos rfl, getD_mapIdx _ _ _ (by rw [hlen]; exact hk)]
      by_cases h3 : l < k
      · rw [if_pos h3, if_pos h3]
        have : ent M l k - (ent M l l)⁻¹ * ent M l k * ent M l l = 0 := by
          field_simp; ring
        exact this.symm
      · rw [if_neg h3, if_neg h3]; rfl
    · rw [if_neg h2, getD_iimElimRow _ _ _ _ (by rw [hlen]; exact hk)]
      by_cases h3 : j < k
      · rw [if_pos h3, if_pos h3, getD_iimCoefs hm hj k hk, if_pos h3]; rfl
      · rw [if_neg h3, if_neg h3]; rfl

theorem ent_iimElimB {j : Nat} {M B : QMat} (hm : Rect n m M) (hb : Rect r m B) (hj : j < n)
    (i k : Nat) (hi : i < r) (hk : k < m) :
    ent (B.map (iimElimRow (iimCoefs j M) j)) i k
      = if j < k then ent B i k - (ent M j j)⁻¹ * ent M j k * ent B i j else ent B i k := by
  rw [ent_map _ _ (by simp [iimElimRow])]
  have hlen : (B.getD i []).length = m := hb.row_length i hi
  rw [getD_iimElimRow _ _ _ _ (by rw [hlen]; exact hk)]
  by_cases h3 : j < k
  · rw [if_pos h3, if_pos h3, getD_iimCoefs hm hj k hk, if_pos h3]; rfl
  · rw [if_neg h3, if_neg h3]; rfl

theorem Rect.iimElimM' {j : Nat} {M : QMat} (hm : Rect n m M) (c : QRow) : Rect n m (iimElimM j c M) := by
  apply Rect.mapIdx' hm
  intro i row hrow
  split
  · exact hrow
  · split
    · simpa using hrow
    · rw [length_iimElimRow]; exact hrow

theorem II.elim {j : Nat} {M B : QMat} (h : II n m r M0 B0 j M B) (hj : j < n) (hjm : j < m)
    (hp : ent M j j ≠ 0) :
    II n m r M0 B0 (j + 1) (iimElimM j (iimCoefs j M) M) (B.map (iimElimRow (iimCoefs j M) j)) := by
  have eM := fun l k hl hk => ent_iimElimM h.rm hj h.tri hp l k hl hk
  have eB := fun i k hi hk => ent_iimElimB h.rm h.rb hj i k hi hk
  have rm' : Rect n m (iimElimM j (iimCoefs j M) M) := Rect.iimElimM' h.rm _
  refine ⟨rm', Rect.map' h.rb _ (fun row hrow => by rw [length_iimElimRow]; exact hrow), ?_, ?_, ?_, ?_⟩
  · intro l k hl hlk
    by_cases hkm : k < m
    · have hln : l < n := by omega
      rw [eM l k hln hkm]
      by_cases e : l = j
      · subst e
        rw [if_pos hlk]; field_simp; ring
      · have hl' : l < j := by omega
        rw [h.tri l k hl' hlk, h.tri l j hl' hl']
        split <;> ring
    · exact ent_oob_col rm' l k (by omega)
  · intro l hl
    have hln : l < n := by omega
    have hlm : l < m := by omega
    rw [eM l l hln hlm, if_neg (by omega)]
    by_cases e : l = j
    · subst e; exact hp
    · exact h.diag l (by omega)
  · intro i x t hi hrel
    apply h.back i x t hi
    -- column `j` is not changed, so the relation there is the one given
    have hcolj : ∑ l ∈ Finset.range n, x l * ent M l j = t * ent B i j := by
      have := hrel j hjm
      rw [eB i j hi hjm, if_neg (lt_irrefl j)] at this
      rw [← this]
      apply Finset.sum_congr rfl
      intro l hl
      rw [eM l j (Finset.mem_range.mp hl) hjm, if_neg (lt_irrefl j)]
    intro c hc
    have := hrel c hc
    rw [eB i c hi hc] at this
    by_cases e : j < c
    · rw [if_pos e] at this
      have h2 : ∑ l ∈ Finset.range n, x l * ent (iimElimM j (iimCoefs j M) M) l c
          = ∑ l ∈ Finset.range n, x l * ent M l c
            - (ent M j j)⁻¹ * ent M j c * ∑ l ∈ Finset.range n, x l * ent M l j := by
        rw [Finset.mul_sum, ← Finset.sum_sub_distrib]
        apply Finset.sum_congr rfl
        intro l hl
        rw [eM l c (Finset.mem_range.mp hl) hc, if_pos e]; ring
      rw [h2, hcolj] at this
      linarith
    · rw [if_neg e] at this
      rw [← this]
      apply Finset.sum_congr rfl
      intro l hl
      rw [eM l c (Finset.mem_range.mp hl) hc, if_neg e]
  · intro i x t hi hrel0
    have hrel := h.fwd i x t hi hrel0
    intro c hc
    rw [eB i c hi hc]
    by_cases e : j < c
    · rw [if_pos e]
      have h2 : ∑ l ∈ Finset.range n, x l * ent (iimElimM j (iimCoefs j M) M) l c
          = ∑ l ∈ Finset.range n, x l * ent M l c
            - (ent M j j)⁻¹ * ent M j c * ∑ l ∈ Finset.range n, x l * ent M l j := by
        rw [Finset.mul_sum, ← Finset.sum_sub_distrib]
        apply Finset.sum_congr rfl
        intro l hl
        rw [eM l c (Finset.mem_range.mp hl) hc, if_pos e]; ring
      rw [h2, hrel c hc, hrel j hjm]; ring
    · rw [if_neg e, ← hrel c hc]
      apply Finset.sum_congr rfl
      intro l hl
      rw [eM l c (Finset.mem_range.mp hl) hc, if_neg e]

/-- a successful iteration -/
theorem II.step {j : Nat} {M B M' B' : QMat} (h : II n m r M0 B0 j M B) (hj : j < n)
    (hs : iimStep m j M B = some (M', B')) : II n m r M0 B0 (j + 1) M' B' := by
  unfold iimStep at hs
  split at hs
  · exact absurd hs (by simp)
  · rename_i i hf
    obtain ⟨f1, f2, f3⟩ := findFrom_some hf
    have hpiv : ent M j i ≠ 0 := by simpa using f3
    simp only [Option.some.injEq, Prod.mk.injEq] at hs
    obtain ⟨hs1, hs2⟩ := hs
    by_cases hji : j < i
    · simp only [hji, if_true] at hs1 hs2
      have hsw := h.swap i hji f2
      have hp : ent (swapCols M i j) j j ≠ 0 := by
        rw [ent_swapCols h.rm i j f2 (by omega) j j hj, if_pos rfl]; exact hpiv
      have := hsw.elim hj (by omega) hp
      rw [hs1, hs2] at this
      exact this
    · simp only [hji, if_false] at hs1 hs2
      have : i = j := by omega
      subst this
      have := h.elim hj f2 hpiv
      rw [hs1, hs2] at this
      exact this

theorem II.init {M B : QMat} (hm : Rect n m M) (hb : Rect r m B) : II n m r M B 0 M B :=
  ⟨hm, hb, fun _ _ hl _ => absurd hl (Nat.not_lt_zero _), fun _ hl => absurd hl (Nat.not_lt_zero _),
    fun _ _ _ _ h => h, fun _ _ _ _ h => h⟩

theorem iimLoop_some (steps j : Nat) (M B M' B' : QMat) (hn : steps + j = n)
    (h : II n m r M0 B0 j M B) (hs : iimLoop m steps j M B = some (M', B')) : II n m r M0 B0 n M' B' := by
  induction steps generalizing j M B with
  | zero =>
    simp only [iimLoop, Option.some.injEq, Prod.mk.injEq] at hs
    obtain ⟨rfl, rfl⟩ := hs
    have : j = n := by omega
    subst this
    exact h
  | succ k ih =>
    unfold iimLoop at hs
    split at hs
    · simp at hs
    · rename_i M1 B1 hst
      exact ih (j + 1) M1 B1 (by omega) (h.step (by omega) hst) hs

/-! ### `LinearlyDependent` -/

/-- no pivot in row `j`: the rows `0..j` of the current matrix live in the first `j` columns, so
they are dependent; the relation pulls back to the input -/
theorem II.dependent {j : Nat} {M B : QMat} (h : II n m r M0 B0 j M B) (hj : j < n) (hr : 0 < r)
    (hs : iimStep m j M B = none) :
    ∃ y : Nat → ℚ, (∃ l, l < n ∧ y l ≠ 0) ∧ ∀ c, c < m → ∑ l ∈ Finset.range n, y l * ent M0 l c = 0 := by
  unfold iimStep at hs
  split at hs
  · rename_i hf
    have hrow : ∀ c, j ≤ c → ent M j c = 0 := by
      intro c hc
      by_cases hcm : c < m
      · have := findFrom_none hf c hc hcm
        simpa using this
      · exact ent_oob_col h.rm j c (by omega)
    -- rows `l ≤ j` vanish in every column `≥ j`
    have hzero : ∀ l c, l ≤ j → j ≤ c → ent M l c = 0 := by
      intro l c hl hc
      by_cases e : l = j
      · subst e; exact hrow c hc
      · exact h.tri l c (by omega) (by omega)
    let S : Matrix (Fin (j + 1)) (Fin (j + 1)) ℚ := fun a b => ent M a b
    have hdet : S.det = 0 := by
      apply Matrix.det_eq_zero_of_column_eq_zero ⟨j, by omega⟩
      intro a
      exact hzero a j (by have := a.2; omega) (le_refl j)
    obtain ⟨v, hv0, hv⟩ := Matrix.exists_vecMul_eq_zero_iff.mpr hdet
    let y : Nat → ℚ := fun l => if hl : l < j + 1 then v ⟨l, hl⟩ else 0
    have hy : ∀ c, c < m → ∑ l ∈ Finset.range n, y l * ent M l c = 0 := by
      intro c hc
      have hsub : ∑ l ∈ Finset.range n, y l * ent M l c = ∑ l ∈ Finset.range (j + 1), y l * ent M l c := by
        symm
        apply Finset.sum_subset
        · intro l hl
          have := Finset.mem_range.mp hl
          exact Finset.mem_range.mpr (by omega)
        · intro l _ hl2
          have : ¬ l < j + 1 := fun q => hl2 (Finset.mem_range.mpr q)
          show (if hl : l < j + 1 then v ⟨l, hl⟩ else 0) * ent M l c = 0
          rw [dif_neg this, zero_mul]
      rw [hsub]
      by_cases hcj : c < j + 1
      · have := congrFun hv ⟨c, hcj⟩
        simp only [Matrix.vecMul, dotProduct, Pi.zero_apply] at this
        rw [← this, ← Fin.sum_univ_eq_sum_range (fun l => y l * ent M l c) (j + 1)]
        apply Finset.sum_congr rfl
        intro l _
        simp only [y, l.2, dite_true]
        rfl
      · apply Finset.sum_eq_zero
        intro l hl
        have := Finset.mem_range.mp hl
        rw [hzero l c (by omega) (by omega), mul_zero]
    refine ⟨y, ?_, ?_⟩
    · by_contra hall
      apply hv0
      ext a
      by_contra ha
      apply hall
      refine ⟨a, by have := a.2; omega, ?_⟩
      simp only [y, a.2, dite_true]
      exact ha
    · have hrel : RelG n m M B 0 y 0 := by
        intro c hc
        rw [zero_mul]; exact hy c hc
      have := h.back 0 y 0 hr hrel
      intro c hc
      have := this c hc
      rwa [zero_mul] at this
  · simp at hs

theorem iimLoop_none (steps j : Nat) (M B : QMat) (hn : steps + j = n) (hr : 0 < r)
    (h : II n m r M0 B0 j M B) (hs : iimLoop m steps j M B = none) :
    ∃ y : Nat → ℚ, (∃ l, l < n ∧ y l ≠ 0) ∧ ∀ c, c < m → ∑ l ∈ Finset.range n, y l * ent M0 l c = 0 := by
  induction steps generalizing j M B with
  | zero => simp [iimLoop] at hs
  | succ k ih =>
    unfold iimLoop at hs
    split at hs
    · rename_i hst
      exact h.dependent (by omega) hr hst
    · rename_i M1 B1 hst
      exact ih (j + 1) M1 B1 (by omega) (h.step (by omega) hst) hs

/-! ### back-substitution and the final check -/

theorem foldl_sub_range' (f : Nat → ℚ) (a len : Nat) (b0 : ℚ) :
    (List.range' a len).foldl (fun t j => t - f j) b0 = b0 - ∑ j ∈ Finset.Ico a (a + len), f j := by
  induction len generalizing a b0 with
  | zero => simp
  | succ k ih =>
    rw [List.range'_succ, List.foldl_cons, ih,
      Finset.sum_eq_sum_Ico_succ_bot (show a < a + (k + 1) by omega)]
    have : a + 1 + k = a + (k + 1) := by omega
    rw [this]; ring

theorem getD_set (x : QRow) (i j : Nat) (v : ℚ) (hi : i < x.length) :
    (x.set i v).getD j 0 = if j = i then v else x.getD j 0 := by
  simp only [List.getD_eq_getElem?_getD, List.getElem?_set]
  by_cases e : j = i
  · subst e; simp [hi]
  · have : ¬ i = j := fun q => e q.symm
    simp [e, this]

/-- the equation solved for `x[i]` in step 6 -/
def BackEq (n : Nat) (M : QMat) (brow x : QRow) (i : Nat) : Prop :=
  x.getD i 0 * ent M i i + ∑ j ∈ Finset.Ico (i + 1) n, ent M j i * x.getD j 0 = brow.getD i 0

theorem back_fold (n : Nat) (M : QMat) (brow : QRow) (hd : ∀ i, i < n → ent M i i ≠ 0) (k : Nat) (hk : k ≤ n)
    (x0 : QRow) (hlen : x0.length = n) (h0 : ∀ i, k ≤ i → i < n → BackEq n M brow x0 i) :
    let x := (List.range k).reverse.foldl (fun (x : QRow) i =>
      let tmp := (List.range' (i + 1) (n - (i + 1))).foldl
        (fun tmp j => tmp - ent M j i * x.getD j 0) (brow.getD i 0)
      x.set i (tmp / ent M i i)) x0
    x.length = n ∧ ∀ i, i < n → BackEq n M brow x i := by
  induction k generalizing x0 with
  | zero =>
    simp only [List.range_zero, List.reverse_nil, List.foldl_nil]
    exact ⟨hlen, fun i hi => h0 i (Nat.zero_le i) hi⟩
  | succ k ih =>
    have hkn : k < n := by omega
    rw [List.range_succ, List.reverse_append, List.reverse_singleton, List.singleton_append,
      List.foldl_cons]
    apply ih (by omega)
    · simp [hlen]
    · intro i hki hin
      have hsum : (List.range' (k + 1) (n - (k + 1))).foldl
          (fun tmp j => tmp - ent M j k * x0.getD j 0) (brow.getD k 0)
          = brow.getD k 0 - ∑ j ∈ Finset.Ico (k + 1) n, ent M j k * x0.getD j 0 := by
        rw [foldl_sub_range' (fun j => ent M j k * x0.getD j 0)]
        have : k + 1 + (n - (k + 1)) = n := by omega
        rw [this]
      simp only [hsum]
      unfold BackEq
      by_cases e : i = k
      · subst e
        rw [getD_set _ _ _ _ (by rw [hlen]; exact hkn), if_pos rfl, div_mul_cancel₀ _ (hd i hin)]
        have : ∑ j ∈ Finset.Ico (i + 1) n, ent M j i * (x0.set i
            ((brow.getD i 0 - ∑ j ∈ Finset.Ico (i + 1) n, ent M j i * x0.getD j 0) / ent M i i)).getD j 0
            = ∑ j ∈ Finset.Ico (i + 1) n, ent M j i * x0.getD j 0 := by
          apply Finset.sum_congr rfl
          intro j hj
          have := (Finset.mem_Ico.mp hj).1
          rw [getD_set _ _ _ _ (by rw [hlen]; exact hkn), if_neg (by omega)]
        rw [this]; ring
      · have hik : k < i := by omega
        have := h0 i (by omega) hin
        unfold BackEq at this
        rw [getD_set _ _ _ _ (by rw [hlen]; exact hkn), if_neg e]
        rw [← this]
        congr 1
        apply Finset.sum_congr rfl
        intro j hj
        have := (Finset.mem_Ico.mp hj).1
        rw [getD_set _ _ _ _ (by rw [hlen]; exact hkn), if_neg (by omega)]

theorem iimBackRow_spec (n : Nat) (M : QMat) (brow : QRow) (hd : ∀ i, i < n → ent M i i ≠ 0) :
    ∀ i, i < n → BackEq n M brow (iimBackRow n M brow) i := by
  unfold iimBackRow
  exact (back_fold n M brow hd n (le_refl n) (List.replicate n 0) (by simp)
    (fun i h1 h2 => absurd h2 (by omega))).2

/-- with a lower-triangular `M` the back-substituted row solves the first `n` columns -/
theorem back_rel (n : Nat) (M : QMat) (brow : QRow) (hd : ∀ i, i < n → ent M i i ≠ 0)
    (tri : ∀ l k, l < n → l < k → ent M l k = 0) (c : Nat) (hc : c < n) :
    ∑ l ∈ Finset.range n, (iimBackRow n M brow).getD l 0 * ent M l c = brow.getD c 0 := by
  have hb := iimBackRow_spec n M brow hd c hc
  unfold BackEq at hb
  rw [← hb, Finset.range_eq_Ico, ← Finset.sum_Ico_consecutive _ (Nat.zero_le c) (le_of_lt hc),
    Finset.sum_eq_sum_Ico_succ_bot hc]
  have hz : ∑ l ∈ Finset.Ico 0 c, (iimBackRow n M brow).getD l 0 * ent M l c = 0 := by
    apply Finset.sum_eq_zero
    intro l hl
    have := (Finset.mem_Ico.mp hl).2
    rw [tri l c (by omega) this, mul_zero]
  rw [hz, zero_add]
  congr 1
  apply Finset.sum_congr rfl
  intro l _
  ring

theorem ent_map_lt (a : QMat) (f : QRow → QRow) (r c : Nat) (h : r < a.length) :
    ent (a.map f) r c = (f (a.getD r [])).getD c 0 := by
  unfold ent NTV.RowOps.ent
  simp [List.getD_eq_getElem?_getD, List.getElem?_map, List.getElem?_eq_getElem h]

theorem iimCheck_spec (n m : Nat) (M B X : QMat) (h : iimCheck n m M B X = true) (k i : Nat)
    (hk1 : n ≤ k) (hk2 : k < m) (hi : i < X.length) :
    ∑ j ∈ Finset.range n, ent X i j * ent M j k = ent B i k := by
  unfold iimCheck at h
  rw [List.all_eq_true] at h
  have := h k (by rw [List.mem_range'_1]; omega)
  rw [List.all_eq_true] at this
  have := this i (List.mem_range.mpr hi)
  simp only [beq_iff_eq] at this
  rw [← this, foldl_sum_range (fun j => ent X i j * ent M j k)]

/-- the final state: every row of the answer is a relation between the rows of the input -/
theorem II.answer {M B : QMat} (h : II n m r M0 B0 n M B)
    (hc : iimCheck n m M B (B.map (iimBackRow n M)) = true) (i : Nat) (hi : i < r) :
    RelG n m M0 B0 i (fun l => ent (B.map (iimBackRow n M)) i l) 1 := by
  apply h.back i _ 1 hi
  intro c hcm
  rw [one_mul]
  have hiB : i < B.length := by rw [h.rb.1]; exact hi
  by_cases hcn : c < n
  · have := back_rel n M (B.getD i []) h.diag (fun l k hl hlk => h.tri l k hl hlk) c hcn
    rw [show ent B i c = (B.getD i []).getD c 0 from rfl, ← this]
    apply Finset.sum_congr rfl
    intro l _
    beta_reduce
    rw [ent_map_lt B _ i l hiB]
  · exact iimCheck_spec n m M B _ hc c i (by omega) hcm (by simpa using hiB)

/-! ### the routine -/

theorem isRect_of_Rect {A : QMat} {n m : Nat} (hr : Rect n m A) : isRect A = true := by
  unfold isRect
  rw [List.all_eq_true]
  intro row hrow
  cases A with
  | nil => simp at hrow
  | cons r0 t =>
    have h0 : r0.length = m := hr.2 r0 (by simp)
    simp [width, h0, hr.2 row hrow]

/-- what `iim` computes on rectangular arguments with at least one row each -/
theorem iim_unfold (M V : QMat) (n m r : Nat) (hM : Rect n m M) (hV : Rect r m V) (hn : 0 < n) (hr : 0 < r) :
    iim M V = match iimLoop m n 0 M V with
      | none => .error errLinearlyDependent
      | some (M', B') =>
        if iimCheck n m M' B' (B'.map (iimBackRow n M')) then .ok (B'.map (iimBackRow n M'))
        else .error errNotInImage := by
  have hrM := isRect_of_Rect hM
  have hrV := isRect_of_Rect hV
  cases M with
  | nil => exact absurd hM.1 (by simp; omega)
  | cons m0 mt =>
    cases V with
    | nil => exact absurd hV.1 (by simp; omega)
    | cons v0 vt =>
      have h1 : m0.length = m := hM.2 m0 (by simp)
      have h2 : v0.length = m := hV.2 v0 (by simp)
      have h3 : (m0 :: mt).length = n := hM.1
      unfold iim
      simp only [h1, h2, h3, hrM, hrV, ne_eq, not_true_eq_false, if_false, Bool.and_self, Bool.not_true,
        Bool.false_eq_true]
      generalize iimLoop m n 0 (m0 :: mt) (v0 :: vt) = res
      cases res with
      | none => rfl
      | some p => obtain ⟨a, b⟩ := p; rfl

/-- **inverse image, success**: `X * M = V` -/
theorem iim_ok (M V X : QMat) (n m r : Nat) (hM : Rect n m M) (hV : Rect r m V) (hn : 0 < n) (hr : 0 < r)
    (h : iim M V = .ok X) : toM r n X * toM n m M = toM r m V := by
  rw [iim_unfold M V n m r hM hV hn hr] at h
  split at h
  · simp at h
  · rename_i M' B' hloop
    have hfin := iimLoop_some n 0 M V M' B' (by omega) (II.init hM hV) hloop
    split at h
    · rename_i hchk
      simp only [Except.ok.injEq] at h
      subst h
      ext i c
      have := hfin.answer hchk i i.2 c c.2
      rw [one_mul] at this
      rw [Matrix.mul_apply]
      show ∑ l : Fin n, ent (B'.map (iimBackRow n M')) i l * ent M l c = ent V i c
      rw [← this, ← Fin.sum_univ_eq_sum_range (fun l => ent (B'.map (iimBackRow n M')) i l * ent M l c) n]
    · simp at h

/-- **inverse image, `LinearlyDependent`**: some non-trivial combination of the rows of `M` vanishes -/
theorem iim_dependent (M V : QMat) (n m r : Nat) (hM : Rect n m M) (hV : Rect r m V) (hn : 0 < n) (hr : 0 < r)
    (h : iim M V = .error errLinearlyDependent) :
    ∃ y : Fin n → ℚ, y ≠ 0 ∧ y ᵥ* toM n m M = 0 := by
  rw [iim_unfold M V n m r hM hV hn hr] at h
  split at h
  · rename_i hloop
    obtain ⟨y, ⟨l, hl, hyl⟩, hrel⟩ := iimLoop_none n 0 M V (by omega) hr (II.init hM hV) hloop
    refine ⟨fun k => y k, ?_, ?_⟩
    · intro h0
      exact hyl (congrFun h0 ⟨l, hl⟩)
    · ext c
      have := hrel c c.2
      simp only [Matrix.vecMul, dotProduct, Pi.zero_apply]
      rw [← this, ← Fin.sum_univ_eq_sum_range (fun l => y l * ent M l c) n]
      rfl
  · split at h
    · simp at h
    · simp only [Except.error.injEq] at h
      exact absurd h (by decide)

/-- on rectangular arguments the only errors are the two declared ones -/
theorem iim_errors (M V : QMat) (n m r : Nat) (hM : Rect n m M) (hV : Rect r m V) (hn : 0 < n) (hr : 0 < r)
    (e : String) (h : iim M V = .error e) : e = errLinearlyDependent ∨ e = errNotInImage := by
  rw [iim_unfold M V n m r hM hV hn hr] at h
  split at h
  · simp only [Except.error.injEq] at h; exact Or.inl h.symm
  · split at h
    · simp at h
    · simp only [Except.error.injEq] at h; exact Or.inr h.symm

/-! ### completed elimination ⇒ independent rows; `NotInImage` -/

/-- after `n` successful iterations the rows of the input are independent -/
theorem II.independent {M B : QMat} (h : II n m r M0 B0 n M B) (hnm : n ≤ m) (hr : 0 < r) (y : Nat → ℚ)
    (hy : ∀ c, c < m → ∑ l ∈ Finset.range n, y l * ent M0 l c = 0) : ∀ l, l < n → y l = 0 := by
  have hrel : RelG n m M B 0 y 0 := by
    apply h.fwd 0 y 0 hr
    intro c hc
    rw [zero_mul]; exact hy c hc
  -- downward induction on the column
  have key : ∀ k, k ≤ n → ∀ l, n - k ≤ l → l < n → y l = 0 := by
    intro k
    induction k with
    | zero => intro _ l h1 h2; omega
    | succ k ih =>
      intro hk l h1 h2
      by_cases e : n - k ≤ l
      · exact ih (by omega) l e h2
      · have hl : l = n - (k + 1) := by omega
        have := hrel l (by omega)
        rw [zero_mul, Finset.sum_eq_single l] at this
        · rcases mul_eq_zero.mp this with q | q
          · exact q
          · exact absurd q (h.diag l h2)
        · intro l' hl' hne
          have hl'n := Finset.mem_range.mp hl'
          by_cases q : l' < l
          · rw [h.tri l' l hl'n q, mul_zero]
          · rw [ih (by omega) l' (by omega) hl'n, zero_mul]
        · intro hcn; exact absurd (Finset.mem_range.mpr h2) hcn
  intro l hl
  exact key n (le_refl n) l (by omega) hl

/-- if every row of `V` is a combination of the rows of `M`, the final check succeeds -/
theorem II.check_of_span {M B : QMat} (h : II n m r M0 B0 n M B)
    (hspan : ∀ i, i < r → ∃ x : Nat → ℚ, RelG n m M0 B0 i x 1) :
    iimCheck n m M B (B.map (iimBackRow n M)) = true := by
  unfold iimCheck
  rw [List.all_eq_true]
  intro k hk
  rw [List.mem_range'_1] at hk
  rw [List.all_eq_true]
  intro i hi
  have hi' : i < r := by
    have := List.mem_range.mp hi
    simpa [h.rb.1] using this
  simp only [beq_iff_eq]
  rw [foldl_sum_range (fun j => ent (B.map (iimBackRow n M)) i j * ent M j k)]
  have hz : ∀ j, j < n → ent M j k = 0 := fun j hj => h.tri j k hj (by omega)
  obtain ⟨x, hx⟩ := hspan i hi'
  have := h.fwd i x 1 hi' hx k (by omega)
  rw [one_mul] at this
  rw [← this]
  rw [Finset.sum_eq_zero (fun j hj => by rw [hz j (Finset.mem_range.mp hj), mul_zero]),
    Finset.sum_eq_zero (fun j hj => by rw [hz j (Finset.mem_range.mp hj), mul_zero])]

theorem iimLoop_some_le (steps j : Nat) (M B M' B' : QMat) (hn : steps + j = n) (hjm : j ≤ m)
    (h : II n m r M0 B0 j M B) (hs : iimLoop m steps j M B = some (M', B')) : n ≤ m := by
  induction steps generalizing j M B with
  | zero => omega
  | succ k ih =>
    unfold iimLoop at hs
    split at hs
    · simp at hs
    · rename_i M1 B1 hst
      have hj1 : j < m := by
        unfold iimStep at hst
        split at hst
        · simp at hst
        · rename_i i hf
          have := findFrom_some hf
          omega
      exact ih (j + 1) M1 B1 (by omega) (by omega) (h.step (by omega) hst) hs

/-- **inverse image, complete behaviour** on an `n × m` matrix `M` and an `r × m` matrix `V`
(`n, r ≥ 1`): `LinearlyDependent` exactly when the rows of `M` are dependent; otherwise `X` with
`X * M = V` when every row of `V` is in the row space, and `NotInImage` when some row is not. -/
theorem iim_spec (M V : QMat) (n m r : Nat) (hM : Rect n m M) (hV : Rect r m V) (hn : 0 < n) (hr : 0 < r) :
    let dependent := ∃ y : Fin n → ℚ, y ≠ 0 ∧ y ᵥ* toM n m M = 0
    let inSpan := ∀ i : Fin r, ∃ x : Fin n → ℚ, x ᵥ* toM n m M = toM r m V i
    (dependent → iim M V = .error errLinearlyDependent) ∧
    (¬ dependent → inSpan → ∃ X, iim M V = .ok X ∧ toM r n X * toM n m M = toM r m V) ∧
    (¬ dependent → ¬ inSpan → iim M V = .error errNotInImage) := by
  intro dependent inSpan
  -- translate between `Fin`-indexed vectors and the `Nat`-indexed relations
  have toRel : ∀ (x : Fin n → ℚ) (i : Fin r), x ᵥ* toM n m M = toM r m V i →
      RelG n m M V i (fun l => if hl : l < n then x ⟨l, hl⟩ else 0) 1 := by
    intro x i hx c hc
    rw [one_mul]
    have := congrFun hx ⟨c, hc⟩
    simp only [Matrix.vecMul, dotProduct] at this
    refine Eq.trans ?_ this
    rw [← Fin.sum_univ_eq_sum_range (fun l => (if hl : l < n then x ⟨l, hl⟩ else 0) * ent M l c) n]
    apply Finset.sum_congr rfl
    intro l _
    simp only [l.2, dite_true]
    rfl
  have hcases := iim_unfold M V n m r hM hV hn hr
  cases hloop : iimLoop m n 0 M V with
  | none =>
    rw [hloop] at hcases
    simp only at hcases
    have hdep : dependent := iim_dependent M V n m r hM hV hn hr hcases
    exact ⟨fun _ => hcases, fun h => absurd hdep h, fun h => absurd hdep h⟩
  | some p =>
    obtain ⟨M', B'⟩ := p
    rw [hloop] at hcases
    simp only at hcases
    have hfin := iimLoop_some n 0 M V M' B' (by omega) (II.init hM hV) hloop
    have hnm := iimLoop_some_le n 0 M V M' B' (by omega) (Nat.zero_le m) (II.init hM hV) hloop
    have hindep : ¬ dependent := by
      rintro ⟨y, hy0, hy⟩
      apply hy0
      ext l
      have := hfin.independent hnm hr (fun l => if hl : l < n then y ⟨l, hl⟩ else 0) (by
        intro c hc
        have := congrFun hy ⟨c, hc⟩
        simp only [Matrix.vecMul, dotProduct, Pi.zero_apply] at this
        refine Eq.trans ?_ this
        rw [← Fin.sum_univ_eq_sum_range (fun l => (if hl : l < n then y ⟨l, hl⟩ else 0) * ent M l c) n]
        apply Finset.sum_congr rfl
        intro l _
        simp only [l.2, dite_true]
        rfl) l l.2
      simpa using this
    refine ⟨fun h => absurd h hindep, ?_, ?_⟩
    · intro _ hspan
      have hchk : iimCheck n m M' B' (B'.map (iimBackRow n M')) = true := by
        apply hfin.check_of_span
        intro i hi
        obtain ⟨x, hx⟩ := hspan ⟨i, hi⟩
        exact ⟨_, toRel x ⟨i, hi⟩ hx⟩
      rw [if_pos hchk] at hcases
      exact ⟨_, hcases, iim_ok M V _ n m r hM hV hn hr hcases⟩
    · intro _ hnspan
      by_cases hchk : iimCheck n m M' B' (B'.map (iimBackRow n M')) = true
      · rw [if_pos hchk] at hcases
        exfalso
        apply hnspan
        intro i
        have hX := iim_ok M V _ n m r hM hV hn hr hcases
        refine ⟨fun l => toM r n (B'.map (iimBackRow n M')) i l, ?_⟩
        have := congrFun hX i
        rw [← this]
        ext c
        simp [Matrix.mul_apply, Matrix.vecMul, dotProduct]
      · rw [if_neg hchk] at hcases
        exact hcases

end NTV.LinAlg
