import NTV.Model.Elementary
import Mathlib.Tactic
import Mathlib.Data.Nat.Prime.Basic
import Mathlib.NumberTheory.Bertrand
namespace NTV.Elem

theorem tdLoop_spec (a : Nat) : ∀ (fuel d : Nat), 1 ≤ d → a + 1 ≤ d + fuel →
    (tdLoop a fuel d = true ↔ ∀ m, d ≤ m → m * m ≤ a → ¬ m ∣ a) := by
  intro fuel
  induction fuel with
  | zero =>
    intro d hd hf
    simp only [tdLoop, true_iff]
    intro m hm hmm
    have : a < m * m := by nlinarith
    omega
  | succ fuel ih =>
    intro d hd hf
    simp only [tdLoop]
    split
    · rename_i hdd
      split
      · rename_i hmod
        simp only [Bool.false_eq_true, false_iff, not_forall]
        exact ⟨d, le_refl _, hdd, by simpa using Nat.dvd_of_mod_eq_zero hmod⟩
      · rename_i hmod
        rw [ih (d + 1) (by omega) (by omega)]
        constructor
        · intro h m hm hmm
          by_cases e : m = d
          · subst e; intro hdvd; exact hmod (Nat.mod_eq_zero_of_dvd hdvd)
          · exact h m (by omega) hmm
        · intro h m hm hmm; exact h m (by omega) hmm
    · rename_i hdd
      simp only [true_iff]
      intro m hm hmm
      have : d * d ≤ m * m := Nat.mul_le_mul hm hm
      omega

/-- the trial-division test of primes.rs decides primality -/
theorem isPrimeTD_iff (a : Nat) : isPrimeTD a = true ↔ a.Prime := by
  unfold isPrimeTD
  split
  · rename_i h
    simp only [Bool.false_eq_true, false_iff]
    intro hp; have := hp.two_le; omega
  · rename_i h
    rw [tdLoop_spec a a 2 (by omega) (by omega), Nat.prime_def_le_sqrt]
    constructor
    · intro hall
      refine ⟨by omega, ?_⟩
      intro m hm hms
      exact hall m hm (Nat.le_sqrt.mp hms)
    · rintro ⟨_, hall⟩ m hm hmm
      exact hall m hm (Nat.le_sqrt.mpr hmm)

/-- `nextPrime` finds the least prime ≥ now as soon as the fuel reaches it -/
theorem nextPrime_spec : ∀ (fuel now p : Nat), p.Prime → now ≤ p → (∀ q, q.Prime → now ≤ q → p ≤ q) →
    p - now < fuel → nextPrime fuel now = some p := by
  intro fuel
  induction fuel with
  | zero => intro now p _ _ _ h; omega
  | succ fuel ih =>
    intro now p hp hle hmin hf
    simp only [nextPrime]
    by_cases hnow : isPrimeTD now = true
    · have := hmin now ((isPrimeTD_iff now).mp hnow) (le_refl _)
      have : p = now := by omega
      simp [hnow, this]
    · simp only [hnow, Bool.false_eq_true, ↓reduceIte]
      have hne : now ≠ p := by
        intro e; subst e; exact hnow ((isPrimeTD_iff now).mpr hp)
      apply ih (now + 1) p hp (by omega)
      · intro q hq hq1; exact hmin q hq (by omega)
      · omega

/-- C19 (prime iterator), full: from any state now ≥ 1 the next value is the least prime ≥ now, and the
iterator continues from p + 1 — so the values are all primes in increasing order, none skipped -/
theorem primesIter_step (cnt now : Nat) (hnow : 1 ≤ now) :
    ∃ p, p.Prime ∧ now ≤ p ∧ (∀ q, q.Prime → now ≤ q → p ≤ q) ∧
      primesIter (cnt + 1) now = p :: primesIter cnt (p + 1) := by
  -- existence of a prime in [now, 2 now] (Bertrand), then take the least one
  have hex : ∃ q, q.Prime ∧ now ≤ q := by
    obtain ⟨q, hq, h1, _⟩ := Nat.exists_prime_lt_and_le_two_mul now (by omega)
    exact ⟨q, hq, by omega⟩
  classical
  let p := Nat.find hex
  have hp : p.Prime ∧ now ≤ p := Nat.find_spec hex
  have hmin : ∀ q, q.Prime → now ≤ q → p ≤ q := fun q hq hq1 => Nat.find_min' hex ⟨hq, hq1⟩
  have hbound : p ≤ 2 * now := by
    obtain ⟨q, hq, h1, h2⟩ := Nat.exists_prime_lt_and_le_two_mul now (by omega)
    exact le_trans (hmin q hq (by omega)) h2
  refine ⟨p, hp.1, hp.2, hmin, ?_⟩
  simp only [primesIter]
  rw [nextPrime_spec (now + 2) now p hp.1 hp.2 hmin (by omega)]

end NTV.Elem
