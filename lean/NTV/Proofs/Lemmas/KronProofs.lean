import NTV.Model.Kron
import Mathlib.NumberTheory.LegendreSymbol.JacobiSymbol
import Mathlib.Tactic
open NumberTheorySymbols jacobiSym
namespace NTV.Kron

/-- reciprocity with a possibly negative odd numerator, in the form used by Cohen 1.4.10 step 4 -/
theorem recip (a' : Int) (b : Nat) (ha : a' % 2 = 1) (hb : b % 2 = 1) :
    J(a' | b) = (if a' % 4 = 3 ∧ b % 4 = 3 then -1 else 1) * J(b | a'.natAbs) := by
  have hbodd : Odd b := Nat.odd_iff.mpr hb
  rcases le_or_gt 0 a' with hpos | hneg
  · -- a' ≥ 0
    obtain ⟨r, rfl⟩ := Int.eq_ofNat_of_zero_le hpos
    have hr2 : r % 2 = 1 := by omega
    have := quadratic_reciprocity_if hr2 hb
    simp only [Int.natAbs_natCast]
    have e4 : (r : Int) % 4 = 3 ↔ r % 4 = 3 := by omega
    rw [← this]
    by_cases h : r % 4 = 3 ∧ b % 4 = 3
    · have h' : (r : Int) % 4 = 3 ∧ b % 4 = 3 := ⟨e4.mpr h.1, h.2⟩
      simp [h, h']
    · have h' : ¬ ((r : Int) % 4 = 3 ∧ b % 4 = 3) := fun hh => h ⟨e4.mp hh.1, hh.2⟩
      simp [h, h']
  · -- a' < 0
    obtain ⟨r, hr⟩ : ∃ r : Nat, a' = -(r : Int) := ⟨a'.natAbs, by omega⟩
    subst hr
    have hr2 : r % 2 = 1 := by omega
    rw [jacobiSym.neg _ hbodd, ZMod.χ₄_nat_eq_if_mod_four]
    have hq := quadratic_reciprocity_if hr2 hb
    simp only [Int.natAbs_neg, Int.natAbs_natCast]
    have hb4 : b % 4 = 1 ∨ b % 4 = 3 := by omega
    have hr4 : r % 4 = 1 ∨ r % 4 = 3 := by omega
    have hb2' : ¬ b % 2 = 0 := by omega
    rcases hb4 with hb1 | hb3 <;> rcases hr4 with hr1 | hr3
    · have e : ¬ ((-(r : Int)) % 4 = 3 ∧ b % 4 = 3) := by omega
      have e2 : ¬ (r % 4 = 3 ∧ b % 4 = 3) := by omega
      simp only [e2, ↓reduceIte] at hq
      simp [e, hb2', hb1, ← hq]
    · have e : ¬ ((-(r : Int)) % 4 = 3 ∧ b % 4 = 3) := by omega
      have e2 : ¬ (r % 4 = 3 ∧ b % 4 = 3) := by omega
      simp only [e2, ↓reduceIte] at hq
      simp [e, hb2', hb1, ← hq]
    · have e : ((-(r : Int)) % 4 = 3 ∧ b % 4 = 3) := by omega
      have e2 : ¬ (r % 4 = 3 ∧ b % 4 = 3) := by omega
      simp only [e2, ↓reduceIte] at hq
      simp [e, hb2', hb3, ← hq]
    · have e : ¬ ((-(r : Int)) % 4 = 3) := by omega
      have e2 : (r % 4 = 3 ∧ b % 4 = 3) := ⟨hr3, hb3⟩
      simp only [e2, and_self, ↓reduceIte] at hq
      simp [e, hb2', hb3, ← hq]

end NTV.Kron
