import NTV.Model.LinAlg
import NTV.Proofs.Lemmas.RowOpsProofs
import NTV.Proofs.Lemmas.DetLemmas
import Mathlib.Tactic
import Mathlib.LinearAlgebra.Matrix.ToLinearEquiv
/-! Correctness of the Gauss–Jordan inverse of `NTV.LinAlg` (model of `matrix::inv`):
`invSquare A = some B → B * A = 1`, and `invSquare A = none → det A = 0`. -/
open Matrix
namespace NTV.LinAlg
open NTV.RowOps (toM Rect swapRows scaleRow subMulRow ent_swapRows ent_subMulRow ent_map_row)

/-! ### shape preservation (generic row operations at ℚ) -/

theorem Rect.modify' {n m : Nat} {a : QMat} (hr : Rect n m a) (j : Nat) (f : QRow → QRow)
    (hf : ∀ r, r.length = m → (f r).length = m) : Rect n m (a.modify j f) := by
  refine ⟨by rw [List.length_modify]; exact hr.1, ?_⟩
  intro r hrm
  obtain ⟨i, hi, rfl⟩ := List.mem_iff_getElem.mp hrm
  rw [List.getElem_modify]
  have hi' : i < a.length := by simpa using hi
  split
  · exact hf _ (hr.2 _ (List.getElem_mem hi'))
  · exact hr.2 _ (List.getElem_mem hi')

theorem Rect.subMulRow' {n m : Nat} {a : QMat} (hr : Rect n m a) (j k : Nat) (hk : k < n) (q : ℚ) :
    Rect n m (subMulRow a j k q) := by
  apply Rect.modify' hr
  intro r hrl
  have h := hr.row_length k hk
  simp only [List.getD_eq_getElem?_getD] at h
  simp [NTV.RowOps.rowSubMul, hrl, h]

theorem Rect.scaleRow' {n m : Nat} {a : QMat} (hr : Rect n m a) (k : Nat) (c : ℚ) :
    Rect n m (scaleRow a k c) := by
  apply Rect.modify' hr
  intro r hrl; simpa using hrl

theorem Rect.swapRows' {n m : Nat} {a : QMat} (hr : Rect n m a) (i j : Nat) (hi : i < n) (hj : j < n) :
    Rect n m (swapRows a i j) := by
  unfold NTV.RowOps.swapRows
  refine ⟨by simp [hr.1], ?_⟩
  intro r hrm
  rcases List.mem_or_eq_of_mem_set hrm with h | h
  · rcases List.mem_or_eq_of_mem_set h with h | h
    · exact hr.2 _ h
    · rw [h]; exact hr.row_length j hj
  · rw [h]; exact hr.row_length i hi

theorem ent_scaleRow (a : QMat) (k r c : Nat) (hk : k < a.length) (x : ℚ) :
    ent (scaleRow a k x) r c = if r = k then ent a k c * x else ent a r c := by
  unfold scaleRow
  exact ent_map_row a k r c hk (fun y => y * x) (by simp)

theorem ent_swapRows' (a : QMat) (i j r c : Nat) (hi : i < a.length) (hj : j < a.length) :
    ent (swapRows a i j) r c = if r = j then ent a i c else if r = i then ent a j c else ent a r c :=
  ent_swapRows a i j r c hi hj

theorem ent_subMulRow' {n m : Nat} {a : QMat} (hr : Rect n m a) (j k : Nat) (hj : j < n) (hk : k < n)
    (q : ℚ) (r c : Nat) :
    ent (subMulRow a j k q) r c = if r = j then ent a j c - ent a k c * q else ent a r c :=
  ent_subMulRow hr j k hj hk q r c

theorem ent_idMat (n i j : Nat) (hi : i < n) (hj : j < n) : ent (idMat n) i j = if i = j then 1 else 0 := by
  unfold ent NTV.RowOps.ent idMat
  simp [List.getD_eq_getElem?_getD, hi, hj]

theorem Rect_idMat (n : Nat) : Rect n n (idMat n) := by
  refine ⟨by simp [idMat], ?_⟩
  intro r hr
  simp only [idMat, List.mem_map, List.mem_range] at hr
  obtain ⟨i, _, rfl⟩ := hr
  simp

theorem toM_idMat (n : Nat) : toM n n (idMat n) = (1 : Matrix (Fin n) (Fin n) ℚ) := by
  ext i j
  show ent (idMat n) i j = _
  rw [ent_idMat n i j i.2 j.2, Matrix.one_apply]
  by_cases h : i = j
  · subst h; simp
  · have : ¬ ((i : Nat) = (j : Nat)) := fun e => h (Fin.ext e)
    simp [h, this]

theorem findFrom_some {lo hi : Nat} {p : Nat → Bool} {j : Nat} (h : findFrom lo hi p = some j) :
    lo ≤ j ∧ j < hi ∧ p j = true := by
  unfold findFrom at h
  have hm := List.mem_of_find?_eq_some h
  have hp := List.find?_some h
  rw [List.mem_range'_1] at hm
  exact ⟨hm.1, by omega, hp⟩

theorem findFrom_none {lo hi : Nat} {p : Nat → Bool} (h : findFrom lo hi p = none) (j : Nat)
    (h1 : lo ≤ j) (h2 : j < hi) : p j = false := by
  unfold findFrom at h
  rw [List.find?_eq_none] at h
  have := h j (by rw [List.mem_range'_1]; omega)
  simpa using this

/-! ### the Gauss–Jordan invariant -/

/-- state before iteration `i` of `inv`: `b * A0 = a`, `b` is invertible and the first `i`
columns of `a` are those of the identity -/
structure GJ (n : Nat) (A0 : Matrix (Fin n) (Fin n) ℚ) (i : Nat) (a b : QMat) : Prop where
  ra : Rect n n a
  rb : Rect n n b
  prod : toM n n b * A0 = toM n n a
  detb : (toM n n b).det ≠ 0
  unit : ∀ r c, r < n → c < i → ent a r c = if r = c then 1 else 0

variable {n : Nat} {A0 : Matrix (Fin n) (Fin n) ℚ}

theorem GJ.init (A : QMat) (hr : Rect n n A) : GJ n (toM n n A) 0 A (idMat n) where
  ra := hr
  rb := Rect_idMat n
  prod := by rw [toM_idMat, one_mul]
  detb := by rw [toM_idMat, det_one]; exact one_ne_zero
  unit := fun _ _ _ hc => absurd hc (Nat.not_lt_zero _)

theorem GJ.swap {i : Nat} {a b : QMat} (h : GJ n A0 i a b) (idx : Nat) (hi : i < n) (h1 : i ≤ idx) (h2 : idx < n) :
    GJ n A0 i (swapRows a i idx) (swapRows b i idx) where
  ra := Rect.swapRows' h.ra i idx hi h2
  rb := Rect.swapRows' h.rb i idx hi h2
  prod := NTV.RowOps.mul_swapRows n n A0 a b h.ra h.rb h.prod ⟨i, hi⟩ ⟨idx, h2⟩
  detb := by
    by_cases e : i = idx
    · subst e
      have := NTV.RowOps.toM_swapRows n n b h.rb ⟨i, hi⟩ ⟨i, hi⟩
      simp only [Equiv.swap_self] at this
      have e2 : toM n n (swapRows b i i) = toM n n b := by rw [this]; rfl
      rw [e2]; exact h.detb
    · have hne : (⟨i, hi⟩ : Fin n) ≠ ⟨idx, h2⟩ := fun q => e (by simpa using congrArg Fin.val q)
      have := NTV.RowOps.det_swapRows n b h.rb ⟨i, hi⟩ ⟨idx, h2⟩ hne
      simp only at this
      rw [this]; exact neg_ne_zero.mpr h.detb
  unit := by
    intro r c hr hc
    have hia : i < a.length := by rw [h.ra.1]; exact hi
    have hja : idx < a.length := by rw [h.ra.1]; exact h2
    rw [ent_swapRows' a i idx r c hia hja]
    by_cases e1 : r = idx
    · subst e1
      rw [if_pos rfl, h.unit i c hi hc]
      have : i ≠ c := by omega
      have : r ≠ c := by omega
      simp [*]
    · rw [if_neg e1]
      by_cases e2 : r = i
      · subst e2
        rw [if_pos rfl, h.unit idx c h2 hc]
        have : idx ≠ c := by omega
        have : r ≠ c := by omega
        simp [*]
      · rw [if_neg e2]; exact h.unit r c hr hc

theorem GJ.scale {i : Nat} {a b : QMat} (h : GJ n A0 i a b) (hi : i < n) (x : ℚ) (hx : x ≠ 0) :
    GJ n A0 i (scaleRow a i x) (scaleRow b i x) where
  ra := Rect.scaleRow' h.ra i x
  rb := Rect.scaleRow' h.rb i x
  prod := NTV.RowOps.mul_scaleRow n n A0 a b h.ra h.rb h.prod ⟨i, hi⟩ x
  detb := by
    have := NTV.RowOps.det_scaleRow n b h.rb ⟨i, hi⟩ x
    simp only at this
    rw [this]; exact mul_ne_zero hx h.detb
  unit := by
    intro r c hr hc
    have hia : i < a.length := by rw [h.ra.1]; exact hi
    rw [ent_scaleRow a i r c hia x]
    by_cases e : r = i
    · subst e
      rw [if_pos rfl, h.unit r c hr hc]
      have : r ≠ c := by omega
      simp [this]
    · rw [if_neg e]; exact h.unit r c hr hc

/-- one elimination: row `j ≠ i` loses `a[j][i]` times row `i` -/
theorem GJ.elim {i : Nat} {a b : QMat} (h : GJ n A0 i a b) (hi : i < n) (hp : ent a i i = 1)
    (j : Nat) (hj : j < n) (hji : j ≠ i) :
    GJ n A0 i (subMulRow a j i (ent a j i)) (subMulRow b j i (ent a j i)) ∧
    ent (subMulRow a j i (ent a j i)) i i = 1 ∧
    ent (subMulRow a j i (ent a j i)) j i = 0 ∧
    ∀ r, r ≠ j → ∀ c, ent (subMulRow a j i (ent a j i)) r c = ent a r c := by
  have hne : (⟨j, hj⟩ : Fin n) ≠ ⟨i, hi⟩ := fun q => hji (by simpa using congrArg Fin.val q)
  refine ⟨⟨Rect.subMulRow' h.ra j i hi _, Rect.subMulRow' h.rb j i hi _,
    NTV.RowOps.mul_subMulRow n n A0 a b h.ra h.rb h.prod ⟨j, hj⟩ ⟨i, hi⟩ _, ?_, ?_⟩, ?_, ?_, ?_⟩
  · have := NTV.RowOps.det_subMulRow n b h.rb ⟨j, hj⟩ ⟨i, hi⟩ hne (ent a j i)
    simp only at this
    rw [this]; exact h.detb
  · intro r c hr hc
    rw [ent_subMulRow' h.ra j i hj hi]
    by_cases e : r = j
    · subst e
      rw [if_pos rfl, h.unit i c hi hc]
      have : i ≠ c := by omega
      simp only [this, if_false, zero_mul, sub_zero]
      exact h.unit r c hr hc
    · rw [if_neg e]; exact h.unit r c hr hc
  · rw [ent_subMulRow' h.ra j i hj hi, if_neg (fun e => hji e.symm)]; exact hp
  · rw [ent_subMulRow' h.ra j i hj hi, if_pos rfl, hp]; ring
  · intro r hr c
    rw [ent_subMulRow' h.ra j i hj hi, if_neg hr]

/-- the fold of `invEliminate` over any list of row indices -/
theorem elim_fold {i : Nat} (hi : i < n) (l : List Nat) (hl : ∀ j ∈ l, j < n) (a b : QMat)
    (h : GJ n A0 i a b) (hp : ent a i i = 1) (Z : Nat → Prop)
    (hz : ∀ j, Z j → j ≠ i → ent a j i = 0) :
    let st := l.foldl (fun (st : QMat × QMat) j =>
      if i = j then st
      else
        let factor := ent st.1 j i
        (subMulRow st.1 j i factor, subMulRow st.2 j i factor)) (a, b)
    GJ n A0 i st.1 st.2 ∧ ent st.1 i i = 1 ∧ ∀ j, (Z j ∨ j ∈ l) → j ≠ i → ent st.1 j i = 0 := by
  induction l generalizing a b Z with
  | nil =>
    refine ⟨h, hp, ?_⟩
    intro j hj hji
    rcases hj with hj | hj
    · exact hz j hj hji
    · simp at hj
  | cons x xs ih =>
    simp only [List.foldl_cons]
    have hx : x < n := hl x (by simp)
    have hxs : ∀ j ∈ xs, j < n := fun j hj => hl j (by simp [hj])
    by_cases e : i = x
    · rw [if_pos e]
      have := ih hxs a b h hp Z hz
      refine ⟨this.1, this.2.1, ?_⟩
      intro j hj hji
      rcases hj with hj | hj
      · exact this.2.2 j (Or.inl hj) hji
      · rcases List.mem_cons.mp hj with hj | hj
        · exact absurd (hj.trans e.symm) hji
        · exact this.2.2 j (Or.inr hj) hji
    · rw [if_neg e]
      have hxi : x ≠ i := fun q => e q.symm
      obtain ⟨g1, g2, g3, g4⟩ := h.elim hi hp x hx hxi
      have := ih hxs _ _ g1 g2 (fun j => Z j ∨ j = x) (by
        intro j hj hji
        rcases hj with hj | hj
        · by_cases ejx : j = x
          · subst ejx; exact g3
          · rw [g4 j ejx]; exact hz j hj hji
        · subst hj; exact g3)
      refine ⟨this.1, this.2.1, ?_⟩
      intro j hj hji
      rcases hj with hj | hj
      · exact this.2.2 j (Or.inl (Or.inl hj)) hji
      · rcases List.mem_cons.mp hj with hj | hj
        · exact this.2.2 j (Or.inl (Or.inr hj)) hji
        · exact this.2.2 j (Or.inr hj) hji

/-- a successful iteration re-establishes the invariant for `i + 1` -/
theorem GJ.step {i : Nat} {a b a' b' : QMat} (h : GJ n A0 i a b) (hi : i < n)
    (hs : invStep n i a b = some (a', b')) : GJ n A0 (i + 1) a' b' := by
  unfold invStep at hs
  split at hs
  · exact absurd hs (by simp)
  · rename_i idx hf
    obtain ⟨f1, f2, f3⟩ := findFrom_some hf
    have hpiv : ent a idx i ≠ 0 := by simpa using f3
    have hsw := h.swap idx hi f1 f2
    have hia : i < a.length := by rw [h.ra.1]; exact hi
    have hja : idx < a.length := by rw [h.ra.1]; exact f2
    have hx : ent (swapRows a i idx) i i ≠ 0 := by
      rw [ent_swapRows' a i idx i i hia hja]
      by_cases e : i = idx
      · subst e; simpa using hpiv
      · simpa [e] using hpiv
    have hsc := hsw.scale hi _ (inv_ne_zero hx)
    have hp : ent (scaleRow (swapRows a i idx) i (ent (swapRows a i idx) i i)⁻¹) i i = 1 := by
      have hl : i < (swapRows a i idx).length := by rw [hsw.ra.1]; exact hi
      rw [ent_scaleRow _ i i i hl, if_pos rfl]
      exact mul_inv_cancel₀ hx
    have hfold := elim_fold hi (List.range n) (fun j hj => List.mem_range.mp hj) _ _ hsc hp
      (fun _ => False) (fun _ hj _ => absurd hj id)
    simp only [Option.some.injEq] at hs
    unfold invEliminate at hs
    rw [hs] at hfold
    obtain ⟨g1, g2, g3⟩ := hfold
    refine ⟨g1.ra, g1.rb, g1.prod, g1.detb, ?_⟩
    intro r c hr hc
    by_cases e : c = i
    · subst e
      by_cases e2 : r = c
      · subst e2; simpa using g2
      · rw [if_neg e2]
        exact g3 r (Or.inr (List.mem_range.mpr hr)) e2
    · exact g1.unit r c hr (by omega)

theorem GJ.final {a b : QMat} (h : GJ n A0 n a b) : toM n n b * A0 = 1 := by
  rw [h.prod]
  ext r c
  show ent a r c = _
  rw [h.unit r c r.2 c.2, Matrix.one_apply]
  by_cases e : r = c
  · subst e; simp
  · have : ¬ ((r : Nat) = (c : Nat)) := fun q => e (Fin.ext q)
    simp [e, this]

/-- no pivot in column `i`: the current matrix, hence `A0`, is singular -/
theorem GJ.singular {i : Nat} {a b : QMat} (h : GJ n A0 i a b) (hi : i < n)
    (hs : invStep n i a b = none) : A0.det = 0 := by
  unfold invStep at hs
  split at hs
  · rename_i hf
    have hcol : ∀ j, i ≤ j → j < n → ent a j i = 0 := by
      intro j h1 h2
      have := findFrom_none hf j h1 h2
      simpa using this
    have hdet : (toM n n a).det = 0 := by
      apply NTV.Det.det_zero_of_no_pivot (toM n n a) ⟨i, hi⟩
      · intro r c hc hrc
        show ent a r c = 0
        rw [h.unit r c r.2 hc]
        have : (r : Nat) ≠ c := by omega
        simp [this]
      · intro r hr
        exact hcol r hr r.2
    have := congrArg Matrix.det h.prod
    rw [det_mul, hdet] at this
    rcases mul_eq_zero.mp this with q | q
    · exact absurd q h.detb
    · exact q
  · simp at hs

theorem invLoop_some (steps i : Nat) (a b B : QMat) (hn : steps + i = n) (h : GJ n A0 i a b)
    (hs : invLoop n steps i a b = some B) : toM n n B * A0 = 1 := by
  induction steps generalizing i a b with
  | zero =>
    simp only [invLoop, Option.some.injEq] at hs
    subst hs
    have : i = n := by omega
    subst this
    exact h.final
  | succ k ih =>
    unfold invLoop at hs
    split at hs
    · simp at hs
    · rename_i a' b' hst
      exact ih (i + 1) a' b' (by omega) (h.step (by omega) hst) hs

theorem invLoop_none (steps i : Nat) (a b : QMat) (hn : steps + i = n) (h : GJ n A0 i a b)
    (hs : invLoop n steps i a b = none) : A0.det = 0 := by
  induction steps generalizing i a b with
  | zero => simp [invLoop] at hs
  | succ k ih =>
    unfold invLoop at hs
    split at hs
    · rename_i hst
      exact h.singular (by omega) hst
    · rename_i a' b' hst
      exact ih (i + 1) a' b' (by omega) (h.step (by omega) hst) hs

/-- **Gauss–Jordan inverse, success**: the returned matrix is a left inverse. -/
theorem invSquare_some (A B : QMat) (n : Nat) (hr : Rect n n A) (h : invSquare A = some B) :
    toM n n B * toM n n A = 1 := by
  unfold invSquare at h
  rw [hr.1] at h
  exact invLoop_some n 0 A (idMat n) B (by omega) (GJ.init A hr) h

/-- **Gauss–Jordan inverse, failure**: `none` is returned only for singular matrices. -/
theorem invSquare_none (A : QMat) (n : Nat) (hr : Rect n n A) (h : invSquare A = none) :
    (toM n n A).det = 0 := by
  unfold invSquare at h
  rw [hr.1] at h
  exact invLoop_none n 0 A (idMat n) (by omega) (GJ.init A hr) h

/-! ### shapes: on an honest square matrix the index analysis is vacuous -/

theorem width_of_rect {A : QMat} {n : Nat} (hr : Rect n n A) : width A = n := by
  cases A with
  | nil => simpa [width] using hr.1
  | cons r t => simpa [width] using hr.2 r (by simp)

theorem shapeOf_square {A : QMat} {n : Nat} (hr : Rect n n A) : shapeOf A = .square A := by
  have hw := width_of_rect hr
  have hrect : isRect A = true := by
    unfold isRect
    rw [List.all_eq_true]
    intro r hrm
    simp [hw, hr.2 r hrm]
  have hmap : A.map (fun r => r.take n) = A := by
    conv_rhs => rw [← List.map_id A]
    apply List.map_congr_left
    intro r hrm
    simp [List.take_of_length_le, hr.2 r hrm]
  unfold shapeOf
  simp [hrect, hw, hr.1, hmap]

/-- `matrix::inv` on a square matrix: `Ok(B)` ⇒ `B * A = 1` -/
theorem inv_ok (A B : QMat) (n : Nat) (hr : Rect n n A) (h : inv A = .ok B) :
    toM n n B * toM n n A = 1 := by
  unfold inv at h
  rw [shapeOf_square hr] at h
  simp only at h
  split at h
  · rename_i b hb
    simp only [Except.ok.injEq] at h
    subst h
    exact invSquare_some A b n hr hb
  · simp at h

/-- `matrix::inv` on a square matrix: the only other answer is `Err(MatrixNotInvertible)`, and
it means `det A = 0` -/
theorem inv_err (A : QMat) (n : Nat) (hr : Rect n n A) (e : String) (h : inv A = .error e) :
    e = errNotInvertible ∧ (toM n n A).det = 0 := by
  unfold inv at h
  rw [shapeOf_square hr] at h
  simp only at h
  split at h
  · simp at h
  · rename_i hb
    simp only [Except.error.injEq] at h
    exact ⟨h.symm, invSquare_none A n hr hb⟩

/-! ### determinant.rs -/

/-- state before iteration `i` of `determinant`: the first `i` columns are zero below the diagonal;
`result` is the accumulated sign times the pivots found so far -/
structure DI (n : Nat) (A0 : Matrix (Fin n) (Fin n) ℚ) (i : Nat) (a : QMat) (result : ℚ) : Prop where
  ra : Rect n n a
  lower : ∀ r c, r < n → c < i → c < r → ent a r c = 0
  sgn : ∃ s : ℚ, A0.det = s * (toM n n a).det ∧ result = s * ∏ c ∈ Finset.range i, ent a c c

/-- one elimination of `detEliminate`: row `j > i` loses `a[j][i] / a[i][i]` times row `i` -/
theorem detElim_one {i : Nat} {a : QMat} (hra : Rect n n a)
    (hlow : ∀ r c, r < n → c < i → c < r → ent a r c = 0) (hi : i < n) (hp : ent a i i ≠ 0)
    (j : Nat) (hj : j < n) (hij : i < j) :
    let a' := subMulRow a j i (ent a j i / ent a i i)
    Rect n n a' ∧ (toM n n a').det = (toM n n a).det ∧
    (∀ r c, r < n → c < i → c < r → ent a' r c = 0) ∧ ent a' j i = 0 ∧
    ∀ r, r ≠ j → ∀ c, ent a' r c = ent a r c := by
  have hne : (⟨j, hj⟩ : Fin n) ≠ ⟨i, hi⟩ := fun q => by
    have := congrArg Fin.val q; simp at this; omega
  refine ⟨Rect.subMulRow' hra j i hi _, ?_, ?_, ?_, ?_⟩
  · exact NTV.RowOps.det_subMulRow n a hra ⟨j, hj⟩ ⟨i, hi⟩ hne _
  · intro r c hr hc hcr
    rw [ent_subMulRow' hra j i hj hi]
    by_cases e : r = j
    · subst e
      rw [if_pos rfl, hlow i c hi hc hc, hlow r c hr hc hcr]; ring
    · rw [if_neg e]; exact hlow r c hr hc hcr
  · rw [ent_subMulRow' hra j i hj hi, if_pos rfl]
    field_simp
    ring
  · intro r hr c
    rw [ent_subMulRow' hra j i hj hi, if_neg hr]

theorem detElim_fold {i : Nat} (hi : i < n) (l : List Nat) (hl : ∀ j ∈ l, i < j ∧ j < n) (a0 a : QMat)
    (hra : Rect n n a) (hdet : (toM n n a).det = (toM n n a0).det)
    (hlow : ∀ r c, r < n → c < i → c < r → ent a r c = 0)
    (hsame : ∀ r, r ≤ i → ∀ c, ent a r c = ent a0 r c) (hp : ent a0 i i ≠ 0)
    (Z : Nat → Prop) (hz : ∀ j, Z j → ent a j i = 0) :
    let a' := l.foldl (fun a j => subMulRow a j i (ent a j i / ent a i i)) a
    Rect n n a' ∧ (toM n n a').det = (toM n n a0).det ∧
    (∀ r c, r < n → c < i → c < r → ent a' r c = 0) ∧
    (∀ r, r ≤ i → ∀ c, ent a' r c = ent a0 r c) ∧
    ∀ j, (Z j ∨ j ∈ l) → ent a' j i = 0 := by
  induction l generalizing a Z with
  | nil =>
    refine ⟨hra, hdet, hlow, hsame, ?_⟩
    intro j hj
    rcases hj with hj | hj
    · exact hz j hj
    · simp at hj
  | cons x xs ih =>
    simp only [List.foldl_cons]
    obtain ⟨hx1, hx2⟩ := hl x (by simp)
    have hxs : ∀ j ∈ xs, i < j ∧ j < n := fun j hj => hl j (by simp [hj])
    have hpa : ent a i i ≠ 0 := by rw [hsame i (le_refl i)]; exact hp
    obtain ⟨g1, g2, g3, g4, g5⟩ := detElim_one hra hlow hi hpa x hx2 hx1
    have := ih hxs _ g1 (g2.trans hdet) g3
      (fun r hr c => by rw [g5 r (by omega)]; exact hsame r hr c)
      (fun j => Z j ∨ j = x) (by
        intro j hj
        rcases hj with hj | hj
        · by_cases ejx : j = x
          · subst ejx; exact g4
          · rw [g5 j ejx]; exact hz j hj
        · subst hj; exact g4)
    refine ⟨this.1, this.2.1, this.2.2.1, this.2.2.2.1, ?_⟩
    intro j hj
    rcases hj with hj | hj
    · exact this.2.2.2.2 j (Or.inl (Or.inl hj))
    · rcases List.mem_cons.mp hj with hj | hj
      · exact this.2.2.2.2 j (Or.inl (Or.inr hj))
      · exact this.2.2.2.2 j (Or.inr hj)

theorem DI.step {i : Nat} {a : QMat} {result : ℚ} (h : DI n A0 i a result) (hi : i < n) (idx : Nat)
    (hf : findFrom i n (fun j => ent a j i != 0) = some idx) :
    DI n A0 (i + 1) (detEliminate (swapRows a i idx) i n)
      ((if i != idx then -result else result) * ent (detEliminate (swapRows a i idx) i n) i i) := by
  obtain ⟨f1, f2, f3⟩ := findFrom_some hf
  have hpiv : ent a idx i ≠ 0 := by simpa using f3
  have hia : i < a.length := by rw [h.ra.1]; exact hi
  have hja : idx < a.length := by rw [h.ra.1]; exact f2
  have hra1 : Rect n n (swapRows a i idx) := Rect.swapRows' h.ra i idx hi f2
  -- the swapped matrix
  have hlow1 : ∀ r c, r < n → c < i → c < r → ent (swapRows a i idx) r c = 0 := by
    intro r c hr hc hcr
    rw [ent_swapRows' a i idx r c hia hja]
    by_cases e1 : r = idx
    · rw [if_pos e1]; exact h.lower i c hi hc hc
    · rw [if_neg e1]
      by_cases e2 : r = i
      · rw [if_pos e2]; exact h.lower idx c f2 hc (by omega)
      · rw [if_neg e2]; exact h.lower r c hr hc hcr
  have hrows1 : ∀ r, r < i → ∀ c, ent (swapRows a i idx) r c = ent a r c := by
    intro r hr c
    rw [ent_swapRows' a i idx r c hia hja, if_neg (by omega), if_neg (by omega)]
  have hp1 : ent (swapRows a i idx) i i ≠ 0 := by
    rw [ent_swapRows' a i idx i i hia hja]
    by_cases e : i = idx
    · subst e; simpa using hpiv
    · simpa [e] using hpiv
  obtain ⟨s, hs1, hs2⟩ := h.sgn
  have hdet1 : A0.det = (if i = idx then s else -s) * (toM n n (swapRows a i idx)).det := by
    by_cases e : i = idx
    · subst e
      have := NTV.RowOps.toM_swapRows n n a h.ra ⟨i, hi⟩ ⟨i, hi⟩
      simp only [Equiv.swap_self] at this
      have e2 : toM n n (swapRows a i i) = toM n n a := by rw [this]; rfl
      rw [e2, if_pos rfl]; exact hs1
    · have hne : (⟨i, hi⟩ : Fin n) ≠ ⟨idx, f2⟩ := fun q => e (by simpa using congrArg Fin.val q)
      have := NTV.RowOps.det_swapRows n a h.ra ⟨i, hi⟩ ⟨idx, f2⟩ hne
      simp only at this
      rw [this, if_neg e, hs1]; ring
  -- elimination
  have hl : ∀ j ∈ List.range' (i + 1) (n - (i + 1)), i < j ∧ j < n := by
    intro j hj
    rw [List.mem_range'_1] at hj
    omega
  obtain ⟨g1, g2, g3, g4, g5⟩ := detElim_fold hi _ hl (swapRows a i idx) (swapRows a i idx) hra1 rfl hlow1
    (fun _ _ _ => rfl) hp1 (fun _ => False) (fun _ hj => absurd hj id)
  refine ⟨?_, ?_, ?_⟩
  · exact g1
  · intro r c hr hc hcr
    by_cases e : c = i
    · subst e
      exact g5 r (Or.inr (by rw [List.mem_range'_1]; omega))
    · exact g3 r c hr (by omega) hcr
  · refine ⟨if i = idx then s else -s, ?_, ?_⟩
    · show A0.det = _ * (toM n n (detEliminate (swapRows a i idx) i n)).det
      unfold detEliminate
      rw [g2]; exact hdet1
    · rw [Finset.prod_range_succ]
      have hprod : ∏ c ∈ Finset.range i, ent (detEliminate (swapRows a i idx) i n) c c
          = ∏ c ∈ Finset.range i, ent a c c := by
        apply Finset.prod_congr rfl
        intro c hc
        have hc' : c < i := Finset.mem_range.mp hc
        unfold detEliminate
        rw [g4 c (by omega) c, hrows1 c hc' c]
      rw [hprod, hs2]
      by_cases e : i = idx
      · simp [e]; ring
      · simp [e]; ring

theorem DI.final {a : QMat} {result : ℚ} (h : DI n A0 n a result) : result = A0.det := by
  obtain ⟨s, hs1, hs2⟩ := h.sgn
  have : (toM n n a).det = ∏ k : Fin n, toM n n a k k :=
    NTV.Det.det_upper (toM n n a) (fun r c hcr => h.lower r c r.2 c.2 hcr)
  rw [hs1, hs2, this]
  congr 1
  exact (Fin.prod_univ_eq_prod_range (fun c => ent a c c) n).symm

theorem DI.singular {i : Nat} {a : QMat} {result : ℚ} (h : DI n A0 i a result) (hi : i < n)
    (hf : findFrom i n (fun j => ent a j i != 0) = none) : A0.det = 0 := by
  obtain ⟨s, hs1, _⟩ := h.sgn
  have hdet : (toM n n a).det = 0 := by
    apply NTV.Det.det_zero_of_no_pivot (toM n n a) ⟨i, hi⟩
    · intro r c hc hrc
      exact h.lower r c r.2 hc hrc
    · intro r hr
      have := findFrom_none hf r hr r.2
      show ent a r i = 0
      simpa using this
  rw [hs1, hdet, mul_zero]

theorem detLoop_eq (steps i : Nat) (a : QMat) (result : ℚ) (hn : steps + i = n)
    (h : DI n A0 i a result) : detLoop n steps i a result = A0.det := by
  induction steps generalizing i a result with
  | zero =>
    have : i = n := by omega
    subst this
    simp only [detLoop]
    exact h.final
  | succ k ih =>
    unfold detLoop
    split
    · rename_i hf
      exact (h.singular (by omega) hf).symm
    · rename_i idx hf
      exact ih (i + 1) _ _ (by omega) (h.step (by omega) idx hf)

/-- **`determinant` is the determinant** (for every square rational matrix) -/
theorem determinant_eq (A : QMat) (n : Nat) (hr : Rect n n A) :
    determinant A = .ok (toM n n A).det := by
  unfold determinant
  rw [shapeOf_square hr]
  simp only
  rw [hr.1]
  congr 1
  apply detLoop_eq n 0 A 1 (by omega)
  exact ⟨hr, fun _ _ _ hc => absurd hc (Nat.not_lt_zero _), 1, by simp, by simp⟩

/-! ### triangular.rs: exact right division -/

theorem invLoop_rect (steps i : Nat) (a b B : QMat) (hn : steps + i = n) (h : GJ n A0 i a b)
    (hs : invLoop n steps i a b = some B) : Rect n n B := by
  induction steps generalizing i a b with
  | zero =>
    simp only [invLoop, Option.some.injEq] at hs
    subst hs
    exact h.rb
  | succ k ih =>
    unfold invLoop at hs
    split at hs
    · simp at hs
    · rename_i a' b' hst
      exact ih (i + 1) a' b' (by omega) (h.step (by omega) hst) hs

theorem invSquare_rect (A B : QMat) (n : Nat) (hr : Rect n n A) (h : invSquare A = some B) :
    Rect n n B := by
  unfold invSquare at h
  rw [hr.1] at h
  exact invLoop_rect n 0 A (idMat n) B (by omega) (GJ.init A hr) h

/-- integer matrices as Mathlib matrices -/
abbrev toMZ (n : Nat) (a : IMat) : Matrix (Fin n) (Fin n) ℤ := toM n n a

theorem width_of_rectZ {A : IMat} {n : Nat} (hr : Rect n n A) : width A = n := by
  cases A with
  | nil => simpa [width] using hr.1
  | cons r t => simpa [width] using hr.2 r (by simp)

theorem isRect_of_rectZ {A : IMat} {n : Nat} (hr : Rect n n A) : isRect A = true := by
  unfold isRect
  rw [List.all_eq_true]
  intro r hrm
  simp [width_of_rectZ hr, hr.2 r hrm]

theorem toRatPrefix_eq {B : IMat} {n : Nat} (hr : Rect n n B) :
    toRatPrefix n B = B.map (fun r => r.map (fun (x : Int) => (x : ℚ))) := by
  unfold toRatPrefix
  rw [List.take_of_length_le (by rw [hr.1])]
  apply List.map_congr_left
  intro r hrm
  rw [List.take_of_length_le (by rw [hr.2 r hrm])]

theorem rect_cast {B : IMat} {n : Nat} (hr : Rect n n B) :
    Rect n n (B.map (fun r => r.map (fun (x : Int) => (x : ℚ)))) := by
  refine ⟨by simpa using hr.1, ?_⟩
  intro r hrm
  simp only [List.mem_map] at hrm
  obtain ⟨r0, h0, rfl⟩ := hrm
  simpa using hr.2 r0 h0

theorem ent_cast (B : IMat) (i j : Nat) :
    ent (B.map (fun r => r.map (fun (x : Int) => (x : ℚ)))) i j = ((NTV.RowOps.ent B i j : ℤ) : ℚ) := by
  unfold ent NTV.RowOps.ent
  simp only [List.getD_eq_getElem?_getD, List.getElem?_map]
  cases B[i]? with
  | none => simp
  | some r =>
    simp only [Option.map_some, Option.getD_some, List.getElem?_map]
    cases r[j]? <;> simp

theorem toM_cast (B : IMat) (n : Nat) :
    toM n n (B.map (fun r => r.map (fun (x : Int) => (x : ℚ)))) = (toMZ n B).map (fun x => (x : ℚ)) := by
  ext i j
  exact ent_cast B i j

theorem foldl_sum_range (f : Nat → ℚ) (n : Nat) :
    (List.range n).foldl (fun s k => s + f k) 0 = ∑ k ∈ Finset.range n, f k := by
  induction n with
  | zero => simp
  | succ m ih => rw [List.range_succ, List.foldl_append, ih, Finset.sum_range_succ]; simp

theorem ent_quotSums {A : IMat} {n : Nat} (hr : Rect n n A) (invb : QMat) (i j : Nat) (hi : i < n) (hj : j < n) :
    ent (quotSums n invb A) i j = ∑ k ∈ Finset.range n, ent invb k j * ((NTV.RowOps.ent A i k : ℤ) : ℚ) := by
  have hi' : i < A.length := by rw [hr.1]; exact hi
  unfold quotSums ent
  rw [← foldl_sum_range]
  unfold NTV.RowOps.ent
  simp [List.getD_eq_getElem?_getD, hi', hj]

theorem rect_quotSums {A : IMat} {n : Nat} (hr : Rect n n A) (invb : QMat) : Rect n n (quotSums n invb A) := by
  refine ⟨by simpa [quotSums] using hr.1, ?_⟩
  intro r hrm
  simp only [quotSums, List.mem_map] at hrm
  obtain ⟨r0, _, rfl⟩ := hrm
  simp

/-- the sums are the entries of `A_ℚ * invb` -/
theorem toM_quotSums {A : IMat} {n : Nat} (hr : Rect n n A) (invb : QMat) :
    toM n n (quotSums n invb A) = (toMZ n A).map (fun x => (x : ℚ)) * toM n n invb := by
  ext i j
  show ent (quotSums n invb A) i j = _
  rw [ent_quotSums hr invb i j i.2 j.2, Matrix.mul_apply,
    ← Fin.sum_univ_eq_sum_range (fun k => ent invb k j * ((NTV.RowOps.ent A i k : ℤ) : ℚ)) n]
  apply Finset.sum_congr rfl
  intro k _
  show _ = ((NTV.RowOps.ent A i k : ℤ) : ℚ) * ent invb k j
  ring

theorem allIntegral_iff {q : QMat} {n : Nat} (hr : Rect n n q) :
    allIntegral q = true ↔ ∀ i j, i < n → j < n → (ent q i j).den = 1 := by
  unfold allIntegral
  simp only [List.all_eq_true, beq_iff_eq]
  constructor
  · intro h i j hi hj
    have hi' : i < q.length := by rw [hr.1]; exact hi
    have hrow : (q[i]).length = n := hr.2 _ (List.getElem_mem hi')
    have hj' : j < (q[i]).length := by rw [hrow]; exact hj
    have := h q[i] (List.getElem_mem hi') (q[i])[j] (List.getElem_mem hj')
    unfold ent NTV.RowOps.ent
    simpa [List.getD_eq_getElem?_getD, hi', hj'] using this
  · intro h r hrm x hx
    obtain ⟨i, hi, rfl⟩ := List.mem_iff_getElem.mp hrm
    obtain ⟨j, hj, rfl⟩ := List.mem_iff_getElem.mp hx
    have hrow : (q[i]).length = n := hr.2 _ (List.getElem_mem hi)
    have hi' : i < n := by rw [← hr.1]; exact hi
    have hj' : j < n := by rw [← hrow]; exact hj
    have := h i j hi' hj'
    unfold ent NTV.RowOps.ent at this
    simpa [List.getD_eq_getElem?_getD, hi, hj] using this

theorem ent_toInts (q : QMat) (i j : Nat) : NTV.RowOps.ent (toInts q) i j = (ent q i j).num := by
  unfold toInts ent NTV.RowOps.ent
  simp only [List.getD_eq_getElem?_getD, List.getElem?_map]
  cases q[i]? with
  | none => simp
  | some r =>
    simp only [Option.map_some, Option.getD_some, List.getElem?_map]
    cases r[j]? <;> simp

/-- the rational quotient `A_ℚ * B_ℚ⁻¹` through the model's inverse -/
theorem quot_mul {A B : IMat} {n : Nat} (hA : Rect n n A) (hB : Rect n n B) (invb : QMat)
    (hinv : invSquare (toRatPrefix n B) = some invb) :
    toM n n (quotSums n invb A) * (toMZ n B).map (fun x => (x : ℚ)) = (toMZ n A).map (fun x => (x : ℚ)) := by
  rw [toRatPrefix_eq hB] at hinv
  have h1 := invSquare_some _ invb n (rect_cast hB) hinv
  rw [toM_cast] at h1
  rw [toM_quotSums hA, Matrix.mul_assoc, h1, Matrix.mul_one]

/-- **exact right division**: an `Ok(C)` answer satisfies `C * B = A`; `Err(MatrixNotInvertible)`
means `det B = 0`; the assertion fails only when no integer matrix `C` with `C * B = A` exists. -/
theorem mulInv_spec (A B : IMat) (n : Nat) (hn : 0 < n) (hA : Rect n n A) (hB : Rect n n B) :
    (∀ C, mulInvFromRightExact A B = .ok C → toMZ n C * toMZ n B = toMZ n A) ∧
    (∀ e, mulInvFromRightExact A B = .error e →
      (e = errNotInvertible ∧ (toMZ n B).det = 0) ∨
      (e = panicAssert ∧ ¬ ∃ C : Matrix (Fin n) (Fin n) ℤ, C * toMZ n B = toMZ n A)) := by
  have hcastinj : Function.Injective (fun x : ℤ => (x : ℚ)) := Int.cast_injective
  have hmapmul : ∀ X Y : Matrix (Fin n) (Fin n) ℤ,
      (X * Y).map (fun x => (x : ℚ)) = X.map (fun x => (x : ℚ)) * Y.map (fun x => (x : ℚ)) := by
    intro X Y
    ext i j
    simp [Matrix.mul_apply, Matrix.map_apply]
  have hn0 : n ≠ 0 := by omega
  unfold mulInvFromRightExact
  simp only [isRect_of_rectZ hA, isRect_of_rectZ hB, hA.1, hB.1, width_of_rectZ hA, width_of_rectZ hB,
    Bool.and_self, Bool.not_true, Bool.false_eq_true, if_false, hn0, lt_irrefl, decide_false,
    Bool.or_self]
  cases hinv : invSquare (toRatPrefix n B) with
  | none =>
    simp only
    refine ⟨fun C h => by simp at h, fun e h => Or.inl ⟨by simpa using h.symm, ?_⟩⟩
    rw [toRatPrefix_eq hB] at hinv
    have := invSquare_none _ n (rect_cast hB) hinv
    rw [toM_cast] at this
    have h2 : (((toMZ n B).det : ℤ) : ℚ) = 0 := by
      rw [Int.cast_det]; exact this
    exact_mod_cast h2
  | some invb =>
    simp only
    have hq := quot_mul hA hB invb hinv
    have hrs := rect_quotSums hA invb
    by_cases hall : allIntegral (quotSums n invb A) = true
    · rw [if_pos hall]
      refine ⟨fun C h => ?_, fun e h => by simp at h⟩
      simp only [Except.ok.injEq] at h
      subst h
      have hint := (allIntegral_iff hrs).mp hall
      have hC : (toMZ n (toInts (quotSums n invb A))).map (fun x => (x : ℚ)) = toM n n (quotSums n invb A) := by
        ext i j
        show ((NTV.RowOps.ent (toInts (quotSums n invb A)) i j : ℤ) : ℚ) = ent (quotSums n invb A) i j
        rw [ent_toInts]
        exact Rat.coe_int_num_of_den_eq_one (hint i j i.2 j.2)
      apply Matrix.map_injective hcastinj
      beta_reduce
      rw [hmapmul, hC, hq]
    · rw [if_neg hall]
      refine ⟨fun C h => by simp at h, fun e h => Or.inr ⟨by simpa using h.symm, ?_⟩⟩
      rintro ⟨C, hC⟩
      apply hall
      rw [allIntegral_iff hrs]
      intro i j hi hj
      -- `C_ℚ * B_ℚ = A_ℚ = Q * B_ℚ` and `B_ℚ` has a left inverse, hence is right-cancellable
      have hB1 : toM n n invb * (toMZ n B).map (fun x => (x : ℚ)) = 1 := by
        have := invSquare_some _ invb n (rect_cast hB) (by rw [← toRatPrefix_eq hB]; exact hinv)
        rwa [toM_cast] at this
      have hB2 : (toMZ n B).map (fun x => (x : ℚ)) * toM n n invb = 1 :=
        (mul_eq_one_comm_of_card_eq (Fin n) (Fin n) ℚ rfl).mp hB1
      have hCQ : C.map (fun x => (x : ℚ)) = toM n n (quotSums n invb A) := by
        have e1 : C.map (fun x => (x : ℚ)) * (toMZ n B).map (fun x => (x : ℚ))
            = toM n n (quotSums n invb A) * (toMZ n B).map (fun x => (x : ℚ)) := by
          rw [← hmapmul, hC, hq]
        have e2 := congrArg (· * toM n n invb) e1
        simp only [Matrix.mul_assoc, hB2, Matrix.mul_one] at e2
        exact e2
      have : ent (quotSums n invb A) i j = ((C ⟨i, hi⟩ ⟨j, hj⟩ : ℤ) : ℚ) := by
        have := congrFun (congrFun hCQ ⟨i, hi⟩) ⟨j, hj⟩
        exact this.symm
      rw [this]
      exact Rat.den_intCast _

/-! ### solve_linear_system.rs: column operations on the augmented matrix -/

theorem ent_map (a : QMat) (f : QRow → QRow) (hf : f [] = []) (r c : Nat) :
    ent (a.map f) r c = (f (a.getD r [])).getD c 0 := by
  unfold ent NTV.RowOps.ent
  simp only [List.getD_eq_getElem?_getD, List.getElem?_map]
  cases a[r]? <;> simp [hf]

theorem getD_swapList (r : QRow) (i j c : Nat) (hi : i < r.length) (hj : j < r.length) :
    (swapList r i j).getD c 0 = if c = j then r.getD i 0 else if c = i then r.getD j 0 else r.getD c 0 := by
  unfold swapList
  simp only [List.getElem?_eq_getElem hi, List.getElem?_eq_getElem hj, List.getD_eq_getElem?_getD,
    List.getElem?_set, List.length_set]
  by_cases h1 : c = j
  · subst h1; simp [hj]
  · have h1' : ¬ j = c := fun e => h1 e.symm
    by_cases h2 : c = i
    · subst h2; simp [h1, h1', hi]
    · have h2' : ¬ i = c := fun e => h2 e.symm
      simp [h1, h1', h2, h2']

theorem getD_modify (r : QRow) (k c : Nat) (g : ℚ → ℚ) (hk : k < r.length) :
    (r.modify k g).getD c 0 = if c = k then g (r.getD k 0) else r.getD c 0 := by
  simp only [List.getD_eq_getElem?_getD, List.getElem?_modify]
  by_cases h : c = k
  · subst h; simp [hk]
  · have h' : ¬ k = c := fun e => h e.symm
    simp [h, h']

theorem length_swapList (r : QRow) (i j : Nat) : (swapList r i j).length = r.length := by
  unfold swapList
  split <;> simp

theorem Rect.map' {n m : Nat} {a : QMat} (hr : Rect n m a) (f : QRow → QRow)
    (hf : ∀ r, r.length = m → (f r).length = m) : Rect n m (a.map f) := by
  refine ⟨by simpa using hr.1, ?_⟩
  intro r hrm
  simp only [List.mem_map] at hrm
  obtain ⟨r0, h0, rfl⟩ := hrm
  exact hf r0 (hr.2 r0 h0)

theorem Rect.swapCols' {n m : Nat} {a : QMat} (hr : Rect n m a) (i j : Nat) : Rect n m (swapCols a i j) :=
  Rect.map' hr _ (fun r h => by rw [length_swapList]; exact h)
theorem Rect.divCol' {n m : Nat} {a : QMat} (hr : Rect n m a) (c : Nat) (x : ℚ) : Rect n m (divCol a c x) :=
  Rect.map' hr _ (fun r h => by simpa using h)
theorem Rect.subMulCol' {n m : Nat} {a : QMat} (hr : Rect n m a) (i c : Nat) (x : ℚ) :
    Rect n m (subMulCol a i c x) :=
  Rect.map' hr _ (fun r h => by simpa using h)

theorem getD_row_length {n m : Nat} {a : QMat} (hr : Rect n m a) (r : Nat) (h : r < n) :
    (a.getD r []).length = m := hr.row_length r h

theorem ent_swapCols {n m : Nat} {a : QMat} (hr : Rect n m a) (i j : Nat) (hi : i < m) (hj : j < m)
    (r c : Nat) (h : r < n) :
    ent (swapCols a i j) r c = if c = j then ent a r i else if c = i then ent a r j else ent a r c := by
  unfold swapCols
  rw [ent_map _ _ (by simp [swapList])]
  have hl := getD_row_length hr r h
  exact getD_swapList _ i j c (by rw [hl]; exact hi) (by rw [hl]; exact hj)

theorem getD_modify0 (r : QRow) (k c : Nat) (g : ℚ → ℚ) (hg : g 0 = 0) :
    (r.modify k g).getD c 0 = if c = k then g (r.getD k 0) else r.getD c 0 := by
  simp only [List.getD_eq_getElem?_getD, List.getElem?_modify]
  by_cases h : c = k
  · subst h
    cases r[c]? <;> simp [hg]
  · have h' : ¬ k = c := fun e => h e.symm
    simp [h, h']

theorem ent_divCol (a : QMat) (col : Nat) (arc : ℚ) (r c : Nat) :
    ent (divCol a col arc) r c = if c = col then ent a r c / arc else ent a r c := by
  unfold divCol
  rw [ent_map _ _ (by simp), getD_modify0 _ _ _ _ (by simp)]
  by_cases e : c = col
  · subst e; rfl
  · simp only [e, if_false]; rfl

theorem ent_subMulCol {n m : Nat} {a : QMat} (hr : Rect n m a) (i col : Nat) (hi : i < m) (coef : ℚ)
    (r c : Nat) (h : r < n) :
    ent (subMulCol a i col coef) r c = if c = i then ent a r i - coef * ent a r col else ent a r c := by
  unfold subMulCol
  rw [ent_map _ _ (by simp)]
  have hl := getD_row_length hr r h
  rw [getD_modify _ _ _ _ (by rw [hl]; exact hi)]
  rfl

/-- `Σ_k x_k · (row k) = t · (row n)` on the first `n` columns -/
def Rel (n : Nat) (ab : QMat) (x : Nat → ℚ) (t : ℚ) : Prop :=
  ∀ c, c < n → ∑ k ∈ Finset.range n, x k * ent ab k c = t * ent ab n c

theorem Rel.of_swapCols {n : Nat} {ab : QMat} (hr : Rect (n + 1) n ab) (i j : Nat) (hi : i < n) (hj : j < n)
    (x : Nat → ℚ) (t : ℚ) (h : Rel n (swapCols ab i j) x t) : Rel n ab x t := by
  intro c hc
  -- read the hypothesis at the column that is moved to `c`
  let c' := if c = j then i else if c = i then j else c
  have hc' : c' < n := by
    show (if c = j then i else if c = i then j else c) < n
    split
    · exact hi
    · split
      · exact hj
      · exact hc
  have key : ∀ r, r < n + 1 → ent (swapCols ab i j) r c' = ent ab r c := by
    intro r hr'
    rw [ent_swapCols hr i j hi hj r c' hr']
    show (if c' = j then ent ab r i else if c' = i then ent ab r j else ent ab r c') = _
    by_cases e1 : c = j
    · have : c' = i := by simp [c', e1]
      rw [this, e1]
      by_cases e2 : i = j
      · simp [e2]
      · simp [e2]
    · by_cases e2 : c = i
      · have : c' = j := by simp [c', e2]
        rw [this, e2]; simp
      · have : c' = c := by simp [c', e1, e2]
        rw [this]; simp [e1, e2]
  have := h c' hc'
  rw [key n (by omega)] at this
  rw [← this]
  apply Finset.sum_congr rfl
  intro k hk
  rw [key k (by have := Finset.mem_range.mp hk; omega)]

theorem Rel.of_divCol {n : Nat} {ab : QMat} (col : Nat) (arc : ℚ) (harc : arc ≠ 0)
    (x : Nat → ℚ) (t : ℚ) (h : Rel n (divCol ab col arc) x t) : Rel n ab x t := by
  intro c hc
  have := h c hc
  simp only [ent_divCol] at this
  by_cases e : c = col
  · simp only [e, if_true] at this
    rw [e]
    have h2 : (∑ k ∈ Finset.range n, x k * ent ab k col) / arc = (t * ent ab n col) / arc := by
      rw [Finset.sum_div, mul_div_assoc, ← this]
      apply Finset.sum_congr rfl
      intro k _
      rw [mul_div_assoc]
    exact (div_left_inj' harc).mp h2
  · simpa [e] using this

theorem Rel.of_subMulCol {n : Nat} {ab : QMat} (hr : Rect (n + 1) n ab) (i col : Nat) (hi : i < n)
    (hcol : col < n) (hne : i ≠ col) (coef : ℚ)
    (x : Nat → ℚ) (t : ℚ) (h : Rel n (subMulCol ab i col coef) x t) : Rel n ab x t := by
  have key : ∀ r c, r < n + 1 → ent (subMulCol ab i col coef) r c
      = if c = i then ent ab r i - coef * ent ab r col else ent ab r c :=
    fun r c hr' => ent_subMulCol hr i col hi coef r c hr'
  have hcolrel : ∑ k ∈ Finset.range n, x k * ent ab k col = t * ent ab n col := by
    have := h col hcol
    rw [key n col (by omega), if_neg (fun e => hne e.symm)] at this
    rw [← this]
    apply Finset.sum_congr rfl
    intro k hk
    rw [key k col (by have := Finset.mem_range.mp hk; omega), if_neg (fun e => hne e.symm)]
  intro c hc
  by_cases e : c = i
  · subst e
    have := h c hc
    rw [key n c (by omega), if_pos rfl] at this
    have h2 : ∑ k ∈ Finset.range n, x k * ent (subMulCol ab c col coef) k c
        = ∑ k ∈ Finset.range n, x k * ent ab k c - coef * ∑ k ∈ Finset.range n, x k * ent ab k col := by
      rw [Finset.mul_sum, ← Finset.sum_sub_distrib]
      apply Finset.sum_congr rfl
      intro k hk
      rw [key k c (by have := Finset.mem_range.mp hk; omega), if_pos rfl]; ring
    rw [h2, hcolrel] at this
    linarith
  · have := h c hc
    rw [key n c (by omega), if_neg e] at this
    rw [← this]
    apply Finset.sum_congr rfl
    intro k hk
    rw [key k c (by have := Finset.mem_range.mp hk; omega), if_neg e]

theorem Rel.push_swapCols {n : Nat} {ab : QMat} (hr : Rect (n + 1) n ab) (i j : Nat) (hi : i < n) (hj : j < n)
    (x : Nat → ℚ) (t : ℚ) (h : Rel n ab x t) : Rel n (swapCols ab i j) x t := by
  intro c hc
  have key : ∀ r, r < n + 1 → ent (swapCols ab i j) r c
      = ent ab r (if c = j then i else if c = i then j else c) := by
    intro r hr'
    rw [ent_swapCols hr i j hi hj r c hr']
    split
    · rfl
    · split <;> rfl
  have hc' : (if c = j then i else if c = i then j else c) < n := by
    split
    · exact hi
    · split
      · exact hj
      · exact hc
  rw [key n (by omega), ← h _ hc']
  apply Finset.sum_congr rfl
  intro k hk
  rw [key k (by have := Finset.mem_range.mp hk; omega)]

theorem Rel.push_divCol {n : Nat} {ab : QMat} (col : Nat) (arc : ℚ)
    (x : Nat → ℚ) (t : ℚ) (h : Rel n ab x t) : Rel n (divCol ab col arc) x t := by
  intro c hc
  simp only [ent_divCol]
  by_cases e : c = col
  · simp only [e, if_true]
    rw [← mul_div_assoc, ← h col (e ▸ hc), Finset.sum_div]
    apply Finset.sum_congr rfl
    intro k _
    rw [mul_div_assoc]
  · simp only [e, if_false]; exact h c hc

theorem Rel.push_subMulCol {n : Nat} {ab : QMat} (hr : Rect (n + 1) n ab) (i col : Nat) (hi : i < n)
    (hcol : col < n) (coef : ℚ)
    (x : Nat → ℚ) (t : ℚ) (h : Rel n ab x t) : Rel n (subMulCol ab i col coef) x t := by
  have key : ∀ r c, r < n + 1 → ent (subMulCol ab i col coef) r c
      = if c = i then ent ab r i - coef * ent ab r col else ent ab r c :=
    fun r c hr' => ent_subMulCol hr i col hi coef r c hr'
  intro c hc
  by_cases e : c = i
  · subst e
    rw [key n c (by omega), if_pos rfl]
    have h2 : ∑ k ∈ Finset.range n, x k * ent (subMulCol ab c col coef) k c
        = ∑ k ∈ Finset.range n, x k * ent ab k c - coef * ∑ k ∈ Finset.range n, x k * ent ab k col := by
      rw [Finset.mul_sum, ← Finset.sum_sub_distrib]
      apply Finset.sum_congr rfl
      intro k hk
      rw [key k c (by have := Finset.mem_range.mp hk; omega), if_pos rfl]; ring
    rw [h2, h c hc, h col hcol]; ring
  · rw [key n c (by omega), if_neg e, ← h c hc]
    apply Finset.sum_congr rfl
    intro k hk
    rw [key k c (by have := Finset.mem_range.mp hk; omega), if_neg e]

/-- state before iteration `row` of `solve_linear_system` (augmented matrix `ab`, `n + 1` rows):
rows `< row` are unit vectors; every linear relation between the rows pulls back to the input -/
structure SI (n : Nat) (ab0 : QMat) (row : Nat) (ab : QMat) : Prop where
  rect : Rect (n + 1) n ab
  unit : ∀ r c, r < row → c < n → ent ab r c = if r = c then 1 else 0
  back : ∀ x t, Rel n ab x t → Rel n ab0 x t
  fwd : ∀ x t, Rel n ab0 x t → Rel n ab x t

theorem solve_fold {n : Nat} {ab0 : QMat} {row : Nat} (hrow : row < n) (l : List Nat) (hl : ∀ i ∈ l, i < n)
    (ab : QMat) (h : SI n ab0 row ab) (hp : ent ab row row = 1) (Z : Nat → Prop)
    (hz : ∀ i, Z i → i ≠ row → ent ab row i = 0) :
    let ab' := l.foldl (fun ab i => if i = row then ab else subMulCol ab i row (ent ab row i)) ab
    SI n ab0 row ab' ∧ ent ab' row row = 1 ∧ ∀ i, (Z i ∨ i ∈ l) → i ≠ row → ent ab' row i = 0 := by
  induction l generalizing ab Z with
  | nil =>
    refine ⟨h, hp, ?_⟩
    intro i hi hne
    rcases hi with hi | hi
    · exact hz i hi hne
    · simp at hi
  | cons x xs ih =>
    simp only [List.foldl_cons]
    have hx : x < n := hl x (by simp)
    have hxs : ∀ i ∈ xs, i < n := fun i hi => hl i (by simp [hi])
    by_cases e : x = row
    · rw [if_pos e]
      have := ih hxs ab h hp Z hz
      refine ⟨this.1, this.2.1, ?_⟩
      intro i hi hne
      rcases hi with hi | hi
      · exact this.2.2 i (Or.inl hi) hne
      · rcases List.mem_cons.mp hi with hi | hi
        · exact absurd (hi.trans e) hne
        · exact this.2.2 i (Or.inr hi) hne
    · rw [if_neg e]
      have key : ∀ r c, r < n + 1 → ent (subMulCol ab x row (ent ab row x)) r c
          = if c = x then ent ab r x - ent ab row x * ent ab r row else ent ab r c :=
        fun r c hr' => ent_subMulCol h.rect x row hx _ r c hr'
      have h' : SI n ab0 row (subMulCol ab x row (ent ab row x)) := by
        refine ⟨Rect.subMulCol' h.rect _ _ _, ?_, ?_, ?_⟩
        · intro r c hr hc
          rw [key r c (by omega)]
          by_cases e2 : c = x
          · subst e2
            rw [if_pos rfl, h.unit r row hr hrow, h.unit r c hr hc]
            have : r ≠ row := by omega
            simp [this]
          · rw [if_neg e2]; exact h.unit r c hr hc
        · intro y t hrel
          exact h.back y t (Rel.of_subMulCol h.rect x row hx hrow e _ y t hrel)
        · intro y t hrel
          exact Rel.push_subMulCol h.rect x row hx hrow _ y t (h.fwd y t hrel)
      have hp' : ent (subMulCol ab x row (ent ab row x)) row row = 1 := by
        rw [key row row (by omega), if_neg (fun q => e q.symm)]; exact hp
      have hx0 : ent (subMulCol ab x row (ent ab row x)) row x = 0 := by
        rw [key row x (by omega), if_pos rfl, hp]; ring
      have := ih hxs _ h' hp' (fun i => Z i ∨ i = x) (by
        intro i hi hne
        rcases hi with hi | hi
        · by_cases eix : i = x
          · subst eix; exact hx0
          · rw [key row i (by omega), if_neg eix]; exact hz i hi hne
        · subst hi; exact hx0)
      refine ⟨this.1, this.2.1, ?_⟩
      intro i hi hne
      rcases hi with hi | hi
      · exact this.2.2 i (Or.inl (Or.inl hi)) hne
      · rcases List.mem_cons.mp hi with hi | hi
        · exact this.2.2 i (Or.inl (Or.inr hi)) hne
        · exact this.2.2 i (Or.inr hi) hne

theorem SI.step {n : Nat} {ab0 ab ab' : QMat} {row : Nat} (h : SI n ab0 row ab) (hrow : row < n)
    (hs : solveStep n row ab = some ab') : SI n ab0 (row + 1) ab' := by
  unfold solveStep at hs
  simp only at hs
  split at hs
  · exact absurd hs (by simp)
  · rename_i nxt hf
    obtain ⟨f1, f2, f3⟩ := findFrom_some hf
    have hpiv : ent ab row nxt ≠ 0 := by simpa using f3
    -- swap
    have hsw : SI n ab0 row (swapCols ab row nxt) := by
      refine ⟨Rect.swapCols' h.rect _ _, ?_, ?_, ?_⟩
      · intro r c hr hc
        rw [ent_swapCols h.rect row nxt hrow f2 r c (by omega)]
        have e1 : ent ab r row = 0 := by
          rw [h.unit r row hr hrow]; have : r ≠ row := by omega
          simp [this]
        have e2 : ent ab r nxt = 0 := by
          rw [h.unit r nxt hr f2]; have : r ≠ nxt := by omega
          simp [this]
        by_cases q1 : c = nxt
        · rw [if_pos q1, e1]; have : r ≠ c := by omega
          simp [this]
        · rw [if_neg q1]
          by_cases q2 : c = row
          · rw [if_pos q2, e2]; have : r ≠ c := by omega
            simp [this]
          · rw [if_neg q2]; exact h.unit r c hr hc
      · intro y t hrel
        exact h.back y t (Rel.of_swapCols h.rect row nxt hrow f2 y t hrel)
      · intro y t hrel
        exact Rel.push_swapCols h.rect row nxt hrow f2 y t (h.fwd y t hrel)
    have harc : ent (swapCols ab row nxt) row row ≠ 0 := by
      rw [ent_swapCols h.rect row nxt hrow f2 row row (by omega)]
      by_cases q : row = nxt
      · rw [if_pos q]; rw [q]; rw [q] at hpiv; exact hpiv
      · rw [if_neg q, if_pos rfl]; exact hpiv
    -- scale
    have hdv : SI n ab0 row (divCol (swapCols ab row nxt) row (ent (swapCols ab row nxt) row row)) := by
      refine ⟨Rect.divCol' hsw.rect _ _, ?_, ?_, ?_⟩
      · intro r c hr hc
        rw [ent_divCol]
        by_cases q : c = row
        · rw [if_pos q, hsw.unit r c hr hc]
          have : r ≠ c := by omega
          simp [this]
        · rw [if_neg q]; exact hsw.unit r c hr hc
      · intro y t hrel
        exact hsw.back y t (Rel.of_divCol row _ harc y t hrel)
      · intro y t hrel
        exact Rel.push_divCol row _ y t (hsw.fwd y t hrel)
    have hp : ent (divCol (swapCols ab row nxt) row (ent (swapCols ab row nxt) row row)) row row = 1 := by
      rw [ent_divCol, if_pos rfl]; exact div_self harc
    have hfold := solve_fold hrow (List.range n) (fun i hi => List.mem_range.mp hi) _ hdv hp
      (fun _ => False) (fun _ hi _ => absurd hi id)
    simp only [Option.some.injEq] at hs
    rw [hs] at hfold
    obtain ⟨g1, g2, g3⟩ := hfold
    refine ⟨g1.rect, ?_, g1.back, g1.fwd⟩
    intro r c hr hc
    by_cases q : r = row
    · subst q
      by_cases q2 : r = c
      · subst q2; simpa using g2
      · rw [if_neg q2]
        exact g3 c (Or.inr (List.mem_range.mpr hc)) (fun e => q2 e.symm)
    · exact g1.unit r c (by omega) hc

/-- all rows done: the last row solves the original system -/
theorem SI.final {n : Nat} {ab0 ab : QMat} (h : SI n ab0 n ab) : Rel n ab0 (fun k => ent ab n k) 1 := by
  apply h.back
  intro c hc
  rw [one_mul]
  rw [Finset.sum_eq_single c]
  · rw [h.unit c c hc hc]; simp
  · intro k hk hkc
    rw [h.unit k c (Finset.mem_range.mp hk) hc]; simp [hkc]
  · intro hcn; exact absurd (Finset.mem_range.mpr hc) hcn

/-- all rows done: the only relation `Σ y_k · (row k of A) = 0` is the trivial one -/
theorem SI.final_indep {n : Nat} {ab0 ab : QMat} (h : SI n ab0 n ab) (y : Nat → ℚ) (hy : Rel n ab0 y 0) :
    ∀ c, c < n → y c = 0 := by
  intro c hc
  have := h.fwd y 0 hy c hc
  rw [zero_mul, Finset.sum_eq_single c] at this
  · rw [h.unit c c hc hc] at this; simpa using this
  · intro k hk hkc
    rw [h.unit k c (Finset.mem_range.mp hk) hc]; simp [hkc]
  · intro hcn; exact absurd (Finset.mem_range.mpr hc) hcn

/-- no pivot in row `row`: a non-trivial relation between the first `n` rows of the input -/
theorem SI.singular {n : Nat} {ab0 ab : QMat} {row : Nat} (h : SI n ab0 row ab) (hrow : row < n)
    (hs : solveStep n row ab = none) :
    ∃ y : Nat → ℚ, y row ≠ 0 ∧ Rel n ab0 y 0 := by
  unfold solveStep at hs
  simp only at hs
  split at hs
  · rename_i hf
    have hz : ∀ c, row ≤ c → c < n → ent ab row c = 0 := by
      intro c h1 h2
      have := findFrom_none hf c h1 h2
      simpa using this
    refine ⟨fun k => if k < row then ent ab row k else if k = row then -1 else 0, by simp, ?_⟩
    apply h.back
    intro c hc
    rw [zero_mul]
    -- split the sum into the part `k < row` (unit rows) and `k = row`
    have hsplit : ∀ k ∈ Finset.range n,
        (if k < row then ent ab row k else if k = row then (-1 : ℚ) else 0) * ent ab k c
        = (if k = c ∧ k < row then ent ab row c else 0) + (if k = row then - ent ab row c else 0) := by
      intro k hk
      by_cases q1 : k < row
      · have : k ≠ row := by omega
        rw [if_pos q1, h.unit k c q1 hc]
        by_cases q2 : k = c
        · subst q2; simp [q1, this]
        · simp [q2, this]
      · by_cases q2 : k = row
        · subst q2; simp
        · simp [q1, q2]
    rw [Finset.sum_congr rfl hsplit, Finset.sum_add_distrib]
    have s2 : ∑ k ∈ Finset.range n, (if k = row then - ent ab row c else 0) = - ent ab row c := by
      rw [Finset.sum_ite_eq' (Finset.range n) row]; simp [hrow]
    rw [s2]
    by_cases q : c < row
    · have s1 : ∑ k ∈ Finset.range n, (if k = c ∧ k < row then ent ab row c else 0) = ent ab row c := by
        rw [Finset.sum_eq_single c]
        · simp [q]
        · intro k _ hkc; simp [hkc]
        · intro hcn; exact absurd (Finset.mem_range.mpr hc) hcn
      rw [s1]; ring
    · have s1 : ∑ k ∈ Finset.range n, (if k = c ∧ k < row then ent ab row c else 0) = 0 := by
        apply Finset.sum_eq_zero
        intro k _
        have : ¬ (k = c ∧ k < row) := fun ⟨a, b⟩ => q (a ▸ b)
        simp [this]
      rw [s1, hz c (by omega) hc]; ring
  · simp at hs

theorem solveLoop_some {n : Nat} {ab0 : QMat} (steps row : Nat) (ab ab' : QMat) (hn : steps + row = n)
    (h : SI n ab0 row ab) (hs : solveLoop n steps row ab = some ab') :
    Rel n ab0 (fun k => ent ab' n k) 1 ∧ ∀ y, Rel n ab0 y 0 → ∀ c, c < n → y c = 0 := by
  induction steps generalizing row ab with
  | zero =>
    simp only [solveLoop, Option.some.injEq] at hs
    subst hs
    have : row = n := by omega
    subst this
    exact ⟨h.final, h.final_indep⟩
  | succ k ih =>
    unfold solveLoop at hs
    split at hs
    · simp at hs
    · rename_i ab1 hst
      exact ih (row + 1) ab1 (by omega) (h.step (by omega) hst) hs

theorem solveLoop_none {n : Nat} {ab0 : QMat} (steps row : Nat) (ab : QMat) (hn : steps + row = n)
    (h : SI n ab0 row ab) (hs : solveLoop n steps row ab = none) :
    ∃ y : Nat → ℚ, (∃ k, k < n ∧ y k ≠ 0) ∧ Rel n ab0 y 0 := by
  induction steps generalizing row ab with
  | zero => simp [solveLoop] at hs
  | succ k ih =>
    unfold solveLoop at hs
    split at hs
    · rename_i hst
      obtain ⟨y, hy, hrel⟩ := h.singular (by omega) hst
      exact ⟨y, ⟨row, by omega, hy⟩, hrel⟩
    · rename_i ab1 hst
      exact ih (row + 1) ab1 (by omega) (h.step (by omega) hst) hs

theorem ent_append_left (A : QMat) (b : QRow) (k c : Nat) (hk : k < A.length) :
    ent (A ++ [b]) k c = ent A k c := by
  unfold ent NTV.RowOps.ent
  simp [List.getD_eq_getElem?_getD, List.getElem?_append_left hk]

theorem ent_append_last (A : QMat) (b : QRow) (c : Nat) : ent (A ++ [b]) A.length c = b.getD c 0 := by
  unfold ent NTV.RowOps.ent
  simp [List.getD_eq_getElem?_getD]

theorem SI.init {A : QMat} {b : QRow} {n : Nat} (hr : Rect n n A) (hb : b.length = n) :
    SI n (A ++ [b]) 0 (A ++ [b]) where
  rect := by
    refine ⟨by simp [hr.1], ?_⟩
    intro r hrm
    rcases List.mem_append.mp hrm with h | h
    · exact hr.2 r h
    · simp at h; rw [h]; exact hb
  unit := fun _ _ hr' _ => absurd hr' (Nat.not_lt_zero _)
  back := fun _ _ h => h
  fwd := fun _ _ h => h

/-- a relation between the rows of `A ++ [b]` as a statement about `vecMul` -/
theorem Rel.vecMul {A : QMat} {b : QRow} {n : Nat} (hr : Rect n n A) (x : Nat → ℚ) (t : ℚ)
    (h : Rel n (A ++ [b]) x t) :
    (fun k : Fin n => x k) ᵥ* toM n n A = fun c : Fin n => t * b.getD c 0 := by
  ext c
  have := h c c.2
  have hlast : ent (A ++ [b]) n c = b.getD c 0 := by
    have := ent_append_last A b c
    rwa [hr.1] at this
  rw [hlast] at this
  rw [← this]
  simp only [Matrix.vecMul, dotProduct]
  rw [← Fin.sum_univ_eq_sum_range (fun k => x k * ent (A ++ [b]) k c) n]
  apply Finset.sum_congr rfl
  intro k _
  rw [ent_append_left A b k c (by rw [hr.1]; exact k.2)]
  rfl

/-- **`solve_linear_system`, success**: the returned row vector `x` satisfies `x * A = b` -/
theorem solve_ok (A : QMat) (b x : QRow) (n : Nat) (hr : Rect n n A) (hb : b.length = n)
    (h : solve A b = .ok x) :
    (fun k : Fin n => x.getD k 0) ᵥ* toM n n A = fun c : Fin n => b.getD c 0 := by
  unfold solve at h
  simp only [hr.1, hb, ne_eq, not_true_eq_false, if_false, shapeOf_square hr] at h
  split at h
  · rename_i ab hs
    simp only [Except.ok.injEq] at h
    subst h
    have := (solveLoop_some n 0 _ ab (by omega) (SI.init hr hb) hs).1
    have := Rel.vecMul hr _ 1 this
    simp only [one_mul] at this
    exact this
  · simp at h

/-- **`solve_linear_system`, failure**: the only error on a square system is `MatrixNotInvertible`,
and it means `det A = 0` -/
theorem solve_err (A : QMat) (b : QRow) (n : Nat) (hr : Rect n n A) (hb : b.length = n) (e : String)
    (h : solve A b = .error e) : e = errNotInvertible ∧ (toM n n A).det = 0 := by
  unfold solve at h
  simp only [hr.1, hb, ne_eq, not_true_eq_false, if_false, shapeOf_square hr] at h
  split at h
  · simp at h
  · rename_i hs
    simp only [Except.error.injEq] at h
    refine ⟨h.symm, ?_⟩
    obtain ⟨y, ⟨k, hk, hyk⟩, hrel⟩ := solveLoop_none n 0 _ (by omega) (SI.init hr hb) hs
    have hv := Rel.vecMul hr y 0 hrel
    apply Matrix.exists_vecMul_eq_zero_iff.mp
    refine ⟨fun k : Fin n => y k, ?_, ?_⟩
    · intro h0
      exact hyk (congrFun h0 ⟨k, hk⟩)
    · rw [hv]; ext c; simp

theorem Rel.of_vecMul {A : QMat} {b : QRow} {n : Nat} (hr : Rect n n A) (v : Fin n → ℚ)
    (h : v ᵥ* toM n n A = 0) :
    Rel n (A ++ [b]) (fun k => if hk : k < n then v ⟨k, hk⟩ else 0) 0 := by
  intro c hc
  rw [zero_mul]
  have := congrFun h ⟨c, hc⟩
  simp only [Matrix.vecMul, dotProduct, Pi.zero_apply] at this
  refine Eq.trans ?_ this
  rw [← Fin.sum_univ_eq_sum_range
    (fun k => (if hk : k < n then v ⟨k, hk⟩ else 0) * ent (A ++ [b]) k c) n]
  apply Finset.sum_congr rfl
  intro k _
  rw [ent_append_left A b k c (by rw [hr.1]; exact k.2)]
  simp only [k.2, dite_true]
  rfl

/-- **`solve_linear_system`, success ⇒ non-singular**: the loop only completes after `n` pivots -/
theorem solve_ok_nonsingular (A : QMat) (b x : QRow) (n : Nat) (hr : Rect n n A) (hb : b.length = n)
    (h : solve A b = .ok x) : (toM n n A).det ≠ 0 := by
  unfold solve at h
  simp only [hr.1, hb, ne_eq, not_true_eq_false, if_false, shapeOf_square hr] at h
  split at h
  · rename_i ab hs
    have hind := (solveLoop_some n 0 _ ab (by omega) (SI.init hr hb) hs).2
    intro hdet
    obtain ⟨v, hv0, hv⟩ := Matrix.exists_vecMul_eq_zero_iff.mpr hdet
    apply hv0
    ext c
    have := hind _ (Rel.of_vecMul (b := b) hr v hv) c c.2
    simpa using this
  · simp at h

end NTV.LinAlg
