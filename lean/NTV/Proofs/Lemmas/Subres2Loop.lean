import NTV.Proofs.Lemmas.SubresLoop
import NTV.Proofs.Lemmas.Subres1Step
/-! # The fundamental theorem of subresultant PRS for the model: every truncated division performed by
`step` (hence by `resultant_smart` / `resultant_smart_gcd`) is exact, for all canonical inputs. -/
open Polynomial
namespace NTV.Res
open NTV.PolyG NTV.Subres

theorem tdivX_of_dvd (x d : Int) (hd : d ≠ 0) (h : d ∣ x) :
    tdivX x d = .ok (Int.tdiv x d, true) ∧ Int.tdiv x d * d = x := by
  refine ⟨?_, Int.tdiv_mul_cancel h⟩
  unfold tdivX
  simp [hd, Int.tmod_eq_zero_of_dvd h]

theorem dvd_of_C_dvd_toPoly (l : List Int) (d : Int) (h : C d ∣ toPoly l) : ∀ c ∈ l, d ∣ c := by
  intro c hc
  obtain ⟨i, hi, rfl⟩ := List.getElem_of_mem hc
  have := (C_dvd_iff_dvd_coeff _ _).mp h i
  rw [coeff_toPoly, List.getD_eq_getElem?_getD, List.getElem?_eq_getElem hi] at this
  simpa using this

theorem divCoeffs_of_dvd (h : List Int) (factor : Int) (hne : h ≠ []) (hf : factor ≠ 0)
    (hd : C factor ∣ toPoly h) :
    divCoeffs h factor = .ok (h.map (fun c => Int.tdiv c factor), true) := by
  have he : h.isEmpty = false := by cases h <;> simp_all
  have hall : h.all (fun c => Int.tmod c factor == 0) = true := by
    rw [List.all_eq_true]
    intro c hc
    simpa using Int.tmod_eq_zero_of_dvd (dvd_of_C_dvd_toPoly h factor hd c hc)
  simp [divCoeffs, he, hf, hall]

theorem step_eq (f g : List Int) (a b : Int) (g' : List Int) (b' : Int) (hlc : lc g ≠ 0)
    (h1 : divCoeffs (pseudoDivRem f g).2 (a * b ^ (f.length - 1 - (g.length - 1))) = .ok (g', true))
    (h2 : tdivX (lc g ^ (f.length - 1 - (g.length - 1)) * b) (b ^ (f.length - 1 - (g.length - 1))) = .ok (b', true)) :
    step f g a b = .ok ((g, g', lc g, b'), true) := by
  unfold step
  simp only [pseudoRem, hlc, ↓reduceIte, bind, Except.bind, h1, h2, pure, Except.pure, Bool.and_self]

/-- the loop invariant: canonical lists, non-zero `a`, `b`, and the subresultant divisibility
invariant `AInv` for the formal degrees `length − 1` -/
structure MInv (f g : List Int) (a b : Int) : Prop where
  cf : Canon f
  cg : Canon g
  a0 : a ≠ 0
  b0 : b ≠ 0
  ainv : g ≠ [] → AInv (toPoly f) (toPoly g) (f.length - 1) (g.length - 1) a b
  sw : f.length < g.length → a = 1 ∧ b = 1

theorem MInv_init (f g : List Int) (hcf : Canon f) (hcg : Canon g) : MInv f g 1 1 :=
  ⟨hcf, hcg, one_ne_zero, one_ne_zero, fun _ => AInv_one _ _ _ _, fun _ => ⟨rfl, rfl⟩⟩

theorem MInv_swap (f g : List Int) (a b : Int) (I : MInv f g a b) (h : f.length < g.length) : MInv g f a b := by
  obtain ⟨ha, hb⟩ := I.sw h
  subst ha; subst hb
  exact ⟨I.cg, I.cf, one_ne_zero, one_ne_zero, fun _ => AInv_one _ _ _ _, fun _ => ⟨rfl, rfl⟩⟩

theorem coeff_toPoly_top (g : List Int) (hg : g ≠ []) : (toPoly g).coeff (g.length - 1) = lc g := by
  rw [coeff_toPoly, lc_eq_getD g hg]

/-- the `b`-update of a round is exact -/
theorem b_update_dvd (f g : List Int) (a b : Int) (I : MInv f g a b) (hg : g ≠ [])
    (hfg : g.length ≤ f.length) :
    b ^ (f.length - g.length) ∣ lc g ^ (f.length - g.length) * b := by
  have hgl : 0 < g.length := List.length_pos_of_ne_nil hg
  obtain ⟨δ, hδ⟩ : ∃ δ, f.length = g.length + δ := ⟨f.length - g.length, by omega⟩
  have e : f.length - g.length = δ := by omega
  rw [e]
  cases δ with
  | zero => simp
  | succ d =>
    have hA := I.ainv hg
    have e2 : f.length - 1 = g.length - 1 + d + 1 := by omega
    rw [e2] at hA
    have := AInv_b_dvd (g.length - 1) d (toPoly f) (toPoly g) a b (natDegree_toPoly_le g) hA
    rw [coeff_toPoly_top g hg] at this
    rw [pow_succ b d]
    exact mul_dvd_mul this (dvd_refl b)

/-- **Exactness of one round**: under the invariant, `step` succeeds with the flag set, and the
invariant holds for the new state. -/
theorem step_exact (f g : List Int) (a b : Int) (I : MInv f g a b) (hg2 : 2 ≤ g.length)
    (hfg : g.length ≤ f.length) :
    ∃ g' b', step f g a b = .ok ((g, g', lc g, b'), true) ∧ MInv g g' (lc g) b' ∧ g'.length < g.length := by
  have hgne : g ≠ [] := by intro e; simp [e] at hg2
  have hfne : f ≠ [] := by intro e; subst e; simp only [List.length_nil] at hfg; omega
  have hlc : lc g ≠ 0 := lc_ne_zero g hgne I.cg
  obtain ⟨p1, p2, p3, p4⟩ := pseudoDivRem_spec f g hfne hgne I.cg hfg
  have pq := pseudoDivRem_q_degree f g hfne hgne hfg
  obtain ⟨m1, hm1⟩ : ∃ m1, g.length = m1 + 2 := ⟨g.length - 2, by omega⟩
  obtain ⟨δ, hδ⟩ : ∃ δ, f.length = g.length + δ := ⟨f.length - g.length, by omega⟩
  have eδ : f.length - 1 - (g.length - 1) = δ := by omega
  have eδ' : f.length - g.length = δ := by omega
  have em : g.length - 1 = m1 + 1 := by omega
  have en : f.length - 1 = m1 + 1 + δ := by omega
  rw [eδ'] at p1 pq
  set P := (pseudoDivRem f g).2 with hP
  have hGdeg : (toPoly g).natDegree ≤ m1 + 1 := by rw [← em]; exact natDegree_toPoly_le g
  have hGc : (toPoly g).coeff (m1 + 1) = lc g := by rw [← em]; exact coeff_toPoly_top g hgne
  have hPdeg : (toPoly P).natDegree ≤ m1 := (natDegree_toPoly_le P).trans (by omega)
  have hA : AInv (toPoly f) (toPoly g) (m1 + 1 + δ) (m1 + 1) a b := by
    have := I.ainv hgne; rwa [en, em] at this
  have hprem : C ((toPoly g).coeff (m1 + 1) ^ (δ + 1)) * toPoly f
      = toPoly (pseudoDivRem f g).1 * toPoly g + toPoly P := by rw [hGc]; exact p1
  -- the b-update
  have hbd := b_update_dvd f g a b I hgne hfg
  rw [eδ'] at hbd
  have hbδ : b ^ δ ≠ 0 := pow_ne_zero _ I.b0
  obtain ⟨t1, t2⟩ := tdivX_of_dvd (lc g ^ δ * b) (b ^ δ) hbδ hbd
  set b' := Int.tdiv (lc g ^ δ * b) (b ^ δ) with hb'
  have hb'0 : b' ≠ 0 := by
    intro e; rw [e, zero_mul] at t2
    exact (mul_ne_zero (pow_ne_zero _ hlc) I.b0) t2.symm
  have hw : a * b ^ δ ≠ 0 := mul_ne_zero I.a0 hbδ
  by_cases hPe : P = []
  · -- zero remainder
    refine ⟨[], b', ?_, ⟨I.cg, canon_nil, hlc, hb'0, fun h => absurd rfl h, fun h => by simp at h⟩, by simp; omega⟩
    apply step_eq f g a b [] b' hlc
    · rw [← hP, hPe]; simp [divCoeffs]
    · rw [eδ]; exact t1
  · have hdvd : C (a * b ^ δ) ∣ toPoly P :=
      AInv_prem_dvd m1 δ (toPoly f) (toPoly g) _ (toPoly P) a b hGdeg (by rw [hGc]; exact hlc) hprem pq hPdeg hA
    have hdc := divCoeffs_of_dvd P (a * b ^ δ) hPe hw hdvd
    obtain ⟨_, d2, d3, d4⟩ := divCoeffs_exact _ _ _ hPe hdc
    set g' := P.map (fun c => Int.tdiv c (a * b ^ δ)) with hg'
    have hlen : g'.length < g.length := by rw [d3]; exact p2
    refine ⟨g', b', ?_, ⟨I.cg, d4 p4, hlc, hb'0, ?_, fun h => by omega⟩, hlen⟩
    · apply step_eq f g a b g' b' hlc
      · rw [eδ]; exact hdc
      · rw [eδ]; exact t1
    · intro hg'ne
      have hr : g'.length - 1 < m1 + 1 := by omega
      have hPr : (toPoly P).natDegree ≤ g'.length - 1 := by rw [d3]; exact natDegree_toPoly_le P
      have := AInv_step (m1 + 1) δ (g'.length - 1) (toPoly f) (toPoly g) _ (toPoly P) (toPoly g') a b b' hr
        hGdeg (by rw [hGc]; exact hlc) I.a0 I.b0 hprem pq hPr d2 (by rw [hGc]; exact t2) hA
      rw [hGc] at this
      rw [em]; exact this

/-- fuel needed from a state: one round for a possible swap, then one per length of `g` -/
def need (f g : List Int) : Nat := if f.length < g.length then f.length + 2 else g.length + 1

/-- the final division `g₀^n / b^(n-1)` of `resultant_smart` is exact -/
theorem final_dvd (f g : List Int) (a b : Int) (I : MInv f g a b) (hg : g.length = 1) (hf : 2 ≤ f.length) :
    b ^ (f.length - 1 - 1) ∣ (g.getD 0 0) ^ (f.length - 1) := by
  have hgne : g ≠ [] := by intro e; simp [e] at hg
  have hA := I.ainv hgne
  have e1 : g.length - 1 = 0 := by omega
  have e2 : f.length - 1 = 0 + (f.length - 2) + 1 := by omega
  rw [e1, e2] at hA
  have := AInv_b_dvd 0 (f.length - 2) (toPoly f) (toPoly g) a b
    ((natDegree_toPoly_le g).trans (by omega)) hA
  rw [coeff_toPoly] at this
  have e3 : f.length - 1 - 1 = f.length - 2 := by omega
  have e4 : f.length - 1 = f.length - 2 + 1 := by omega
  rw [e3, e4]; exact this

/-- **Totality and exactness of `resultant_smart`'s loop**: from a state satisfying the invariant,
with enough fuel, the loop returns a value (no panic, no fuel exhaustion) and the flag is unchanged. -/
theorem resLoop_total (fuel : Nat) : ∀ (f g : List Int) (a b s : Int) (ok : Bool),
    MInv f g a b → need f g ≤ fuel → ∃ v, resLoop fuel f g a b s ok = some (.ok (v, ok)) := by
  induction fuel with
  | zero => intro f g a b s ok _ h; unfold need at h; split at h <;> omega
  | succ fuel ih =>
    intro f g a b s ok I hfuel
    simp only [resLoop]
    split
    · exact ⟨0, rfl⟩
    · rename_i hge
      have hgne : g ≠ [] := by intro e; simp [e] at hge
      have hgl : 0 < g.length := List.length_pos_of_ne_nil hgne
      split
      · rename_i hg0
        split
        · exact ⟨1, rfl⟩
        · rename_i hf0
          have hd := final_dvd f g a b I (by omega) (by omega)
          obtain ⟨t1, _⟩ := tdivX_of_dvd _ _ (pow_ne_zero (f.length - 1 - 1) I.b0) hd
          simp only [bind, Except.bind, t1, pure, Except.pure, Bool.and_true]
          exact ⟨_, rfl⟩
      · rename_i hg0
        split
        · rename_i hlt
          have hlt' : f.length < g.length := by omega
          apply ih g f a b _ ok (MInv_swap f g a b I hlt')
          unfold need at hfuel ⊢
          rw [if_pos hlt'] at hfuel
          rw [if_neg (by omega)]; omega
        · rename_i hlt
          have hfg : g.length ≤ f.length := by omega
          obtain ⟨g', b', hs, I', hlen⟩ := step_exact f g a b I (by omega) hfg
          rw [hs]
          simp only [Bool.and_true]
          apply ih g g' (lc g) b' _ ok I'
          unfold need at hfuel ⊢
          rw [if_neg (by omega)] at hfuel
          rw [if_neg (by omega)]; omega

/-- the same for the loop of `resultant_smart_gcd` -/
theorem gcdLoop_total (fuel : Nat) : ∀ (f g : List Int) (a b : Int) (ok : Bool),
    MInv f g a b → need f g ≤ fuel → ∃ r, gcdLoop fuel f g a b ok = some (.ok (r, ok)) := by
  induction fuel with
  | zero => intro f g a b ok _ h; unfold need at h; split at h <;> omega
  | succ fuel ih =>
    intro f g a b ok I hfuel
    simp only [gcdLoop]
    split
    · exact ⟨f, rfl⟩
    · rename_i hge
      have hgne : g ≠ [] := by intro e; simp [e] at hge
      have hgl : 0 < g.length := List.length_pos_of_ne_nil hgne
      split
      · exact ⟨[1], rfl⟩
      · rename_i hg0
        split
        · rename_i hlt
          have hlt' : f.length < g.length := by omega
          apply ih g f a b ok (MInv_swap f g a b I hlt')
          unfold need at hfuel ⊢
          rw [if_pos hlt'] at hfuel
          rw [if_neg (by omega)]; omega
        · rename_i hlt
          have hfg : g.length ≤ f.length := by omega
          obtain ⟨g', b', hs, I', hlen⟩ := step_exact f g a b I (by omega) hfg
          rw [hs]
          simp only [Bool.and_true]
          apply ih g g' (lc g) b' ok I'
          unfold need at hfuel ⊢
          rw [if_neg (by omega)] at hfuel
          rw [if_neg (by omega)]; omega

theorem need_le (f g : List Int) : need f g ≤ f.length + g.length + 3 := by
  unfold need; split <;> omega

/-- `resultant_smart` never panics, never runs out of fuel and performs only exact divisions on
canonical input -/
theorem resultantSmart_total (f g : List Int) (hcf : Canon f) (hcg : Canon g) :
    ∃ v, resultantSmartE f g = some (.ok (v, true)) := by
  unfold resultantSmartE
  split
  · exact ⟨0, rfl⟩
  · exact resLoop_total _ f g 1 1 1 true (MInv_init f g hcf hcg) (need_le f g)

/-- (T1) the exactness flag of `resultant_smart` is always set -/
theorem resultantSmart_flag (f g : List Int) (hcf : Canon f) (hcg : Canon g) (v : Int) (ok : Bool)
    (h : resultantSmartE f g = some (.ok (v, ok))) : ok = true := by
  obtain ⟨v', hv⟩ := resultantSmart_total f g hcf hcg
  rw [hv] at h
  simp only [Option.some.injEq, Except.ok.injEq, Prod.mk.injEq] at h
  exact h.2.symm

end NTV.Res
