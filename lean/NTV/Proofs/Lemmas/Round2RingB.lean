import NTV.Proofs.Lemmas.TableAbs
import NTV.Proofs.Lemmas.Round2RingA
import Mathlib.LinearAlgebra.Matrix.Charpoly.Coeff
import Mathlib.Data.ZMod.Basic
import Mathlib.Algebra.Field.ZMod
import Mathlib.RingTheory.Noetherian.Basic
import Mathlib.RingTheory.PrincipalIdealDomain
import Mathlib.Algebra.EuclideanDomain.Int
/-! Round 2, the order as a lattice with a multiplication table (`NTV.TableAbs.Ctx`): the ℤ-span `Olat` of the
`Ω_i` is a subring of `K` (when it contains 1); `p·O` in coordinates; the `p`-radical `{x | x^q ∈ pO}` with
`q ≥ n` is the radical of `pO` (a nilpotent endomorphism of an `n`-dimensional `𝔽_p`-space has `n`-th power 0);
it is finitely generated; Pohst–Zassenhaus: if the multiplier ring of the `p`-radical is `O` then `O` is
`p`-maximal. -/
open Matrix
namespace NTV.R2Abs
open NTV.TableAbs

variable {K : Type*} [CommRing K] {n : ℕ} {q : ℚ →+* K} {Ω : Fin n → K} {T : Fin n → Fin n → Fin n → ℤ}

/-- the element `Σ c_i Ω_i` for an integer coordinate vector -/
def el (q : ℚ →+* K) (Ω : Fin n → K) (c : Fin n → ℤ) : K := psi q Ω (castV c)

theorem castV_add (a b : Fin n → ℤ) : castV (a + b) = castV a + castV b := by
  funext i; simp [castV]

theorem castV_zero : castV (0 : Fin n → ℤ) = 0 := by funext i; simp [castV]

theorem castV_zsmul (z : ℤ) (a : Fin n → ℤ) : castV (z • a) = (z : ℚ) • castV a := by
  funext i; simp [castV]

theorem el_add (a b : Fin n → ℤ) : el q Ω (a + b) = el q Ω a + el q Ω b := by
  unfold el; rw [castV_add, psi_add]

theorem el_zero : el q Ω (0 : Fin n → ℤ) = 0 := by
  unfold el; rw [castV_zero, psi_zero]

theorem el_zsmul (z : ℤ) (a : Fin n → ℤ) : el q Ω (z • a) = (z : K) * el q Ω a := by
  unfold el; rw [castV_zsmul, psi_smul]; simp

theorem el_neg (a : Fin n → ℤ) : el q Ω (-a) = -el q Ω a := by
  have := el_zsmul (q := q) (Ω := Ω) (-1) a
  simpa using this

theorem el_sub (a b : Fin n → ℤ) : el q Ω (a - b) = el q Ω a - el q Ω b := by
  rw [sub_eq_add_neg, el_add, el_neg, sub_eq_add_neg]

theorem el_sum {ι : Type*} (s : Finset ι) (g : ι → Fin n → ℤ) :
    el q Ω (∑ i ∈ s, g i) = ∑ i ∈ s, el q Ω (g i) := by
  classical
  induction s using Finset.induction_on with
  | empty => simpa using el_zero
  | insert a s ha ih => rw [Finset.sum_insert ha, Finset.sum_insert ha, el_add, ih]

theorem castV_inj' (a b : Fin n → ℤ) (h : castV a = castV b) : a = b := by
  funext i
  have := congrFun h i
  simp only [castV] at this
  exact_mod_cast this

theorem _root_.NTV.TableAbs.Ctx.el_inj (h : Ctx q Ω T) (a b : Fin n → ℤ) (e : el q Ω a = el q Ω b) : a = b :=
  castV_inj' a b (h.inj _ _ e)

theorem _root_.NTV.TableAbs.Ctx.el_mul (h : Ctx q Ω T) (a b : Fin n → ℤ) : el q Ω a * el q Ω b = el q Ω (mulVec T a b) :=
  h.mul_agrees a b

theorem _root_.NTV.TableAbs.Ctx.el_mul_reg (h : Ctx q Ω T) (w c : Fin n → ℤ) :
    el q Ω w * el q Ω c = el q Ω (w ᵥ* reg T c) := by
  rw [mul_comm, h.el_mul, mulVec_eq_vecMul]

theorem _root_.NTV.TableAbs.Ctx.el_mul_pow (h : Ctx q Ω T) (w c : Fin n → ℤ) (t : ℕ) :
    el q Ω w * el q Ω c ^ t = el q Ω (w ᵥ* reg T c ^ t) := by
  induction t with
  | zero => simp
  | succ t ih =>
    rw [pow_succ, ← mul_assoc, ih, h.el_mul_reg, Matrix.vecMul_vecMul, ← pow_succ]

/-- the ℤ-span of the `Ω_i` as a subring of `K` -/
def Olat (h : Ctx q Ω T) (one : ∃ e : Fin n → ℤ, el q Ω e = 1) : Subring K where
  carrier := Set.range (el q Ω)
  mul_mem' := by
    rintro _ _ ⟨a, rfl⟩ ⟨b, rfl⟩
    exact ⟨_, (h.el_mul a b).symm⟩
  one_mem' := one
  add_mem' := by
    rintro _ _ ⟨a, rfl⟩ ⟨b, rfl⟩
    exact ⟨a + b, el_add a b⟩
  zero_mem' := ⟨0, el_zero⟩
  neg_mem' := by
    rintro _ ⟨a, rfl⟩
    exact ⟨-a, el_neg a⟩

theorem mem_Olat (h : Ctx q Ω T) (one : ∃ e : Fin n → ℤ, el q Ω e = 1) (x : K) :
    x ∈ Olat h one ↔ ∃ c : Fin n → ℤ, el q Ω c = x := Iff.rfl

theorem el_mem_Olat (h : Ctx q Ω T) (one : ∃ e : Fin n → ℤ, el q Ω e = 1) (c : Fin n → ℤ) :
    el q Ω c ∈ Olat h one := ⟨c, rfl⟩

/-- `el c ∈ p·O` iff every coordinate is divisible by `p` -/
theorem mem_pO_iff (h : Ctx q Ω T) (one : ∃ e : Fin n → ℤ, el q Ω e = 1) (p : ℕ) (c : Fin n → ℤ) :
    el q Ω c ∈ pO (Olat h one) p ↔ ∀ k, (p : ℤ) ∣ c k := by
  constructor
  · rintro ⟨_, ⟨d, rfl⟩, hd⟩
    have : c = (p : ℤ) • d := by
      apply h.el_inj
      rw [hd, el_zsmul]; simp
    intro k
    rw [this]
    exact ⟨d k, by simp⟩
  · intro hk
    choose d hd using hk
    refine ⟨el q Ω d, ⟨d, rfl⟩, ?_⟩
    have : c = (p : ℤ) • d := by funext k; rw [hd k]; simp
    rw [this, el_zsmul]; simp

/-- `K` has no `p`-torsion (it receives ℚ) -/
theorem p_cancel (q : ℚ →+* K) (p : ℕ) (hp : p ≠ 0) (x y : K) (e : (p : K) * x = p * y) : x = y := by
  have hq : q ((p : ℚ)⁻¹) * (p : K) = 1 := by
    rw [← map_natCast q p, ← map_mul, inv_mul_cancel₀ (by exact_mod_cast hp), map_one]
  calc x = q ((p : ℚ)⁻¹) * ((p : K) * x) := by rw [← mul_assoc, hq, one_mul]
    _ = q ((p : ℚ)⁻¹) * ((p : K) * y) := by rw [e]
    _ = y := by rw [← mul_assoc, hq, one_mul]

/-- **the `p`-radical is the radical**: for `z ∈ O`, if some power of `z` lies in `pO` then so does every
power `z^Q` with `Q ≥ n` -/
theorem rad_of_pow (h : Ctx q Ω T) (one : ∃ e : Fin n → ℤ, el q Ω e = 1) (p : ℕ) (hp : p.Prime)
    (Q : ℕ) (hQ : n ≤ Q) (z : K) (hz : z ∈ Olat h one) (t : ℕ) (ht : z ^ t ∈ pO (Olat h one) p) :
    z ^ Q ∈ pO (Olat h one) p := by
  classical
  have : Fact p.Prime := ⟨hp⟩
  obtain ⟨c, rfl⟩ := hz
  obtain ⟨e, he⟩ := one
  set R := reg T c with hR
  set φ := (Int.castRingHom (ZMod p)).mapMatrix (m := Fin n) with hφ
  -- R^t vanishes modulo p
  have hRt : φ (R ^ t) = 0 := by
    ext i k
    have hmem : el q Ω (Pi.single i 1) * el q Ω c ^ t ∈ pO (Olat h ⟨e, he⟩) p :=
      pO_mul (el_mem_Olat h _ _) ht
    rw [h.el_mul_pow, mem_pO_iff] at hmem
    have := hmem k
    rw [Matrix.single_one_vecMul] at this
    simp only [hφ, RingHom.mapMatrix_apply, Matrix.map_apply, Matrix.zero_apply, eq_intCast]
    exact (ZMod.intCast_zmod_eq_zero_iff_dvd _ p).mpr this
  have hnil : IsNilpotent (φ R) := ⟨t, by rw [← map_pow]; exact hRt⟩
  have hchar : (φ R).charpoly = Polynomial.X ^ n := by
    have := Matrix.isNilpotent_charpoly_sub_pow_of_isNilpotent hnil
    rw [Fintype.card_fin] at this
    exact sub_eq_zero.mp this.eq_zero
  have hRn : φ R ^ n = 0 := by
    have := Matrix.aeval_self_charpoly (φ R)
    rw [hchar] at this
    simpa using this
  have hRQ : φ (R ^ Q) = 0 := by
    rw [map_pow, show Q = n + (Q - n) by omega, pow_add, hRn, zero_mul]
  have hdvd : ∀ i k, (p : ℤ) ∣ (R ^ Q) i k := by
    intro i k
    have := congrFun (congrFun hRQ i) k
    simp only [hφ, RingHom.mapMatrix_apply, Matrix.map_apply, Matrix.zero_apply, eq_intCast] at this
    exact (ZMod.intCast_zmod_eq_zero_iff_dvd _ p).mp this
  have : el q Ω c ^ Q = el q Ω (e ᵥ* R ^ Q) := by
    rw [← h.el_mul_pow, he, one_mul]
  rw [this, mem_pO_iff]
  intro k
  simp only [Matrix.vecMul, dotProduct]
  apply Finset.dvd_sum
  intro i _
  exact Dvd.dvd.mul_left (hdvd i k) _

/-- the `p`-radical is generated over ℤ by finitely many elements -/
theorem radQ_fg (h : Ctx q Ω T) (one : ∃ e : Fin n → ℤ, el q Ω e = 1) (p k : ℕ) (hp : p.Prime) :
    ∃ (m : ℕ) (η : Fin m → K), (∀ j, η j ∈ radQ (Olat h one) p (p ^ k)) ∧
      ∀ y ∈ radQ (Olat h one) p (p ^ k), ∃ c : Fin m → ℤ, y = ∑ j, c j • η j := by
  have hI := radQ_ideal (Olat h one) p k hp
  let L : Submodule ℤ (Fin n → ℤ) :=
    { carrier := {c | el q Ω c ∈ radQ (Olat h one) p (p ^ k)}
      add_mem' := by
        intro a b ha hb
        show el q Ω (a + b) ∈ radQ (Olat h one) p (p ^ k)
        rw [el_add]; exact hI.add _ ha _ hb
      zero_mem' := by
        show el q Ω 0 ∈ radQ (Olat h one) p (p ^ k)
        rw [el_zero]; exact hI.zero
      smul_mem' := by
        intro z a ha
        show el q Ω (z • a) ∈ radQ (Olat h one) p (p ^ k)
        rw [el_zsmul, ← zsmul_eq_mul]; exact hI.zsmul z ha }
  have hfg : L.FG := IsNoetherian.noetherian L
  obtain ⟨m, s, hs⟩ := Submodule.fg_iff_exists_fin_generating_family.mp hfg
  refine ⟨m, fun j => el q Ω (s j), ?_, ?_⟩
  · intro j
    have : s j ∈ L := by rw [← hs]; exact Submodule.subset_span ⟨j, rfl⟩
    exact this
  · intro y hy
    obtain ⟨c, rfl⟩ := hy.1
    have hc : c ∈ L := hy
    rw [← hs] at hc
    obtain ⟨a, ha⟩ := (Submodule.mem_span_range_iff_exists_fun ℤ).mp hc
    refine ⟨a, ?_⟩
    rw [← ha, el_sum]
    apply Finset.sum_congr rfl
    intro j _
    rw [el_zsmul, zsmul_eq_mul]

/-- **Pohst–Zassenhaus**: if every `x ∈ K` with `x·I_p ⊆ I_p` lies in `O` (i.e. the Round 2 step does not
enlarge `O`) then `O` is `p`-maximal -/
theorem pmax_of_mult (h : Ctx q Ω T) (one : ∃ e : Fin n → ℤ, el q Ω e = 1) (p k : ℕ) (hp : p.Prime)
    (hk : n ≤ p ^ k)
    (hmult : ∀ x : K, x ∈ multR (radQ (Olat h one) p (p ^ k)) → x ∈ Olat h one) :
    PMax (Olat h one) p := by
  rintro S hOS ⟨r, hr⟩
  obtain ⟨m, η, hη, hgen⟩ := radQ_fg h one p k hp
  exact over_le_of_mult (Olat h one) S p r (p ^ k) hOS hr
    (fun z hz t ht => rad_of_pow h one p hp (p ^ k) hk z hz t ht) m η hη hgen
    (fun x _ hx => hmult x hx)

end NTV.R2Abs
