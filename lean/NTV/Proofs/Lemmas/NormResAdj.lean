import NTV.Proofs.Lemmas.NormResMat
import Mathlib.RingTheory.AdjoinRoot
import Mathlib.RingTheory.Norm.Defs
import Mathlib.LinearAlgebra.Matrix.Charpoly.Minpoly
/-! C14 (norm = resultant), quotient part: in `k[X]/(F)` over a field, `F ≠ 0`, the norm of the class
of `G` satisfies `N(G) · lc(F)^{deg G} = Res(F, G)`. -/
open Polynomial Matrix
namespace NTV.NormRes

variable {k : Type*} [Field k]

theorem norm_mk_eq_resultant_normalized (F G : k[X]) (hF : F ≠ 0) :
    Algebra.norm k (AdjoinRoot.mk F G) = resultant (F * C F.leadingCoeff⁻¹) G := by
  set pb := AdjoinRoot.powerBasis hF with hpb
  rw [Algebra.norm_eq_matrix_det pb.basis]
  have h1 : AdjoinRoot.mk F G = aeval pb.gen G := by
    rw [hpb, AdjoinRoot.powerBasis_gen, AdjoinRoot.aeval_eq]
  rw [h1, ← Polynomial.aeval_algHom_apply, det_aeval_eq_resultant, charpoly_leftMulMatrix,
    AdjoinRoot.minpoly_powerBasis_gen hF]

/-- `N_{k[X]/(F)/k}(G mod F) · lc(F)^{deg G} = Res(F, G)` -/
theorem norm_mk_mul_pow (F G : k[X]) (hF : F ≠ 0) :
    Algebra.norm k (AdjoinRoot.mk F G) * F.leadingCoeff ^ G.natDegree = resultant F G := by
  have hl : F.leadingCoeff ≠ 0 := leadingCoeff_ne_zero.mpr hF
  have hdeg : (F * C F.leadingCoeff⁻¹).natDegree = F.natDegree := by
    rw [natDegree_mul_C (inv_ne_zero hl)]
  have hF' : F = C F.leadingCoeff * (F * C F.leadingCoeff⁻¹) := by
    rw [mul_comm F, ← mul_assoc, ← C_mul, mul_inv_cancel₀ hl, C_1, one_mul]
  rw [norm_mk_eq_resultant_normalized F G hF]
  have h2 : resultant F G
      = resultant (C F.leadingCoeff * (F * C F.leadingCoeff⁻¹)) G (F * C F.leadingCoeff⁻¹).natDegree
        G.natDegree := by
    rw [← hF', hdeg]
  rw [h2, resultant_C_mul_left, mul_comm]

end NTV.NormRes
