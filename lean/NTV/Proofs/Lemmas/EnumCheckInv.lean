import NTV.Spec.Enum
import NTV.Proofs.Lemmas.RowOpsProofs
import NTV.Proofs.Lemmas.DetLemmas
import Mathlib.LinearAlgebra.Matrix.NonsingularInverse
import Mathlib.Tactic
/-! Soundness of the exact rational inverse `NTV.Spec.Enum.inverse` used by the C20 short-vector
checker (Gauss–Jordan elimination on the augmented matrix `[Q | I]`):
`inverse Q = some Qi → Qi * Q = 1 ∧ Q * Qi = 1`, and `inverse Q = none → det Q = 0`. -/
open Matrix
namespace NTV.EnumCheck
open NTV.RowOps (toM Rect ent swapRows ent_swapRows)
open NTV.Spec.Mat (QMat qent)
open NTV.Spec.Enum (idQ jordanCol inverse)

theorem qent_eq (a : QMat) (i j : Nat) : qent a i j = ent a i j := rfl

/-! ### list-level facts -/

theorem getD_row {a : QMat} {i : Nat} (h : i < a.length) : a.getD i [] = a[i] := by
  simp [List.getD_eq_getElem?_getD, List.getElem?_eq_getElem h]

theorem getD_map_div (row : List ℚ) (piv : ℚ) (j : Nat) :
    (row.map (· / piv)).getD j 0 = row.getD j 0 / piv := by
  simp only [List.getD_eq_getElem?_getD, List.getElem?_map]
  cases row[j]? <;> simp

theorem getD_zipWith_sub (row rowN : List ℚ) (f : ℚ) (j : Nat) (h : row.length = rowN.length) :
    (List.zipWith (fun x y => x - f * y) row rowN).getD j 0 = row.getD j 0 - f * rowN.getD j 0 := by
  simp only [List.getD_eq_getElem?_getD, List.getElem?_zipWith]
  by_cases hc : j < row.length
  · have hc' : j < rowN.length := by omega
    simp [List.getElem?_eq_getElem hc, List.getElem?_eq_getElem hc']
  · have h1 : row[j]? = none := by simp; omega
    have h2 : rowN[j]? = none := by simp; omega
    simp [h1, h2]

theorem Rect.swapRows {n m : Nat} {a : QMat} (hr : Rect n m a) (i j : Nat) (hi : i < n) (hj : j < n) :
    Rect n m (swapRows a i j) := by
  refine ⟨by simp [NTV.RowOps.swapRows, hr.1], ?_⟩
  intro r hmem
  unfold NTV.RowOps.swapRows at hmem
  rcases List.mem_or_eq_of_mem_set hmem with h | h
  · rcases List.mem_or_eq_of_mem_set h with h | h
    · exact hr.2 r h
    · rw [h]; exact hr.row_length j hj
  · rw [h]; exact hr.row_length i hi

/-! ### one column step -/

theorem jordanCol_none {a : QMat} {c : Nat} (h : jordanCol a c = none) (p : Nat) (h1 : c ≤ p)
    (h2 : p < a.length) : ent a p c = 0 := by
  unfold jordanCol at h
  split at h
  · rename_i hf
    rw [List.find?_eq_none] at hf
    have := hf (p - c) (by simp; omega)
    have e : c + (p - c) = p := by omega
    simpa [e, qent_eq] using this
  · simp at h

/-- the result of a successful column step, as a closed expression in the pivot row index `p` -/
theorem jordanCol_some {a a' : QMat} {c : Nat} (h : jordanCol a c = some a') :
    ∃ p, c ≤ p ∧ p < a.length ∧ ent a p c ≠ 0 ∧
      a' = (swapRows a p c).mapIdx (fun i row =>
        if i = c then (a.getD p []).map (· / ent a p c) else
          List.zipWith (fun x y => x - row.getD c 0 * y) row ((a.getD p []).map (· / ent a p c))) := by
  unfold jordanCol at h
  split at h
  · simp at h
  · rename_i t hf
    have hp := List.find?_some hf
    have hm := List.mem_of_find?_eq_some hf
    simp only [List.mem_range] at hm
    refine ⟨c + t, by omega, by omega, by simpa [qent_eq] using hp, ?_⟩
    simp only [Option.some.injEq] at h
    rw [← h]
    rfl

theorem length_jordanCol {a a' : QMat} {c : Nat} (h : jordanCol a c = some a') : a'.length = a.length := by
  obtain ⟨p, _, _, _, rfl⟩ := jordanCol_some h
  simp [NTV.RowOps.swapRows]

/-- entries after a successful column step: row `c` is the normalised pivot row, every other row
of the swapped matrix loses its column-`c` entry times that row -/
theorem jordanCol_ent {n m : Nat} {a a' : QMat} (hr : Rect n m a) {c : Nat} (hc : c < n)
    (h : jordanCol a c = some a') :
    Rect n m a' ∧ ∃ p, c ≤ p ∧ p < n ∧ ent a p c ≠ 0 ∧ ∀ r j, r < n →
      ent a' r j = if r = c then ent a p j / ent a p c
        else ent (swapRows a p c) r j - ent (swapRows a p c) r c * (ent a p j / ent a p c) := by
  obtain ⟨p, h1, h2, h3, rfl⟩ := jordanCol_some h
  have hp : p < n := by rw [← hr.1]; exact h2
  have hsw := Rect.swapRows hr p c hp hc
  have hrowP : (a.getD p []).length = m := hr.row_length p hp
  refine ⟨⟨by simp [hsw.1], ?_⟩, p, h1, hp, h3, ?_⟩
  · intro row hmem
    rw [List.mem_mapIdx] at hmem
    obtain ⟨i, hi, rfl⟩ := hmem
    have hl : ((swapRows a p c)[i]).length = m := hsw.2 _ (List.getElem_mem hi)
    split
    · rw [List.length_map, hrowP]
    · rw [List.length_zipWith, List.length_map, hrowP, hl, Nat.min_self]
  · intro r j hrn
    have hrl : r < (swapRows a p c).length := by rw [hsw.1]; exact hrn
    have hl : ((swapRows a p c)[r]).length = m := hsw.2 _ (List.getElem_mem hrl)
    have e1 : ∀ f : Nat → List ℚ → List ℚ,
        ent ((swapRows a p c).mapIdx f) r j = (f r ((swapRows a p c)[r])).getD j 0 := by
      intro f
      unfold NTV.RowOps.ent
      rw [getD_row (by simpa using hrl)]
      simp
    rw [e1]
    have e2 : ∀ k, ent (swapRows a p c) r k = ((swapRows a p c)[r]).getD k 0 := by
      intro k; unfold NTV.RowOps.ent; rw [getD_row hrl]
    by_cases hrc : r = c
    · rw [if_pos hrc, if_pos hrc, getD_map_div]; rfl
    · rw [if_neg hrc, if_neg hrc, getD_zipWith_sub _ _ _ _ (by rw [List.length_map, hl, hrowP]), getD_map_div, e2, e2]
      rfl

/-- a successful column step makes column `c` a unit column and keeps the unit columns before it -/
theorem jordanCol_unit {n m : Nat} {a a' : QMat} (hr : Rect n m a) {c : Nat} (hc : c < n)
    (h : jordanCol a c = some a')
    (hu : ∀ r k, r < n → k < c → ent a r k = if r = k then 1 else 0) :
    ∀ r k, r < n → k < c + 1 → ent a' r k = if r = k then 1 else 0 := by
  obtain ⟨_, p, h1, hp, h3, he⟩ := jordanCol_ent hr hc h
  have hpl : p < a.length := by rw [hr.1]; exact hp
  have hcl : c < a.length := by rw [hr.1]; exact hc
  intro r k hrn hk
  rw [he r k hrn]
  by_cases hkc : k = c
  · subst hkc
    by_cases hrk : r = k
    · rw [if_pos hrk, if_pos hrk]; exact div_self h3
    · rw [if_neg hrk, if_neg hrk, div_self h3]; ring
  · have hk' : k < c := by omega
    have hpk : ent a p k = 0 := by rw [hu p k hp hk', if_neg (by omega)]
    have hck : ent a c k = 0 := by rw [hu c k hc hk', if_neg (by omega)]
    rw [hpk]
    by_cases hrc : r = c
    · rw [if_pos hrc, if_neg (by omega)]; simp
    · rw [if_neg hrc, ent_swapRows a p c r k hpl hcl, if_neg hrc]
      by_cases hrp : r = p
      · rw [if_pos hrp, hck, if_neg (by omega)]; simp
      · rw [if_neg hrp, hu r k hrn hk']; simp

/-- a successful column step is left multiplication by an invertible matrix -/
theorem jordanCol_toM {n m : Nat} {a a' : QMat} (hr : Rect n m a) {c : Nat} (hc : c < n)
    (h : jordanCol a c = some a') :
    ∃ G : Matrix (Fin n) (Fin n) ℚ, G.det ≠ 0 ∧ toM n m a' = G * toM n m a := by
  obtain ⟨_, p, h1, hp, h3, he⟩ := jordanCol_ent hr hc h
  have hpl : p < a.length := by rw [hr.1]; exact hp
  have hcl : c < a.length := by rw [hr.1]; exact hc
  let cF : Fin n := ⟨c, hc⟩
  let pF : Fin n := ⟨p, hp⟩
  let v : Fin n → ℚ := fun r =>
    if r = cF then (ent a p c)⁻¹ else - ent (swapRows a p c) r c * (ent a p c)⁻¹
  let E : Matrix (Fin n) (Fin n) ℚ := (1 : Matrix (Fin n) (Fin n) ℚ).updateCol cF v
  let P : Matrix (Fin n) (Fin n) ℚ := (1 : Matrix (Fin n) (Fin n) ℚ).submatrix (Equiv.swap pF cF) id
  have hP : P * toM n m a = toM n m (swapRows a p c) := by
    rw [NTV.RowOps.toM_swapRows n m a hr pF cF]
    ext r j
    simp [P, Matrix.mul_apply, Matrix.one_apply]
  have hdE : E.det = (ent a p c)⁻¹ := by
    have := Matrix.cramer_apply (1 : Matrix (Fin n) (Fin n) ℚ) v cF
    rw [Matrix.cramer_one] at this
    rw [← this]
    simp [v]
  have hdP : P.det ≠ 0 := by
    have : P.det = Equiv.Perm.sign (Equiv.swap pF cF) * (1 : Matrix (Fin n) (Fin n) ℚ).det :=
      Matrix.det_permute (Equiv.swap pF cF) 1
    rw [this, Matrix.det_one, mul_one]
    rcases Int.units_eq_one_or (Equiv.Perm.sign (Equiv.swap pF cF)) with e | e <;> rw [e] <;> simp
  refine ⟨E * P, ?_, ?_⟩
  · rw [Matrix.det_mul, hdE]
    exact mul_ne_zero (inv_ne_zero h3) hdP
  · rw [Matrix.mul_assoc, hP]
    ext r j
    have hSc : ent (swapRows a p c) c j = ent a p j := by
      rw [ent_swapRows a p c c j hpl hcl, if_pos rfl]
    have hl : toM n m a' r j = ent a' r j := rfl
    rw [hl, he r j r.2, Matrix.mul_apply]
    by_cases hrc : r = cF
    · have hrc' : (r : Nat) = c := by rw [hrc]
      rw [if_pos hrc', Finset.sum_eq_single cF]
      · show _ = E r cF * ent (swapRows a p c) c j
        rw [hSc]; simp [E, v, hrc]; ring
      · intro k _ hk
        simp [E, hk, hrc, Ne.symm hk]
      · intro hh; exact absurd (Finset.mem_univ _) hh
    · have hrc' : ¬ (r : Nat) = c := fun e => hrc (Fin.ext e)
      rw [if_neg hrc', Finset.sum_eq_add r cF hrc]
      · show _ = E r r * ent (swapRows a p c) r j + E r cF * ent (swapRows a p c) c j
        rw [hSc]; simp [E, v, hrc]; ring
      · intro k _ hk
        simp [E, hk.2, Ne.symm hk.1]
      · intro hh; exact absurd (Finset.mem_univ _) hh
      · intro hh; exact absurd (Finset.mem_univ _) hh

/-! ### the augmented matrix `[Q | I]` -/

/-- the augmented start matrix of `inverse` -/
def aug (Q : QMat) : QMat := List.zipWith (· ++ ·) Q (idQ Q.length)

theorem length_idQ (n : Nat) : (idQ n).length = n := by simp [idQ]

theorem rect_aug {Q : QMat} {n : Nat} (hr : Rect n n Q) : Rect n (n + n) (aug Q) := by
  refine ⟨by simp [aug, length_idQ, hr.1], ?_⟩
  intro row hmem
  unfold aug at hmem
  rw [List.mem_iff_getElem] at hmem
  obtain ⟨i, hi, rfl⟩ := hmem
  simp only [List.length_zipWith, length_idQ, hr.1, Nat.min_self] at hi
  have hq : i < Q.length := by rw [hr.1]; exact hi
  rw [List.getElem_zipWith, List.length_append, hr.2 _ (List.getElem_mem hq)]
  simp [idQ, hr.1]

theorem ent_aug {Q : QMat} {n : Nat} (hr : Rect n n Q) (i j : Nat) (hi : i < n) :
    ent (aug Q) i j = if j < n then ent Q i j else if i = j - n then 1 else 0 := by
  have hq : i < Q.length := by rw [hr.1]; exact hi
  have hl : i < (aug Q).length := by rw [(rect_aug hr).1]; exact hi
  have hrow : Q[i].length = n := hr.2 _ (List.getElem_mem hq)
  unfold NTV.RowOps.ent
  rw [getD_row hl, getD_row hq]
  simp only [aug, List.getElem_zipWith, List.getD_eq_getElem?_getD]
  by_cases hj : j < n
  · rw [if_pos hj, List.getElem?_append_left (by rw [hrow]; exact hj)]
  · rw [if_neg hj, List.getElem?_append_right (by rw [hrow]; omega), hrow]
    simp only [idQ, hr.1, List.getElem_map, List.getElem_range, List.getElem?_map]
    by_cases hjn : j - n < n
    · rw [List.getElem?_range hjn]; simp
    · have : (List.range n)[j - n]? = none := by simp; omega
      rw [this, if_neg (by omega)]; rfl

/-- left block of `[Q | I]` is `Q` -/
theorem aug_left {Q : QMat} {n : Nat} (hr : Rect n n Q) :
    (toM n (n + n) (aug Q)).submatrix id (Fin.castAdd n) = toM n n Q := by
  ext i j
  show ent (aug Q) i (j : Nat) = ent Q i j
  rw [ent_aug hr i j i.2, if_pos j.2]

/-- right block of `[Q | I]` is the identity -/
theorem aug_right {Q : QMat} {n : Nat} (hr : Rect n n Q) :
    (toM n (n + n) (aug Q)).submatrix id (Fin.natAdd n) = 1 := by
  ext i j
  show ent (aug Q) i (n + (j : Nat)) = _
  rw [ent_aug hr i _ i.2, if_neg (by omega), Matrix.one_apply]
  have e : n + (j : Nat) - n = j := by omega
  rw [e]
  by_cases h : i = j
  · subst h; simp
  · have : ¬ ((i : Nat) = (j : Nat)) := fun q => h (Fin.ext q)
    rw [if_neg this, if_neg h]

/-! ### the invariant of the fold -/

/-- state before column `c`: the current augmented matrix is `G · [Q | I]` for an invertible `G`,
and its first `c` columns are identity columns -/
structure J (n : Nat) (Q : QMat) (c : Nat) (a : QMat) : Prop where
  rect : Rect n (n + n) a
  fac : ∃ G : Matrix (Fin n) (Fin n) ℚ, G.det ≠ 0 ∧ toM n (n + n) a = G * toM n (n + n) (aug Q)
  unit : ∀ r k, r < n → k < c → ent a r k = if r = k then 1 else 0

theorem J.init {Q : QMat} {n : Nat} (hr : Rect n n Q) : J n Q 0 (aug Q) where
  rect := rect_aug hr
  fac := ⟨1, by simp, by simp⟩
  unit := fun _ _ _ hk => absurd hk (Nat.not_lt_zero _)

theorem J.step {Q a a' : QMat} {n c : Nat} (h : J n Q c a) (hc : c < n)
    (hs : jordanCol a c = some a') : J n Q (c + 1) a' where
  rect := (jordanCol_ent h.rect hc hs).1
  fac := by
    obtain ⟨G, hG, hGa⟩ := h.fac
    obtain ⟨G', hG', hGa'⟩ := jordanCol_toM h.rect hc hs
    refine ⟨G' * G, ?_, ?_⟩
    · rw [Matrix.det_mul]; exact mul_ne_zero hG' hG
    · rw [hGa', hGa, Matrix.mul_assoc]
  unit := jordanCol_unit h.rect hc hs h.unit

theorem submatrix_mul_left {n m k : Nat} (G : Matrix (Fin n) (Fin n) ℚ) (M : Matrix (Fin n) (Fin m) ℚ)
    (f : Fin k → Fin m) : (G * M).submatrix id f = G * M.submatrix id f := by
  ext i j
  simp [Matrix.mul_apply]

/-- no pivot in column `c`: the left block, hence `Q`, is singular -/
theorem J.singular {Q a : QMat} {n c : Nat} (hr : Rect n n Q) (h : J n Q c a) (hc : c < n)
    (hs : jordanCol a c = none) : (toM n n Q).det = 0 := by
  obtain ⟨G, hG, hGa⟩ := h.fac
  have hL : (toM n (n + n) a).submatrix id (Fin.castAdd n) = G * toM n n Q := by
    rw [hGa, submatrix_mul_left, aug_left hr]
  have hdet : ((toM n (n + n) a).submatrix id (Fin.castAdd n)).det = 0 := by
    apply NTV.Det.det_zero_of_no_pivot _ ⟨c, hc⟩
    · intro r k hk hkr
      show ent a r (k : Nat) = 0
      rw [h.unit r k r.2 hk, if_neg (by omega)]
    · intro r hcr
      show ent a r c = 0
      exact jordanCol_none hs r hcr (by rw [h.rect.1]; exact r.2)
  rw [hL, Matrix.det_mul] at hdet
  rcases mul_eq_zero.mp hdet with q | q
  · exact absurd q hG
  · exact q

/-- all columns done: the right block is a left inverse of `Q` -/
theorem J.final {Q a : QMat} {n : Nat} (hr : Rect n n Q) (h : J n Q n a) :
    Rect n n (a.map (·.drop n)) ∧ toM n n (a.map (·.drop n)) * toM n n Q = 1 := by
  obtain ⟨G, hG, hGa⟩ := h.fac
  refine ⟨⟨by simp [h.rect.1], ?_⟩, ?_⟩
  · intro row hmem
    rw [List.mem_map] at hmem
    obtain ⟨r0, hr0, rfl⟩ := hmem
    rw [List.length_drop, h.rect.2 r0 hr0]; omega
  · have hR : toM n n (a.map (·.drop n)) = (toM n (n + n) a).submatrix id (Fin.natAdd n) := by
      ext i j
      show ent (a.map (·.drop n)) i j = ent a i (n + (j : Nat))
      unfold NTV.RowOps.ent
      simp only [List.getD_eq_getElem?_getD, List.getElem?_map]
      cases a[(i : Nat)]? <;> simp
    have hL : (toM n (n + n) a).submatrix id (Fin.castAdd n) = 1 := by
      ext i j
      show ent a i (j : Nat) = _
      rw [h.unit i j i.2 j.2, Matrix.one_apply]
      by_cases e : i = j
      · subst e; simp
      · have : ¬ ((i : Nat) = (j : Nat)) := fun q => e (Fin.ext q)
        rw [if_neg this, if_neg e]
    rw [hR, hGa, submatrix_mul_left, aug_right hr, Matrix.mul_one]
    rw [hGa, submatrix_mul_left, aug_left hr] at hL
    exact hL

/-! ### the fold -/

/-- the loop of `inverse` over the first `k` columns -/
def run (Q : QMat) (k : Nat) : Option QMat :=
  (List.range k).foldl (fun (acc : Option QMat) c => acc.bind (fun a => jordanCol a c)) (some (aug Q))

theorem run_succ (Q : QMat) (k : Nat) : run Q (k + 1) = (run Q k).bind (fun a => jordanCol a k) := by
  simp [run, List.range_succ]

theorem inverse_eq (Q : QMat) : inverse Q = (run Q Q.length).map (fun a => a.map (·.drop Q.length)) := rfl

theorem run_inv {Q : QMat} {n : Nat} (hr : Rect n n Q) (k : Nat) (hk : k ≤ n) :
    (∀ a, run Q k = some a → J n Q k a) ∧ (run Q k = none → (toM n n Q).det = 0) := by
  induction k with
  | zero =>
    refine ⟨?_, ?_⟩
    · intro a ha
      simp only [run, List.range_zero, List.foldl_nil, Option.some.injEq] at ha
      subst ha; exact J.init hr
    · intro h; simp [run] at h
  | succ k ih =>
    obtain ⟨ih1, ih2⟩ := ih (by omega)
    rw [run_succ]
    cases hrun : run Q k with
    | none => exact ⟨fun a ha => by simp at ha, fun _ => ih2 hrun⟩
    | some a0 =>
      have hJ := ih1 a0 hrun
      simp only [Option.bind_some]
      exact ⟨fun a ha => hJ.step (by omega) ha, fun hn => hJ.singular hr (by omega) hn⟩

/-! ### the theorems -/

/-- **soundness of `inverse`, success case**: on a square `n × n` rational matrix, a returned `Qi`
is a square matrix with `Qi · Q = 1` (exactly, as Mathlib matrices over `ℚ`) -/
theorem inverse_spec (Q Qi : QMat) (n : Nat) (hr : Rect n n Q) (h : inverse Q = some Qi) :
    Rect n n Qi ∧ toM n n Qi * toM n n Q = 1 := by
  rw [inverse_eq, hr.1] at h
  cases hrun : run Q n with
  | none => rw [hrun] at h; simp at h
  | some a =>
    rw [hrun] at h
    simp only [Option.map_some, Option.some.injEq] at h
    subst h
    exact ((run_inv hr n (Nat.le_refl n)).1 a hrun).final hr

/-- non-vacuity: a 3×3 matrix that needs a row swap in the first column -/
example : inverse [[0, 2, 1], [1, 1, 0], [3, 0, 1]] =
    some [[-1/5, 2/5, 1/5], [1/5, 3/5, -1/5], [3/5, -6/5, 2/5]] := by decide +kernel
example : toM 3 3 [[-1/5, 2/5, 1/5], [1/5, 3/5, -1/5], [3/5, -6/5, 2/5]] *
    toM 3 3 [[0, 2, 1], [1, 1, 0], [3, 0, 1]] = (1 : Matrix (Fin 3) (Fin 3) ℚ) :=
  (inverse_spec _ _ 3 ⟨rfl, by simp⟩ (by decide +kernel)).2

/-- the returned matrix is a two-sided inverse -/
theorem inverse_spec_right (Q Qi : QMat) (n : Nat) (hr : Rect n n Q) (h : inverse Q = some Qi) :
    toM n n Q * toM n n Qi = 1 :=
  mul_eq_one_comm.mp (inverse_spec Q Qi n hr h).2

/-- **soundness of `inverse`, failure case**: `none` is returned only for singular matrices -/
theorem inverse_none (Q : QMat) (n : Nat) (hr : Rect n n Q) (h : inverse Q = none) :
    (toM n n Q).det = 0 := by
  rw [inverse_eq, hr.1] at h
  cases hrun : run Q n with
  | none => exact (run_inv hr n (Nat.le_refl n)).2 hrun
  | some a => rw [hrun] at h; simp at h

/-- non-vacuity: a singular 3×3 matrix (row 3 = 2·row 1 − row 2); the pivot search fails in column 1 -/
example : inverse [[1, 2, 3], [0, 0, 1], [2, 4, 5]] = none := by decide +kernel
example : (toM 3 3 [[1, 2, 3], [0, 0, 1], [2, 4, 5]] : Matrix (Fin 3) (Fin 3) ℚ).det = 0 :=
  inverse_none _ 3 ⟨rfl, by simp⟩ (by decide +kernel)

/-- `inverse Q` succeeds exactly on the non-singular matrices -/
theorem inverse_isSome_iff (Q : QMat) (n : Nat) (hr : Rect n n Q) :
    (inverse Q).isSome ↔ (toM n n Q).det ≠ 0 := by
  constructor
  · intro h hd
    obtain ⟨Qi, hQi⟩ := Option.isSome_iff_exists.mp h
    have := congrArg Matrix.det (inverse_spec Q Qi n hr hQi).2
    rw [Matrix.det_mul, hd, mul_zero, Matrix.det_one] at this
    exact zero_ne_one this
  · intro hd
    cases hi : inverse Q with
    | none => exact absurd (inverse_none Q n hr hi) hd
    | some _ => rfl

end NTV.EnumCheck
