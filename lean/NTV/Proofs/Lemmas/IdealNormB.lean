import NTV.Proofs.Lemmas.IdealNormA
import NTV.Proofs.Lemmas.TableProofs2
/-! # Ideal norm, part B: the norm of a principal ideal is the absolute value of the norm of its generator. -/
namespace NTV.IdealP
open NTV.Hnf Matrix Finset
open NTV.Ord (Table tnorm tabT vecZ tnorm_eq)
open NTV.TableAbs (reg)

theorem prinRows_length (t : Table) (n : Nat) (x : List Int) : (prinRows t n x).length = n := by
  simp [prinRows]

/-- the generating matrix of `(x)` (rows `x ⋆ e_i`) is the matrix `regular t x` of multiplication by x -/
theorem toM_prinRows {t : Table} {n : Nat} {x : List Int} (hx : x.length = n) :
    toM n n (prinRows t n x) = reg (tabT t n) (vecZ x n) := by
  ext i k
  have h1 : toM n n (prinRows t n x) i = vec n (tmulV t x (NTV.Ideal.unit n i.val)) := by
    rw [toM_row]
    congr 1
    simp [prinRows, List.getD_eq_getElem?_getD]
  rw [h1, vec_tmulV hx, vec_unit]
  simp only [star, reg, tabT, e, Pi.single_apply, mul_ite, mul_one, mul_zero, ite_mul, zero_mul,
    Finset.sum_ite_eq', Finset.mem_univ, ↓reduceIte]
  rfl

/-- **norm of a principal ideal.** For x of the table's length with non-zero norm nm, `principal t x`
returns a normal form with n rows whose norm is |nm| (only the shape of the table is used). -/
theorem principal_norm_core {t : Table} {n : Nat} (hn : 0 < n) (ht : t.length = n) {x : List Int}
    (hx : x.length = n) {nm : Int} (hnm : tnorm t x = .ok nm) (hne : nm ≠ 0) :
    ∃ P, NTV.Ideal.principal t x = .ok P ∧ P.length = n ∧ Wid n P ∧ NTV.Ideal.norm P = |nm| := by
  rw [tnorm_eq t x ht (by omega)] at hnm
  injection hnm with hnm
  have hdet : (toM n n (prinRows t n x)).det = nm := by rw [toM_prinRows hx, hnm]
  obtain ⟨P, pv, h1, h2, _, _⟩ := ideal_hnfNew_total (Wid_prinRows (t := t) hx) hn
  have hr : Rect n n (prinRows t n x) := ⟨prinRows_length t n x, Wid_prinRows hx⟩
  obtain ⟨h3, h4⟩ := hnfNew_square hr hn (by rw [hdet]; exact hne) (ideal_hnfNew_ok.mp h1)
  exact ⟨P, by rw [principal_eq ht hx, h1], h3, h2, by rw [h4, hdet]⟩

/-- … and for a non-zero x of norm 0 (a zero divisor; impossible in an order of a number field) the
principal ideal is not of full rank and its norm is 0 -/
theorem principal_norm_zero_core {t : Table} {n : Nat} (T : TableRing t n) {x : List Int}
    (hx : x.length = n) (hnm : tnorm t x = .ok 0) (hx0 : vec n x ≠ 0) :
    ∃ P, NTV.Ideal.principal t x = .ok P ∧ P ≠ [] ∧ P.length ≠ n ∧ NTV.Ideal.norm P = 0 := by
  rw [tnorm_eq t x T.len (by omega)] at hnm
  injection hnm with hnm
  have hdet : (toM n n (prinRows t n x)).det = 0 := by rw [toM_prinRows hx, hnm]
  obtain ⟨P, pv, h1, h2, h3, h4⟩ := ideal_hnfNew_total (Wid_prinRows (t := t) hx) T.pos
  have hP0 : P ≠ [] := by
    intro hP
    have hmem : vec n x ∈ Lat n P := by
      rw [h4, Lat_prinRows hx]
      exact ⟨e n ⟨0, T.pos⟩, by rw [starB_apply, T.star_one]⟩
    rw [hP, Lat_nil, Submodule.mem_bot] at hmem
    exact hx0 hmem
  have hPn : P.length ≠ n := by
    intro hfull
    have hc : Nat.card ((Fin n → ℤ) ⧸ Lat n P) ≠ 0 := by
      have := norm_eq_card T.pos h2 h3 hfull
      intro h0
      rw [this.2, h0] at this
      exact absurd this.1 (by simp)
    rw [h4] at hc
    exact det_ne_zero_of_card_ne_zero (prinRows_length t n x) hc hdet
  exact ⟨P, by rw [principal_eq T.len hx, h1], hP0, hPn, norm_eq_zero_of_not_full h2 hP0 hPn⟩

end NTV.IdealP
