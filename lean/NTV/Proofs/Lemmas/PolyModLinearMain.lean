import NTV.Proofs.Lemmas.PolyModLinearSteps
/-! `find_linear_factors` (src/poly_mod/linear.rs): the returned list is, as a multiset, the multiset of
roots in ZMod p of the input polynomial — for every history of random draws. -/
open Polynomial
namespace NTV.PolyMod
open NTV.PolyG NTV.Hensel

theorem ite_bind' {α β : Type} (c : Prop) [Decidable c] (a b : M α) (f : α → M β) :
    (if c then a else b) >>= f = if c then a >>= f else b >>= f := by split <;> rfl

theorem bind_ok {α β : Type} {x : M α} {f : α → M β} {r : β} (h : x >>= f = .ok r) :
    ∃ a, x = .ok a ∧ f a = .ok r := by
  cases x with
  | error e => simp [bind, Except.bind] at h
  | ok a => exact ⟨a, rfl, h⟩

/-- `find_linear_factors_impl`, one call, written with the named stages -/
theorem findLinearImpl_succ (p : Int) (fuel : Nat) (poly : Poly) (result : List Int) (s : NTV.Draw.Stream) :
    findLinearImpl p (fuel + 1) poly result s =
      (if degU poly = 0 then .ok (result, s)
      else if degU poly = 1 then
        .ok (result ++ [Int.fmod (-(coefAt poly 0) * modinv (coefAt poly 1) p) p], s)
      else
        match NTV.Draw.range 0 p s with
        | none => .error "inconclusive stream"
        | some (a, s) =>
          if modpow a p p ≠ a then .error "panic assert"
          else do
            let (poly1, result1) ← deflate p poly result a
            let xapow := polyModpow (fromRaw [Int.fmod (-a) p, 1]) (Int.tdiv (p - 1) 2) poly1 p
            let gcd1 ← polyGcd (adjust p (add xapow [1])) poly1 p
            let (poly2, result2, s2) ← splitAfter p (findLinearImpl p fuel) gcd1 poly1 result1 s
            let gcd2 ← polyGcd (adjust p (add xapow (fromRaw [p - 1]))) poly2 p
            let (poly3, result3, s3) ← splitAfter p (findLinearImpl p fuel) gcd2 poly2 result2 s2
            if poly ≠ poly3 then findLinearImpl p fuel poly3 result3 s3 else pure (result3, s3)) := by
  rw [findLinearImpl]
  simp only [deflate, splitAfter, adjust, ite_bind', bind_assoc, pure_bind]
  rfl

/-- a non-zero constant has no root -/
theorem stage_const (p : ℕ) [Fact p.Prime] (poly result : List Int) (hl : poly.length = 1) :
    Stage p (red p poly) 1 result result := by
  match poly, hl with
  | [c], _ =>
    refine ⟨[], by simp, by simp, ?_⟩
    rw [red_cons, red_nil, mul_zero, add_zero, roots_C]
    simp

/-- the degree-1 base case: the single root −c₀·c₁⁻¹ -/
theorem stage_linear (p : ℕ) [Fact p.Prime] (poly result : List Int) (hg : GoodL p poly) (hl : poly.length = 2) :
    Stage p (red p poly) 1 result
      (result ++ [Int.fmod (-(coefAt poly 0) * modinv (coefAt poly 1) p) p]) := by
  have hpp : p.Prime := Fact.out
  have hp0 : (0 : Int) < p := by exact_mod_cast hpp.pos
  match poly, hl with
  | [c0, c1], _ =>
    have hlc : IsCoprime c1 (p : Int) := by
      have := lc_coprime p hpp [c0, c1] (by simp) hg.2.1 hg.1
      simpa [lc] using this
    have hinv := modinv_spec p hpp c1 hlc
    rw [← ZMod.intCast_eq_intCast_iff] at hinv
    push_cast at hinv
    have hc1 : (c1 : ZMod p) ≠ 0 := by
      intro e; rw [e, zero_mul] at hinv; exact zero_ne_one hinv
    have hinv' : ((modinv c1 p : Int) : ZMod p) = (c1 : ZMod p)⁻¹ := eq_inv_of_mul_eq_one_right hinv
    refine ⟨[_], rfl, ?_, ?_⟩
    · intro r hr
      simp only [List.mem_cons, List.not_mem_nil, or_false] at hr
      subst hr
      exact ⟨Int.fmod_nonneg_of_pos _ hp0, Int.fmod_lt_of_pos _ hp0⟩
    · have e : red p [c0, c1] = C (c1 : ZMod p) * X + C (c0 : ZMod p) := by
        simp only [red_cons, red_nil]; ring
      rw [e, roots_C_mul_X_add_C _ hc1]
      have hf := fmod_modEq (-(coefAt [c0, c1] 0) * modinv (coefAt [c0, c1] 1) p) p
      rw [← ZMod.intCast_eq_intCast_iff] at hf
      simp only [coefAt, List.getD_cons_zero, List.getD_cons_succ] at hf ⊢
      simp only [Multiset.coe_singleton, Multiset.map_singleton, roots_one, hf]
      push_cast
      rw [hinv']; congr 1; ring

theorem degU_eq (l : List Int) (h : l ≠ []) : degU l = l.length - 1 := by
  unfold degU
  have : l.isEmpty = false := by cases l <;> simp_all
  simp [this]

/-- **main invariant**: every successful run of `find_linear_factors_impl` on a non-zero reduced
polynomial appends to `result` a list of values in [0, p) whose multiset is the multiset of roots -/
theorem findLinearImpl_spec (p : ℕ) [Fact p.Prime] : ∀ fuel : Nat, RecSpec p (findLinearImpl p fuel) := by
  have hpp : p.Prime := Fact.out
  have hp1 : 1 < p := hpp.one_lt
  intro fuel
  induction fuel with
  | zero => intro poly result s res s' _ h; simp [findLinearImpl] at h
  | succ fuel ih =>
    intro poly result s res s' hg h
    rw [findLinearImpl_succ] at h
    have hne := hg.ne_nil
    have hlen := List.length_pos_of_ne_nil hne
    rw [degU_eq poly hne] at h
    split at h
    · rename_i h0
      simp only [Except.ok.injEq, Prod.mk.injEq] at h
      obtain ⟨rfl, rfl⟩ := h
      exact stage_const p poly result (by omega)
    split at h
    · rename_i h0 h1
      simp only [Except.ok.injEq, Prod.mk.injEq] at h
      obtain ⟨rfl, rfl⟩ := h
      exact stage_linear p poly result hg (by omega)
    rename_i h0 h1
    split at h
    · simp at h
    rename_i a s1 hdraw
    obtain ⟨ha0, ha1⟩ := draw_shift_range p s a s1 hdraw
    split at h
    · simp at h
    -- stage 0: deflation
    obtain ⟨⟨poly1, result1⟩, hd, h⟩ := bind_ok h
    simp only at h
    obtain ⟨G1, S1, U1⟩ := deflate_spec p poly result a ha0 ha1 hg poly1 result1 hd
    -- the power
    obtain ⟨xr, xc, xe⟩ := xa_spec p hp1 a
    obtain ⟨wr, wc, we⟩ := polyModpow_red p hpp (fromRaw [Int.fmod (-a) p, 1]) poly1 (Int.tdiv ((p : Int) - 1) 2)
      G1.1 G1.2.1 G1.ne_nil xr xc
    have hexp : (Int.tdiv ((p : Int) - 1) 2).toNat = (p - 1) / 2 := by
      rw [Int.tdiv_eq_ediv_of_nonneg (by omega)]; omega
    rw [xe, hexp] at we
    set xapow := polyModpow (fromRaw [Int.fmod (-a) p, 1]) (Int.tdiv ((p : Int) - 1) 2) poly1 p with hxapow
    -- the two adjusted polynomials
    obtain ⟨pr, pc, pe⟩ := adjust_add_spec p hp1 xapow [1] 1 (by omega) (by omega) (getD_singleton 1)
      (by intro h; simp) wr wc
    have hfr : fromRaw [(p : Int) - 1] = [(p : Int) - 1] := by
      have : (p : Int) - 1 ≠ 0 := by omega
      simp [fromRaw, this]
    obtain ⟨mr, mc, me⟩ := adjust_add_spec p hp1 xapow (fromRaw [(p : Int) - 1]) ((p : Int) - 1) (by omega) (by omega)
      (by rw [hfr]; exact getD_singleton _) (canon_fromRaw _) wr wc
    have pe' : red p (adjust p (add xapow [1])) = red p xapow + 1 := by rw [pe]; simp
    have me' : red p (adjust p (add xapow (fromRaw [(p : Int) - 1]))) = red p xapow - 1 := by
      rw [me]; simp; ring
    -- stage 1
    obtain ⟨gcd1, hgcd1, h⟩ := bind_ok h
    obtain ⟨⟨poly2, result2, s2⟩, hs1, h⟩ := bind_ok h
    simp only at h
    obtain ⟨G2, S2, U2⟩ := splitAfter_spec p _ ih _ gcd1 poly1 result1 s1 pr pc G1 hgcd1 poly2 result2 s2 hs1
    -- stage 2
    obtain ⟨gcd2, hgcd2, h⟩ := bind_ok h
    obtain ⟨⟨poly3, result3, s3⟩, hs2, h⟩ := bind_ok h
    simp only at h
    obtain ⟨G3, S3, U3⟩ := splitAfter_spec p _ ih _ gcd2 poly2 result2 s2 mr mc G2 hgcd2 poly3 result3 s3 hs2
    have S123 := (S1.trans S2).trans S3
    split at h
    · -- the cofactor is processed recursively
      exact S123.trans (ih poly3 result3 s3 res s' G3 h)
    · rename_i heq
      simp only [ne_eq, Decidable.not_not] at heq
      simp only [pure, Except.pure, Except.ok.injEq, Prod.mk.injEq] at h
      obtain ⟨rfl, rfl⟩ := h
      -- nothing changed: no root at all
      have l1 : poly1.length ≤ poly.length := by
        rcases U1 with ⟨e, _⟩ | l
        · rw [e]
        · omega
      have l2 : poly2.length ≤ poly1.length := by
        rcases U2 with ⟨e, _⟩ | l
        · rw [e]
        · omega
      have l3 : poly3.length ≤ poly2.length := by
        rcases U3 with ⟨e, _⟩ | l
        · rw [e]
        · omega
      have hl3 : poly3.length = poly.length := by rw [heq]
      rcases U1 with ⟨e1, _, r1⟩ | l
      swap
      · omega
      rcases U2 with ⟨e2, _, r2⟩ | l
      swap
      · omega
      rcases U3 with ⟨e3, _, r3⟩ | l
      swap
      · omega
      subst e3
      subst e2
      subst e1
      rw [pe'] at r2
      rw [me'] at r3
      have hz := no_root_of_unchanged p (red p poly3) (red p xapow) (a : ZMod p) we r1 r2 r3
      obtain ⟨rs, q1, q2, q3⟩ := S123
      exact ⟨rs, q1, q2, by rw [q3, hz, roots_one]; rfl⟩

end NTV.PolyMod

namespace NTV.PolyMod
open NTV.PolyG NTV.Hensel

/-! ### the branch p = 2 -/

/-- the `while poly_of_mod(poly, val, 2) == 0` loop removes the full power of (X − val) -/
theorem mod2Loop_spec (val : Int) : ∀ (fuel : Nat) (poly result poly' result' : List Int),
    GoodL 2 poly → mod2Loop val fuel poly result = .ok (poly', result') →
    ∃ k : Nat, result' = result ++ List.replicate k val ∧ GoodL 2 poly' ∧
      red 2 poly = (X - C (val : ZMod 2)) ^ k * red 2 poly' ∧ (red 2 poly').eval (val : ZMod 2) ≠ 0 := by
  intro fuel
  induction fuel with
  | zero => intro poly result poly' result' _ h; simp [mod2Loop] at h
  | succ fuel ih =>
    intro poly result poly' result' hg h
    simp only [mod2Loop] at h
    have hiff := polyOfMod_eq_zero_iff 2 (by norm_num) poly val
    simp only [Nat.cast_ofNat] at hiff
    split at h
    · rename_i hz
      obtain ⟨q, hq, h⟩ := bind_ok h
      obtain ⟨d1, d2, d3, d4⟩ := divideByXA_red 2 (by norm_num) poly val q (by simpa using hq)
      have hq0 : red 2 q ≠ 0 := by
        intro e; apply hg.2.2; rw [d1, e, mul_zero]
      obtain ⟨k, e1, e2, e3, e4⟩ := ih q (result ++ [val]) poly' result' ⟨d2, d3, hq0⟩ h
      refine ⟨k + 1, ?_, e2, ?_, e4⟩
      · rw [e1, List.replicate_succ]; simp
      · rw [d1, e3, pow_succ]; ring
    · rename_i hz
      simp only [Except.ok.injEq, Prod.mk.injEq] at h
      obtain ⟨rfl, rfl⟩ := h
      exact ⟨0, by simp, hg, by simp, by rwa [Ne, ← hiff]⟩

theorem zmod2_cases : ∀ r : ZMod 2, r = 0 ∨ r = 1 := by decide

/-- `find_linear_factors_impl_mod2`: the multiplicity of 0, then the multiplicity of 1 -/
theorem findLinearMod2_spec (poly res : List Int) (hg : GoodL 2 poly) (h : findLinearMod2 poly = .ok res) :
    (∀ r ∈ res, 0 ≤ r ∧ r < 2) ∧
      (red 2 poly).roots = Multiset.map (Int.cast : Int → ZMod 2) (res : Multiset Int) := by
  unfold findLinearMod2 at h
  obtain ⟨⟨poly1, r1⟩, h1, h⟩ := bind_ok h
  obtain ⟨⟨poly2, r2⟩, h2, h⟩ := bind_ok h
  simp only [pure, Except.pure, Except.ok.injEq] at h
  subst h
  obtain ⟨k0, a1, a2, a3, a4⟩ := mod2Loop_spec 0 _ poly [] poly1 r1 hg h1
  obtain ⟨k1, b1, b2, b3, b4⟩ := mod2Loop_spec 1 _ poly1 r1 poly2 r2 a2 h2
  simp only [Int.cast_zero, Int.cast_one, C_0, sub_zero, C_1] at a3 a4 b3 b4
  have hz : (red 2 poly2).roots = 0 := by
    apply Multiset.eq_zero_of_forall_notMem
    intro r hr
    have hroot : (red 2 poly2).eval r = 0 := isRoot_of_mem_roots hr
    rcases zmod2_cases r with rfl | rfl
    · apply a4
      rw [b3, eval_mul, hroot, mul_zero]
    · exact b4 hroot
  refine ⟨?_, ?_⟩
  · intro r hr
    rw [b1, a1] at hr
    simp only [List.nil_append, List.mem_append, List.mem_replicate] at hr
    rcases hr with ⟨_, rfl⟩ | ⟨_, rfl⟩ <;> omega
  · have hne : X ^ k0 * red 2 poly1 ≠ 0 := by rw [← a3]; exact hg.2.2
    have hne1 : (X - 1 : (ZMod 2)[X]) ^ k1 * red 2 poly2 ≠ 0 := by rw [← b3]; exact a2.2.2
    rw [a3, roots_mul hne, b3, roots_mul hne1, hz, roots_pow, roots_pow, roots_X, b1, a1]
    have : (X - 1 : (ZMod 2)[X]) = X - C 1 := by simp
    rw [this, roots_X_sub_C]
    simp only [List.nil_append, ← Multiset.coe_add, Multiset.map_add, Multiset.coe_replicate,
      Multiset.map_replicate, Int.cast_zero, Int.cast_one, Multiset.nsmul_singleton, add_zero]

/-! ### `find_linear_factors` -/

/-- **C12, model level**: a successful run of `find_linear_factors(f, p)` (p prime, f ≢ 0 mod p) returns
values in [0, p) whose multiset is the multiset of roots of f in ZMod p — whatever the draws were -/
theorem findLinearFactors_spec (p : ℕ) [Fact p.Prime] (f : List Int) (s : NTV.Draw.Stream) (res : List Int)
    (hf : red p f ≠ 0) (h : findLinearFactors f p s = .ok res) :
    (∀ r ∈ res, 0 ≤ r ∧ r < (p : Int)) ∧
      (red p f).roots = Multiset.map (Int.cast : Int → ZMod p) (res : Multiset Int) := by
  have hpp : p.Prime := Fact.out
  have hp0 : (0 : Int) < p := by exact_mod_cast hpp.pos
  obtain ⟨m1, m2, _⟩ := polyMod_reduced f p hp0
  have hred := red_polyMod p hpp.pos f
  have hg : GoodL p (polyMod f p) := ⟨m1, m2, by rw [hred]; exact hf⟩
  unfold findLinearFactors at h
  simp only at h
  split at h
  · rename_i h2
    have hp2 : p = 2 := by exact_mod_cast h2
    subst hp2
    rw [← hred]
    exact findLinearMod2_spec _ res hg h
  · obtain ⟨⟨r, s'⟩, hrun, h⟩ := bind_ok h
    simp only [pure, Except.pure, Except.ok.injEq] at h
    subst h
    obtain ⟨rs, e1, e2, e3⟩ := findLinearImpl_spec p _ _ [] s r s' hg hrun
    simp only [List.nil_append] at e1
    subst e1
    rw [← hred]
    exact ⟨e2, by rw [e3, roots_one]; exact add_zero _⟩

end NTV.PolyMod
