import NTV.Proofs.Lemmas.GcdShape
import Mathlib.RingTheory.Polynomial.GaussLemma
/-! The value of `resultant_smart_gcd` divides both arguments (in ℤ[X]), when all divisions are exact.

`DivC g f` — "g divides a non-zero integer multiple of f" — is carried backwards along the
pseudo-remainder sequence; Gauss's lemma (Mathlib) removes the integer multiple at the end. -/
open Polynomial
namespace NTV.Res
open NTV.PolyG

/-- g divides a non-zero integer multiple of f -/
def DivC (g f : ℤ[X]) : Prop := ∃ c : ℤ, c ≠ 0 ∧ g ∣ C c * f

theorem divC_refl (g : ℤ[X]) : DivC g g := ⟨1, one_ne_zero, by simp⟩
theorem divC_zero (g : ℤ[X]) : DivC g 0 := ⟨1, one_ne_zero, by simp⟩
theorem divC_one (f : ℤ[X]) : DivC 1 f := ⟨1, one_ne_zero, one_dvd _⟩

theorem divC_of_dvd {g h f : ℤ[X]} (hgh : g ∣ h) (hf : DivC h f) : DivC g f := by
  obtain ⟨c, hc, hd⟩ := hf
  exact ⟨c, hc, dvd_trans hgh hd⟩

/-- backwards along one pseudo-division: L^k·F = Q·G + P -/
theorem divC_of_step {g F G P Q : ℤ[X]} (m : ℤ) (hm : m ≠ 0) (hrel : C m * F = Q * G + P)
    (hG : DivC g G) (hP : DivC g P) : DivC g F := by
  obtain ⟨c1, hc1, d1⟩ := hG
  obtain ⟨c2, hc2, d2⟩ := hP
  refine ⟨c1 * c2 * m, mul_ne_zero (mul_ne_zero hc1 hc2) hm, ?_⟩
  have e : C (c1 * c2 * m) * F = (C c2 * Q) * (C c1 * G) + C c1 * (C c2 * P) := by
    rw [C_mul, C_mul, mul_assoc, hrel]; ring
  rw [e]
  exact dvd_add (Dvd.dvd.mul_left d1 _) (Dvd.dvd.mul_left d2 _)

theorem divC_scale {g G' P : ℤ[X]} (m : ℤ) (hrel : C m * G' = P) (hG : DivC g G') : DivC g P := by
  obtain ⟨c, hc, d⟩ := hG
  refine ⟨c, hc, ?_⟩
  rw [← hrel]
  have : C c * (C m * G') = C m * (C c * G') := by ring
  rw [this]; exact Dvd.dvd.mul_left d _

/-- the polynomial left by the gcd loop divides a non-zero integer multiple of both loop arguments -/
theorem gcdLoop_divC (fuel : Nat) : ∀ (f g : List Int) (a b : Int) (ok : Bool) (r : List Int),
    Canon f → Canon g → f ≠ [] →
    gcdLoop fuel f g a b ok = some (.ok (r, true)) →
    DivC (toPoly r) (toPoly f) ∧ DivC (toPoly r) (toPoly g) := by
  induction fuel with
  | zero => intro f g a b ok r _ _ _ h; simp [gcdLoop] at h
  | succ fuel ih =>
    intro f g a b ok r hcf hcg hf h
    simp only [gcdLoop] at h
    split at h
    · rename_i hge
      have hg : g = [] := by cases g <;> simp_all
      simp only [Option.some.injEq, Except.ok.injEq, Prod.mk.injEq] at h
      obtain ⟨rfl, _⟩ := h
      subst hg
      exact ⟨divC_refl _, by simpa [toPoly] using divC_zero (toPoly f)⟩
    · rename_i hge
      have hgne : g ≠ [] := by intro e; simp [e] at hge
      split at h
      · simp only [Option.some.injEq, Except.ok.injEq, Prod.mk.injEq] at h
        obtain ⟨rfl, _⟩ := h
        have : toPoly [(1:Int)] = (1 : ℤ[X]) := by simp [toPoly]
        rw [this]
        exact ⟨divC_one _, divC_one _⟩
      · split at h
        · exact (ih g f a b ok r hcg hcf hgne h).symm
        · rename_i hlt
          split at h
          · simp at h
          · rename_i f' g' a' b' ok' hstep
            have hfl := gcdLoop_flag fuel _ _ _ _ _ _ h
            simp only [Bool.and_eq_true] at hfl
            obtain ⟨_, hok'⟩ := hfl
            subst hok'
            have hgl : 0 < g.length := List.length_pos_of_ne_nil hgne
            have hfl' : 0 < f.length := List.length_pos_of_ne_nil hf
            obtain ⟨hf'e, _, _, hcg', Q, P, hrel, _, hP, _, _, _⟩ :=
              step_spec f g a b f' g' a' b' hf hgne hcg (by omega) hstep
            rw [hf'e] at h
            obtain ⟨hG, hG'⟩ := ih g g' a' b' _ r hcg hcg' hgne h
            refine ⟨?_, hG⟩
            have hlc : lc g ≠ 0 := lc_ne_zero g hgne hcg
            exact divC_of_step _ (pow_ne_zero _ hlc) hrel hG (divC_scale _ hP hG')

/-- primitive list ⇒ Mathlib's `IsPrimitive` -/
theorem isPrimitive_of_list (p : List Int) (h : ∀ e : Int, (∀ c ∈ p, e ∣ c) → e ∣ 1) :
    (toPoly p).IsPrimitive := by
  intro r hr
  rw [C_dvd_iff_dvd_coeff] at hr
  have : r ∣ 1 := by
    apply h
    intro c hc
    obtain ⟨i, hi, rfl⟩ := List.getElem_of_mem hc
    have := hr i
    rw [coeff_toPoly] at this
    simpa [List.getD_eq_getElem?_getD, List.getElem?_eq_getElem hi] using this
  exact isUnit_of_dvd_one this

/-- Gauss: a primitive polynomial dividing a non-zero integer multiple of q divides q -/
theorem dvd_of_divC {p q : ℤ[X]} (hp : p.IsPrimitive) (h : DivC p q) : p ∣ q := by
  obtain ⟨c, hc, d⟩ := h
  rw [IsPrimitive.Int.dvd_iff_map_cast_dvd_map_cast _ _ hp] at d ⊢
  rw [Polynomial.map_mul, map_C] at d
  have hu : IsUnit (C ((Int.castRingHom ℚ) c) : ℚ[X]) := by
    apply isUnit_C.mpr
    exact isUnit_iff_ne_zero.mpr (by simpa using hc)
  exact (hu.dvd_mul_left).mp d

/-- C10 (the result divides both arguments): for non-zero canonical f, g, when all divisions are
exact, the returned polynomial divides f and g in ℤ[X] -/
theorem gcd_dvd (f g r : List Int) (hf : f ≠ []) (hg : g ≠ []) (hcf : Canon f) (hcg : Canon g)
    (h : resultantSmartGcdE f g = some (.ok (r, true))) :
    toPoly r ∣ toPoly f ∧ toPoly r ∣ toPoly g := by
  unfold resultantSmartGcdE at h
  have he : f.isEmpty = false := by cases f <;> simp_all
  simp only [he, Bool.false_eq_true, ↓reduceIte, bind, Except.bind, content_ok f hf hcf, content_ok g hg hcg,
    polyDiv_content f hf hcf, polyDiv_content g hg hcg, pure, Except.pure] at h
  cases hl : gcdLoop ((contPP f).2.length + (contPP g).2.length + 3) (contPP f).2 (contPP g).2 1 1 true with
  | none => rw [hl] at h; simp at h
  | some res =>
    rw [hl] at h
    cases res with
    | error e => simp at h
    | ok v =>
      obtain ⟨f2, ok⟩ := v
      simp only at h
      have hsp1 := contPP_spec f hf hcf
      have hsp2 := contPP_spec g hg hcg
      by_cases hok : ok = true
      · subst hok
        obtain ⟨hc2, hne2⟩ := gcdLoop_canon _ _ _ _ _ _ f2 hsp1.2.2.2 hsp2.2.2.2 (pp_ne_nil f hf hcf) hl
        obtain ⟨hd1, hd2⟩ := gcdLoop_divC _ _ _ _ _ _ f2 hsp1.2.2.2 hsp2.2.2.2 (pp_ne_nil f hf hcf) hl
        simp only [content_ok f2 hne2 hc2, polyDiv_content f2 hne2 hc2, Option.some.injEq, Except.ok.injEq,
          Prod.mk.injEq, and_true] at h
        subst h
        obtain ⟨s1, s2, s3, s4⟩ := contPP_spec f2 hne2 hc2
        have hprim := isPrimitive_of_list _ s2
        have hpd : toPoly (contPP f2).2 ∣ toPoly f2 := ⟨C (contPP f2).1, by rw [← s1]; ring⟩
        have k1 := dvd_of_divC hprim (divC_of_dvd hpd hd1)
        have k2 := dvd_of_divC hprim (divC_of_dvd hpd hd2)
        rw [toPoly_resPolyMul, ← hsp1.1, ← hsp2.1]
        constructor
        · exact mul_dvd_mul (_root_.map_dvd C (Int.gcd_dvd_left _ _)) k1
        · exact mul_dvd_mul (_root_.map_dvd C (Int.gcd_dvd_right _ _)) k2
      · exfalso
        have hf' : ok = false := by simpa using hok
        subst hf'
        revert h
        cases content f2 with
        | error e => simp
        | ok c =>
          simp only
          cases polyDiv f2 c with
          | error e => simp
          | ok q => simp

end NTV.Res

namespace NTV.Res
open NTV.PolyG

/-- forwards along one pseudo-division: a common "divisor up to integers" of F and G is one of P -/
theorem divC_fwd {e F G P Q : ℤ[X]} (m : ℤ) (hrel : C m * F = Q * G + P)
    (hF : DivC e F) (hG : DivC e G) : DivC e P := by
  obtain ⟨c1, hc1, d1⟩ := hF
  obtain ⟨c2, hc2, d2⟩ := hG
  refine ⟨c1 * c2, mul_ne_zero hc1 hc2, ?_⟩
  have e1 : C (c1 * c2) * P = (C c2 * C m) * (C c1 * F) - (C c1 * Q) * (C c2 * G) := by
    have : P = C m * F - Q * G := by rw [hrel]; ring
    rw [this, C_mul]; ring
  rw [e1]
  exact dvd_sub (Dvd.dvd.mul_left d1 _) (Dvd.dvd.mul_left d2 _)

theorem divC_unscale {e G' P : ℤ[X]} (k : ℤ) (hk : k ≠ 0) (hrel : C k * G' = P) (hP : DivC e P) : DivC e G' := by
  obtain ⟨c, hc, d⟩ := hP
  refine ⟨c * k, mul_ne_zero hc hk, ?_⟩
  rw [C_mul, mul_assoc, hrel]; exact d

/-- every common divisor (up to integers) of the loop arguments divides (up to integers) the polynomial
left by the gcd loop -/
theorem gcdLoop_fwd (e : ℤ[X]) (fuel : Nat) : ∀ (f g : List Int) (a b : Int) (ok : Bool) (r : List Int),
    Canon f → Canon g → f ≠ [] →
    gcdLoop fuel f g a b ok = some (.ok (r, true)) →
    DivC e (toPoly f) → DivC e (toPoly g) → DivC e (toPoly r) := by
  induction fuel with
  | zero => intro f g a b ok r _ _ _ h; simp [gcdLoop] at h
  | succ fuel ih =>
    intro f g a b ok r hcf hcg hf h hF hG
    simp only [gcdLoop] at h
    split at h
    · simp only [Option.some.injEq, Except.ok.injEq, Prod.mk.injEq] at h
      obtain ⟨rfl, _⟩ := h
      exact hF
    · rename_i hge
      have hgne : g ≠ [] := by intro e; simp [e] at hge
      split at h
      · rename_i hlen
        simp only [Option.some.injEq, Except.ok.injEq, Prod.mk.injEq] at h
        obtain ⟨rfl, _⟩ := h
        have h1 : toPoly [(1:Int)] = (1 : ℤ[X]) := by simp [toPoly]
        rw [h1]
        -- g is a non-zero constant
        obtain ⟨g0, rfl⟩ : ∃ g0, g = [g0] := by
          match g, hgne, hlen with
          | [x], _, _ => exact ⟨x, rfl⟩
          | _ :: _ :: _, _, hl => simp at hl
        have hg0 : g0 ≠ 0 := by simpa [lc] using lc_ne_zero [g0] hgne hcg
        obtain ⟨c, hc, d⟩ := hG
        refine ⟨c * g0, mul_ne_zero hc hg0, ?_⟩
        have : toPoly [g0] = C g0 := by simp [toPoly]
        rw [this] at d
        rw [mul_one, C_mul]; exact d
      · split at h
        · exact ih g f a b ok r hcg hcf hgne h hG hF
        · rename_i hlt
          split at h
          · simp at h
          · rename_i f' g' a' b' ok' hstep
            have hfl := gcdLoop_flag fuel _ _ _ _ _ _ h
            simp only [Bool.and_eq_true] at hfl
            obtain ⟨_, hok'⟩ := hfl
            subst hok'
            have hgl : 0 < g.length := List.length_pos_of_ne_nil hgne
            have hfl' : 0 < f.length := List.length_pos_of_ne_nil hf
            obtain ⟨hf'e, _, _, hcg', Q, P, hrel, _, hP, _, hk, _⟩ :=
              step_spec f g a b f' g' a' b' hf hgne hcg (by omega) hstep
            rw [hf'e] at h
            refine ih g g' a' b' _ r hcg hcg' hgne h hG ?_
            by_cases hg' : g' = []
            · subst hg'; simpa [toPoly] using divC_zero e
            · exact divC_unscale _ (hk hg') hP (divC_fwd _ hrel hF hG)

/-- an integer dividing (as a constant) the polynomial of a canonical non-empty list divides its content -/
theorem C_dvd_content (a : List Int) (ha : a ≠ []) (hca : Canon a) (k : ℤ) (h : C k ∣ toPoly a) :
    k ∣ (contPP a).1 := by
  obtain ⟨s1, s2, _, _⟩ := contPP_spec a ha hca
  rw [← dvd_content_iff_C_dvd, ← s1, content_C_mul, (isPrimitive_of_list _ s2).content_eq_one, mul_one] at h
  exact dvd_normalize_iff.mp h

/-- C10 (greatest): when all divisions are exact, every common divisor of f and g in ℤ[X] divides
the returned polynomial -/
theorem gcd_greatest (f g r : List Int) (hf : f ≠ []) (hg : g ≠ []) (hcf : Canon f) (hcg : Canon g)
    (h : resultantSmartGcdE f g = some (.ok (r, true))) (e : ℤ[X])
    (hef : e ∣ toPoly f) (heg : e ∣ toPoly g) : e ∣ toPoly r := by
  have hF0 : toPoly f ≠ 0 := (natDegree_toPoly f hf hcf).2.2
  have he0 : e ≠ 0 := by rintro rfl; exact hF0 (zero_dvd_iff.mp hef)
  unfold resultantSmartGcdE at h
  have hemp : f.isEmpty = false := by cases f <;> simp_all
  simp only [hemp, Bool.false_eq_true, ↓reduceIte, bind, Except.bind, content_ok f hf hcf, content_ok g hg hcg,
    polyDiv_content f hf hcf, polyDiv_content g hg hcg, pure, Except.pure] at h
  cases hl : gcdLoop ((contPP f).2.length + (contPP g).2.length + 3) (contPP f).2 (contPP g).2 1 1 true with
  | none => rw [hl] at h; simp at h
  | some res =>
    rw [hl] at h
    cases res with
    | error e => simp at h
    | ok v =>
      obtain ⟨f2, ok⟩ := v
      simp only at h
      have hsp1 := contPP_spec f hf hcf
      have hsp2 := contPP_spec g hg hcg
      by_cases hok : ok = true
      · subst hok
        obtain ⟨hc2, hne2⟩ := gcdLoop_canon _ _ _ _ _ _ f2 hsp1.2.2.2 hsp2.2.2.2 (pp_ne_nil f hf hcf) hl
        simp only [content_ok f2 hne2 hc2, polyDiv_content f2 hne2 hc2, Option.some.injEq, Except.ok.injEq,
          Prod.mk.injEq, and_true] at h
        subst h
        obtain ⟨s1, s2, s3, s4⟩ := contPP_spec f2 hne2 hc2
        -- split e into content and primitive part
        have hee := e.eq_C_content_mul_primPart
        have hpp : e.primPart ∣ e := ⟨C e.content, by rw [mul_comm]; exact hee⟩
        have hcc : C e.content ∣ e := ⟨e.primPart, hee⟩
        -- the primitive part divides pp(f), pp(g) up to integers
        have c1ne := contPP_fst_ne_zero f hf hcf
        have c2ne := contPP_fst_ne_zero g hg hcg
        have dF : DivC e.primPart (toPoly (contPP f).2) := by
          refine ⟨(contPP f).1, c1ne, ?_⟩
          rw [hsp1.1]; exact dvd_trans hpp hef
        have dG : DivC e.primPart (toPoly (contPP g).2) := by
          refine ⟨(contPP g).1, c2ne, ?_⟩
          rw [hsp2.1]; exact dvd_trans hpp heg
        have d2 := gcdLoop_fwd e.primPart _ _ _ _ _ _ f2 hsp1.2.2.2 hsp2.2.2.2 (pp_ne_nil f hf hcf) hl dF dG
        have d3 : DivC e.primPart (toPoly (contPP f2).2) :=
          divC_unscale _ (contPP_fst_ne_zero f2 hne2 hc2) s1 d2
        have k1 : e.primPart ∣ toPoly (contPP f2).2 := dvd_of_divC (isPrimitive_primPart e) d3
        -- the content divides both contents
        have kf := C_dvd_content f hf hcf _ (dvd_trans hcc hef)
        have kg := C_dvd_content g hg hcg _ (dvd_trans hcc heg)
        have kd : e.content ∣ (Int.gcd (contPP f).1 (contPP g).1 : ℤ) := Int.dvd_coe_gcd kf kg
        rw [toPoly_resPolyMul, hee]
        exact mul_dvd_mul (_root_.map_dvd C kd) k1
      · exfalso
        have hf' : ok = false := by simpa using hok
        subst hf'
        revert h
        cases content f2 with
        | error e => simp
        | ok c =>
          simp only
          cases polyDiv f2 c with
          | error e => simp
          | ok q => simp

end NTV.Res
