import NTV.Proofs.Lemmas.TableProofs2
/-! Round 2, ring theory — bridge between the list-level notion `NTV.Ord.Closed` (products of basis vectors
have integral coordinates) and the quotient ring `K = ℚ[X]/(f)`: the ℤ-span of the classes `omegaK` of the rows
is closed under multiplication. Change of basis for `omegaK`. -/
open Polynomial Matrix
namespace NTV.Ord
open NTV.RowOps (toM Rect ent)
open NTV.PolyG
open NTV.Alg (Reduced modulus cls mul_cls cls_eq_iff)
open NTV.TableAbs (psi castV Ctx)

variable {f : List Int} {basis : QMat} {n : Nat}

/-- the list of rational coordinates of an integer vector -/
def listQ (z : Fin n → ℤ) : List Rat := List.ofFn (fun k => ((z k : ℤ) : ℚ))

theorem vecQ_listQ (z : Fin n → ℤ) : vecQ (listQ z) n = castV z := by
  funext i
  simp [vecQ, listQ, castV, List.getD_eq_getElem?_getD, i.isLt]

theorem coefAt_comb (hr : Rect n n basis) (x : List Rat) (c : Nat) (hc : c < n) :
    coefAt (comb basis x) c = ∑ i ∈ Finset.range n, x.getD i 0 * ent basis i c := by
  unfold comb coefAt
  rw [getD_fromRaw, hr.1]
  simp [List.getD_eq_getElem?_getD, hc]

/-- the ℤ-span of the classes of the rows is closed under multiplication ⇒ `Closed` -/
theorem Setup.closed_of_K (S : Setup f basis n)
    (h : ∀ i j : Fin n, ∃ z : Fin n → ℤ,
      omegaK f basis n i * omegaK f basis n j = psi (qK f) (omegaK f basis n) (castV z)) :
    Closed f basis n := by
  intro i hi j hj
  obtain ⟨z, hz⟩ := h ⟨i, hi⟩ ⟨j, hj⟩
  obtain ⟨h1, h2, h3⟩ := S.mul_omega i j hi hj
  refine ⟨prodOf f basis i j, fun k => if hk : k < n then z ⟨k, hk⟩ else 0, h1, ?_⟩
  have hrc := S.reduced_comb (listQ z)
  have heq : prodOf f basis i j = comb basis (listQ z) := by
    apply NTV.Alg.eq_of_reduced_of_cls_eq f S.canon S.two_le _ _ h2 hrc
    rw [h3, S.cls_comb, vecQ_listQ]
    exact hz
  intro c hc
  rw [heq, coefAt_comb S.rect _ c hc]
  apply Finset.sum_congr rfl
  intro k hk
  have hk' := Finset.mem_range.mp hk
  simp [listQ, List.getD_eq_getElem?_getD, hk']

/-- `Closed` ⇒ the table `tableOf` is a multiplication table, hence the abstract context -/
theorem Setup.ctx_of_closed (S : Setup f basis n) (h : Closed f basis n) :
    IsTable f basis n (tableOf f basis n) ∧
    Ctx (qK f) (omegaK f basis n) (tabT (tableOf f basis n) n) := by
  have ha := S.closed_iff.mp h
  have ht := S.isTable_tableOf ha
  exact ⟨ht, S.ctx _ ht⟩

/-- change of basis: if `A = P · B` (rational `P`) then the classes of the rows of `A` are the
`P`-combinations of the classes of the rows of `B` -/
theorem omegaK_of_mul (A B : QMat) (hA : Rect n n A) (hB : Rect n n B)
    (P : Matrix (Fin n) (Fin n) ℚ) (hP : toM n n A = P * toM n n B) (i : Fin n) :
    omegaK f A n i = psi (qK f) (omegaK f B n) (P i) := by
  rw [psi_eq_cls]
  unfold omegaK
  congr 1
  apply toPoly_comb hB _ _ (by rw [hA.row_length i i.2])
  intro c hc
  have := congrFun (congrFun hP i) ⟨c, hc⟩
  simp only [Matrix.mul_apply] at this
  exact this

theorem psi_vecMul {K : Type*} [CommRing K] (q : ℚ →+* K) (Ω Ω' : Fin n → K)
    (P : Matrix (Fin n) (Fin n) ℚ) (h : ∀ i, Ω' i = psi q Ω (P i)) (x : Fin n → ℚ) :
    psi q Ω' x = psi q Ω (x ᵥ* P) := by
  unfold psi
  simp only [h, psi, Finset.mul_sum, Matrix.vecMul, dotProduct, map_sum, Finset.sum_mul, map_mul]
  rw [Finset.sum_comm]
  apply Finset.sum_congr rfl
  intro j _
  apply Finset.sum_congr rfl
  intro i _
  ring

end NTV.Ord
