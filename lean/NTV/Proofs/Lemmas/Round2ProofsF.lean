import NTV.Proofs.Lemmas.Round2ProofsE
import NTV.Proofs.Lemmas.TrialProofs
/-! The loops of `find_integral_basis`: containment, index and discriminant through `primeLoop` and the
fold over the prime factorisation of the discriminant. -/
open Matrix Finset
namespace NTV.Round2
open NTV.Ord NTV.PolyG
open NTV.RowOps (toM Rect ent)

/-- the discriminant of the larger order: disc(o) = i²·d' and (o' : o) = i ≠ 0 give disc(o') = d' -/
theorem disc_of_ext {n : Nat} {o o' : QMat} {i : Int} (ho : Rect n n o) (h : Ext n o o' i) (f : List Int)
    (d d' : Int) (hd : discriminantOrd o f = .ok d) (hdd : d = i * i * d') :
    discriminantOrd o' f = .ok d' := by
  have hi : (i : ℚ) ≠ 0 := by
    have := h.pos
    have : i ≠ 0 := by omega
    exact_mod_cast this
  have e := (index_ok_iff o' o n h.rect ho h.det i).mp h.idx
  obtain ⟨dd, fl, hdisc, hdeg, hden, hv⟩ := (discriminantOrd_ok_iff o n ho f d).mp hd
  apply (discriminantOrd_ok_iff o' n h.rect f d').mpr
  refine ⟨dd, fl, hdisc, hdeg, hden, ?_⟩
  unfold discValue at hv ⊢
  generalize (((coefAt f (degU f)) ^ (2 * (degU f - 1)) : Int) : Rat) = D at hv hden ⊢
  rw [e, hdd] at hv
  push_cast at hv
  field_simp at hv ⊢
  linarith

/-- and conversely (C15): disc(o) = i²·disc(o') -/
theorem disc_of_ext' {n : Nat} {o o' : QMat} {i : Int} (ho : Rect n n o) (h : Ext n o o' i) (f : List Int)
    (d' : Int) (hd : discriminantOrd o' f = .ok d') : discriminantOrd o f = .ok (i * i * d') := by
  have e := (index_ok_iff o' o n h.rect ho h.det i).mp h.idx
  obtain ⟨dd, fl, hdisc, hdeg, hden, hv⟩ := (discriminantOrd_ok_iff o' n h.rect f d').mp hd
  apply (discriminantOrd_ok_iff o n ho f _).mpr
  refine ⟨dd, fl, hdisc, hdeg, hden, ?_⟩
  unfold discValue at hv ⊢
  generalize (((coefAt f (degU f)) ^ (2 * (degU f - 1)) : Int) : Rat) = D at hv hden ⊢
  have hcast : ((i * i * d' : Int) : Rat) = (i : Rat) * i * d' := by push_cast; ring
  rw [e, hcast, ← hv]
  field_simp

theorem primeLoop_ext (f : List Int) (p : Int) (hp : 0 < p) (hdeg : 0 < degU f) (fuel : Nat) (o : Order)
    (e : Nat) (o' : Order) (ho : Rect (degU f) (degU f) o) (hdet : (toM (degU f) (degU f) o).det ≠ 0)
    (hst : fromBasis o = .ok o) (H : primeLoop f p fuel o e = .ok o') :
    ∃ k : Nat, 2 * k ≤ e ∧ Ext (degU f) o o' (p ^ k) := by
  induction fuel generalizing o e with
  | zero =>
    unfold primeLoop at H
    split at H
    · cases H
    · cases H
      exact ⟨0, by omega, by simpa using Ext.refl _ _ ho hdet hst⟩
  | succ fuel ih =>
    unfold primeLoop at H
    split at H
    · obtain ⟨⟨newO, hm⟩, hstep, H⟩ := (bind_ok _ _ _).mp H
      have hext := oneStep_ext f o p newO hm hdeg ho hdet hst hp hstep
      simp only at H
      split at H
      · cases H
      · rename_i hle
        split at H
        · rename_i h0
          simp only [pure, Except.pure, Except.ok.injEq] at H
          subst H
          subst h0
          exact ⟨0, by omega, hext⟩
        · obtain ⟨k, hk, hext2⟩ := ih newO (e - 2 * hm) hext.rect hext.det hext.stored H
          refine ⟨hm + k, by omega, ?_⟩
          rw [pow_add]
          exact Ext.trans ho hext hext2
    · cases H
      exact ⟨0, by omega, by simpa using Ext.refl _ _ ho hdet hst⟩

/-- the fold of `find_integral_basis` over a list of (p, e) with p > 0 -/
theorem fold_ext (f : List Int) (hdeg : 0 < degU f) (fac : List (Nat × Nat)) (hfac : ∀ pe ∈ fac, 0 < pe.1)
    (o O : Order) (ho : Rect (degU f) (degU f) o) (hdet : (toM (degU f) (degU f) o).det ≠ 0)
    (hst : fromBasis o = .ok o)
    (H : fac.foldlM (fun o pe => primeLoop f (pe.1 : Int) (pe.2 + 1) o pe.2) o = .ok O) :
    ∃ i : Int, Ext (degU f) o O i ∧ i * i ∣ (NTV.Trial.prodOf fac : Int) := by
  induction fac generalizing o with
  | nil =>
    rw [List.foldlM_nil] at H
    cases H
    exact ⟨1, Ext.refl _ _ ho hdet hst, by simp⟩
  | cons pe rest ih =>
    rw [List.foldlM_cons] at H
    obtain ⟨o1, h1, H⟩ := (bind_ok _ _ _).mp H
    have hp : (0 : Int) < (pe.1 : Int) := by exact_mod_cast hfac pe (by simp)
    obtain ⟨k, hk, hext⟩ := primeLoop_ext f pe.1 hp hdeg _ o pe.2 o1 ho hdet hst h1
    obtain ⟨j, hext2, hj⟩ := ih (fun q hq => hfac q (by simp [hq])) o1 hext.rect hext.det hext.stored H
    refine ⟨(pe.1 : Int) ^ k * j, Ext.trans ho hext hext2, ?_⟩
    have hprod : (NTV.Trial.prodOf (pe :: rest) : Int) = (pe.1 : Int) ^ pe.2 * (NTV.Trial.prodOf rest : Int) := by
      simp [NTV.Trial.prodOf]
    rw [hprod]
    have : (pe.1 : Int) ^ k * j * ((pe.1 : Int) ^ k * j) = ((pe.1 : Int) ^ (2 * k)) * (j * j) := by ring
    rw [this]
    exact mul_dvd_mul (pow_dvd_pow _ hk) hj

end NTV.Round2
