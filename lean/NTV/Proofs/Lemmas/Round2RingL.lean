import NTV.Proofs.Lemmas.Round2RingJ
/-! Round 2, maximality through the loops of `find_integral_basis`: the loop for one prime ends either with a
`p`-maximal order or with fewer than two factors `p` left in the discriminant; later primes do not destroy
`p`-maximality (their indices are prime to `p`). Result: `find_integral_basis` returns an order that is
`p`-maximal at every prime `p` whose square divides its discriminant. -/
open Matrix Finset Polynomial
namespace NTV.Round2
open NTV.Ord NTV.PolyG NTV.R2Abs
open NTV.TableAbs (Ctx psi)
open NTV.RowOps (toM Rect ent)

variable {f : List Int} {n : Nat}

theorem GoodOrder.ext_refl {o : QMat} (g : GoodOrder f n o) : Ext n o o 1 :=
  Ext.refl n o g.setup.rect g.setup.det g.stored

/-- the loop for one prime -/
theorem primeLoop_max (P : ℕ) (hP : P.Prime) (fuel : Nat) (o : Order) (e : Nat) (o' : Order)
    (g : GoodOrder f n o) (H : primeLoop f (P : ℤ) fuel o e = .ok o') :
    ∃ k : ℕ, 2 * k ≤ e ∧ Ext n o o' ((P : ℤ) ^ k) ∧ GoodOrder f n o' ∧
      (PMaxK f n o' P ∨ e - 2 * k < 2) := by
  induction fuel generalizing o e with
  | zero =>
    unfold primeLoop at H
    split at H
    · cases H
    · cases H
      exact ⟨0, by omega, by simpa using g.ext_refl, g, Or.inr (by omega)⟩
  | succ fuel ih =>
    unfold primeLoop at H
    split at H
    · obtain ⟨⟨newO, hm⟩, hstep, H⟩ := (bind_ok _ _ _).mp H
      obtain ⟨g', ext⟩ := oneStep_good g P hP newO hm hstep
      simp only at H
      split at H
      · cases H
      · rename_i hle
        split at H
        · rename_i h0
          simp only [pure, Except.pure, Except.ok.injEq] at H
          subst H
          subst h0
          have hmax := oneStep_max g P hP newO hstep
          refine ⟨0, by omega, ext, g', Or.inl ?_⟩
          exact hmax.of_ext g ext (by simp)
        · obtain ⟨k, hk, ext2, g2, hd⟩ := ih newO (e - 2 * hm) g' H
          refine ⟨hm + k, by omega, ?_, g2, ?_⟩
          · rw [pow_add]; exact Ext.trans g.setup.rect ext ext2
          · rcases hd with hd | hd
            · exact Or.inl hd
            · exact Or.inr (by omega)
    · cases H
      exact ⟨0, by omega, by simpa using g.ext_refl, g, Or.inr (by omega)⟩

theorem natAbs_pow_mul (p k : ℕ) (j : ℤ) : ((p : ℤ) ^ k * j).natAbs = p ^ k * j.natAbs := by
  rw [Int.natAbs_mul, Int.natAbs_pow, Int.natAbs_natCast]

/-- the fold over the prime factors -/
theorem fold_max (fac : List (Nat × Nat)) (hfac : ∀ pe ∈ fac, pe.1.Prime)
    (hpw : fac.Pairwise (fun a b => a.1 ≠ b.1)) (o O : Order) (g : GoodOrder f n o)
    (H : fac.foldlM (fun o pe => primeLoop f (pe.1 : Int) (pe.2 + 1) o pe.2) o = .ok O) :
    ∃ i : ℤ, Ext n o O i ∧ GoodOrder f n O ∧
      (∀ l : ℕ, l.Prime → l ∣ i.natAbs → ∃ pe ∈ fac, pe.1 = l) ∧
      ∀ pe ∈ fac, ∃ (k : ℕ) (i' : ℤ), i = (pe.1 : ℤ) ^ k * i' ∧ Nat.Coprime i'.natAbs pe.1 ∧
        (PMaxK f n O pe.1 ∨ pe.2 - 2 * k < 2) := by
  induction fac generalizing o with
  | nil =>
    rw [List.foldlM_nil] at H
    cases H
    refine ⟨1, g.ext_refl, g, ?_, by simp⟩
    intro l hl hdvd
    simp at hdvd
    exact absurd hdvd hl.ne_one
  | cons pe rest ih =>
    rw [List.foldlM_cons] at H
    obtain ⟨o1, h1, H⟩ := (bind_ok _ _ _).mp H
    have hp := hfac pe (by simp)
    obtain ⟨k, _, ext1, g1, d1⟩ := primeLoop_max pe.1 hp _ o pe.2 o1 g h1
    obtain ⟨hhead, hpw'⟩ := List.pairwise_cons.mp hpw
    obtain ⟨j, ext2, gO, hsupp, hrest⟩ := ih (fun q hq => hfac q (by simp [hq])) hpw' o1 g1 H
    have hcopj : Nat.Coprime j.natAbs pe.1 := by
      rw [Nat.coprime_comm, Nat.Prime.coprime_iff_not_dvd hp]
      intro hdvd
      obtain ⟨pe', hpe', heq⟩ := hsupp pe.1 hp hdvd
      exact hhead pe' hpe' heq.symm
    refine ⟨(pe.1 : ℤ) ^ k * j, Ext.trans g.setup.rect ext1 ext2, gO, ?_, ?_⟩
    · intro l hl hdvd
      rw [natAbs_pow_mul] at hdvd
      rcases (Nat.Prime.dvd_mul hl).mp hdvd with h | h
      · have := (Nat.prime_dvd_prime_iff_eq hl hp).mp (hl.dvd_of_dvd_pow h)
        exact ⟨pe, by simp, this.symm⟩
      · obtain ⟨pe', hpe', heq⟩ := hsupp l hl h
        exact ⟨pe', by simp [hpe'], heq⟩
    · intro pe' hpe'
      rcases List.mem_cons.mp hpe' with rfl | hmem
      · refine ⟨k, j, rfl, hcopj, ?_⟩
        rcases d1 with d1 | d1
        · exact Or.inl (d1.of_ext g1 ext2 hcopj)
        · exact Or.inr d1
      · obtain ⟨k', j', hj, hcop', hd'⟩ := hrest pe' hmem
        have hq := hfac pe' (by simp [hmem])
        have hne : pe.1 ≠ pe'.1 := hhead pe' hmem
        refine ⟨k', (pe.1 : ℤ) ^ k * j', by rw [hj]; ring, ?_, hd'⟩
        rw [natAbs_pow_mul]
        exact Nat.Coprime.mul_left (Nat.Coprime.pow_left k ((Nat.coprime_primes hp hq).mpr hne)) hcop'

/-- a prime dividing `prodOf fac` is one of the listed primes -/
theorem prime_dvd_prodOf (fac : List (Nat × Nat)) (hfac : ∀ pe ∈ fac, pe.1.Prime) (l : ℕ) (hl : l.Prime)
    (h : l ∣ NTV.Trial.prodOf fac) : ∃ pe ∈ fac, pe.1 = l := by
  induction fac with
  | nil =>
    simp [NTV.Trial.prodOf] at h
    exact absurd h hl.ne_one
  | cons pe rest ih =>
    have e : NTV.Trial.prodOf (pe :: rest) = pe.1 ^ pe.2 * NTV.Trial.prodOf rest := by
      simp [NTV.Trial.prodOf]
    rw [e] at h
    rcases (Nat.Prime.dvd_mul hl).mp h with h | h
    · have := (Nat.prime_dvd_prime_iff_eq hl (hfac pe (by simp))).mp (hl.dvd_of_dvd_pow h)
      exact ⟨pe, by simp, this.symm⟩
    · obtain ⟨pe', hpe', heq⟩ := ih (fun q hq => hfac q (by simp [hq])) h
      exact ⟨pe', by simp [hpe'], heq⟩

/-- the `p`-part of `prodOf fac` for pairwise distinct primes -/
theorem prodOf_split (fac : List (Nat × Nat)) (hfac : ∀ pe ∈ fac, pe.1.Prime)
    (hpw : fac.Pairwise (fun a b => a.1 ≠ b.1)) (pe : Nat × Nat) (hpe : pe ∈ fac) :
    ∃ R : ℕ, NTV.Trial.prodOf fac = pe.1 ^ pe.2 * R ∧ Nat.Coprime R pe.1 := by
  induction fac with
  | nil => simp at hpe
  | cons a rest ih =>
    have e : NTV.Trial.prodOf (a :: rest) = a.1 ^ a.2 * NTV.Trial.prodOf rest := by
      simp [NTV.Trial.prodOf]
    obtain ⟨hhead, hpw'⟩ := List.pairwise_cons.mp hpw
    rcases List.mem_cons.mp hpe with rfl | hmem
    · refine ⟨NTV.Trial.prodOf rest, e, ?_⟩
      have hp := hfac pe (by simp)
      rw [Nat.coprime_comm, Nat.Prime.coprime_iff_not_dvd hp]
      intro hdvd
      obtain ⟨pe', hpe', heq⟩ := prime_dvd_prodOf rest (fun q hq => hfac q (by simp [hq])) pe.1 hp hdvd
      exact hhead pe' hpe' heq.symm
    · obtain ⟨R, hR, hcop⟩ := ih (fun q hq => hfac q (by simp [hq])) hpw' hmem
      refine ⟨a.1 ^ a.2 * R, by rw [e, hR]; ring, ?_⟩
      have hne : a.1 ≠ pe.1 := hhead pe hmem
      exact Nat.Coprime.mul_left
        (Nat.Coprime.pow_left _ ((Nat.coprime_primes (hfac a (by simp)) (hfac pe (by simp [hmem]))).mpr hne)) hcop

/-- **maximality of the result** (partial: at the primes whose square divides the discriminant of the result):
`find_integral_basis` returns an order that is `p`-maximal at every prime `p` with `p² ∣ disc(O)` -/
theorem findIntegralBasis_max (f : List Int) (hf : Canon f) (O : Order)
    (H : findIntegralBasis f = .ok O) (p : ℕ) (hp : p.Prime) (dO : ℤ)
    (hdO : discriminantOrd O f = .ok dO) (hdvd : (p : ℤ) ^ 2 ∣ dO) : PMaxK f (degU f) O p := by
  unfold findIntegralBasis at H
  obtain ⟨S, hS, H⟩ := (bind_ok _ _ _).mp H
  obtain ⟨dS, hdS, H⟩ := (bind_ok _ _ _).mp H
  split at H
  · cases H
  · rename_i hd0
    have g := start_goodOrder f hf S dS hS hdS hd0
    have hfacc := NTV.Trial.factorize_correct dS.natAbs (by omega)
    have hprimes : ∀ pe ∈ NTV.Trial.factorize dS.natAbs, pe.1.Prime := fun pe hpe => (hfacc.2.1 pe hpe).1
    have hpw : (NTV.Trial.factorize dS.natAbs).Pairwise (fun a b => a.1 ≠ b.1) :=
      hfacc.2.2.imp (fun h => Nat.ne_of_lt h)
    obtain ⟨i, ext, gO, _, hall⟩ := fold_max _ hprimes hpw S O g H
    have hdisc := disc_of_ext' g.setup.rect ext f dO hdO
    rw [hdS] at hdisc
    injection hdisc with hdisc
    -- p divides dS, hence is one of the primes of the factorisation
    have hpS : p ∣ dS.natAbs := by
      have : (p : ℤ) ∣ dS := by
        rw [hdisc]
        exact Dvd.dvd.mul_left (dvd_trans (dvd_pow_self _ (by norm_num)) hdvd) _
      exact Int.natCast_dvd.mp this
    rw [hfacc.1] at hpS
    obtain ⟨pe, hpe, rfl⟩ := prime_dvd_prodOf _ hprimes p hp hpS
    obtain ⟨k, i', hi, hcop, hd⟩ := hall pe hpe
    rcases hd with hd | hd
    · exact hd
    · exfalso
      obtain ⟨R, hR, hcopR⟩ := prodOf_split _ hprimes hpw pe hpe
      -- p^(2k+2) divides dS
      have h1 : (pe.1 : ℤ) ^ (2 * k + 2) ∣ dS := by
        obtain ⟨c, hc⟩ := hdvd
        rw [hdisc, hi, hc]
        exact ⟨i' * i' * c, by ring⟩
      have h2 : pe.1 ^ (2 * k + 2) ∣ dS.natAbs := by
        have := Int.natAbs_dvd_natAbs.mpr h1
        rwa [Int.natAbs_pow, Int.natAbs_natCast] at this
      rw [hfacc.1, hR] at h2
      have h3 : pe.1 ^ (2 * k + 2) ∣ pe.1 ^ pe.2 :=
        Nat.Coprime.dvd_of_dvd_mul_right (Nat.Coprime.pow_left _ (Nat.coprime_comm.mp hcopR)) h2
      have h4 := (Nat.pow_dvd_pow_iff_le_right hp.one_lt).mp h3
      omega

end NTV.Round2
