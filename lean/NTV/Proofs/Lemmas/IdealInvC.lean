import NTV.Proofs.Lemmas.IdealInvB
import NTV.Proofs.Lemmas.IdealNormA
/-! # `Ideal::inv`, part C: the lattice computed by `inv`.

With `C = I · H` (H the numerator of the inverse different, denominator d), `a·e_0 ∈ L(I)`, `a ≠ 0`, and
`M = Tr · Cᵀ` (the matrix `tc` of the routine): `M` is non-singular, the integer quotient `(a·d) · M⁻¹` exists, and
its row lattice is the colon lattice `{v | v ⋆ L(I) ⊆ a·ℤⁿ}`, which is also the `a·d`-dual of `L(C)` under the trace
form. -/
open Matrix
namespace NTV.IdealInv
open NTV.IdealP NTV.Hnf NTV.Ord Finset
open NTV.InvDiff (traceMatrix)

variable {t : Table} {n : Nat} {d : ℤ} {H : Mat}

/-- `{c | q ∣ Tr(v·c)}` as a lattice -/
def dvdSub (t : Table) (n : Nat) (q : ℤ) (v : Fin n → ℤ) : Submodule ℤ (Fin n → ℤ) where
  carrier := {c | q ∣ trForm t n v c}
  add_mem' := by
    intro a b ha hb
    show q ∣ trForm t n v (a + b)
    rw [trForm_add_right]; exact dvd_add ha hb
  zero_mem' := by
    show q ∣ trForm t n v 0
    rw [trForm_zero_right]; exact dvd_zero _
  smul_mem' := by
    intro c x hx
    show q ∣ trForm t n v (c • x)
    rw [trForm_smul_right]; exact Dvd.dvd.mul_left hx c

theorem mem_dvdSub {q : ℤ} {v c : Fin n → ℤ} : c ∈ dvdSub t n q v ↔ q ∣ trForm t n v c := Iff.rfl

/-- `Tr(y · (k·S)) = d · (k · y)` when `S · Tr = d · 1` -/
theorem trForm_rowS (T : TableRing t n) (S : Matrix (Fin n) (Fin n) ℤ)
    (hS : S * traceMatrix t n = d • (1 : Matrix (Fin n) (Fin n) ℤ)) (y k : Fin n → ℤ) :
    trForm t n y (k ᵥ* S) = d * (k ⬝ᵥ y) := by
  rw [trForm_comm T, trForm_eq_matrix, vecMul_vecMul, hS, vecMul_smul, vecMul_one, smul_dotProduct, smul_eq_mul]

theorem single_dot (i : Fin n) (y : Fin n → ℤ) : (Pi.single i 1 : Fin n → ℤ) ⬝ᵥ y = y i := by
  simp [single_dotProduct]

/-- an integer vector whose pairings with `L(I)·L(H)` are all divisible by `s·a·d` is divisible by `s` -/
theorem dvd_of_pairing (T : TableRing t n) (D : DualData t n d H) {L : Submodule ℤ (Fin n → ℤ)} {a : ℤ}
    (ha0 : a ≠ 0) (haL : a • e n ⟨0, T.pos⟩ ∈ L) (u : Fin n → ℤ) (s : ℤ)
    (h : ∀ c ∈ Submodule.map₂ (starB t n) L (Lat n H), s * (a * d) ∣ trForm t n u c) (i : Fin n) : s ∣ u i := by
  obtain ⟨S, hS, hH⟩ := D.ex
  have hk : (Pi.single i 1 : Fin n → ℤ) ᵥ* S ∈ Lat n H := (hH _).mpr ⟨_, rfl⟩
  have hc := h _ (Submodule.apply_mem_map₂ (starB t n) haL hk)
  rw [starB_apply, star_smul_left, T.one_star, trForm_smul_right, trForm_rowS T S hS, single_dot] at hc
  have hd0 : d ≠ 0 := ne_of_gt D.dpos
  have : s * (a * d) ∣ u i * (a * d) := by
    have e : a * (d * u i) = u i * (a * d) := by ring
    rwa [e] at hc
  exact (mul_dvd_mul_iff_right (mul_ne_zero ha0 hd0)).mp this

/-- the `a·d`-dual of `L(I)·L(H)` under the trace form is the colon lattice `(a·ℤⁿ : L(I))` -/
theorem pairing_iff_colon (T : TableRing t n) (D : DualData t n d H) (L : Submodule ℤ (Fin n → ℤ)) {a : ℤ}
    (v : Fin n → ℤ) :
    (∀ c ∈ Submodule.map₂ (starB t n) L (Lat n H), a * d ∣ trForm t n v c) ↔
      ∀ x ∈ L, ∃ y : Fin n → ℤ, star t n v x = a • y := by
  obtain ⟨S, hS, hH⟩ := D.ex
  have hd0 : d ≠ 0 := ne_of_gt D.dpos
  constructor
  · intro h x hx
    have : ∀ i : Fin n, a ∣ star t n v x i := by
      intro i
      have hk : (Pi.single i 1 : Fin n → ℤ) ᵥ* S ∈ Lat n H := (hH _).mpr ⟨_, rfl⟩
      have hc := h _ (Submodule.apply_mem_map₂ (starB t n) hx hk)
      rw [starB_apply, ← trForm_assoc T, trForm_rowS T S hS, single_dot, mul_comm a d] at hc
      exact (mul_dvd_mul_iff_left hd0).mp hc
    choose y hy using this
    exact ⟨y, funext fun i => by rw [hy i]; rfl⟩
  · intro h
    have : Submodule.map₂ (starB t n) L (Lat n H) ≤ dvdSub t n (a * d) v := by
      rw [Submodule.map₂_le]
      intro x hx w hw
      obtain ⟨y, hy⟩ := h x hx
      rw [mem_dvdSub, starB_apply, ← trForm_assoc T, hy, trForm_smul_left]
      apply mul_dvd_mul_left
      rw [trForm_comm T, trForm_eq_matrix]
      have hj := (D.mem_iff w).mp hw
      unfold dotProduct
      exact Finset.dvd_sum (fun j _ => Dvd.dvd.mul_right (hj j) _)
    exact fun c hc => this hc

/-- the pairing of `u` with the rows of `C` is `u · Tr · Cᵀ` -/
theorem vecMul_tc (C : Mat) (u : Fin n → ℤ) (j : Fin n) :
    (u ᵥ* (traceMatrix t n * (toM n n C)ᵀ)) j = trForm t n u (toM n n C j) := by
  rw [← vecMul_vecMul, vecMul_transpose, trForm_eq_matrix]
  show toM n n C j ⬝ᵥ (u ᵥ* traceMatrix t n) = _
  rw [dotProduct_comm]

/-- divisibility of the pairings with the rows of `C` is divisibility on the whole lattice -/
theorem forall_rows_iff {C : Mat} (hlen : C.length = n) (q : ℤ) (u : Fin n → ℤ) :
    (∀ j : Fin n, q ∣ trForm t n u (toM n n C j)) ↔ ∀ c ∈ Lat n C, q ∣ trForm t n u c := by
  constructor
  · intro h
    have : Lat n C ≤ dvdSub t n q u := by
      rw [Lat_le_iff]
      intro r hr
      obtain ⟨j, hj, rfl⟩ := List.mem_iff_getElem.mp hr
      have := h ⟨j, by omega⟩
      rw [toM_row] at this
      rw [mem_dvdSub]
      simpa [List.getD_eq_getElem?_getD, List.getElem?_eq_getElem hj] using this
    exact fun c hc => this hc
  · intro h j
    apply h
    rw [toM_row]
    have hj : j.val < C.length := by rw [hlen]; exact j.isLt
    have : C.getD j.val [] = C[j.val] := by simp [List.getD_eq_getElem?_getD, List.getElem?_eq_getElem hj]
    rw [this]
    exact row_mem_Lat (List.getElem_mem hj)

/-- **the lattice computed by `inv`** -/
theorem inv_lattice_core (T : TableRing t n) (D : DualData t n d H) {I C : Mat} {pvC : List Nat} {a : ℤ}
    (ha : 0 < a) (haI : a • e n ⟨0, T.pos⟩ ∈ Lat n I)
    (hC : Lat n C = Submodule.map₂ (starB t n) (Lat n I) (Lat n H)) (hWC : Wid n C) (hHC : IsHNF C n pvC) :
    C.length = n ∧ (traceMatrix t n * (toM n n C)ᵀ).det ≠ 0 ∧
    (∃ Dm : Matrix (Fin n) (Fin n) ℤ, Dm * (traceMatrix t n * (toM n n C)ᵀ) = (a * d) • (1 : Matrix (Fin n) (Fin n) ℤ)) ∧
    ∀ Dm : Matrix (Fin n) (Fin n) ℤ, Dm * (traceMatrix t n * (toM n n C)ᵀ) = (a * d) • (1 : Matrix (Fin n) (Fin n) ℤ) →
      ∀ v : Fin n → ℤ, ((∃ k : Fin n → ℤ, k ᵥ* Dm = v) ↔ ∀ c ∈ Lat n C, a * d ∣ trForm t n v c) ∧
        ((∃ k : Fin n → ℤ, k ᵥ* Dm = v) ↔ ∀ x ∈ Lat n I, ∃ y : Fin n → ℤ, star t n v x = a • y) := by
  have ha0 : a ≠ 0 := ne_of_gt ha
  have hd0 : d ≠ 0 := ne_of_gt D.dpos
  have hfull : C.length = n := by
    apply NTV.DecompP.full_rank hHC (a * d) (mul_ne_zero ha0 hd0)
    intro y
    have := Submodule.apply_mem_map₂ (starB t n) haI (D.smul_mem y)
    rw [starB_apply, star_smul_left, T.one_star, smul_smul, ← hC] at this
    exact this
  have hdetC : (toM n n C).det ≠ 0 := ne_of_gt (hnf_square T.pos hWC hHC hfull).2
  have hdetM : (traceMatrix t n * (toM n n C)ᵀ).det ≠ 0 := by
    rw [det_mul, det_transpose]
    exact mul_ne_zero D.det_trace_ne_zero hdetC
  have hex : ∃ Dm : Matrix (Fin n) (Fin n) ℤ,
      Dm * (traceMatrix t n * (toM n n C)ᵀ) = (a * d) • (1 : Matrix (Fin n) (Fin n) ℤ) := by
    apply exists_quotient_of_divisibility _ _ hdetM
    intro u s _ hdiv i
    apply dvd_of_pairing T D ha0 haI u s _ i
    rw [← hC]
    apply (forall_rows_iff hfull _ u).mp
    intro j
    rw [← vecMul_tc]
    exact hdiv j
  refine ⟨hfull, hdetM, hex, ?_⟩
  intro Dm hDm v
  have h1 : (∃ k : Fin n → ℤ, k ᵥ* Dm = v) ↔ ∀ c ∈ Lat n C, a * d ∣ trForm t n v c := by
    rw [rowspan_quotient_iff _ Dm (a * d) hdetM hDm v, ← forall_rows_iff hfull]
    simp only [vecMul_tc]
  refine ⟨h1, ?_⟩
  rw [h1, hC]
  exact pairing_iff_colon T D (Lat n I) v

end NTV.IdealInv
