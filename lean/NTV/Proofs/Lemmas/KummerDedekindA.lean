import Mathlib.RingTheory.AdjoinRoot
import Mathlib.LinearAlgebra.Matrix.Adjugate
import Mathlib.RingTheory.Ideal.Maps
import Mathlib.RingTheory.Ideal.Operations
import Mathlib.RingTheory.Ideal.Quotient.Operations
import Mathlib.Algebra.Polynomial.Div
import Mathlib.Data.ZMod.Basic
import Mathlib.Algebra.Field.ZMod
import Mathlib.Algebra.Polynomial.FieldDivision
import Mathlib.RingTheory.PrincipalIdealDomain
/-! # Kummer–Dedekind, part A: the abstract algebra (no list-level model).

`R` is a commutative ring which is, through `v`, the ℤ-module ℤⁿ (an order with a chosen ℤ-basis); `ϑ ∈ R`
is a root of the monic `F ∈ ℤ[X]` of degree `n`, the coordinates of `1, ϑ, …, ϑ^{n−1}` are the rows of the
integer matrix `M` (so `|det M| = (R : ℤ[ϑ])`), and the prime `p` does not divide `det M`.
Then `ℤ[X] → R/pR` is onto with kernel `(p, F)`, which gives a surjective ring homomorphism
`ρ : R → 𝔽_p[X]/(F̄)` with kernel `pR` and `ρ (h(ϑ)) = h̄`. -/
open Polynomial Matrix

namespace NTV.KD

variable {R : Type*} [CommRing R] {n : ℕ}

/-- the standing hypotheses -/
structure Ctx (p : ℕ) (v : R ≃ₗ[ℤ] (Fin n → ℤ)) (ϑ : R) (F : ℤ[X]) (M : Matrix (Fin n) (Fin n) ℤ) : Prop where
  pos : 0 < n
  monic : F.Monic
  deg : F.natDegree = n
  root : aeval ϑ F = 0
  pow : ∀ c : Fin n, v (ϑ ^ (c : ℕ)) = M c
  cop : IsCoprime M.det (p : ℤ)

variable {p : ℕ} {v : R ≃ₗ[ℤ] (Fin n → ℤ)} {ϑ : R} {F : ℤ[X]} {M : Matrix (Fin n) (Fin n) ℤ}

/-- coordinates of `h(ϑ)` for `deg h < n` -/
theorem Ctx.v_aeval (H : Ctx p v ϑ F M) (h : ℤ[X]) (hd : h.natDegree < n) :
    v (aeval ϑ h) = (fun c : Fin n => h.coeff c) ᵥ* M := by
  rw [aeval_eq_sum_range' hd, map_sum]
  funext j
  simp only [map_zsmul, Finset.sum_apply, Matrix.vecMul, dotProduct]
  rw [← Fin.sum_univ_eq_sum_range (fun i => (h.coeff i • v (ϑ ^ i)) j) n]
  refine Finset.sum_congr rfl (fun c _ => ?_)
  rw [H.pow c]
  simp

theorem Ctx.F_ne_one (H : Ctx p v ϑ F M) : F ≠ 1 := by
  intro h
  have := H.deg
  rw [h, natDegree_one] at this
  have := H.pos
  omega

theorem Ctx.aeval_mod (H : Ctx p v ϑ F M) (h : ℤ[X]) : aeval ϑ (h %ₘ F) = aeval ϑ h := by
  conv_rhs => rw [← modByMonic_add_div h F]
  rw [map_add, map_mul, H.root, zero_mul, add_zero]

/-- a polynomial all of whose coefficients are divisible by `p` takes a value in `pR` -/
theorem aeval_mem_of_map_eq_zero (ϑ : R) (k : ℤ[X]) (hk : k.map (Int.castRingHom (ZMod p)) = 0) :
    aeval ϑ k ∈ Ideal.span {(p : R)} := by
  rw [aeval_eq_sum_range]
  refine Ideal.sum_mem _ (fun i _ => ?_)
  have hc : (p : ℤ) ∣ k.coeff i := by
    have := congrArg (fun q => q.coeff i) hk
    simp only [coeff_map, eq_intCast, coeff_zero] at this
    exact (ZMod.intCast_zmod_eq_zero_iff_dvd _ _).mp this
  obtain ⟨m, hm⟩ := hc
  rw [hm, mul_smul]
  rw [Ideal.mem_span_singleton]
  refine ⟨m • ϑ ^ i, ?_⟩
  rw [natCast_zsmul, nsmul_eq_mul]

/-- **kernel.** `h(ϑ) ∈ pR` forces the remainder of `h` modulo `F` to vanish modulo `p` -/
theorem Ctx.coeff_dvd_of_mem (H : Ctx p v ϑ F M) (h : ℤ[X]) (hm : aeval ϑ h ∈ Ideal.span {(p : R)}) (c : ℕ) :
    (p : ℤ) ∣ (h %ₘ F).coeff c := by
  by_cases hc : c < n
  swap
  · rw [coeff_eq_zero_of_natDegree_lt]
    · exact dvd_zero _
    · have := natDegree_modByMonic_lt h H.monic H.F_ne_one
      rw [H.deg] at this
      omega
  rw [← H.aeval_mod, Ideal.mem_span_singleton] at hm
  obtain ⟨y, hy⟩ := hm
  have hlt : (h %ₘ F).natDegree < n := by
    have := natDegree_modByMonic_lt h H.monic H.F_ne_one
    rwa [H.deg] at this
  have h1 := H.v_aeval (h %ₘ F) hlt
  rw [hy] at h1
  have h2 : v ((p : R) * y) = (p : ℤ) • v y := by
    rw [← map_zsmul, natCast_zsmul, nsmul_eq_mul]
  rw [h2] at h1
  have h3 := congrArg (fun w => w ᵥ* M.adjugate) h1
  simp only [Matrix.vecMul_vecMul, Matrix.mul_adjugate, Matrix.vecMul_smul, Matrix.vecMul_one,
    Matrix.smul_vecMul] at h3
  have h4 := congrFun h3 ⟨c, hc⟩
  simp only [Pi.smul_apply, smul_eq_mul] at h4
  have h5 : (p : ℤ) ∣ M.det * (h %ₘ F).coeff c := ⟨_, h4.symm⟩
  exact H.cop.symm.dvd_of_dvd_mul_left h5

/-- **image.** every element of `R` is congruent modulo `pR` to some `h(ϑ)` -/
theorem Ctx.exists_aeval (H : Ctx p v ϑ F M) (x : R) :
    ∃ h : ℤ[X], x - aeval ϑ h ∈ Ideal.span {(p : R)} := by
  set a : Fin n → ℤ := v x ᵥ* M.adjugate with ha
  set h0 : ℤ[X] := ∑ c : Fin n, C (a c) * X ^ (c : ℕ) with hh0
  have h1 : aeval ϑ h0 = M.det • x := by
    apply v.injective
    rw [map_zsmul, hh0, map_sum, map_sum]
    have : ∀ c : Fin n, v (aeval ϑ (C (a c) * X ^ (c : ℕ))) = a c • M c := by
      intro c
      rw [map_mul, aeval_C, map_pow, aeval_X, ← H.pow c, ← map_zsmul]
      congr 1
      simp [zsmul_eq_mul]
    simp only [this]
    have h2 : a ᵥ* M = M.det • v x := by
      rw [ha, Matrix.vecMul_vecMul, Matrix.adjugate_mul, Matrix.vecMul_smul, Matrix.vecMul_one]
    rw [← h2]
    funext j
    simp [Matrix.vecMul, dotProduct, Finset.sum_apply]
  obtain ⟨u, k, huk⟩ := H.cop
  refine ⟨C u * h0, ?_⟩
  rw [map_mul, aeval_C, h1, Ideal.mem_span_singleton]
  refine ⟨k • x, ?_⟩
  have : (u * M.det + k * (p : ℤ)) • x = x := by rw [huk, one_smul]
  simp only [algebraMap_int_eq, eq_intCast, zsmul_eq_mul] at this ⊢
  simp only [Int.cast_add, Int.cast_mul, Int.cast_natCast] at this
  linear_combination (-1 : R) * this

/-! ### the homomorphism `ρ : R → 𝔽_p[X]/(F̄)` -/

/-- `𝔽_p[X]/(F̄)` -/
abbrev Amod (p : ℕ) (F : ℤ[X]) : Type := (ZMod p)[X] ⧸ Ideal.span {F.map (Int.castRingHom (ZMod p))}

/-- reduction of the coefficients modulo `p` -/
noncomputable abbrev red (p : ℕ) : ℤ[X] →+* (ZMod p)[X] := mapRingHom (Int.castRingHom (ZMod p))

/-- `ℤ[X] → 𝔽_p[X]/(F̄)` -/
noncomputable def piF (p : ℕ) (F : ℤ[X]) : ℤ[X] →+* Amod p F := (Ideal.Quotient.mk _).comp (red p)

/-- `ℤ[X] → R/pR`, `h ↦ h(ϑ)` -/
noncomputable def sigma (p : ℕ) (ϑ : R) : ℤ[X] →+* R ⧸ Ideal.span {(p : R)} :=
  (Ideal.Quotient.mk _).comp (aeval ϑ : ℤ[X] →ₐ[ℤ] R).toRingHom

theorem sigma_apply (ϑ : R) (h : ℤ[X]) : sigma p ϑ h = Ideal.Quotient.mk _ (aeval ϑ h) := rfl

theorem piF_apply (h : ℤ[X]) : piF p F h = Ideal.Quotient.mk _ (h.map (Int.castRingHom (ZMod p))) := rfl

theorem red_surjective (p : ℕ) : Function.Surjective (red p) :=
  Polynomial.map_surjective _ (ZMod.intCast_surjective)

theorem piF_surjective (p : ℕ) (F : ℤ[X]) : Function.Surjective (piF p F) :=
  Ideal.Quotient.mk_surjective.comp (red_surjective p)

theorem piF_eq_zero_iff (h : ℤ[X]) :
    piF p F h = 0 ↔ F.map (Int.castRingHom (ZMod p)) ∣ h.map (Int.castRingHom (ZMod p)) := by
  rw [piF_apply, Ideal.Quotient.eq_zero_iff_mem, Ideal.mem_span_singleton]

theorem Ctx.sigma_surjective (H : Ctx p v ϑ F M) : Function.Surjective (sigma p ϑ) := by
  intro y
  obtain ⟨x, rfl⟩ := Ideal.Quotient.mk_surjective y
  obtain ⟨h, hh⟩ := H.exists_aeval x
  refine ⟨h, ?_⟩
  rw [sigma_apply]
  symm
  rw [Ideal.Quotient.eq]
  exact hh

theorem Ctx.ker_sigma_le (H : Ctx p v ϑ F M) : RingHom.ker (sigma p ϑ) ≤ RingHom.ker (piF p F) := by
  intro h hh
  rw [RingHom.mem_ker, sigma_apply, Ideal.Quotient.eq_zero_iff_mem] at hh
  rw [RingHom.mem_ker, piF_eq_zero_iff]
  have h0 : (h %ₘ F).map (Int.castRingHom (ZMod p)) = 0 := by
    ext c
    rw [coeff_map, coeff_zero, eq_intCast]
    exact (ZMod.intCast_zmod_eq_zero_iff_dvd _ _).mpr (H.coeff_dvd_of_mem h hh c)
  conv_rhs => rw [← modByMonic_add_div h F]
  rw [Polynomial.map_add, h0, zero_add, Polynomial.map_mul]
  exact dvd_mul_right _ _

theorem Ctx.ker_piF_le (H : Ctx p v ϑ F M) : RingHom.ker (piF p F) ≤ RingHom.ker (sigma p ϑ) := by
  intro h hh
  rw [RingHom.mem_ker, piF_eq_zero_iff] at hh
  obtain ⟨q', hq'⟩ := hh
  obtain ⟨q, rfl⟩ := red_surjective p q'
  rw [RingHom.mem_ker, sigma_apply, Ideal.Quotient.eq_zero_iff_mem]
  have hk : (h - F * q).map (Int.castRingHom (ZMod p)) = 0 := by
    rw [Polynomial.map_sub, Polynomial.map_mul, hq']
    simp [red]
  have := aeval_mem_of_map_eq_zero (p := p) ϑ (h - F * q) hk
  rwa [map_sub, map_mul, H.root, zero_mul, sub_zero] at this

/-- **the reduction homomorphism** `ρ : R → 𝔽_p[X]/(F̄)` -/
noncomputable def Ctx.rho (H : Ctx p v ϑ F M) : R →+* Amod p F :=
  ((sigma p ϑ).liftOfSurjective H.sigma_surjective ⟨piF p F, H.ker_sigma_le⟩).comp (Ideal.Quotient.mk _)

/-- `ρ (h(ϑ)) = h̄` -/
theorem Ctx.rho_aeval (H : Ctx p v ϑ F M) (h : ℤ[X]) : H.rho (aeval ϑ h) = piF p F h := by
  have := RingHom.liftOfSurjective_comp_apply (sigma p ϑ) H.sigma_surjective ⟨piF p F, H.ker_sigma_le⟩ h
  exact this

theorem Ctx.rho_surjective (H : Ctx p v ϑ F M) : Function.Surjective H.rho := by
  intro a
  obtain ⟨h, rfl⟩ := piF_surjective p F a
  exact ⟨aeval ϑ h, H.rho_aeval h⟩

/-- every element is, modulo `pR`, a polynomial in `ϑ`; `ρ` reads that polynomial modulo `p` -/
theorem Ctx.exists_rho_eq (H : Ctx p v ϑ F M) (x : R) :
    ∃ h : ℤ[X], x - aeval ϑ h ∈ Ideal.span {(p : R)} ∧ H.rho x = piF p F h := by
  obtain ⟨h, hh⟩ := H.exists_aeval x
  refine ⟨h, hh, ?_⟩
  rw [← H.rho_aeval]
  have : Ideal.Quotient.mk (Ideal.span {(p : R)}) x = Ideal.Quotient.mk _ (aeval ϑ h) := by
    rw [Ideal.Quotient.eq]; exact hh
  show ((sigma p ϑ).liftOfSurjective H.sigma_surjective ⟨piF p F, H.ker_sigma_le⟩) (Ideal.Quotient.mk _ x) =
    ((sigma p ϑ).liftOfSurjective H.sigma_surjective ⟨piF p F, H.ker_sigma_le⟩) (Ideal.Quotient.mk _ (aeval ϑ h))
  rw [this]

/-- the kernel of `ρ` is `pR` -/
theorem Ctx.ker_rho (H : Ctx p v ϑ F M) : RingHom.ker H.rho = Ideal.span {(p : R)} := by
  apply le_antisymm
  · intro x hx
    obtain ⟨h, hh, hr⟩ := H.exists_rho_eq x
    rw [RingHom.mem_ker, hr] at hx
    have := H.ker_piF_le hx
    rw [RingHom.mem_ker, sigma_apply, Ideal.Quotient.eq_zero_iff_mem] at this
    have h2 := Ideal.add_mem _ hh this
    rwa [sub_add_cancel] at h2
  · rw [Ideal.span_le]
    intro x hx
    rw [Set.mem_singleton_iff] at hx
    subst hx
    rw [SetLike.mem_coe, RingHom.mem_ker]
    have : (p : R) = aeval ϑ (C (p : ℤ)) := by simp
    rw [this, H.rho_aeval, piF_eq_zero_iff]
    have : (C (p : ℤ) : ℤ[X]).map (Int.castRingHom (ZMod p)) = 0 := by simp
    rw [this]
    exact dvd_zero _

/-! ### the ideals `(p, g(ϑ))` -/

/-- `(p, g(ϑ))` -/
def Pof (p : ℕ) (ϑ : R) (g : ℤ[X]) : Ideal R := Ideal.span {(p : R), aeval ϑ g}

theorem p_mem_Pof (ϑ : R) (g : ℤ[X]) : (p : R) ∈ Pof p ϑ g := Ideal.subset_span (by simp)

theorem aeval_mem_Pof (ϑ : R) (g : ℤ[X]) : aeval ϑ g ∈ Pof p ϑ g := Ideal.subset_span (by simp)

theorem span_p_le_Pof (ϑ : R) (g : ℤ[X]) : Ideal.span {(p : R)} ≤ Pof p ϑ g := by
  rw [Ideal.span_le, Set.singleton_subset_iff]; exact p_mem_Pof ϑ g

theorem Ctx.rho_p (H : Ctx p v ϑ F M) : H.rho (p : R) = 0 := by
  rw [← RingHom.mem_ker, H.ker_rho]; exact Ideal.subset_span rfl

theorem Ctx.map_Pof (H : Ctx p v ϑ F M) (g : ℤ[X]) :
    Ideal.map H.rho (Pof p ϑ g) = Ideal.span {piF p F g} := by
  unfold Pof
  rw [Ideal.map_span]
  apply le_antisymm
  · rw [Ideal.span_le]
    rintro _ ⟨x, hx, rfl⟩
    rcases hx with rfl | hx
    · rw [H.rho_p]; exact Ideal.zero_mem _
    · rw [Set.mem_singleton_iff] at hx
      subst hx
      rw [H.rho_aeval]; exact Ideal.subset_span rfl
  · rw [Ideal.span_le, Set.singleton_subset_iff]
    apply Ideal.subset_span
    exact ⟨aeval ϑ g, by simp, H.rho_aeval g⟩

theorem Ctx.comap_span (H : Ctx p v ϑ F M) (g : ℤ[X]) :
    Ideal.comap H.rho (Ideal.span {piF p F g}) = Pof p ϑ g := by
  rw [← H.map_Pof, Ideal.comap_map_of_surjective _ H.rho_surjective]
  apply le_antisymm
  · apply sup_le le_rfl
    have : Ideal.comap H.rho ⊥ = RingHom.ker H.rho := rfl
    rw [this, H.ker_rho]
    exact span_p_le_Pof ϑ g
  · exact le_sup_left

/-- membership in `(p, g(ϑ))` is divisibility modulo `p`, for a divisor `ḡ` of `F̄` -/
theorem Ctx.mem_Pof_iff (H : Ctx p v ϑ F M) (g : ℤ[X])
    (hg : g.map (Int.castRingHom (ZMod p)) ∣ F.map (Int.castRingHom (ZMod p))) (x : R) (h : ℤ[X])
    (hx : H.rho x = piF p F h) :
    x ∈ Pof p ϑ g ↔ g.map (Int.castRingHom (ZMod p)) ∣ h.map (Int.castRingHom (ZMod p)) := by
  rw [← H.comap_span, Ideal.mem_comap, hx, Ideal.mem_span_singleton]
  constructor
  · rintro ⟨a, ha⟩
    obtain ⟨a', rfl⟩ := piF_surjective p F a
    rw [← map_mul, ← sub_eq_zero, ← map_sub, piF_eq_zero_iff] at ha
    rw [Polynomial.map_sub, Polynomial.map_mul] at ha
    have h1 := hg.trans ha
    have h2 : g.map (Int.castRingHom (ZMod p)) ∣ g.map (Int.castRingHom (ZMod p)) * a'.map (Int.castRingHom (ZMod p)) :=
      dvd_mul_right _ _
    have := dvd_add h1 h2
    rwa [sub_add_cancel] at this
  · rintro ⟨a', ha'⟩
    obtain ⟨a, rfl⟩ := red_surjective p a'
    refine ⟨piF p F a, ?_⟩
    rw [← map_mul, piF_apply, piF_apply, Polynomial.map_mul, ha']
    rfl

/-- `h(ϑ) ∈ (p, g(ϑ)) ⇔ ḡ ∣ h̄` -/
theorem Ctx.aeval_mem_Pof_iff (H : Ctx p v ϑ F M) (g : ℤ[X])
    (hg : g.map (Int.castRingHom (ZMod p)) ∣ F.map (Int.castRingHom (ZMod p))) (h : ℤ[X]) :
    aeval ϑ h ∈ Pof p ϑ g ↔ g.map (Int.castRingHom (ZMod p)) ∣ h.map (Int.castRingHom (ZMod p)) :=
  H.mem_Pof_iff g hg _ h (H.rho_aeval h)

/-- `h(ϑ) ∈ pR ⇔ F̄ ∣ h̄` -/
theorem Ctx.aeval_mem_span_p_iff (H : Ctx p v ϑ F M) (h : ℤ[X]) :
    aeval ϑ h ∈ Ideal.span {(p : R)} ↔ F.map (Int.castRingHom (ZMod p)) ∣ h.map (Int.castRingHom (ZMod p)) := by
  rw [← H.ker_rho, RingHom.mem_ker, H.rho_aeval, piF_eq_zero_iff]

/-! ### primality, residue field, norm -/

section prime
variable [hp : Fact p.Prime]

/-- `(p, g(ϑ))` is a maximal ideal when `ḡ` is an irreducible divisor of `F̄` -/
theorem Ctx.Pof_isMaximal (H : Ctx p v ϑ F M) (g : ℤ[X])
    (hg : g.map (Int.castRingHom (ZMod p)) ∣ F.map (Int.castRingHom (ZMod p)))
    (hirr : Irreducible (g.map (Int.castRingHom (ZMod p)))) : (Pof p ϑ g).IsMaximal := by
  rw [← H.comap_span]
  have hmax : (Ideal.span {g.map (Int.castRingHom (ZMod p))}).IsMaximal :=
    PrincipalIdealRing.isMaximal_of_irreducible hirr
  have : (Ideal.span {piF p F g}).IsMaximal := by
    have e : Ideal.span {piF p F g} = Ideal.map (Ideal.Quotient.mk (Ideal.span {F.map (Int.castRingHom (ZMod p))}))
        (Ideal.span {g.map (Int.castRingHom (ZMod p))}) := by
      rw [Ideal.map_span, Set.image_singleton]; rfl
    rw [e]
    rcases Ideal.map_eq_top_or_isMaximal_of_surjective _ Ideal.Quotient.mk_surjective hmax with h | h
    · exfalso
      have h2 := congrArg (Ideal.comap (Ideal.Quotient.mk (Ideal.span {F.map (Int.castRingHom (ZMod p))}))) h
      rw [Ideal.comap_map_of_surjective _ Ideal.Quotient.mk_surjective, Ideal.comap_top] at h2
      have h3 : Ideal.comap (Ideal.Quotient.mk (Ideal.span {F.map (Int.castRingHom (ZMod p))})) ⊥ ≤
          Ideal.span {g.map (Int.castRingHom (ZMod p))} := by
        intro y hy
        rw [Ideal.mem_comap, Ideal.mem_bot, Ideal.Quotient.eq_zero_iff_mem, Ideal.mem_span_singleton] at hy
        rw [Ideal.mem_span_singleton]
        exact hg.trans hy
      rw [sup_eq_left.mpr h3] at h2
      exact hmax.ne_top h2
    · exact h
  exact Ideal.comap_isMaximal_of_surjective _ H.rho_surjective

theorem span_le_of_dvd {q q' : (ZMod p)[X]} (h : q ∣ q') : Ideal.span {q'} ≤ Ideal.span {q} := by
  rw [Ideal.span_le, Set.singleton_subset_iff, SetLike.mem_coe, Ideal.mem_span_singleton]; exact h

/-- `R → 𝔽_p[X]/(ḡ)` for a divisor `ḡ` of `F̄` -/
noncomputable def Ctx.kappa (H : Ctx p v ϑ F M) (g : ℤ[X])
    (hg : g.map (Int.castRingHom (ZMod p)) ∣ F.map (Int.castRingHom (ZMod p))) :
    R →+* (ZMod p)[X] ⧸ Ideal.span {g.map (Int.castRingHom (ZMod p))} :=
  (Ideal.Quotient.factor (span_le_of_dvd hg)).comp H.rho

theorem Ctx.kappa_surjective (H : Ctx p v ϑ F M) (g : ℤ[X])
    (hg : g.map (Int.castRingHom (ZMod p)) ∣ F.map (Int.castRingHom (ZMod p))) :
    Function.Surjective (H.kappa g hg) :=
  (Ideal.Quotient.factor_surjective (span_le_of_dvd hg)).comp H.rho_surjective

theorem Ctx.ker_kappa (H : Ctx p v ϑ F M) (g : ℤ[X])
    (hg : g.map (Int.castRingHom (ZMod p)) ∣ F.map (Int.castRingHom (ZMod p))) :
    RingHom.ker (H.kappa g hg) = Pof p ϑ g := by
  ext x
  obtain ⟨h, _, hr⟩ := H.exists_rho_eq x
  rw [H.mem_Pof_iff g hg x h hr, RingHom.mem_ker]
  show Ideal.Quotient.factor (span_le_of_dvd hg) (H.rho x) = 0 ↔ _
  rw [hr, piF_apply, Ideal.Quotient.factor_mk, Ideal.Quotient.eq_zero_iff_mem, Ideal.mem_span_singleton]

/-- `R/(p, g(ϑ)) ≅ 𝔽_p[X]/(ḡ)` -/
noncomputable def Ctx.quotEquiv (H : Ctx p v ϑ F M) (g : ℤ[X])
    (hg : g.map (Int.castRingHom (ZMod p)) ∣ F.map (Int.castRingHom (ZMod p))) :
    (R ⧸ Pof p ϑ g) ≃+* (ZMod p)[X] ⧸ Ideal.span {g.map (Int.castRingHom (ZMod p))} :=
  (Ideal.quotEquivOfEq (H.ker_kappa g hg).symm).trans
    (RingHom.quotientKerEquivOfSurjective (H.kappa_surjective g hg))

/-- `𝔽_p[X]/(q)` has `p^{deg q}` elements for a monic `q` -/
theorem card_quot_monic (p : ℕ) [Fact p.Prime] (q : (ZMod p)[X]) (hq : q.Monic) :
    Nat.card ((ZMod p)[X] ⧸ Ideal.span {q}) = p ^ q.natDegree := by
  have e := (AdjoinRoot.powerBasis' hq).basis.equivFun
  have h1 : Nat.card ((ZMod p)[X] ⧸ Ideal.span {q}) = Nat.card (AdjoinRoot q) := rfl
  rw [h1, Nat.card_congr e.toEquiv, Nat.card_fun, Nat.card_zmod, Nat.card_fin, AdjoinRoot.powerBasis'_dim]

/-- **norm.** `[R : (p, g(ϑ))] = p^{deg g}` for `g` monic modulo `p` dividing `F̄` -/
theorem Ctx.card_quot_Pof (H : Ctx p v ϑ F M) (g : ℤ[X])
    (hg : g.map (Int.castRingHom (ZMod p)) ∣ F.map (Int.castRingHom (ZMod p)))
    (hm : (g.map (Int.castRingHom (ZMod p))).Monic) :
    Nat.card (R ⧸ Pof p ϑ g) = p ^ (g.map (Int.castRingHom (ZMod p))).natDegree := by
  rw [Nat.card_congr (H.quotEquiv g hg).toEquiv, card_quot_monic p _ hm]

/-- `[R : pR] = pⁿ` -/
theorem Ctx.card_quot_p (H : Ctx p v ϑ F M) :
    Nat.card (R ⧸ Ideal.span {(p : R)}) = p ^ n := by
  have e : (R ⧸ Ideal.span {(p : R)}) ≃+* Amod p F :=
    (Ideal.quotEquivOfEq H.ker_rho.symm).trans (RingHom.quotientKerEquivOfSurjective H.rho_surjective)
  have hm : (F.map (Int.castRingHom (ZMod p))).Monic := H.monic.map _
  rw [Nat.card_congr e.toEquiv, card_quot_monic p _ hm, H.monic.natDegree_map, H.deg]

end prime

end NTV.KD
