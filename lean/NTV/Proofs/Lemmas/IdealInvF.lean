import NTV.Proofs.Lemmas.InvDiffD
import Mathlib.RingTheory.Discriminant
import Mathlib.FieldTheory.Perfect
/-! # `Ideal::inv`, part F: the trace form of an order of a number field ℚ[x]/(f), f irreducible, is
non-degenerate (the extension is separable), so `get_inv_diff` succeeds on its table. -/
open Polynomial Matrix
namespace NTV.Ord
open NTV.RowOps (toM Rect ent)
open NTV.PolyG
open NTV.Alg (modulus)
open NTV.TableAbs (Ctx)

variable {f : List Int} {basis : QMat} {n : Nat}

/-- for f irreducible over ℚ the trace matrix of the table of an order is non-singular -/
theorem Setup.det_traceMatrix_ne_zero (S : Setup f basis n) (t : Table) (ht : IsTable f basis n t)
    (hirr : Irreducible (modulus f)) : (NTV.InvDiff.traceMatrix t n).det ≠ 0 := by
  have : NeZero n := ⟨by have := S.pos; omega⟩
  have C' : Ctx (K := AdjoinRoot (modulus f)) (qK f) (omegaA f basis n) (tabT t n) := S.ctx t ht
  have h1 := S.traceMatrix_eq t ht
  let alg : Algebra ℚ (AdjoinRoot (modulus f)) := inferInstance
  have hfd : FiniteDimensional ℚ (AdjoinRoot (modulus f)) :=
    Module.finite_of_finrank_pos (by rw [S.finrank]; exact S.pos)
  let b := C'.basis S.finrank
  have h3 : (⇑b : Fin n → AdjoinRoot (modulus f)) = omegaA f basis n :=
    funext (C'.basis_apply S.finrank)
  have hF : Fact (Irreducible (modulus f)) := ⟨hirr⟩
  have hsep : Algebra.IsSeparable ℚ (AdjoinRoot (modulus f)) := inferInstance
  have h2 := Algebra.discr_not_zero_of_basis ℚ b
  rw [Algebra.discr_def, h3, h1] at h2
  intro h0
  apply h2
  have : ((NTV.InvDiff.traceMatrix t n).map (Int.castRingHom ℚ)).det
      = (((NTV.InvDiff.traceMatrix t n).det : ℤ) : ℚ) := ((Int.castRingHom ℚ).map_det _).symm
  rw [this, h0]
  simp

end NTV.Ord
