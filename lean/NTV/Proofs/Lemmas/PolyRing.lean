import NTV.Model.Polynomial
import NTV.Proofs.Lemmas.ResRatProofs
import Mathlib.Algebra.Polynomial.Derivative
import Mathlib.Algebra.Polynomial.Eval.Defs
open Polynomial
namespace NTV.PolyG
section
variable {R : Type} [CommRing R] [DecidableEq R]

theorem canon_nil : Canon ([] : List R) := fun h => absurd rfl h

theorem toPoly_neg (a : List R) : toPoly (neg a) = - toPoly a := by
  induction a with
  | nil => simp [neg, toPoly]
  | cons x xs ih =>
    simp only [neg, List.map_cons, toPoly] at ih ⊢
    rw [ih]; simp only [C_neg]; ring

theorem isEmpty_toPoly {a : List R} (h : a.isEmpty = true) : toPoly a = 0 := by
  cases a <;> simp_all [toPoly]

theorem toPoly_add (a b : List R) : toPoly (add a b) = toPoly a + toPoly b := by
  unfold add
  split
  · rename_i h; simp [isEmpty_toPoly h]
  · split
    · rename_i h; simp [isEmpty_toPoly h]
    · rw [toPoly_fromRaw, toPoly_addRaw]

theorem toPoly_sub (a b : List R) : toPoly (sub a b) = toPoly a - toPoly b := by
  unfold sub
  split
  · rename_i h; simp [isEmpty_toPoly h, toPoly_neg]
  · split
    · rename_i h; simp [isEmpty_toPoly h]
    · rw [toPoly_fromRaw, toPoly_subRaw]

theorem toPoly_mul (a b : List R) : toPoly (mul a b) = toPoly a * toPoly b := by
  unfold mul
  split
  · rename_i h
    simp only [Bool.or_eq_true] at h
    rcases h with h | h <;> simp [isEmpty_toPoly h, toPoly]
  · rw [toPoly_fromRaw, toPoly_mulRaw]

theorem canon_neg [NoZeroDivisors R] (a : List R) (ha : Canon a) : Canon (neg a) := by
  intro h
  have hne : a ≠ [] := by intro e; apply h; simp [neg, e]
  have : (neg a).getLast h = -(a.getLast hne) := by
    simp only [neg]; rw [List.getLast_map]
  rw [this]; simpa using ha hne

theorem canon_add (a b : List R) (ha : Canon a) (hb : Canon b) : Canon (add a b) := by
  unfold add; split
  · exact hb
  · split
    · exact ha
    · exact canon_fromRaw _

theorem canon_sub [NoZeroDivisors R] (a b : List R) (ha : Canon a) (hb : Canon b) : Canon (sub a b) := by
  unfold sub; split
  · exact canon_neg b hb
  · split
    · exact ha
    · exact canon_fromRaw _

theorem canon_mul (a b : List R) : Canon (mul a b) := by
  unfold mul; split
  · exact canon_nil
  · exact canon_fromRaw _

/-- canonical lists are determined by the polynomial they denote -/
theorem toPoly_inj (a b : List R) (ha : Canon a) (hb : Canon b) (h : toPoly a = toPoly b) : a = b := by
  have hcoef : ∀ i, a.getD i 0 = b.getD i 0 := by
    intro i; rw [← coeff_toPoly, ← coeff_toPoly, h]
  have hlen : a.length = b.length := by
    by_cases hae : a = []
    · by_cases hbe : b = []
      · rw [hae, hbe]
      · exfalso
        have := (natDegree_toPoly b hbe hb).2.2
        rw [← h, hae] at this; exact this rfl
    · by_cases hbe : b = []
      · exfalso
        have := (natDegree_toPoly a hae ha).2.2
        rw [h, hbe] at this; exact this rfl
      · have h1 := (natDegree_toPoly a hae ha).1
        have h2 := (natDegree_toPoly b hbe hb).1
        rw [h] at h1
        have p1 : 0 < a.length := List.length_pos_of_ne_nil hae
        have p2 : 0 < b.length := List.length_pos_of_ne_nil hbe
        omega
  apply List.ext_getElem hlen
  intro i h1 h2
  have := hcoef i
  simp only [List.getD_eq_getElem?_getD, List.getElem?_eq_getElem h1, List.getElem?_eq_getElem h2,
    Option.getD_some] at this
  exact this

theorem eval_eq (a : List R) (x : R) : eval a x = (toPoly a).eval x := by
  induction a with
  | nil => simp [eval, toPoly]
  | cons c cs ih =>
    simp only [eval, List.foldr_cons, toPoly] at ih ⊢
    rw [ih]; simp; ring

end

theorem toPoly_derivAux (i : Nat) (cs : List Int) :
    toPoly (derivAux i cs) = C (i : Int) * toPoly cs + X * derivative (toPoly cs) := by
  induction cs generalizing i with
  | nil => simp [derivAux, toPoly]
  | cons c cs ih =>
    simp only [derivAux, toPoly, ih]
    simp only [derivative_add, derivative_C, derivative_mul, derivative_X, C_mul, Nat.cast_add, Nat.cast_one,
      C_add, C_1]
    ring

theorem toPoly_differential (a : List Int) : toPoly (differential a) = derivative (toPoly a) := by
  cases a with
  | nil => simp [differential, toPoly]
  | cons c cs =>
    simp only [differential, toPoly_fromRaw, toPoly_derivAux, toPoly]
    simp only [derivative_add, derivative_C, derivative_mul, derivative_X, Nat.cast_one, C_1]
    ring

theorem canon_differential (a : List Int) : Canon (differential a) := by
  cases a with
  | nil => exact canon_nil
  | cons c cs => exact canon_fromRaw _

end NTV.PolyG
