import NTV.Proofs.Lemmas.Round2RingF
/-! Round 2: what the lattices of `one_step` mean in `K`. With `O = Olat`, `I = radQ O P (P^kk)` (the
`p`-radical): `ip` spans `I`, the `U_p` loop computes `U0 I P = {u ∈ I | u·I ⊆ p·I}`, the last normal form `u`
spans `U0 + pO`, and `{x | p·x ∈ el(lattice u)}` is the multiplier ring `{x | x·I ⊆ I}`. -/
open Matrix Finset
namespace NTV.Round2
open NTV.Ord NTV.PolyG NTV.R2Abs
open NTV.Hnf (InLattice)
open NTV.TableAbs (Ctx)

variable {K : Type*} [CommRing K] {n : ℕ} {q : ℚ →+* K} {Ω : Fin n → K} {T : Fin n → Fin n → Fin n → ℤ}

theorem pI_ideal {O : Subring K} {I : Set K} (hI : IdealIn O I) (P : ℕ) : IdealIn O (pI I P) where
  sub := by
    rintro _ ⟨y, hy, rfl⟩
    exact O.mul_mem (natCast_mem O P) (hI.sub y hy)
  zero := ⟨0, hI.zero, by simp⟩
  add := by
    rintro _ ⟨a, ha, rfl⟩ _ ⟨b, hb, rfl⟩
    exact ⟨a + b, hI.add a ha b hb, by ring⟩
  mul := by
    rintro a ha _ ⟨b, hb, rfl⟩
    exact ⟨a * b, hI.mul a ha b hb, by ring⟩

theorem vecZ_unit (n i : ℕ) (hi : i < n) [DecidableEq (Fin n)] :
    vecZ ((List.range n).map (fun j => if i = j then (1 : Int) else 0)) n = Pi.single (⟨i, hi⟩ : Fin n) 1 := by
  funext k
  simp only [vecZ, List.getD_eq_getElem?_getD, List.getElem?_map, List.getElem?_range k.isLt, Option.map_some,
    Option.getD_some, Pi.single_apply]
  by_cases h : i = k.val
  · rw [if_pos h, if_pos (Fin.ext h.symm)]
  · rw [if_neg h, if_neg (fun e => h (by rw [e]))]

/-- **the lattice `ip` is the `p`-radical** `I_p = {x ∈ O | x^(p^k) ∈ pO}` -/
theorem ip_lattice (h : Ctx q Ω T) (one : ∃ e : Fin n → ℤ, el q Ω e = 1) (hn : 0 < n) (P kk : ℕ)
    (hP : P.Prime) (t : Table) (ct : Cube3 n t) (hT : TableMod n t T P) (phiw K0 ip0 : IMat)
    (hphiw : tabulate n (fun i =>
      powModP ((List.range n).map (fun j => if i = j then 1 else 0)) ((P : ℤ) ^ kk) t (P : ℤ)) = .ok phiw)
    (hK : kernelM (phiw ++ scalarRows n (P : ℤ)) = .ok K0) (hip0 : hnfM K0 = .ok ip0) :
    ∃ r0, NTV.Hnf.Rect r0 n (ip0.map (fun row => row.take n)) ∧
      ∀ v : Fin n → ℤ, InLattice r0 n (ip0.map (fun row => row.take n)) v ↔
        el q Ω v ∈ radQ (Olat h one) P (P ^ kk) := by
  classical
  have rphiw := phiw_rect t (P : ℤ) ((P : ℤ) ^ kk) n ct.cube phiw hphiw
  obtain ⟨r0, rip, hlat⟩ := ip_lattice_int n hn (P : ℤ) phiw K0 ip0 rphiw hK hip0
  refine ⟨r0, rip, ?_⟩
  -- the rows of phiw are the Frobenius images of the Ω_i
  have hrows : ∀ i : Fin n, CongO (Olat h one) P (el q Ω (NTV.Hnf.toM n n phiw i)) (Ω i ^ P ^ kk) := by
    intro i
    obtain ⟨hl, hrow⟩ := tabulate_inv _ _ _ hphiw
    have hi : i.val < phiw.length := by rw [hl]; exact i.isLt
    have h1 := hrow i.val i.isLt hi
    have hpow1 : (1 : ℤ) ≤ (P : ℤ) ^ kk := by
      have : 0 < (P : ℤ) := by exact_mod_cast hP.pos
      have := pow_pos this kk
      omega
    obtain ⟨_, hc⟩ := powModP_el h one P (P : ℤ) (dvd_refl _) t ct hT _ _ ((P : ℤ) ^ kk) hpow1 (by simp) h1
    rw [vecZ_unit n i.val i.isLt, el_single] at hc
    have e1 : ((P : ℤ) ^ kk).toNat = P ^ kk := by
      rw [← Nat.cast_pow, Int.toNat_natCast]
    rw [e1] at hc
    rw [toM_row_eq_vecZ, getD_eq_getElem _ _ _ hi]
    exact hc
  intro v
  rw [hlat v, ← mem_pO_iff h one P]
  have hcong : CongO (Olat h one) P (el q Ω (v ᵥ* NTV.Hnf.toM n n phiw)) (el q Ω v ^ P ^ kk) := by
    rw [el_vecMul]
    refine CongO.trans ?_ (frob_el h one P kk hP (Omega_mem h one) v).symm
    apply CongO.sum
    intro i _
    exact CongO.mul_left _ (intCast_mem _ _) (hrows i)
  rw [hcong.mem_pO_iff]
  exact ⟨fun hx => ⟨el_mem_Olat h one v, hx⟩, fun hx => hx.2⟩

section UpStep
variable (h : Ctx q Ω T) (one : ∃ e : Fin n → ℤ, el q Ω e = 1) (P kk : ℕ) (hP : P.Prime)

include hP in
/-- facts about the `p`-radical used below -/
theorem radQ_facts :
    IdealIn (Olat h one) (radQ (Olat h one) P (P ^ kk)) ∧ (P : K) ∈ radQ (Olat h one) P (P ^ kk) ∧
    ∀ x ∈ pO (Olat h one) P, x ∈ radQ (Olat h one) P (P ^ kk) :=
  ⟨radQ_ideal _ P kk hP, p_mem_radQ _ P _ (Nat.one_le_pow _ _ hP.pos),
    fun _ hx => pO_sub_radQ _ P _ (Nat.one_le_pow _ _ hP.pos) hx⟩

include hP in
/-- **one iteration of the `U_p` loop**: the new lattice is `{v ∈ lattice(up) | η·v ∈ p·I}` -/
theorem upStep_lattice (hn : 0 < n) (t2 : Table) (ct2 : Cube3 n t2) (hT2 : TableMod n t2 T (P * P))
    (ip : IMat) (r0 : ℕ) (hr0 : 0 < r0) (hip : NTV.Hnf.Rect r0 n ip)
    (hipI : ∀ v : Fin n → ℤ, InLattice r0 n ip v ↔ el q Ω v ∈ radQ (Olat h one) P (P ^ kk))
    (up : IMat) (r : ℕ) (hup : NTV.Hnf.Rect r n up) (etai : List Int) (he : etai.length = n) (up' : IMat)
    (hstep : upStep n (P : ℤ) ((P : ℤ) * (P : ℤ)) t2 ip up etai = .ok up') :
    ∃ r', NTV.Hnf.Rect r' n up' ∧ ∀ v : Fin n → ℤ, InLattice r' n up' v ↔
      InLattice r n up v ∧ el q Ω (vecZ etai n) * el q Ω v ∈ pI (radQ (Olat h one) P (P ^ kk)) P := by
  obtain ⟨hI, hPI, hpOI⟩ := radQ_facts h one P kk hP
  have hpI := pI_ideal hI P
  obtain ⟨r', rup', hlat⟩ := upStep_lattice_int n hn (P : ℤ) ((P : ℤ) * (P : ℤ)) t2 ct2.cube ip up etai r0 r hr0
    hip hup he up' hstep
  refine ⟨r', rup', ?_⟩
  -- p²·O ⊆ p·I
  have hp2 : ∀ x ∈ pO (Olat h one) (P * P), x ∈ pI (radQ (Olat h one) P (P ^ kk)) P := by
    rintro _ ⟨y, hy, rfl⟩
    exact ⟨(P : K) * y, hpOI _ ⟨y, hy, rfl⟩, by push_cast; ring⟩
  -- the combination of the `top` rows is the product, modulo p²·O
  have hcong : ∀ c : Fin r → ℤ,
      CongO (Olat h one) (P * P)
        (el q Ω (c ᵥ* NTV.Hnf.toM r n (up.map (fun uj => mulModP etai uj t2 ((P : ℤ) * (P : ℤ))))))
        (el q Ω (vecZ etai n) * el q Ω (c ᵥ* NTV.Hnf.toM r n up)) := by
    intro c
    rw [el_vecMul, el_vecMul, Finset.mul_sum]
    apply CongO.sum
    intro j _
    rw [mul_left_comm]
    apply CongO.mul_left _ (intCast_mem _ _)
    have hj : j.val < up.length := by rw [hup.1]; exact j.isLt
    rw [toM_row_eq_vecZ, toM_row_eq_vecZ]
    have e : (up.map (fun uj => mulModP etai uj t2 ((P : ℤ) * (P : ℤ)))).getD j.val [] =
        mulModP etai (up.getD j.val []) t2 ((P : ℤ) * (P : ℤ)) := by
      simp [List.getD_eq_getElem?_getD, List.getElem?_eq_getElem hj]
    rw [e]
    exact mulModP_el h one (P * P) _ (by push_cast; exact dvd_refl _) etai _ t2 he
      (hup.row_length j.val j.isLt) ct2 hT2
  intro v
  rw [hlat v]
  constructor
  · rintro ⟨c, rfl, d, hd⟩
    refine ⟨⟨c, rfl⟩, ?_⟩
    -- el(c·top) ∈ p·I
    have h1 : el q Ω (c ᵥ* NTV.Hnf.toM r n (up.map (fun uj => mulModP etai uj t2 ((P : ℤ) * (P : ℤ)))))
        ∈ pI (radQ (Olat h one) P (P ^ kk)) P := by
      have e : c ᵥ* NTV.Hnf.toM r n (up.map (fun uj => mulModP etai uj t2 ((P : ℤ) * (P : ℤ)))) =
          (P : ℤ) • ((-d) ᵥ* NTV.Hnf.toM r0 n ip) := by
        rw [Matrix.neg_vecMul, smul_neg]
        exact eq_neg_of_add_eq_zero_left hd
      rw [e, el_zsmul]
      exact ⟨_, (hipI _).mp ⟨-d, rfl⟩, by simp⟩
    have h2 := hp2 _ (hcong c).symm
    have := hpI.add _ h1 _ h2
    convert this using 1
    ring
  · rintro ⟨⟨c, rfl⟩, hprod⟩
    refine ⟨c, rfl, ?_⟩
    have h2 := hp2 _ (hcong c)
    have h1 : el q Ω (c ᵥ* NTV.Hnf.toM r n (up.map (fun uj => mulModP etai uj t2 ((P : ℤ) * (P : ℤ)))))
        ∈ pI (radQ (Olat h one) P (P ^ kk)) P := by
      have := hpI.add _ hprod _ h2
      convert this using 1
      ring
    obtain ⟨y, hy, hyv⟩ := h1
    obtain ⟨y', rfl⟩ := hy.1
    obtain ⟨d', hd'⟩ := (hipI y').mpr hy
    have e : c ᵥ* NTV.Hnf.toM r n (up.map (fun uj => mulModP etai uj t2 ((P : ℤ) * (P : ℤ)))) = (P : ℤ) • y' := by
      apply h.el_inj
      rw [hyv, el_zsmul]; simp
    refine ⟨-d', ?_⟩
    rw [e, Matrix.neg_vecMul, hd', smul_neg, add_neg_cancel]

include hP in
/-- the whole `U_p` loop over a list of generators -/
theorem upFold_lattice (hn : 0 < n) (t2 : Table) (ct2 : Cube3 n t2) (hT2 : TableMod n t2 T (P * P))
    (ip : IMat) (r0 : ℕ) (hr0 : 0 < r0) (hip : NTV.Hnf.Rect r0 n ip)
    (hipI : ∀ v : Fin n → ℤ, InLattice r0 n ip v ↔ el q Ω v ∈ radQ (Olat h one) P (P ^ kk))
    (l : List (List Int)) (hl : ∀ η ∈ l, η.length = n) :
    ∀ (up : IMat) (r : ℕ) (Pred : (Fin n → ℤ) → Prop), NTV.Hnf.Rect r n up →
      (∀ v, InLattice r n up v ↔ Pred v) → ∀ up' : IMat,
      l.foldlM (fun up etai => upStep n (P : ℤ) ((P : ℤ) * (P : ℤ)) t2 ip up etai) up = .ok up' →
      ∃ r', NTV.Hnf.Rect r' n up' ∧ ∀ v : Fin n → ℤ, InLattice r' n up' v ↔
        Pred v ∧ ∀ η ∈ l, el q Ω (vecZ η n) * el q Ω v ∈ pI (radQ (Olat h one) P (P ^ kk)) P := by
  induction l with
  | nil =>
    intro up r Pred hup hlat up' hfold
    rw [List.foldlM_nil] at hfold
    cases hfold
    exact ⟨r, hup, fun v => by simp [hlat v]⟩
  | cons η rest ih =>
    intro up r Pred hup hlat up' hfold
    rw [List.foldlM_cons] at hfold
    obtain ⟨up1, h1, hfold⟩ := (bind_ok _ _ _).mp hfold
    obtain ⟨r1, rup1, hlat1⟩ := upStep_lattice h one P kk hP hn t2 ct2 hT2 ip r0 hr0 hip hipI up r hup η
      (hl η (by simp)) up1 h1
    obtain ⟨r', rup', hlat'⟩ := ih (fun x hx => hl x (by simp [hx])) up1 r1
      (fun v => Pred v ∧ el q Ω (vecZ η n) * el q Ω v ∈ pI (radQ (Olat h one) P (P ^ kk)) P) rup1
      (fun v => by rw [hlat1 v, hlat v]) up' hfold
    refine ⟨r', rup', ?_⟩
    intro v
    rw [hlat' v]
    constructor
    · rintro ⟨⟨h1, h2⟩, h3⟩
      refine ⟨h1, ?_⟩
      intro x hx
      rcases List.mem_cons.mp hx with rfl | hx
      · exact h2
      · exact h3 x hx
    · rintro ⟨h1, h2⟩
      exact ⟨⟨h1, h2 η (by simp)⟩, fun x hx => h2 x (by simp [hx])⟩

include hP in
/-- **the `U_p` loop computes** `U0 = {u ∈ I_p | u·I_p ⊆ p·I_p}` -/
theorem up_lattice (hn : 0 < n) (t2 : Table) (ct2 : Cube3 n t2) (hT2 : TableMod n t2 T (P * P))
    (ip : IMat) (r0 : ℕ) (hr0 : 0 < r0) (hip : NTV.Hnf.Rect r0 n ip)
    (hipI : ∀ v : Fin n → ℤ, InLattice r0 n ip v ↔ el q Ω v ∈ radQ (Olat h one) P (P ^ kk)) (up : IMat)
    (hfold : ip.foldlM (fun up etai => upStep n (P : ℤ) ((P : ℤ) * (P : ℤ)) t2 ip up etai) ip = .ok up) :
    ∃ r, NTV.Hnf.Rect r n up ∧ ∀ v : Fin n → ℤ, InLattice r n up v ↔
      el q Ω v ∈ U0 (radQ (Olat h one) P (P ^ kk)) P := by
  obtain ⟨hI, hPI, hpOI⟩ := radQ_facts h one P kk hP
  have hpI := pI_ideal hI P
  obtain ⟨r, rup, hlat⟩ := upFold_lattice h one P kk hP hn t2 ct2 hT2 ip r0 hr0 hip hipI ip hip.2 ip r0
    (fun v => el q Ω v ∈ radQ (Olat h one) P (P ^ kk)) hip hipI up hfold
  refine ⟨r, rup, ?_⟩
  intro v
  rw [hlat v]
  constructor
  · rintro ⟨hv, hη⟩
    refine ⟨hv, ?_⟩
    intro y hy
    obtain ⟨y', rfl⟩ := hy.1
    obtain ⟨d, rfl⟩ := (hipI y').mpr hy
    rw [el_vecMul, Finset.sum_mul]
    apply hpI.sum
    intro i _
    rw [mul_assoc]
    apply hpI.mul _ (intCast_mem _ _)
    rw [toM_row_eq_vecZ]
    apply hη
    have hi : i.val < ip.length := by rw [hip.1]; exact i.isLt
    rw [getD_eq_getElem _ _ _ hi]
    exact List.getElem_mem hi
  · rintro ⟨hv, hU⟩
    refine ⟨hv, ?_⟩
    intro η hη
    apply hU
    obtain ⟨i, hi, rfl⟩ := List.mem_iff_getElem.mp hη
    apply (hipI _).mp
    have : vecZ ip[i] n = NTV.Hnf.toM r0 n ip ⟨i, by rw [← hip.1]; exact hi⟩ := by
      rw [toM_row_eq_vecZ, getD_eq_getElem _ _ _ hi]
    rw [this]
    exact NTV.Hnf.InLattice.row _

include hP in
/-- **the last normal form**: `p·x ∈ el(lattice u)` iff `x` multiplies `I_p` into itself -/
theorem u_lattice (hn : 0 < n) (up u : IMat) (r : ℕ) (hup : NTV.Hnf.Rect r n up)
    (hupU : ∀ v : Fin n → ℤ, InLattice r n up v ↔ el q Ω v ∈ U0 (radQ (Olat h one) P (P ^ kk)) P)
    (hu : hnfM (up ++ scalarRows n (P : ℤ)) = .ok u) :
    ∃ ru, NTV.Hnf.Rect ru n u ∧ ∀ x : K,
      (∃ v : Fin n → ℤ, InLattice ru n u v ∧ (P : K) * x = el q Ω v) ↔
        x ∈ multR (radQ (Olat h one) P (P ^ kk)) := by
  obtain ⟨hI, hPI, hpOI⟩ := radQ_facts h one P kk hP
  obtain ⟨ru, rU, hlat⟩ := u_lattice_int n r hn (P : ℤ) up u hup hu
  refine ⟨ru, rU, ?_⟩
  intro x
  rw [← mem_multR_iff (Olat h one) _ hI P hPI (p_cancel q P hP.ne_zero) x]
  constructor
  · rintro ⟨v, hv, hx⟩
    obtain ⟨a, ha, d, rfl⟩ := (hlat v).mp hv
    refine ⟨el q Ω a, (hupU a).mp ha, el q Ω ((P : ℤ) • d), ?_, ?_⟩
    · rw [el_zsmul]; exact ⟨el q Ω d, el_mem_Olat h one d, by simp⟩
    · rw [hx, el_add]
  · rintro ⟨u0, hu0, w, ⟨w', hw', rfl⟩, hx⟩
    obtain ⟨a, rfl⟩ := hI.sub _ hu0.1
    obtain ⟨d, rfl⟩ := hw'
    refine ⟨a + (P : ℤ) • d, (hlat _).mpr ⟨a, (hupU a).mpr hu0, d, rfl⟩, ?_⟩
    rw [hx, el_add, el_zsmul]; simp

end UpStep

end NTV.Round2
