import NTV.Proofs.Lemmas.TableProofs
/-! Helper lemmas for C14 (second sentence): `mult_table.rs` (`mul`, `trace`, `norm`, `inv`) of the model
`NTV.Ord` expressed through the abstract setting `NTV.TableAbs`. -/
open Polynomial Matrix

namespace NTV.LinAlg
open NTV.RowOps (toM Rect)

theorem inv_rect (A B : QMat) (n : Nat) (hr : Rect n n A) (h : inv A = .ok B) : Rect n n B := by
  unfold inv at h
  rw [shapeOf_square hr] at h
  simp only at h
  split at h
  · rename_i b hb
    simp only [Except.ok.injEq] at h
    subst h
    exact invSquare_rect A b n hr hb
  · simp at h

end NTV.LinAlg

namespace NTV.Ord
open NTV.RowOps (toM Rect ent)
open NTV.PolyG
open NTV.Alg (Reduced modulus cls mul_cls cls_eq_iff)
open NTV.TableAbs (psi castV castM reg Ctx)

/-! ### sums -/

theorem foldl_add_range {A : Type} [AddCommMonoid A] (g : Nat → A) (n : Nat) (init : A) :
    (List.range n).foldl (fun s k => s + g k) init = init + ∑ k ∈ Finset.range n, g k := by
  induction n with
  | zero => simp
  | succ m ih => rw [List.range_succ, List.foldl_append, ih, Finset.sum_range_succ]; simp [add_assoc]

theorem foldl_add_range2 {A : Type} [AddCommMonoid A] (g : Nat → Nat → A) (n m : Nat) (init : A) :
    (List.range n).foldl (fun acc i => (List.range m).foldl (fun acc j => acc + g i j) acc) init
      = init + ∑ i ∈ Finset.range n, ∑ j ∈ Finset.range m, g i j := by
  induction n with
  | zero => simp
  | succ k ih =>
    rw [List.range_succ, List.foldl_append, ih, Finset.sum_range_succ]
    simp [foldl_add_range, add_assoc]

theorem sum_range_fin {A : Type} [AddCommMonoid A] (n : Nat) (g : Nat → A) :
    ∑ i ∈ Finset.range n, g i = ∑ i : Fin n, g i := (Fin.sum_univ_eq_sum_range g n).symm

/-! ### coordinate vectors -/

/-- a list of integers as a vector indexed by `Fin n` -/
def vecZ (a : List Int) (n : Nat) : Fin n → ℤ := fun i => a.getD i 0

/-- a list of rationals as a vector indexed by `Fin n` -/
def vecQ (x : List Rat) (n : Nat) : Fin n → ℚ := fun i => x.getD i 0

/-- the element `Σ_i x_i · ω_i` of ℚ[x]/(f), as a canonical expression -/
def comb (basis : QMat) (x : List Rat) : List Rat :=
  fromRaw ((List.range basis.length).map fun c =>
    ∑ i ∈ Finset.range basis.length, x.getD i 0 * ent basis i c)

/-- the element `Σ_i a_i · ω_i` for an integer coordinate vector -/
def elt (basis : QMat) (a : List Int) : List Rat := comb basis (a.map fun z => ((z : Int) : Rat))

variable {f : List Int} {basis : QMat} {n : Nat}

theorem vecQ_map_cast (a : List Int) : vecQ (a.map fun z => ((z : Int) : Rat)) n = castV (vecZ a n) := by
  funext i
  simp only [vecQ, castV, vecZ, List.getD_eq_getElem?_getD, List.getElem?_map]
  cases a[(i : Nat)]? <;> simp

theorem Setup.reduced_comb (S : Setup f basis n) (x : List Rat) : Reduced f (comb basis x) :=
  S.reduced_of_length (by simp [S.rect.1])

theorem Setup.cls_comb (S : Setup f basis n) (x : List Rat) :
    cls f (toPoly (comb basis x)) = psi (qK f) (omegaK f basis n) (vecQ x n) := by
  rw [psi_eq_cls]
  congr 1
  unfold comb
  rw [toPoly_fromRaw, S.rect.1]
  apply toPoly_comb S.rect _ _ (by simp)
  intro c hc
  simp only [List.getD_eq_getElem?_getD, List.getElem?_map, List.getElem?_range hc, Option.map_some,
    Option.getD_some]
  rw [sum_range_fin]
  rfl

/-- products of combinations are decided in the quotient ring -/
theorem Setup.mul_comb (S : Setup f basis n) (x y z : List Rat)
    (h : psi (qK f) (omegaK f basis n) (vecQ x n) * psi (qK f) (omegaK f basis n) (vecQ y n)
      = psi (qK f) (omegaK f basis n) (vecQ z n)) :
    NTV.Alg.mul f (comb basis x) (comb basis y) = .ok (comb basis z) := by
  obtain ⟨r, h1, h2, h3⟩ := mul_cls f S.canon S.two_le _ _ (S.reduced_comb x) (S.reduced_comb y)
  rw [h1]
  congr 1
  apply NTV.Alg.eq_of_reduced_of_cls_eq f S.canon S.two_le r _ h2 (S.reduced_comb z)
  rw [h3, S.cls_comb, S.cls_comb, S.cls_comb, h]

/-! ### `MultTable::mul` -/

/-- the coordinates computed by `MultTable::mul` -/
def tmulList (t : Table) (n : Nat) (a b : List Int) : List Int :=
  (List.range n).map fun k => ∑ i ∈ Finset.range n, ∑ j ∈ Finset.range n, a.getD i 0 * b.getD j 0 * tent t i j k

theorem tmul_eq (t : Table) (a b : List Int) (ht : t.length = n) (ha : a.length = n) (hb : b.length = n) :
    tmul t a b = .ok (tmulList t n a b) := by
  unfold tmul
  rw [if_neg (by rw [ha, hb]; simp), if_neg (by rw [ha, ht]; simp)]
  simp only [ha, tmulList, foldl_add_range2, zero_add]

theorem vecZ_tmulList (t : Table) (a b : List Int) :
    vecZ (tmulList t n a b) n = NTV.TableAbs.mulVec (tabT t n) (vecZ a n) (vecZ b n) := by
  funext k
  simp only [vecZ, tmulList, NTV.TableAbs.mulVec, tabT, List.getD_eq_getElem?_getD, List.getElem?_map,
    List.getElem?_range k.2, Option.map_some, Option.getD_some]
  rw [sum_range_fin]
  apply Finset.sum_congr rfl
  intro i _
  rw [sum_range_fin]

/-! ### the matrix of the multiplication by `a` -/

theorem regular_rect (t : Table) (a : List Int) (ht : t.length = n) : Rect n n (regular t a) := by
  refine ⟨by simp [regular, ht], ?_⟩
  intro r hr
  simp only [regular, List.mem_map] at hr
  obtain ⟨j, _, rfl⟩ := hr
  simp [ht]

theorem toM_regular (t : Table) (a : List Int) (ht : t.length = n) :
    toM n n (regular t a) = castM (reg (tabT t n) (vecZ a n)) := by
  ext j k
  show ent (regular t a) j k = _
  simp only [ent, regular, ht, foldl_add_range, zero_add, castM, reg, Matrix.map_apply, tabT, vecZ,
    List.getD_eq_getElem?_getD, List.getElem?_map, List.getElem?_range j.2, List.getElem?_range k.2,
    Option.map_some, Option.getD_some]
  rw [sum_range_fin]

/-! ### `MultTable::trace`, `MultTable::norm` -/

theorem ttrace_eq (t : Table) (a : List Int) (ht : t.length = n) (ha : n ≤ a.length) :
    ttrace t a = .ok (∑ i : Fin n, ∑ j : Fin n, vecZ a n i * tabT t n j i j) := by
  unfold ttrace
  simp only [ht]
  rw [if_neg (by omega)]
  simp only [foldl_add_range2, zero_add]
  congr 1
  rw [sum_range_fin]
  apply Finset.sum_congr rfl
  intro i _
  rw [sum_range_fin]
  rfl

theorem tnorm_eq (t : Table) (a : List Int) (ht : t.length = n) (ha : n ≤ a.length) :
    tnorm t a = .ok (reg (tabT t n) (vecZ a n)).det := by
  unfold tnorm
  rw [if_neg (by omega), NTV.LinAlg.determinant_eq _ n (regular_rect t a ht), toM_regular t a ht,
    NTV.TableAbs.det_castM]
  simp only [bind, Except.bind, pure, Except.pure, toInteger_intCast]

/-! ### `MultTable::inv` -/

/-- `tinv` after the evaluation of the norm and of the inverse matrix -/
theorem tinv_eq (t : Table) (a : List Int) (ht : t.length = n) (ha : n ≤ a.length) (hn : 1 ≤ n)
    (hdet : (reg (tabT t n) (vecZ a n)).det ≠ 0) :
    ∃ Minv : QMat, toM n n Minv * castM (reg (tabT t n) (vecZ a n)) = 1 ∧
      tinv t a = .ok ((List.range n).map (fun i =>
        toInteger (ent Minv 0 i * ((((reg (tabT t n) (vecZ a n)).det.natAbs : Int) : Rat)))),
        ((reg (tabT t n) (vecZ a n)).det.natAbs : Int)) := by
  have hrect := regular_rect t a ht
  cases hinv : NTV.LinAlg.inv (regular t a) with
  | error e =>
    exfalso
    have := (NTV.LinAlg.inv_err _ n hrect e hinv).2
    rw [toM_regular t a ht, NTV.TableAbs.det_castM] at this
    exact hdet (by exact_mod_cast this)
  | ok Minv =>
    have h1 := NTV.LinAlg.inv_ok _ Minv n hrect hinv
    have hr2 := NTV.LinAlg.inv_rect _ Minv n hrect hinv
    rw [toM_regular t a ht] at h1
    refine ⟨Minv, h1, ?_⟩
    unfold tinv
    rw [tnorm_eq t a ht ha, hinv]
    simp only [bind, Except.bind, pure, Except.pure, ht]
    have htab : tabulate n (fun i => (do
        let row0 ← idx Minv 0
        let e ← idx row0 i
        pure (toInteger (e * ((((reg (tabT t n) (vecZ a n)).det.natAbs : Int) : Rat)))) : M Int))
        = .ok ((List.range n).map (fun i =>
          toInteger (ent Minv 0 i * ((((reg (tabT t n) (vecZ a n)).det.natAbs : Int) : Rat))))) := by
      apply tabulate_ok
      intro i hi
      rw [idx_getD Minv 0 (by rw [hr2.1]; omega), ]
      simp only [bind, Except.bind]
      rw [idx_getD0 _ i (by rw [hr2.row_length 0 (by omega)]; exact hi)]
      rfl
    simp only [bind, Except.bind, pure, Except.pure] at htab
    rw [htab]

/-! ### closedness under multiplication -/

/-- the ℤ-span of the basis is closed under multiplication: every product ω_i ⋆ ω_j is an integral
combination of the basis vectors -/
def Closed (f : List Int) (basis : QMat) (n : Nat) : Prop :=
  ∀ i < n, ∀ j < n, ∃ (prod : List Rat) (z : Nat → Int),
    NTV.Alg.mul f (omega basis i) (omega basis j) = .ok prod ∧
    ∀ c < n, coefAt prod c = ∑ k ∈ Finset.range n, ((z k : Int) : Rat) * ent basis k c

theorem Setup.closed_iff (S : Setup f basis n) : Closed f basis n ↔ AllInt f basis n := by
  constructor
  · intro h i hi j hj k hk
    obtain ⟨prod, z, hp, hz⟩ := h i hi j hj
    have h1 := (S.mul_omega i j hi hj).1
    have : prod = prodOf f basis i j := by rw [h1] at hp; injection hp with hp; exact hp.symm
    subst this
    have h2 := (S.solve_coords i j).2.2
    have hv : (fun k : Fin n => (coordsOf f basis i j).getD k 0 - ((z k : Int) : Rat)) ᵥ* toM n n basis = 0 := by
      funext c
      simp only [Matrix.vecMul, dotProduct, Pi.zero_apply]
      have e1 := h2 c c.2
      have e2 := hz c c.2
      rw [sum_range_fin] at e1 e2
      have : ∀ k : Fin n, ((coordsOf f basis i j).getD k 0 - ((z k : Int) : Rat)) * toM n n basis k c
          = (coordsOf f basis i j).getD k 0 * ent basis k c - ((z k : Int) : Rat) * ent basis k c := by
        intro k; show _ * ent basis k c = _; ring
      simp only [this, Finset.sum_sub_distrib]
      rw [e1, ← e2, sub_self]
    have := congrFun (Matrix.eq_zero_of_vecMul_eq_zero S.det hv) ⟨k, hk⟩
    simp only [Pi.zero_apply] at this
    apply (isInteger_iff _).mpr
    exact ⟨z k, by linarith⟩
  · intro h i hi j hj
    obtain ⟨prod, hp, hc⟩ := (S.isTable_tableOf h).2.2 i hi j hj
    exact ⟨prod, fun k => tent (tableOf f basis n) i j k, hp, hc⟩

/-! ### the inverse -/

theorem list_eq_of_vecZ (l l' : List Int) (h1 : l.length = n) (h2 : l'.length = n)
    (h : vecZ l n = vecZ l' n) : l = l' := by
  apply List.ext_getElem (by rw [h1, h2])
  intro k hk hk'
  have := congrFun h ⟨k, by omega⟩
  simpa [vecZ, List.getD_eq_getElem?_getD, List.getElem?_eq_getElem hk, List.getElem?_eq_getElem hk'] using this

theorem castV_inj (u v : Fin n → ℤ) (h : castV u = castV v) : u = v := by
  funext i
  have := congrFun h i
  simp only [castV] at this
  exact_mod_cast this

theorem toPoly_unit_row (d : Rat) (m : Nat) : toPoly (d :: List.replicate m 0) = C d := by
  have := toPoly_replicate_append (R := Rat) m []
  simp only [List.append_nil] at this
  simp [toPoly, this]

theorem castV_unit (hn : 1 ≤ n) (d : Int) :
    castV (vecZ (d :: List.replicate (n - 1) 0) n) = (d : ℚ) • (Pi.single (⟨0, by omega⟩ : Fin n) 1) := by
  funext i
  simp only [castV, vecZ, Pi.smul_apply, smul_eq_mul, Pi.single_apply]
  by_cases hi : i = ⟨0, by omega⟩
  · subst hi; simp
  · have : (i : Nat) ≠ 0 := fun e => hi (Fin.ext e)
    obtain ⟨m, hm⟩ := Nat.exists_eq_succ_of_ne_zero this
    simp [hi, hm, List.getD_eq_getElem?_getD, List.getElem?_replicate]
    split <;> rfl

/-- `MultTable::inv`: under `ω_0 = 1` the routine returns `(b, d)` with `d = |norm a|`,
`a ⋆ b = d` both through the table and in ℚ[x]/(f) -/
theorem Setup.tinv_core (S : Setup f basis n) (t : Table) (ht : IsTable f basis n t) (a : List Int)
    (ha : a.length = n) (h0 : basis.getD 0 [] = 1 :: List.replicate (n - 1) 0)
    (hdet : (reg (tabT t n) (vecZ a n)).det ≠ 0) :
    ∃ b : List Int, tinv t a = .ok (b, ((reg (tabT t n) (vecZ a n)).det.natAbs : Int)) ∧ b.length = n ∧
      tmul t a b = .ok (((reg (tabT t n) (vecZ a n)).det.natAbs : Int) :: List.replicate (n - 1) 0) ∧
      NTV.Alg.mul f (elt basis a) (elt basis b)
        = .ok [((((reg (tabT t n) (vecZ a n)).det.natAbs : Int) : Int) : Rat)] := by
  classical
  have hn := S.pos
  obtain ⟨Minv, hM, hinv⟩ := tinv_eq t a ht.1 (by omega) hn hdet
  set N := (reg (tabT t n) (vecZ a n)).det with hN
  set d : Int := (N.natAbs : Int) with hd
  have hdN : d = N.sign * N := (Int.sign_mul_self_eq_natAbs N).symm
  have hd0 : d ≠ 0 := by rw [hd]; exact_mod_cast Int.natAbs_ne_zero.mpr hdet
  have C := S.ctx t ht
  set i0 : Fin n := ⟨0, by omega⟩ with hi0
  have hΩ : omegaK f basis n i0 = 1 := by
    unfold omegaK
    show cls f (toPoly (basis.getD 0 [])) = 1
    rw [h0, toPoly_unit_row]; simp
  set b : List Int := (List.range n).map (fun i => toInteger (ent Minv 0 i * ((d : Int) : Rat))) with hb
  have hbl : b.length = n := by simp [hb]
  -- the entries of b are exact
  have hbk : castV (vecZ b n) = ((d : Int) : ℚ) • (toM n n Minv i0) := by
    funext k
    have hadj := NTV.TableAbs.adjugate_of_left_inv (reg (tabT t n) (vecZ a n)) (toM n n Minv) hM i0 k
    have hval : ent Minv 0 k * ((d : Int) : Rat)
        = (((N.sign * (reg (tabT t n) (vecZ a n)).adjugate i0 k : Int)) : Rat) := by
      rw [hdN]
      push_cast
      rw [← hadj]
      show toM n n Minv i0 k * _ = _
      ring
    simp only [castV, vecZ, hb, List.getD_eq_getElem?_getD, List.getElem?_map, List.getElem?_range k.2,
      Option.map_some, Option.getD_some, Pi.smul_apply, smul_eq_mul]
    rw [hval, toInteger_intCast, ← hval]
    show _ = _ * ent Minv 0 k
    ring
  have hprod : psi (qK f) (omegaK f basis n) (castV (vecZ a n)) * psi (qK f) (omegaK f basis n) (castV (vecZ b n))
      = qK f ((d : Int) : ℚ) := by
    rw [hbk, NTV.TableAbs.psi_smul, mul_left_comm, C.inv_row (vecZ a n) (toM n n Minv) hM i0 hΩ, mul_one]
  have hunit : psi (qK f) (omegaK f basis n) (castV (vecZ (d :: List.replicate (n - 1) 0) n))
      = qK f ((d : Int) : ℚ) := by
    rw [castV_unit hn d, NTV.TableAbs.psi_smul, NTV.TableAbs.psi_single, hΩ, mul_one]
  refine ⟨b, hinv, hbl, ?_, ?_⟩
  · rw [tmul_eq t a b ht.1 ha hbl]
    congr 1
    apply list_eq_of_vecZ (n := n) _ _ (by simp [tmulList]) (by simp; omega)
    rw [vecZ_tmulList]
    apply castV_inj
    apply C.inj
    rw [← C.mul_agrees, hprod, hunit]
  · have hra := S.reduced_comb (a.map fun z => ((z : Int) : Rat))
    have hrb := S.reduced_comb (b.map fun z => ((z : Int) : Rat))
    obtain ⟨r, h1, h2, h3⟩ := mul_cls f S.canon S.two_le _ _ hra hrb
    unfold elt
    rw [h1]
    congr 1
    have hred : Reduced f [((d : Int) : Rat)] := by
      refine ⟨?_, by rw [S.len]; simp; omega⟩
      intro _
      simp only [List.getLast_singleton]
      exact_mod_cast hd0
    apply NTV.Alg.eq_of_reduced_of_cls_eq f S.canon S.two_le r _ h2 hred
    rw [h3, S.cls_comb, S.cls_comb, vecQ_map_cast, vecQ_map_cast, hprod]
    simp [qK, toPoly]

/-- for an irreducible `f` the quotient ring has no zero divisors -/
theorem noZeroDivisors_of_irreducible (hirr : Irreducible (modulus f)) :
    NoZeroDivisors (ℚ[X] ⧸ Ideal.span {modulus f}) := by
  have : (Ideal.span {modulus f}).IsPrime := (Ideal.span_singleton_prime hirr.ne_zero).mpr hirr.prime
  infer_instance

end NTV.Ord
