import NTV.Proofs.Lemmas.LinAlgProofs
import NTV.Proofs.Lemmas.LinAlgImgArith
/-! One iteration of the model of `subspace::image_mod_p` (Cohen 2.3.2): the entries of the new
working matrix, and the bookkeeping invariant (`InvA`: shapes, the pivot list, the count that the
final assertion compares). -/
namespace NTV.LinAlg
open NTV.RowOps (toM Rect)

/-- integer entry `a[i][j]` (0 outside) -/
abbrev entZ (a : IMat) (i j : Nat) : Int := NTV.RowOps.ent a i j

theorem getD_mapIdx_row (row : List Int) (g : Nat → Int → Int) (i : Nat) (hi : i < row.length) :
    (row.mapIdx g).getD i 0 = g i (row.getD i 0) := by
  simp [List.getD_eq_getElem?_getD, List.getElem?_mapIdx, List.getElem?_eq_getElem hi]

theorem getD_mapIdx_mat (a : IMat) (f : Nat → List Int → List Int) (s : Nat) (hs : s < a.length) :
    (a.mapIdx f).getD s [] = f s (a.getD s []) := by
  simp [List.getD_eq_getElem?_getD, List.getElem?_mapIdx, List.getElem?_eq_getElem hs]

/-- the working matrix after a pivot step at row `k`, column `j`, multiplier `dd` -/
def imgMat (p : Int) (k j : Nat) (dd : Int) (mat : IMat) : IMat :=
  mat.mapIdx (fun s row =>
    if s < k then row
    else if s = k then row.mapIdx (fun i _ => if i = j then p - 1 else 0)
    else
      let sj := Int.tmod (row.getD j 0 * dd) p
      row.mapIdx (fun i x => if i = j then sj else Int.tmod (sj * (mat.getD k []).getD i 0 + x) p))

theorem Rect_imgMat {n m : Nat} {mat : IMat} (hr : Rect n m mat) (p : Int) (k j : Nat) (dd : Int) :
    Rect n m (imgMat p k j dd mat) := by
  refine ⟨by unfold imgMat; rw [List.length_mapIdx]; exact hr.1, ?_⟩
  intro r hrm
  unfold imgMat at hrm
  obtain ⟨s, hs, rfl⟩ := List.mem_iff_getElem.mp hrm
  rw [List.getElem_mapIdx]
  have hs' : s < mat.length := by simpa using hs
  have hl := hr.2 _ (List.getElem_mem hs')
  split_ifs <;> simp [hl]

theorem ent_imgMat {n m : Nat} {mat : IMat} (hr : Rect n m mat) (p : Int) (k j : Nat) (dd : Int)
    (s i : Nat) (hs : s < n) (hi : i < m) :
    entZ (imgMat p k j dd mat) s i =
      if s < k then entZ mat s i
      else if s = k then (if i = j then p - 1 else 0)
      else if i = j then Int.tmod (entZ mat s j * dd) p
      else Int.tmod (Int.tmod (entZ mat s j * dd) p * entZ mat k i + entZ mat s i) p := by
  have hs' : s < mat.length := by rw [hr.1]; exact hs
  have hl : i < (mat.getD s []).length := by rw [hr.row_length s hs]; exact hi
  unfold entZ NTV.RowOps.ent imgMat
  rw [getD_mapIdx_mat _ _ _ hs']
  split_ifs <;> first | rfl | (rw [getD_mapIdx_row _ _ _ hl]; simp [*])

theorem imageStep_none {n m : Nat} {p : Int} {st : ImgSt} {k : Nat}
    (h : findFrom 0 m (fun j => (st.mat.getD k []).getD j 0 != 0 && st.c.getD j 0 == 0) = none) :
    imageStep n m p st k = .ok { st with r := st.r + 1 } := by
  unfold imageStep
  simp only [h]

theorem imageStep_some {n m : Nat} {p : Int} {st : ImgSt} {k j : Nat} (hp : p ≠ 0)
    (h : findFrom 0 m (fun j => (st.mat.getD k []).getD j 0 != 0 && st.c.getD j 0 == 0) = some j) :
    imageStep n m p st k = .ok { mat := imgMat p k j (p - modinv ((st.mat.getD k []).getD j 0) p) st.mat,
                                  c := st.c.set j (k + 1), r := st.r } := by
  unfold imageStep
  simp only [h]
  rw [if_neg (fun hc => hp hc.1)]
  rfl

/-! ### bookkeeping invariant -/

structure InvA (n m k : Nat) (st : ImgSt) : Prop where
  rect : Rect n m st.mat
  clen : st.c.length = m
  cle : ∀ x ∈ st.c, x ≤ k
  nodup : (st.c.filter (· != 0)).Nodup
  count : (st.c.filter (· != 0)).length + st.r = k

theorem InvA.init {n m : Nat} {M : IMat} (hM : Rect n m M) :
    InvA n m 0 { mat := M, c := List.replicate m 0, r := 0 } where
  rect := hM
  clen := by simp
  cle := by intro x hx; simp only [List.mem_replicate] at hx; omega
  nodup := by
    have : (List.replicate m 0).filter (· != 0) = [] := by
      rw [List.filter_eq_nil_iff]; intro a ha; simp only [List.mem_replicate] at ha; simp [ha.2]
    simp [this]
  count := by
    have : (List.replicate m 0).filter (· != 0) = [] := by
      rw [List.filter_eq_nil_iff]; intro a ha; simp only [List.mem_replicate] at ha; simp [ha.2]
    simp [this]

theorem InvA.skip {n m k : Nat} {st : ImgSt} (h : InvA n m k st) :
    InvA n m (k + 1) { st with r := st.r + 1 } where
  rect := h.rect
  clen := h.clen
  cle := fun x hx => Nat.le_succ_of_le (h.cle x hx)
  nodup := h.nodup
  count := by have := h.count; simp only; omega

theorem filter_set_zero (c : List Nat) (j v : Nat) (hj : j < c.length) (hc : c.getD j 0 = 0) (hv : v ≠ 0) :
    ∃ l₁ l₂, c.filter (· != 0) = l₁ ++ l₂ ∧ (c.set j v).filter (· != 0) = l₁ ++ v :: l₂ := by
  refine ⟨(c.take j).filter (· != 0), (c.drop (j + 1)).filter (· != 0), ?_, ?_⟩
  · conv_lhs => rw [← List.take_append_drop j c, List.drop_eq_getElem_cons hj]
    have : c[j] = 0 := by
      simpa [List.getD_eq_getElem?_getD, List.getElem?_eq_getElem hj] using hc
    simp [this]
  · rw [List.set_eq_take_append_cons_drop, if_pos hj]
    simp [hv]

theorem InvA.pivot {n m k : Nat} {st : ImgSt} (h : InvA n m k st) (p : Int) (j : Nat) (dd : Int)
    (hj : j < m) (hc : st.c.getD j 0 = 0) :
    InvA n m (k + 1) { mat := imgMat p k j dd st.mat, c := st.c.set j (k + 1), r := st.r } := by
  obtain ⟨l₁, l₂, e1, e2⟩ := filter_set_zero st.c j (k + 1) (by rw [h.clen]; exact hj) hc (by omega)
  have hmem : ∀ x ∈ l₁ ++ l₂, x ≤ k := by
    intro x hx; rw [← e1] at hx; exact h.cle x (List.mem_filter.mp hx).1
  refine ⟨Rect_imgMat h.rect _ _ _ _, by simp [h.clen], ?_, ?_, ?_⟩
  · intro x hx
    rcases List.mem_or_eq_of_mem_set hx with hx | hx
    · exact Nat.le_succ_of_le (h.cle x hx)
    · omega
  · simp only; rw [e2, List.nodup_middle, List.nodup_cons]
    refine ⟨fun hin => ?_, by rw [← e1]; exact h.nodup⟩
    have := hmem _ hin; omega
  · have := h.count
    simp only; rw [e2]; rw [e1] at this
    simp only [List.length_append, List.length_cons] at this ⊢; omega

end NTV.LinAlg
