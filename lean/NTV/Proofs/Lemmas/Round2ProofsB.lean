import NTV.Proofs.Lemmas.Round2ProofsA
/-! Inversion of a successful `round2::one_step`. -/
namespace NTV.Round2
open NTV.Ord NTV.PolyG

/-- the rational matrix `(1/p)·u·o` as computed by the triple loop of `one_step` -/
def newBasisM (deg : Nat) (p : Int) (u : IMat) (o : Order) : M QMat :=
  tabulate deg (fun i => do
    let ui ← idx u i
    pure ((List.zip ui o).foldl (fun acc uo =>
      List.zipWith (fun r x => r + ((uo.1 : Rat) / (p : Rat)) * x) acc uo.2) (List.replicate deg (0 : Rat))))

theorem oneStep_inv (f : List Int) (o : Order) (p : Int) (o' : Order) (h : Nat) (hdeg : 0 < degU f)
    (H : oneStep f o p = .ok (o', h)) :
    ∃ (up u : IMat) (r : Nat) (newBasis : QMat) (index : Int),
      NTV.Hnf.Rect r (degU f) up ∧ hnfM (up ++ scalarRows (degU f) p) = .ok u ∧ u.length = degU f ∧
      newBasisM (degU f) p u o = .ok newBasis ∧ fromBasis newBasis = .ok o' ∧
      NTV.Ord.index o' o = .ok index ∧ howmanyLoop p (index.toNat.log2 + 2) index 0 = .ok h := by
  unfold oneStep at H
  obtain ⟨pow, _, H⟩ := (bind_ok _ _ _).mp H
  obtain ⟨⟨table, table2⟩, htab, H⟩ := (bind_ok _ _ _).mp H
  obtain ⟨ct, ct2⟩ := tables_cube _ _ _ _ _ _ _ htab
  simp only at H
  obtain ⟨phiw, hphiw, H⟩ := (bind_ok _ _ _).mp H
  obtain ⟨K, hK, H⟩ := (bind_ok _ _ _).mp H
  obtain ⟨ip0, hip0, H⟩ := (bind_ok _ _ _).mp H
  obtain ⟨up, hup, H⟩ := (bind_ok _ _ _).mp H
  have rphiw := phiw_rect table p pow (degU f) ct phiw hphiw
  have rstack := NTV.Hnf.rect_append _ _ _ _ _ rphiw (scalarRows_rect (degU f) p)
  obtain ⟨k, rK⟩ := kernelM_rect _ _ _ rstack (by omega) hdeg K hK
  obtain ⟨r0, rip0⟩ := hnfM_rect K k _ rK (by omega) ip0 hip0
  have rip := rect_map_take ip0 r0 _ (degU f) rip0 (by omega)
  have rup : ∃ r, NTV.Hnf.Rect r (degU f) up := by
    apply foldlM_inv (fun up => ∃ r, NTV.Hnf.Rect r (degU f) up) _ _ _ _ up ⟨r0, rip⟩ hup
    rintro b ⟨r, hb⟩ a ha b' hb'
    exact upStep_rect (degU f) hdeg p (p * p) table2 ct2 _ b a (rip.2 a ha) r hb b' hb'
  obtain ⟨r, rup⟩ := rup
  split at H
  · cases H
  · obtain ⟨u, hu, H⟩ := (bind_ok _ _ _).mp H
    split at H
    · cases H
    · rename_i hlen
      obtain ⟨nb, hnb, H⟩ := (bind_ok _ _ _).mp H
      obtain ⟨newO, hnewO, H⟩ := (bind_ok _ _ _).mp H
      obtain ⟨index, hindex, H⟩ := (bind_ok _ _ _).mp H
      obtain ⟨hm, hhm, H⟩ := (bind_ok _ _ _).mp H
      simp only [pure, Except.pure, Except.ok.injEq, Prod.mk.injEq] at H
      obtain ⟨rfl, rfl⟩ := H
      exact ⟨up, u, r, nb, index, rup, hu, by simpa using hlen, hnb, hnewO, hindex, hhm⟩

end NTV.Round2
