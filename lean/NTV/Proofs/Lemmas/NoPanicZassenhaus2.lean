import NTV.Proofs.Lemmas.NoPanicZassenhaus
/-! Panic-freedom of `factorize`, part 2: termination. The fuels of `powerAbove`, `combine` and `multiplicity`
are never exhausted, so the ONLY way `factorize` can report `inconclusive fuel` is the prime search: none of
the first 100000 primes is admissible for the squarefree part. -/
open Polynomial
namespace NTV.PolyZ
open NTV.PolyG NTV.PolyMod NTV.Hensel NTV.Zas NTV.Res

/-! ### `while pe <= bound { pe *= p }` -/

theorem powerAbove_total (p bound : Int) (hp : 2 ≤ p) : ∀ (fuel e0 : Nat) (pe0 : Int),
    1 ≤ pe0 → 1 ≤ fuel → bound < pe0 * 2 ^ (fuel - 1) → ∃ r, powerAbove p bound fuel e0 pe0 = .ok r := by
  intro fuel
  induction fuel with
  | zero => intro e0 pe0 _ h; omega
  | succ fuel ih =>
    intro e0 pe0 hpe _ hb
    simp only [powerAbove]
    split
    · rename_i hle
      simp only [Nat.add_sub_cancel] at hb
      have hf1 : 1 ≤ fuel := by
        by_contra h0
        have : fuel = 0 := by omega
        rw [this, pow_zero, mul_one] at hb
        omega
      apply ih (e0 + 1) (pe0 * p) (by nlinarith) hf1
      have e : (2 : Int) ^ fuel = 2 * 2 ^ (fuel - 1) := by
        rw [← pow_succ']; congr 1; omega
      rw [e] at hb
      have h2 : (0 : Int) < 2 ^ (fuel - 1) := by positivity
      nlinarith
    · exact ⟨_, rfl⟩

/-- the call made by `get_factors_of_squarefree` -/
theorem powerAbove_top (p bound : Int) (hp : 2 ≤ p) :
    ∃ r, powerAbove p bound (bound.natAbs.log2 + 3) 0 1 = .ok r := by
  apply powerAbove_total p bound hp _ 0 1 (le_refl 1) (by omega)
  have h1 : bound.natAbs < 2 ^ (bound.natAbs.log2 + 1) := Nat.lt_log2_self
  have h2 : bound ≤ (bound.natAbs : Int) := Int.le_natAbs
  have h3 : ((bound.natAbs : Nat) : Int) < 2 ^ (bound.natAbs.log2 + 1) := by exact_mod_cast h1
  have e : bound.natAbs.log2 + 3 - 1 = (bound.natAbs.log2 + 1) + 1 := by omega
  rw [e, pow_succ, one_mul]
  have h4 : (0 : Int) < 2 ^ (bound.natAbs.log2 + 1) := by positivity
  omega

/-! ### the multiplicity loop -/

theorem multiplicity_total (f : List Int) (hcf : Canon f) (hdeg : 2 ≤ f.length) :
    ∀ (fuel : Nat) (a : List Int) (e : Nat), a ≠ [] → Canon a → a.length < fuel →
    ∃ r, multiplicity f fuel a e = .ok r ∧ r.1 ≠ [] ∧ Canon r.1 := by
  have hf : f ≠ [] := by rintro rfl; simp at hdeg
  intro fuel
  induction fuel with
  | zero => intro a e _ _ h; omega
  | succ fuel ih =>
    intro a e ha hca hfu
    simp only [multiplicity]
    cases hd : divExact a f with
    | none => exact ⟨(a, e), rfl, ha, hca⟩
    | some q =>
      obtain ⟨_, hq, hcq⟩ := divExact_sound a f q hd
      have hqne := quot_ne_nil ha hca hq
      have d1 := natDegree_toPoly a ha hca
      have d2 := natDegree_toPoly q hqne hcq
      have d3 := natDegree_toPoly f hf hcf
      have hdeg' : (toPoly a).natDegree = (toPoly q).natDegree + (toPoly f).natDegree := by
        rw [hq]; exact natDegree_mul d2.2.2 d3.2.2
      have hl := List.length_pos_of_ne_nil hqne
      exact ih q (e + 1) hqne hcq (by omega)

theorem multiplicities_total : ∀ (fs : List Poly) (a : Poly) (res : List (Poly × Nat)),
    (∀ f ∈ fs, Canon f ∧ 2 ≤ f.length) → a ≠ [] → Canon a → ∃ r, multiplicities fs a res = .ok r := by
  intro fs
  induction fs with
  | nil => intro a res _ _ _; exact ⟨_, rfl⟩
  | cons f rest ih =>
    intro a res hfs ha hca
    obtain ⟨hcf, hlf⟩ := hfs f (by simp)
    obtain ⟨⟨a', e⟩, hm, hne, hc⟩ := multiplicity_total f hcf hlf (a.length + 2) a 0 ha hca (by omega)
    simp only [multiplicities]
    rw [hm, ok_bind']
    exact ih a' _ (fun x hx => hfs x (by simp [hx])) hne hc

/-! ### the recombination loop -/

/-- the enumeration of the subsets has no fuel of its own -/
theorem subsetLoop_ne_fuel (pe pe2 : Int) (a : List Int) (lca : Int) (L : List Poly) (d : Nat) :
    ∀ (left b : Nat), subsetLoop pe pe2 a lca L d left b ≠ .error "inconclusive fuel" := by
  intro left
  induction left with
  | zero => intro b hb; simp [subsetLoop, pure, Except.pure] at hb
  | succ left ihl =>
    intro b hb
    simp only [subsetLoop] at hb
    split at hb
    · exact ihl _ hb
    · split at hb
      · simp [throw, throwThe, MonadExceptOf.throw] at hb
      · split at hb
        · exact ihl _ hb
        · simp only [bind, Except.bind, divExactExpect] at hb
          split at hb
          · rename_i e2 he2
            split at he2
            · cases he2
            · simp only [throw, throwThe, MonadExceptOf.throw, Except.error.injEq] at he2
              subst he2
              simp at hb
          · cases hb

section
variable {P e : ℕ} {pe pe2 : Int} {A : ℤ[X]}

/-- `combine` with the fuel of the model never fails: every round removes d ≥ 1 lifted factors or
increments d ≤ |lifted|/2 -/
theorem combine_ne_error (S : Setup P e pe pe2 A) (hA : A.natDegree ≤ 25) : ∀ (fuel : Nat) (a : List Int)
    (L : List Poly) (d : Nat) (result : List Poly) (err : String), a ≠ [] → Canon a →
    Inv P e A (toPoly a) (L.map toPoly) d →
    L.length + L.length / 2 + 2 ≤ fuel + d → d ≤ L.length + 1 →
    combine pe pe2 fuel a L d result ≠ .error err := by
  intro fuel
  induction fuel with
  | zero => intro a L d result err _ _ _ h1 h2; omega
  | succ fuel ih =>
    intro a L d result err ha hca I hf hd h
    have hfuel := combine_error S hA (fuel + 1) a L d result err ha hca I h
    have hlen25 : L.length ≤ 25 := by
      have := I.length_le
      rw [List.length_map] at this
      omega
    have hdpos := I.dpos
    simp only [combine] at h
    split at h
    · rename_i hlen
      split at h
      · omega
      · simp only [bind, Except.bind] at h
        split at h
        · rename_i e1 hv
          cases h
          subst hfuel
          exact subsetLoop_ne_fuel pe pe2 a _ L d _ _ hv
        · rename_i v hv
          split at h
          · rename_i pp a1 l1
            obtain ⟨_, s2, s3, s4⟩ := step_some S ha hca I hlen (by omega) hv
            obtain ⟨bits, q, _, hb, hcnt, _, _, _, hl'⟩ := subsetLoop_some pe pe2 a _ L d _ _ _ _ _ hv
            rw [Nat.zero_add] at hb
            have hperm := (selBits_perm L bits).length_eq
            rw [List.length_append, ← countOnes_eq L 64 bits hb (by omega), hcnt, ← hl'] at hperm
            exact ih a1 l1 d _ err s2 s3 s4 (by omega) (by omega) h
          · exact ih a L (d + 1) result err ha hca (step_none S ha hca I (by omega) hv) (by omega) (by omega) h
    · cases h

end

/-! ### `get_factors_of_squarefree` and `factorize`: only the prime search can run out of fuel -/

theorem getFactorsOfSquarefree_fuel (a : List Int) (s : NTV.Draw.Stream) (err : String) (hca : Canon a)
    (hprim : (toPoly a).IsPrimitive) (hlen : 2 ≤ a.length) (h26 : a.length ≤ 26)
    (h : getFactorsOfSquarefree a s = .error err) :
    err = "inconclusive stream" ∨
      (err = "inconclusive fuel" ∧ primeSearch a (degU a) 100000 2 = .error "inconclusive fuel") := by
  have ha : a ≠ [] := by rintro rfl; simp at hlen
  have he : a.isEmpty = false := by cases a <;> simp_all
  have hd : degU a ≠ 0 := by simp only [degU, he]; simp; omega
  obtain ⟨d1, d2, d3⟩ := natDegree_toPoly a ha hca
  have hall := getFactorsOfSquarefree_no_panic a s err hca hprim hlen h26 h
  unfold getFactorsOfSquarefree at h
  simp only [bind, Except.bind] at h
  split at h
  · rename_i hc
    simp [he, hd] at hc
  split at h
  · rename_i e1 hv1
    cases h
    have := primeSearch_error a (degU a) 100000 2 _ (by
      have : Nat.count Nat.Prime 2 = 0 := by decide
      omega) hv1
    subst this
    exact Or.inr ⟨rfl, hv1⟩
  rename_i v1 hv1
  obtain ⟨p, pu⟩ := v1
  obtain ⟨hP, rfl, hP31, hlc, g, hg, hgd⟩ := primeSearch_top a (degU a) p pu hv1
  obtain ⟨r, hr⟩ := powerAbove_top (pu : Int) (coeffBound a (degU a)) (by have := hP.two_le; omega)
  split at h
  · rename_i e2 hv2
    rw [hr] at hv2
    cases hv2
  rename_i v2 hv2
  obtain ⟨e, pe⟩ := v2
  rw [coefAt_degU a ha hca] at hlc
  have hsq := squarefree_of_gcd_test pu hP a g hg hgd
  have hb := mignotte_for_coeffBound a ha hca hlen 1 (toPoly a) 1 (by ring) 0
  have hbpos : (1 : Int) ≤ coeffBound a (degU a) := by
    have := abs_nonneg ((C (1 : ℤ[X]).leadingCoeff * toPoly a).coeff 0)
    omega
  obtain ⟨_, p2, p3, p4⟩ := powerAbove_spec _ _ _ _ _ _ _ hv2
  have hepos : 1 ≤ e := p4 hbpos
  rw [one_mul, Nat.sub_zero] at p2
  have hnz : (toPoly a).map (Int.castRingHom (ZMod pu)) ≠ 0 := by
    intro h0
    have := congrArg (fun F => F.coeff (toPoly a).natDegree) h0
    simp only [coeff_map, coeff_zero, eq_intCast] at this
    rw [ZMod.intCast_zmod_eq_zero_iff_dvd] at this
    exact hlc this
  split at h
  · rename_i e3 hv3
    cases h
    exact Or.inl (NTV.C08.no_panic pu hP a pu s _ hnz (fun _ => rfl) (by omega) hv3)
  rename_i factors hfac
  split at h
  · -- the exponent assertion: excluded by `getFactorsOfSquarefree_no_panic`
    simp only [throw, throwThe, MonadExceptOf.throw, Except.error.injEq] at h
    subst h
    rcases hall with h1 | h1 <;> simp at h1
  rename_i hallone
  split at h
  · rename_i e4 hv4
    cases h
    -- an error of the Hensel stage is neither of the two inconclusive ones: excluded as well
    exfalso
    have hall1 : (factors.all fun fe => fe.2 == 1) = true := by simpa using hallone
    obtain ⟨c1, c2, c3⟩ := NTV.C08.factorization_correct pu hP a pu s factors (fun _ => rfl)
      (fun h => by omega) hfac
    set F := factors.map (·.1) with hF
    have hmem : ∀ f ∈ F, ∃ x ∈ factors, x.1 = f := fun f hf => by
      obtain ⟨x, hx, rfl⟩ := List.mem_map.mp hf; exact ⟨x, hx, rfl⟩
    have hmon : ∀ f ∈ F, lc f = 1 := fun f hf => by
      obtain ⟨x, hx, rfl⟩ := hmem f hf; exact (c1 x hx).1
    have hred : ∀ f ∈ F, Reduced (pu : ℤ) f := fun f hf => by
      obtain ⟨x, hx, rfl⟩ := hmem f hf; exact (c1 x hx).2.1
    have hgood : ∀ f ∈ F, Reduced (pu : ℤ) f ∧ Canon f := fun f hf => by
      obtain ⟨x, hx, rfl⟩ := hmem f hf; exact ⟨(c1 x hx).2.1, (c1 x hx).2.2.1⟩
    have hirr : ∀ f ∈ F, Irreducible ((toPoly f).map (Int.castRingHom (ZMod pu))) := fun f hf => by
      obtain ⟨x, hx, rfl⟩ := hmem f hf; exact (c1 x hx).2.2.2.2.2
    have hM : ((F.map toPoly).prod).Monic := by
      apply monic_list_prod'
      intro G hG
      obtain ⟨f, hf, rfl⟩ := List.mem_map.mp hG
      exact (monic_toPoly f (hmon f hf)).1
    have c3' := c3
    rw [factorProduct_all_one factors hall1] at c3'
    obtain ⟨n1, n2⟩ := normalise_const hP (le_refl 1) hM hlc (by rw [pow_one]; exact c3')
    rw [pow_one, d2] at n2
    have hne : F ≠ [] := by
      intro h0
      rw [h0] at n1
      simp only [List.map_nil, List.prod_nil, natDegree_one] at n1
      omega
    have hcop := pairwise_coprime_of_nodup pu hP F c2 hmon hgood hirr
    rw [d2] at hlc
    obtain ⟨gs, g1, _⟩ := NTV.C11.lift_factorization_spec pu hP e hepos a hlc F hne hmon hred hcop n2.symm
    rw [g1] at hv4
    cases hv4
  rename_i lifted hl
  exfalso
  have hall1 : (factors.all fun fe => fe.2 == 1) = true := by simpa using hallone
  have hL := lifted_of_run pu hP (by omega) e hepos a ha hca hlen hlc hsq s factors hfac hall1 lifted hl
  have S : Setup pu e pe (Int.tdiv pe 2) (toPoly a) :=
    ⟨p2, rfl, fun g h h' hfac j => mignotte_symmetric_range a ha hca hlen g h h' hfac j pe p3⟩
  have hnu : ¬ IsUnit (toPoly a) := by
    intro hu
    have := natDegree_eq_zero_of_isUnit hu
    omega
  exact combine_ne_error S (by omega) _ a lifted 1 [] err ha hca (Inv.init hprim hL hnu) (by omega) (by omega) h

/-- **`factorize` on a canonical input of degree ≤ 25**: the only failures are `inconclusive stream` and an
exhausted prime search (none of the first 100000 primes is admissible for the squarefree part `sq` of pp(a)) -/
theorem factorize_fuel (a : List Int) (s : NTV.Draw.Stream) (err : String) (hca : Canon a)
    (h26 : a.length ≤ 26) (h : factorize a s = .error err) :
    err = "inconclusive stream" ∨ (err = "inconclusive fuel" ∧ ∃ g sq : List Int,
      resultantGcd (contPP a).2 (differential (contPP a).2) = .ok g ∧
      (if degU g ≠ 0 then divExactExpect (contPP a).2 g else pure (contPP a).2) = .ok sq ∧
      primeSearch sq (degU sq) 100000 2 = .error "inconclusive fuel") := by
  unfold factorize at h
  split at h
  · cases h
  rename_i hemp
  have ha : a ≠ [] := by rintro rfl; simp at hemp
  simp only at h
  split at h
  · cases h
  rename_i hdeg
  have he : a.isEmpty = false := by cases a <;> simp_all
  have hlen : 2 ≤ a.length := by
    simp only [degU, he] at hdeg
    have := List.length_pos_of_ne_nil ha
    simp at hdeg; omega
  obtain ⟨p1, p2, p3, p4, _⟩ := pp_facts ha hca
  obtain ⟨_, _, s3, s4⟩ := contPP_spec a ha hca
  have hne := pp_ne_nil a ha hca
  set A := toPoly (contPP a).2 with hA
  have hder : toPoly (differential (contPP a).2) = derivative A := toPoly_differential _
  have hder0 : derivative A ≠ 0 := by
    intro h0
    have := Polynomial.derivative_eq_zero.mp h0
    omega
  have hdne : differential (contPP a).2 ≠ [] := by
    intro e; rw [e] at hder; simp only [toPoly] at hder; exact hder0 hder.symm
  obtain ⟨g, hres⟩ := resultantSmartGcd_total _ _ hne hdne s4 (canon_differential _)
  have hgcd : resultantGcd (contPP a).2 (differential (contPP a).2) = .ok g := by
    unfold resultantGcd; rw [hres]; rfl
  obtain ⟨g1, g2, _⟩ := NTV.C10.is_gcd_partial _ _ g hne hdne s4 (canon_differential _) hres
  rw [hder] at g2
  -- the squarefree part
  have hsq : ∃ sq, (if degU g ≠ 0 then divExactExpect (contPP a).2 g else pure (contPP a).2) = .ok sq ∧
      Canon sq ∧ toPoly sq ∣ A ∧ 2 ≤ sq.length ∧ sq.length ≤ 26 := by
    have hAlen : (contPP a).2.length = a.length := by
      have h1 := (natDegree_toPoly _ hne s4).1
      have h2 := List.length_pos_of_ne_nil hne
      rw [← hA] at h1
      omega
    by_cases hdg : degU g ≠ 0
    · rw [if_pos hdg]
      have hgne : g ≠ [] := by
        rintro rfl
        rw [show toPoly ([] : List Int) = 0 from rfl, zero_dvd_iff] at g1
        exact p2 g1
      obtain ⟨pp, d, _, hd, hshape, hlpp, hcpp, _⟩ :=
        NTV.C10.result_shape_partial _ _ g hne hdne s4 (canon_differential _) hres
      -- canonical form of g
      obtain ⟨k, hk⟩ := g1
      obtain ⟨q', hq'⟩ := exists_list k
      have hg0 : toPoly g ≠ 0 := by intro h0; rw [h0, zero_mul] at hk; exact p2 hk
      have hk0 : k ≠ 0 := by rintro rfl; rw [mul_zero] at hk; exact p2 hk
      have hgc : Canon g := gcd_result_canon _ _ g hne hdne s4 (canon_differential _) hres
      obtain ⟨sq, hsq⟩ := divExact_complete (contPP a).2 g q' hne hgne s4 hgc (by rw [hk, hq']; ring)
      obtain ⟨_, hfac, hsqc⟩ := divExact_sound _ _ sq hsq
      have hsqne := quot_ne_nil hne s4 hfac
      rw [← hA] at hfac
      have hs0 : toPoly sq ≠ 0 := by intro h0; rw [h0, zero_mul] at hfac; exact p2 hfac
      have hdegA : A.natDegree = (toPoly sq).natDegree + (toPoly g).natDegree := by
        rw [hfac]; exact natDegree_mul hs0 hg0
      have hgle : (toPoly g).natDegree ≤ (derivative A).natDegree := natDegree_le_of_dvd g2 hder0
      have hdlt : (derivative A).natDegree < A.natDegree := natDegree_derivative_lt (by omega)
      have hsl := (natDegree_toPoly sq hsqne hsqc).1
      have hsl0 := List.length_pos_of_ne_nil hsqne
      refine ⟨sq, ?_, hsqc, ⟨toPoly g, hfac⟩, by omega, by omega⟩
      unfold divExactExpect
      rw [hsq]
      rfl
    · rw [if_neg hdg]
      exact ⟨_, rfl, s4, dvd_refl _, by omega, by omega⟩
  obtain ⟨sq, hsqeq, hsqc, hsqd, hsql, hsql26⟩ := hsq
  have hsqprim : (toPoly sq).IsPrimitive := isPrimitive_of_dvd p1 hsqd
  have tail : (do
      let factors ← getFactorsOfSquarefree sq s
      let result ← multiplicities factors (contPP a).2 []
      pure ((contPP a).1, result) : M (Int × List (Poly × Nat))) = .error err →
      err = "inconclusive stream" ∨
        (err = "inconclusive fuel" ∧ primeSearch sq (degU sq) 100000 2 = .error "inconclusive fuel") := by
    intro h'
    cases hgf : getFactorsOfSquarefree sq s with
    | error e1 =>
      rw [hgf, error_bind'] at h'
      cases h'
      exact getFactorsOfSquarefree_fuel sq s _ hsqc hsqprim hsql hsql26 hgf
    | ok factors =>
      rw [hgf, ok_bind'] at h'
      exfalso
      obtain ⟨_, hprod, hshape⟩ := getFactorsOfSquarefree_spec sq s factors hsqc hgf
      have hirr := squarefree_factors_irreducible sq s factors hsqc hsqprim hgf
      obtain ⟨r, hr⟩ := multiplicities_total factors (contPP a).2 [] (fun f hf => by
        obtain ⟨f1, f2, _⟩ := hshape f hf
        have hdv : toPoly f ∣ toPoly sq := by
          rw [hprod]; exact List.dvd_prod (List.mem_map_of_mem hf)
        have hpos := Alg.natDegree_pos_of_dvd_primitive hsqprim hdv (hirr f hf).not_isUnit
        have := (natDegree_toPoly f f1 f2).1
        exact ⟨f2, by omega⟩) hne s4
      rw [hr, ok_bind'] at h'
      cases h'
  rw [hgcd, ok_bind'] at h
  by_cases hdg : degU g ≠ 0
  · have hsqeq' := hsqeq
    rw [if_pos hdg] at h hsqeq
    rw [hsqeq, ok_bind'] at h
    rcases tail h with h1 | ⟨h1, h2⟩
    · exact Or.inl h1
    · exact Or.inr ⟨h1, g, sq, hgcd, hsqeq', h2⟩
  · have hsqeq' := hsqeq
    rw [if_neg hdg] at h hsqeq
    rw [hsqeq, ok_bind'] at h
    rcases tail h with h1 | ⟨h1, h2⟩
    · exact Or.inl h1
    · exact Or.inr ⟨h1, g, sq, hgcd, hsqeq', h2⟩

end NTV.PolyZ
