import NTV.Proofs.Lemmas.Round2RingH
import NTV.Proofs.Lemmas.Round2Start
/-! Round 2: the new order of `one_step` is a ring; closedness through `primeLoop` and the fold of
`find_integral_basis`; the result of `find_integral_basis` is closed under multiplication. -/
open Matrix Finset Polynomial
namespace NTV.Round2
open NTV.Ord NTV.PolyG NTV.R2Abs
open NTV.TableAbs (Ctx psi)
open NTV.RowOps (toM Rect ent)

variable {f : List Int} {o : QMat} {n : Nat}

/-- the module of `o` contains 1 (in coordinates) -/
def HasOne (n : Nat) (o : QMat) : Prop :=
  ∃ c : Fin n → ℤ, (fun k => (c k : ℚ)) ᵥ* toM n n o = fun j => if j.val = 0 then 1 else 0

theorem HasOne.of_sub {o o' : QMat} (h : HasOne n o)
    (hsub : ∃ P : Matrix (Fin n) (Fin n) ℤ, toM n n o = P.map (Int.castRingHom ℚ) * toM n n o') :
    HasOne n o' := by
  obtain ⟨c, hc⟩ := h
  obtain ⟨P, hP⟩ := hsub
  refine ⟨c ᵥ* P, ?_⟩
  have := castV_vecMul c P
  unfold NTV.Ord.castV at this
  rw [this, ← hc, hP, Matrix.vecMul_vecMul]

theorem HasOne.el_one (S : Setup f o n) (h : HasOne n o) :
    ∃ e : Fin n → ℤ, el (qK f) (omegaK f o n) e = 1 := by
  obtain ⟨c, hc⟩ := h
  exact ⟨c, one_of_vec S c hc⟩

/-- **the new order is a ring** (M3): for an order `o` containing 1 and a prime `p`, the basis returned by a
successful `one_step` is closed under multiplication (and `o` itself is certified closed) -/
theorem oneStep_closed (S : Setup f o n) (h1 : HasOne n o) (P : ℕ) (hP : P.Prime) (o' : QMat) (hm : Nat)
    (H : oneStep f o (P : ℤ) = .ok (o', hm)) : Closed f o n ∧ Setup f o' n ∧ Closed f o' n := by
  classical
  obtain ⟨hcl, S', hsem⟩ := oneStep_sem S P hP o' hm H
  obtain ⟨_, hC⟩ := S.ctx_of_closed hcl
  have one := h1.el_one S
  obtain ⟨kk, _, hx⟩ := hsem hC one
  have hI := radQ_ideal (Olat hC one) P kk hP
  refine ⟨hcl, S', S'.closed_of_K ?_⟩
  intro i j
  have hi : omegaK f o' n i ∈ multRing (Olat hC one) _ hI :=
    (hx _).mp ⟨Pi.single i 1, (el_single i).symm⟩
  have hj : omegaK f o' n j ∈ multRing (Olat hC one) _ hI :=
    (hx _).mp ⟨Pi.single j 1, (el_single j).symm⟩
  obtain ⟨z, hz⟩ := (hx _).mpr ((multRing (Olat hC one) _ hI).mul_mem hi hj)
  exact ⟨z, hz⟩

/-- the invariant of the integral-basis routine: a non-singular stored order that contains 1 and is closed
under multiplication -/
structure GoodOrder (f : List Int) (n : Nat) (o : QMat) : Prop where
  setup : Setup f o n
  stored : fromBasis o = .ok o
  one : HasOne n o
  closed : Closed f o n

theorem oneStep_good (g : GoodOrder f n o) (P : ℕ) (hP : P.Prime) (o' : QMat) (hm : Nat)
    (H : oneStep f o (P : ℤ) = .ok (o', hm)) : GoodOrder f n o' ∧ Ext n o o' ((P : ℤ) ^ hm) := by
  have hdeg := g.setup.degU_eq
  have hp : (0 : ℤ) < (P : ℤ) := by exact_mod_cast hP.pos
  have ext := oneStep_ext f o (P : ℤ) o' hm (by rw [hdeg]; exact g.setup.pos) (by rw [hdeg]; exact g.setup.rect)
    (by rw [hdeg]; exact g.setup.det) g.stored hp H
  rw [hdeg] at ext
  obtain ⟨_, S', hcl'⟩ := oneStep_closed g.setup g.one P hP o' hm H
  exact ⟨⟨S', ext.stored, g.one.of_sub ext.sub, hcl'⟩, ext⟩

theorem primeLoop_good (P : ℕ) (hP : P.Prime) (fuel : Nat) (o : Order) (e : Nat) (o' : Order)
    (g : GoodOrder f n o) (H : primeLoop f (P : ℤ) fuel o e = .ok o') : GoodOrder f n o' := by
  induction fuel generalizing o e with
  | zero =>
    unfold primeLoop at H
    split at H
    · cases H
    · cases H; exact g
  | succ fuel ih =>
    unfold primeLoop at H
    split at H
    · obtain ⟨⟨newO, hm⟩, hstep, H⟩ := (bind_ok _ _ _).mp H
      have g' := (oneStep_good g P hP newO hm hstep).1
      simp only at H
      split at H
      · cases H
      · split at H
        · simp only [pure, Except.pure, Except.ok.injEq] at H
          subst H
          exact g'
        · exact ih newO _ g' H
    · cases H; exact g

theorem fold_good (fac : List (Nat × Nat)) (hfac : ∀ pe ∈ fac, pe.1.Prime) (o O : Order)
    (g : GoodOrder f n o)
    (H : fac.foldlM (fun o pe => primeLoop f (pe.1 : Int) (pe.2 + 1) o pe.2) o = .ok O) :
    GoodOrder f n O := by
  induction fac generalizing o with
  | nil =>
    rw [List.foldlM_nil] at H
    cases H; exact g
  | cons pe rest ih =>
    rw [List.foldlM_cons] at H
    obtain ⟨o1, h1, H⟩ := (bind_ok _ _ _).mp H
    exact ih (fun q hq => hfac q (by simp [hq])) o1
      (primeLoop_good pe.1 (hfac pe (by simp)) _ o pe.2 o1 g h1) H

/-- the starting order of a successful run is a good order -/
theorem start_goodOrder (f : List Int) (hf : Canon f) (S : QMat) (d : Int)
    (hS : nonMonicInitialOrder f = .ok S) (hd : discriminantOrd S f = .ok d) (hd0 : d ≠ 0) :
    GoodOrder f (degU f) S := by
  obtain ⟨hn, rS, dS, sS, c, hc⟩ := start_good f S d hS hd hd0
  have hlen : f.length = degU f + 1 := by
    unfold nonMonicInitialOrder at hS
    simp only at hS
    split at hS
    · cases hS
    · rename_i hne
      have : f.isEmpty = false := by simpa using hne
      unfold degU at hn ⊢
      simp only [this, Bool.false_eq_true, if_false] at hn ⊢
      omega
  refine ⟨⟨hf, hlen, hn, rS, dS⟩, sS, ⟨c, hc⟩, start_closed f hf S hS dS⟩

/-- **the result of `find_integral_basis` is a ring**: a good order (non-singular, stored, containing 1, closed
under multiplication) -/
theorem findIntegralBasis_good (f : List Int) (hf : Canon f) (O : Order)
    (H : findIntegralBasis f = .ok O) : GoodOrder f (degU f) O := by
  unfold findIntegralBasis at H
  obtain ⟨S, hS, H⟩ := (bind_ok _ _ _).mp H
  obtain ⟨dS, hdS, H⟩ := (bind_ok _ _ _).mp H
  split at H
  · cases H
  · rename_i hd0
    have g := start_goodOrder f hf S dS hS hdS hd0
    have hfac := NTV.Trial.factorize_correct dS.natAbs (by omega)
    exact fold_good _ (fun pe hpe => (hfac.2.1 pe hpe).1) S O g H

end NTV.Round2
