import NTV.Spec.Enum
import NTV.Proofs.Lemmas.RowOpsProofs
import Mathlib.Tactic
/-! Checker soundness for `NTV.Spec.Enum` (C20), part 1: `quadVal` is `xᵀQx` and `floorSqrt` is `⌊√r⌋`. -/
open Matrix
namespace NTV.EnumCheck
open NTV.Spec.Enum NTV.Spec.Mat
open NTV.RowOps (toM Rect)

/-- the rational vector of an integer list -/
def vec (n : Nat) (x : List Int) : Fin n → ℚ := fun i => ((x.getD i 0 : Int) : ℚ)

/-- the quadratic form `xᵀ M x` -/
def qf {n : Nat} (M : Matrix (Fin n) (Fin n) ℚ) (x : Fin n → ℚ) : ℚ := x ⬝ᵥ (M *ᵥ x)

theorem foldl_add_eq_sum (l : List ℚ) : l.foldl (· + ·) 0 = l.sum := by
  have : ∀ (a : ℚ), l.foldl (· + ·) a = a + l.sum := by
    induction l with
    | nil => intro a; simp
    | cons h t ih => intro a; simp [List.foldl_cons, ih, add_assoc]
  simpa using this 0

theorem zipWith_eq_ofFn {α β γ : Type} (f : α → β → γ) (l1 : List α) (l2 : List β) (n : Nat) (d1 : α) (d2 : β)
    (h1 : l1.length = n) (h2 : l2.length = n) :
    List.zipWith f l1 l2 = List.ofFn (fun i : Fin n => f (l1.getD i d1) (l2.getD i d2)) := by
  apply List.ext_getElem
  · simp [h1, h2]
  · intro i hi1 hi2
    have hi : i < n := by simpa using hi2
    simp [List.getD_eq_getElem?_getD, List.getElem?_eq_getElem (h1 ▸ hi), List.getElem?_eq_getElem (h2 ▸ hi)]

theorem getD_map_cast (x : List Int) (i : Nat) :
    (x.map (fun (t : Int) => (t : ℚ))).getD i 0 = ((x.getD i 0 : Int) : ℚ) := by
  simp only [List.getD_eq_getElem?_getD, List.getElem?_map]
  cases x[i]? <;> simp

/-- `quadVal Q x = xᵀ Q x` -/
theorem quadVal_spec (Q : QMat) (x : List Int) (n : Nat) (hr : Rect n n Q) (hx : x.length = n) :
    quadVal Q x = qf (toM n n Q) (vec n x) := by
  unfold quadVal qf
  simp only
  rw [foldl_add_eq_sum,
    zipWith_eq_ofFn _ Q (x.map (fun (t : Int) => (t : ℚ))) n [] 0 hr.1 (by simpa using hx), List.sum_ofFn]
  unfold dotProduct
  apply Finset.sum_congr rfl
  intro i _
  rw [getD_map_cast]
  show _ = vec n x i * _
  congr 1
  rw [foldl_add_eq_sum,
    zipWith_eq_ofFn _ (Q.getD i []) (x.map (fun (t : Int) => (t : ℚ))) n 0 0 (hr.row_length i i.2)
      (by simpa using hx), List.sum_ofFn]
  unfold mulVec dotProduct
  apply Finset.sum_congr rfl
  intro j _
  rw [getD_map_cast]
  rfl

/-! ### `floorSqrt` -/

theorem rat_floor_eq (r : ℚ) : Rat.floor r = ⌊r⌋ := rfl

/-- `floorSqrt r = ⌊√r⌋` for `r ≥ 0`: it is the natural number `k` with `k² ≤ r < (k+1)²` -/
theorem floorSqrt_spec (r : ℚ) (hr : 0 ≤ r) :
    ((floorSqrt r : ℕ) : ℚ) ^ 2 ≤ r ∧ r < ((floorSqrt r : ℕ) + 1 : ℚ) ^ 2 := by
  unfold floorSqrt
  rw [if_neg (not_lt.mpr hr)]
  have hfl : (0 : ℤ) ≤ Rat.floor r := by
    rw [rat_floor_eq]; exact Int.floor_nonneg.mpr hr
  set m := (Rat.floor r).toNat with hm
  have hmz : ((m : ℕ) : ℤ) = Rat.floor r := by rw [hm]; exact Int.toNat_of_nonneg hfl
  have h1 : Nat.sqrt m * Nat.sqrt m ≤ m := Nat.sqrt_le m
  have h2 : m < (Nat.sqrt m + 1) * (Nat.sqrt m + 1) := Nat.lt_succ_sqrt m
  have hle : ((m : ℕ) : ℚ) ≤ r := by
    have : ((Rat.floor r : ℤ) : ℚ) ≤ r := by rw [rat_floor_eq]; exact Int.floor_le r
    rw [← hmz] at this; exact_mod_cast this
  have hlt : r < ((m : ℕ) : ℚ) + 1 := by
    have : r < ((Rat.floor r : ℤ) : ℚ) + 1 := by rw [rat_floor_eq]; exact Int.lt_floor_add_one r
    rw [← hmz] at this; exact_mod_cast this
  constructor
  · calc ((Nat.sqrt m : ℕ) : ℚ) ^ 2 = ((Nat.sqrt m * Nat.sqrt m : ℕ) : ℚ) := by push_cast; ring
      _ ≤ (m : ℚ) := by exact_mod_cast h1
      _ ≤ r := hle
  · have h3 : m + 1 ≤ (Nat.sqrt m + 1) * (Nat.sqrt m + 1) := h2
    calc r < (m : ℚ) + 1 := hlt
      _ = ((m + 1 : ℕ) : ℚ) := by push_cast; ring
      _ ≤ (((Nat.sqrt m + 1) * (Nat.sqrt m + 1) : ℕ) : ℚ) := by exact_mod_cast h3
      _ = ((Nat.sqrt m : ℕ) + 1 : ℚ) ^ 2 := by push_cast; ring

/-- for negative `r` the value is `0` (documented totalisation) -/
theorem floorSqrt_neg (r : ℚ) (hr : r < 0) : floorSqrt r = 0 := by
  unfold floorSqrt; rw [if_pos hr]

/-- the form in which the box uses it: an integer `t` with `t² ≤ r` has `|t| ≤ floorSqrt r` -/
theorem natAbs_le_floorSqrt (r : ℚ) (t : ℤ) (h : ((t : ℚ)) ^ 2 ≤ r) : t.natAbs ≤ floorSqrt r := by
  have hr : 0 ≤ r := le_trans (sq_nonneg _) h
  by_contra hcon
  have hlt : floorSqrt r + 1 ≤ t.natAbs := by omega
  have h2 := (floorSqrt_spec r hr).2
  have : ((floorSqrt r : ℕ) + 1 : ℚ) ^ 2 ≤ (t : ℚ) ^ 2 := by
    have e : (t : ℚ) ^ 2 = ((t.natAbs : ℕ) : ℚ) ^ 2 := by
      have : ((t.natAbs : ℕ) : ℤ) = |t| := Int.natCast_natAbs t
      have h4 : (((t.natAbs : ℕ) : ℤ) : ℚ) = ((|t| : ℤ) : ℚ) := by rw [this]
      rw [Int.cast_natCast] at h4
      rw [h4, Int.cast_abs, sq_abs]
    rw [e]
    have : ((floorSqrt r : ℕ) + 1 : ℚ) ≤ ((t.natAbs : ℕ) : ℚ) := by exact_mod_cast hlt
    exact pow_le_pow_left₀ (by positivity) this 2
  linarith

example : floorSqrt (17 / 2) = 2 := by decide +kernel
example : quadVal [[2, 1], [1, 3]] [1, -2] = 10 := by decide +kernel

end NTV.EnumCheck
