import NTV.Proofs.Lemmas.NormResMat
import Mathlib.LinearAlgebra.Matrix.Charpoly.Eigs
import Mathlib.LinearAlgebra.Vandermonde
import Mathlib.Algebra.Order.BigOperators.Group.LocallyFinite
import Mathlib.Order.Interval.Finset.Fin
import Mathlib.Algebra.CharZero.Infinite
/-! C16 (inverse different), linear-algebra part: for a square matrix `M` over a field of characteristic
zero with characteristic polynomial `χ`, the Hankel determinant of the power traces
`det (tr M^{i+j})_{i,j<m}` is the discriminant of `χ` (no separability / irreducibility hypothesis). -/
open Polynomial Matrix Finset
namespace NTV.InvDiff

variable {L : Type*} [Field L] {m : ℕ}

/-- `det H(M) = ∏ H(α)` over the roots `α` of a split characteristic polynomial -/
theorem det_aeval_eq_prod_roots (M : Matrix (Fin m) (Fin m) L) (hs : M.charpoly.Splits) (H : L[X]) :
    (aeval M H).det = (M.charpoly.roots.map H.eval).prod := by
  rw [NTV.NormRes.det_aeval_eq_resultant, resultant_eq_prod_eval _ _ _ le_rfl hs,
    (charpoly_monic M).leadingCoeff, one_pow, one_mul]

/-- spectral mapping with multiplicities: the characteristic polynomial of `G(M)` -/
theorem charpoly_aeval_of_splits [Infinite L] (M : Matrix (Fin m) (Fin m) L) (hs : M.charpoly.Splits)
    (G : L[X]) :
    (aeval M G).charpoly = (M.charpoly.roots.map (fun α => X - C (G.eval α))).prod := by
  apply Polynomial.funext
  intro b
  rw [Matrix.eval_charpoly]
  have h1 : Matrix.scalar (Fin m) b - aeval M G = aeval M (C b - G) := by
    rw [map_sub, aeval_C]; rfl
  rw [h1, det_aeval_eq_prod_roots M hs, eval_multiset_prod, Multiset.map_map]
  congr 1
  apply Multiset.map_congr rfl
  intro α _
  simp

/-- the trace of `G(M)` is the sum of `G` over the roots of the characteristic polynomial -/
theorem trace_aeval_of_splits [Infinite L] (M : Matrix (Fin m) (Fin m) L) (hs : M.charpoly.Splits)
    (G : L[X]) : (aeval M G).trace = (M.charpoly.roots.map G.eval).sum := by
  have hc := charpoly_aeval_of_splits M hs G
  have hsp : (aeval M G).charpoly.Splits := by
    rw [hc]
    apply Splits.multisetProd
    intro f hf
    obtain ⟨a, _, rfl⟩ := Multiset.mem_map.mp hf
    exact Splits.X_sub_C _
  have hm : M.charpoly.roots.map (fun α => X - C (G.eval α))
      = (M.charpoly.roots.map G.eval).map (fun a => X - C a) := by
    rw [Multiset.map_map]; rfl
  rw [trace_eq_sum_roots_charpoly_of_splits hsp, hc, hm, roots_multiset_prod_X_sub_C]

omit [Field L] in
/-- a multiset of `m` elements is a family indexed by `Fin m` -/
theorem exists_fin_family (s : Multiset L) (hm : Multiset.card s = m) :
    ∃ r : Fin m → L, s = (univ : Finset (Fin m)).val.map r := by
  induction s using Quotient.inductionOn with
  | _ l =>
    have hl : l.length = m := by simpa using hm
    subst hl
    refine ⟨fun i => l.get i, ?_⟩
    rw [Fin.univ_val_map]
    simp

theorem hankel_eq_vandermonde (r : Fin m → L) :
    (Matrix.of fun i j : Fin m => ∑ l, r l ^ ((i : ℕ) + (j : ℕ))) = (vandermonde r)ᵀ * vandermonde r := by
  ext i j
  simp [Matrix.mul_apply, vandermonde_apply, pow_add]

theorem sum_card_Ioi (m : ℕ) : ∑ i : Fin m, #(Ioi i) = m * (m - 1) / 2 := by
  simp only [Fin.card_Ioi]
  rw [Fin.sum_univ_eq_sum_range (fun i => m - 1 - i) m, Finset.sum_range_reflect (fun i => i) m,
    Finset.sum_range_id]

/-- `∏_i ∏_{j≠i} (r_i − r_j) = (−1)^{m(m−1)/2} · (∏_{i<j} (r_j − r_i))²` -/
theorem prod_offdiag (r : Fin m → L) :
    ∏ i, ∏ j ∈ ({i}ᶜ : Finset (Fin m)), (r i - r j)
      = (-1) ^ (m * (m - 1) / 2) * (∏ i, ∏ j ∈ Ioi i, (r j - r i)) ^ 2 := by
  rw [← prod_prod_Ioi_mul_eq_prod_prod_off_diag (fun a b => r b - r a)]
  have h : ∀ i j : Fin m, (r i - r j) * (r j - r i) = (-1) * (r j - r i) ^ 2 := by intros; ring
  simp_rw [h, prod_mul_distrib, prod_const, prod_pow_eq_pow_sum, sum_card_Ioi, prod_pow]

/-- the derivative of `∏ (X − r_j)` at `r_i` -/
theorem eval_derivative_prod (r : Fin m → L) (i : Fin m) :
    (derivative (∏ j, (X - C (r j)))).eval (r i) = ∏ j ∈ ({i}ᶜ : Finset (Fin m)), (r i - r j) := by
  rw [derivative_prod_finset]
  simp only [derivative_sub, derivative_X, derivative_C, sub_zero, mul_one]
  rw [eval_finsetSum, Finset.sum_eq_single i]
  · rw [eval_prod, compl_eq_univ_sdiff, sdiff_singleton_eq_erase]
    simp
  · intro b _ hb
    rw [eval_prod]
    apply Finset.prod_eq_zero (i := i) (mem_erase.mpr ⟨hb.symm, mem_univ _⟩)
    simp
  · simp

/-- split case: Hankel determinant of the power traces = `(−1)^{m(m−1)/2} · Res(χ, χ')` -/
theorem hankel_det_of_splits [Infinite L] (M : Matrix (Fin m) (Fin m) L) (hs : M.charpoly.Splits) :
    (Matrix.of fun i j : Fin m => (M ^ ((i : ℕ) + (j : ℕ))).trace).det
      = (-1) ^ (m * (m - 1) / 2) * resultant M.charpoly (derivative M.charpoly) m (m - 1) := by
  have hdeg : M.charpoly.natDegree = m := by rw [charpoly_natDegree_eq_dim]; simp
  have hcard : Multiset.card M.charpoly.roots = m := by rw [← hs.natDegree_eq_card_roots, hdeg]
  obtain ⟨r, hr⟩ := exists_fin_family _ hcard
  have htr : ∀ e : ℕ, (M ^ e).trace = ∑ l, r l ^ e := by
    intro e
    have := trace_aeval_of_splits M hs (X ^ e)
    rw [map_pow, aeval_X, hr, Multiset.map_map] at this
    simp only [Function.comp_def, eval_pow, eval_X] at this
    rw [this]
    rfl
  have hχ : M.charpoly = ∏ j, (X - C (r j)) := by
    rw [hs.eq_prod_roots_of_monic (charpoly_monic M), hr, Multiset.map_map]
    rfl
  have hres : resultant M.charpoly (derivative M.charpoly) m (m - 1)
      = ∏ i, ∏ j ∈ ({i}ᶜ : Finset (Fin m)), (r i - r j) := by
    have h1 := resultant_eq_prod_eval M.charpoly (derivative M.charpoly) (m - 1)
      (by have := natDegree_derivative_le M.charpoly; rw [hdeg] at this; exact this) hs
    rw [hdeg, (charpoly_monic M).leadingCoeff, one_pow, one_mul, hr, Multiset.map_map] at h1
    rw [h1]
    show ∏ i, (derivative M.charpoly).eval (r i) = _
    apply Finset.prod_congr rfl
    intro i _
    rw [hχ, eval_derivative_prod]
  simp_rw [htr]
  have hs2 : ((-1 : L) ^ (m * (m - 1) / 2)) * ((-1) ^ (m * (m - 1) / 2)) = 1 := by
    rw [← mul_pow]; simp
  rw [hankel_eq_vandermonde, det_mul, det_transpose, det_vandermonde, hres, prod_offdiag, ← mul_assoc,
    hs2, one_mul, pow_two]

variable {k : Type*} [Field k] [CharZero k]

/-- **Hankel determinant of the power traces = discriminant of the characteristic polynomial**
(any square matrix over a field of characteristic zero) -/
theorem hankel_det_eq_discr (M : Matrix (Fin m) (Fin m) k) :
    (Matrix.of fun i j : Fin m => (M ^ ((i : ℕ) + (j : ℕ))).trace).det = M.charpoly.discr := by
  have hdeg : M.charpoly.natDegree = m := by rw [charpoly_natDegree_eq_dim]; simp
  rcases Nat.eq_zero_or_pos m with h0 | hpos
  · subst h0
    have : M.charpoly = C 1 := by
      rw [Matrix.charpoly, det_isEmpty, C_1]
    rw [this, discr_C, det_isEmpty]
  let E := M.charpoly.SplittingField
  have hinj := (algebraMap k E).injective
  have : Infinite E := Infinite.of_injective (algebraMap k E) hinj
  have hsplit : (M.map (algebraMap k E)).charpoly.Splits := by
    rw [Matrix.charpoly_map]; exact SplittingField.splits _
  have h := hankel_det_of_splits (M.map (algebraMap k E)) hsplit
  rw [Matrix.charpoly_map, Polynomial.derivative_map, resultant_map_map] at h
  have hd : 0 < M.charpoly.degree := by
    rw [← natDegree_pos_iff_degree_pos, hdeg]; exact hpos
  have hr := resultant_deriv hd
  rw [hdeg, (charpoly_monic M).leadingCoeff, mul_one] at hr
  rw [hr, map_mul, ← mul_assoc, map_pow, map_neg, map_one, ← pow_add, ← two_mul, pow_mul, neg_one_sq,
    one_pow, one_mul] at h
  apply hinj
  rw [← h, RingHom.map_det]
  congr 1
  ext i j
  simp only [RingHom.mapMatrix_apply, Matrix.map_apply, Matrix.of_apply, Matrix.trace, Matrix.diag]
  rw [map_sum]
  apply Finset.sum_congr rfl
  intro l _
  rw [← Matrix.map_pow]
  rfl

end NTV.InvDiff
