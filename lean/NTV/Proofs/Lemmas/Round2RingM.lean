import NTV.Proofs.Lemmas.Round2RingL
import NTV.Proofs.Lemmas.NormResFinal
import NTV.Proofs.C05
import Mathlib.RingTheory.Discriminant
/-! Round 2, the primes whose square does not divide the discriminant: the discriminant
`disc(f)·det²/lc^(2n−2)` of a closed lattice is an integer (it is, up to sign, the determinant of the integral
trace form), hence an order is `p`-maximal as soon as `p² ∤ disc`. The identification of the trace-form
discriminant of the power basis of `ℚ[X]/(F)` with `discr F / lc^(2n−2)` is the hypothesis `DiscrTraceStmt`
(proved in `DiscrTrace.lean`). -/
open Matrix Finset Polynomial
namespace NTV.TableAbs

variable {K : Type*} [CommRing K] [Algebra ℚ K] {n : ℕ} [NeZero n]
variable {q : ℚ →+* K} {Ω : Fin n → K} {T : Fin n → Fin n → Fin n → ℤ}

/-- the algebra trace of `Σ a_i Ω_i` is the (integral) trace of `reg T a` -/
theorem Ctx.algTrace_eq (h : Ctx q Ω T) (hdim : Module.finrank ℚ K = n) (a : Fin n → ℤ) :
    Algebra.trace ℚ K (psi q Ω (castV a)) = (((reg T a).trace : ℤ) : ℚ) := by
  classical
  rw [Algebra.trace_eq_matrix_trace (h.basis hdim), h.leftMulMatrix_eq hdim, Matrix.trace_transpose]
  simp [Matrix.trace, castM]

/-- the discriminant (determinant of the trace form) of the ℤ-basis of an order is an integer -/
theorem Ctx.discr_int (h : Ctx q Ω T) (hdim : Module.finrank ℚ K = n) :
    ∃ z : ℤ, Algebra.discr ℚ Ω = (z : ℚ) := by
  classical
  let G : Matrix (Fin n) (Fin n) ℤ :=
    Matrix.of fun i j => (reg T (mulVec T (Pi.single i 1) (Pi.single j 1))).trace
  refine ⟨G.det, ?_⟩
  rw [Algebra.discr_def, ← det_castM]
  congr 1
  ext i j
  rw [Algebra.traceMatrix_apply, Algebra.traceForm_apply]
  have e : Ω i * Ω j = psi q Ω (castV (mulVec T (Pi.single i 1) (Pi.single j 1))) := by
    rw [← h.mul_agrees]
    have hi : castV (Pi.single i (1 : ℤ)) = (Pi.single i (1 : ℚ) : Fin n → ℚ) := by
      funext k; by_cases hk : k = i <;> simp [castV, hk]
    have hj : castV (Pi.single j (1 : ℤ)) = (Pi.single j (1 : ℚ) : Fin n → ℚ) := by
      funext k; by_cases hk : k = j <;> simp [castV, hk]
    rw [hi, hj, psi_single, psi_single]
  rw [e, h.algTrace_eq hdim]
  simp [castM, G]

end NTV.TableAbs

namespace NTV.Round2
open NTV.Ord NTV.PolyG NTV.R2Abs
open NTV.TableAbs (Ctx psi)
open NTV.RowOps (toM Rect ent)
open NTV.Alg (modulus cls)

/-- the trace-form discriminant of the power basis of `ℚ[X]/(F)` is `± discr F / lc(F)^(2n−2)` -/
def DiscrTraceStmt : Prop :=
  ∀ (F : ℚ[X]) (hF : F ≠ 0), 1 ≤ F.natDegree → ∃ ε : ℚ, (ε = 1 ∨ ε = -1) ∧
    Algebra.discr ℚ (AdjoinRoot.powerBasis hF).basis * F.leadingCoeff ^ (2 * F.natDegree - 2) = ε * F.discr

/-- the discriminant commutes with the embedding `ℤ[X] → ℚ[X]` -/
theorem discr_map_int (g : ℤ[X]) (hg : 0 < g.degree) :
    (g.map (Int.castRingHom ℚ)).discr = ((g.discr : ℤ) : ℚ) := by
  have hinj : Function.Injective (Int.castRingHom ℚ) := Int.cast_injective
  have hdeg : (g.map (Int.castRingHom ℚ)).natDegree = g.natDegree := natDegree_map_eq_of_injective hinj g
  have hdegpos : 0 < (g.map (Int.castRingHom ℚ)).degree := by
    rw [degree_map_eq_of_injective hinj]; exact hg
  have h1 := resultant_deriv hg
  have h2 := resultant_deriv hdegpos
  rw [derivative_map, hdeg, resultant_map_map, h1, leadingCoeff_map_of_injective hinj] at h2
  have hlc : ((g.leadingCoeff : ℤ) : ℚ) ≠ 0 := by
    have : g.leadingCoeff ≠ 0 := leadingCoeff_ne_zero.mpr (ne_zero_of_degree_gt hg)
    exact_mod_cast this
  have hs : ((-1 : ℚ) ^ (g.natDegree * (g.natDegree - 1) / 2)) ≠ 0 := pow_ne_zero _ (by norm_num)
  simp only [map_mul, map_pow, map_neg, map_one, eq_intCast] at h2
  have := mul_left_cancel₀ (mul_ne_zero hs hlc) h2
  exact this.symm

variable {f : List Int} {B : QMat} {n : Nat}

theorem _root_.NTV.Ord.Setup.finrank (S : Setup f B n) : Module.finrank ℚ (AdjoinRoot (modulus f)) = n := by
  obtain ⟨hdeg, hF⟩ := NTV.Alg.modulus_facts f S.canon S.two_le
  rw [(AdjoinRoot.powerBasis hF).finrank, AdjoinRoot.powerBasis_dim, hdeg, S.len]; simp

/-- a list of `n` coefficients as a combination of the powers of the root -/
theorem mk_toPoly_eq_sum (F : ℚ[X]) (l : List ℚ) (n : ℕ) (hl : l.length ≤ n) :
    AdjoinRoot.mk F (toPoly l) = ∑ c : Fin n, algebraMap ℚ (AdjoinRoot F) (l.getD c 0) * AdjoinRoot.root F ^ (c : ℕ) := by
  have : toPoly l = ∑ c : Fin n, C (l.getD c 0) * X ^ (c : ℕ) := by
    ext m
    rw [coeff_toPoly, Polynomial.finsetSum_coeff]
    simp only [coeff_C_mul, coeff_X_pow]
    by_cases hm : m < n
    · rw [Finset.sum_eq_single ⟨m, hm⟩]
      · simp
      · intro b _ hb
        have : m ≠ b.val := fun e => hb (Fin.ext e.symm)
        simp [this]
      · intro h; exact absurd (Finset.mem_univ _) h
    · rw [getD_of_length_le l m (by omega)]
      symm
      apply Finset.sum_eq_zero
      intro b _
      have : m ≠ b.val := by have := b.isLt; omega
      simp [this]
  rw [this, map_sum]
  apply Finset.sum_congr rfl
  intro c _
  rw [map_mul, map_pow, AdjoinRoot.mk_C, AdjoinRoot.mk_X]
  rfl

/-- **the discriminant of a closed lattice is an integer**: `disc(f)·det(B)²/lc^(2n−2) = ± det(trace form)` -/
theorem discValue_int (hDT : DiscrTraceStmt) (S : Setup f B n) (hcl : Closed f B n) :
    ∃ z : ℤ, discValue (toPoly f).discr f (toM n n B).det = (z : ℚ) := by
  classical
  have hn : 0 < n := S.pos
  have : NeZero n := ⟨by omega⟩
  obtain ⟨hdeg, hF⟩ := NTV.Alg.modulus_facts f S.canon S.two_le
  have hnat : (modulus f).natDegree = n := by rw [hdeg, S.len]; simp
  obtain ⟨_, hC⟩ := S.ctx_of_closed hcl
  let Ω' : Fin n → AdjoinRoot (modulus f) := fun i => AdjoinRoot.mk (modulus f) (toPoly (B.getD i []))
  have hC' : Ctx (K := AdjoinRoot (modulus f)) (qK f) Ω' (tabT (tableOf f B n) n) := hC
  obtain ⟨z, hz⟩ := hC'.discr_int S.finrank
  -- the powers of the root, indexed by Fin n
  let b' : Fin n → AdjoinRoot (modulus f) := fun c => AdjoinRoot.root (modulus f) ^ (c : ℕ)
  have hΩ : Ω' = (toM n n B).map (algebraMap ℚ (AdjoinRoot (modulus f))) *ᵥ b' := by
    funext i
    have := mk_toPoly_eq_sum (modulus f) (B.getD i []) n (by rw [S.rect.row_length i i.isLt])
    simp only [Matrix.mulVec, dotProduct, Matrix.map_apply, b', Ω']
    exact this
  have hdisc : Algebra.discr ℚ Ω' = (toM n n B).det ^ 2 * Algebra.discr ℚ b' := by
    rw [hΩ, Algebra.discr_of_matrix_mulVec]
  -- reindex the power basis
  have hb' : Algebra.discr ℚ b' = Algebra.discr ℚ (AdjoinRoot.powerBasis hF).basis := by
    have hdim : (AdjoinRoot.powerBasis hF).dim = n := by rw [AdjoinRoot.powerBasis_dim, hnat]
    rw [← Algebra.discr_reindex ℚ (AdjoinRoot.powerBasis hF).basis (finCongr hdim)]
    congr 1
    funext c
    simp [b']
  obtain ⟨ε, hε, hdt⟩ := hDT (modulus f) hF (by rw [hnat]; exact hn)
  have hne : f ≠ [] := by intro e; have := S.len; rw [e] at this; simp at this
  have hlc : (modulus f).leadingCoeff = ((lc f : Int) : ℚ) := modulus_leadingCoeff f S.canon hne
  have hlc0 : ((lc f : Int) : ℚ) ≠ 0 := by rw [← hlc]; exact leadingCoeff_ne_zero.mpr hF
  have hcoef : coefAt f (degU f) = lc f := by
    rw [S.degU_eq]
    have := NTV.PolyG.lc_eq_getD f hne
    rw [S.len, Nat.add_sub_cancel] at this
    unfold coefAt
    rw [this]
  have hdmap : (modulus f).discr = (((toPoly f).discr : ℤ) : ℚ) := by
    rw [modulus_eq_map]
    apply discr_map_int
    have h1 := (natDegree_toPoly f hne S.canon).1
    rw [← natDegree_pos_iff_degree_pos, h1, S.len]; simpa using hn
  rw [hnat, hlc, hdmap] at hdt
  have hexp : 2 * n - 2 = 2 * (n - 1) := by omega
  refine ⟨(if ε = 1 then 1 else -1) * z, ?_⟩
  unfold discValue
  rw [hcoef, S.degU_eq]
  have hεsq : ε * ε = 1 := by rcases hε with rfl | rfl <;> norm_num
  have hd : (((toPoly f).discr : ℤ) : ℚ) = ε * (Algebra.discr ℚ (AdjoinRoot.powerBasis hF).basis *
      ((lc f : Int) : ℚ) ^ (2 * n - 2)) := by
    rw [hdt, ← mul_assoc, hεsq, one_mul]
  have hzz : (z : ℚ) = (toM n n B).det ^ 2 * Algebra.discr ℚ (AdjoinRoot.powerBasis hF).basis := by
    rw [← hz, hdisc, hb']
  have hcastε : (((if ε = 1 then 1 else -1 : ℤ) * z : ℤ) : ℚ) = ε * (z : ℚ) := by
    rcases hε with rfl | rfl
    · simp
    · have : ¬ ((-1 : ℚ) = 1) := by norm_num
      simp [this]
  rw [hcastε, hzz, hd, hexp]
  push_cast
  field_simp

end NTV.Round2

namespace NTV.Round2
open NTV.Ord NTV.PolyG NTV.R2Abs
open NTV.RowOps (toM Rect ent)

variable {f : List Int} {n : Nat}

theorem discValue_mul (d : ℤ) (f : List Int) (a x : ℚ) :
    discValue d f (a * x) = a ^ 2 * discValue d f x := by
  unfold discValue
  ring

/-- **an order is p-maximal as soon as p² does not divide its discriminant** (given the identification of the
discriminant with the trace form) -/
theorem pmaximal_of_not_sq_dvd (hDT : DiscrTraceStmt) {O : QMat} (g : GoodOrder f n O) (p : ℕ) (hp : p.Prime)
    (dO : ℤ) (hdO : discriminantOrd O f = .ok dO) (hnd : ¬ (p : ℤ) ^ 2 ∣ dO) : PMaximal f n O p := by
  intro S rS dS cS ⟨A, hA⟩ ⟨r, Bm, hB⟩
  have SS : Setup f S n := ⟨g.setup.canon, g.setup.len, g.setup.pos, rS, dS⟩
  obtain ⟨d, fl, hdisc, _, _, hval⟩ := (discriminantOrd_ok_iff O n g.setup.rect f dO).mp hdO
  have hd : d = (toPoly f).discr := by
    have := NTV.C05.discriminant_is_discr f g.setup.canon g.setup.two_le
    rw [this] at hdisc
    injection hdisc with h1
    injection h1 with h2 _
    exact h2.symm
  subst hd
  obtain ⟨zS, hzS⟩ := discValue_int hDT SS cS
  -- det O = det A · det S
  have hdet : (toM n n O).det = ((A.det : ℤ) : ℚ) * (toM n n S).det := by
    rw [hA, Matrix.det_mul, det_map_cast]
  have hdO' : dO = A.det ^ 2 * zS := by
    have : (dO : ℚ) = ((A.det : ℤ) : ℚ) ^ 2 * (zS : ℚ) := by
      rw [← hval, hdet, discValue_mul, hzS]
    exact_mod_cast this
  -- B·A = p^r
  have hBA : ((Bm * A).map (Int.castRingHom ℚ)) = ((p : ℚ) ^ r) • (1 : Matrix (Fin n) (Fin n) ℚ) := by
    have h1 : ((Bm * A).map (Int.castRingHom ℚ)) * toM n n S = (((p : ℚ) ^ r) • (1 : Matrix (Fin n) (Fin n) ℚ)) * toM n n S := by
      rw [Matrix.map_mul, Matrix.mul_assoc, ← hA, ← hB, Matrix.smul_mul, Matrix.one_mul]
    have hu : IsUnit (toM n n S).det := isUnit_iff_ne_zero.mpr dS
    have := congrArg (· * (toM n n S)⁻¹) h1
    simpa [Matrix.mul_assoc, Matrix.mul_nonsing_inv _ hu] using this
  have hdetBA : Bm.det * A.det = (p : ℤ) ^ (r * n) := by
    have := congrArg Matrix.det hBA
    rw [det_map_cast, Matrix.det_mul, Matrix.det_smul, Matrix.det_one, mul_one, Fintype.card_fin, ← pow_mul] at this
    exact_mod_cast this
  have hdvd : A.det.natAbs ∣ p ^ (r * n) := by
    have : A.det ∣ (p : ℤ) ^ (r * n) := ⟨Bm.det, by rw [← hdetBA]; ring⟩
    have := Int.natAbs_dvd_natAbs.mpr this
    rwa [Int.natAbs_pow, Int.natAbs_natCast] at this
  obtain ⟨j, _, hj⟩ := (Nat.dvd_prime_pow hp).mp hdvd
  rcases Nat.eq_zero_or_pos j with rfl | hjpos
  · -- A is unimodular
    have hU : IsUnit A.det := Int.isUnit_iff_natAbs_eq.mpr (by simpa using hj)
    refine ⟨A⁻¹, ?_⟩
    rw [hA, ← Matrix.mul_assoc, ← Matrix.map_mul, Matrix.nonsing_inv_mul _ hU]
    simp
  · exfalso
    apply hnd
    have hsq : A.det ^ 2 = ((p : ℤ) ^ j) ^ 2 := by
      have h1 : (A.det.natAbs : ℤ) ^ 2 = A.det ^ 2 := Int.natAbs_sq A.det
      rw [← h1, hj]
      push_cast
      rfl
    rw [hdO', hsq]
    obtain ⟨j', rfl⟩ : ∃ j', j = j' + 1 := ⟨j - 1, by omega⟩
    exact ⟨((p : ℤ) ^ j') ^ 2 * zS, by ring⟩

/-- **maximality of the result at every prime** (given the identification of the discriminant with the trace
form) -/
theorem findIntegralBasis_pmaximal (hDT : DiscrTraceStmt) (f : List Int) (hf : Canon f) (O : Order)
    (H : findIntegralBasis f = .ok O) (p : ℕ) (hp : p.Prime) : PMaximal f (degU f) O p := by
  have g := findIntegralBasis_good f hf O H
  -- the discriminant of the result is computed
  have hdO : ∃ dO : ℤ, discriminantOrd O f = .ok dO := by
    unfold findIntegralBasis at H
    obtain ⟨S, hS, H⟩ := (bind_ok _ _ _).mp H
    obtain ⟨dS, hdS, H⟩ := (bind_ok _ _ _).mp H
    split at H
    · cases H
    · rename_i hd0
      obtain ⟨hn, rS, dtS, sS, c, hc⟩ := start_good f S dS hS hdS hd0
      have hfac := NTV.Trial.factorize_correct dS.natAbs (by omega)
      obtain ⟨i, ext, hi⟩ := fold_ext f hn (NTV.Trial.factorize dS.natAbs)
        (fun pe hpe => ((hfac.2.1 pe hpe).1).pos) S O rS dtS sS H
      rw [← hfac.1, Int.dvd_natAbs] at hi
      obtain ⟨dO, hdO⟩ := hi
      exact ⟨dO, disc_of_ext rS ext f dS dO hdS hdO⟩
  obtain ⟨dO, hdO⟩ := hdO
  by_cases hdvd : (p : ℤ) ^ 2 ∣ dO
  · exact (findIntegralBasis_max f hf O H p hp dO hdO hdvd).pmaximal g
  · exact pmaximal_of_not_sq_dvd hDT g p hp dO hdO hdvd

end NTV.Round2
