import Mathlib.Data.ZMod.Units
import Mathlib.GroupTheory.Coset.Card
import Mathlib.Algebra.Group.Subgroup.Finite
import Mathlib.Tactic
/-! Group-theoretic core of the Rabin–Monier bound: subgroups of `(ZMod n)ˣ` cut out by
"`u^t ≡ ±1` modulo a divisor of n", a counting lemma for chains of subgroups, and CRT for units. -/
namespace NTV.RM

open ZMod

/-- a strict chain `K₀ < K₁ < K₂` of subgroups of a finite group forces `4·|K₀| ≤ |G|`. -/
theorem card_chain4 {G : Type*} [Group G] [Finite G] (K₀ K₁ K₂ : Subgroup G)
    (h01 : K₀ ≤ K₁) (h12 : K₁ ≤ K₂) (n01 : K₀ ≠ K₁) (n12 : K₁ ≠ K₂) :
    4 * Nat.card K₀ ≤ Nat.card G := by
  have step : ∀ (A B : Subgroup G), A ≤ B → A ≠ B → 2 * Nat.card A ≤ Nat.card B := by
    intro A B hAB hne
    obtain ⟨k, hk⟩ := Subgroup.card_dvd_of_le hAB
    have hB : 0 < Nat.card B := Nat.card_pos
    have hA : 0 < Nat.card A := Nat.card_pos
    have hk1 : k ≠ 1 := by
      intro h1
      apply hne
      apply Subgroup.eq_of_le_of_card_ge hAB
      rw [hk, h1]; simp
    have hk0 : k ≠ 0 := by
      intro h0; rw [h0] at hk; simp at hk; omega
    have : 2 ≤ k := by omega
    rw [hk]; nlinarith
  have s1 := step K₀ K₁ h01 n01
  have s2 := step K₁ K₂ h12 n12
  have s3 : Nat.card K₂ ≤ Nat.card G := Subgroup.card_le_card_group K₂
  omega

/-- the subgroup `{1, −1}` of the units of a commutative ring -/
def pmSub (R : Type*) [CommRing R] : Subgroup Rˣ where
  carrier := {u | u = 1 ∨ u = -1}
  one_mem' := Or.inl rfl
  mul_mem' := by
    rintro a b (rfl | rfl) (rfl | rfl) <;> simp
  inv_mem' := by
    rintro a (rfl | rfl) <;> simp

theorem mem_pmSub {R : Type*} [CommRing R] (u : Rˣ) : u ∈ pmSub R ↔ u = 1 ∨ u = -1 := Iff.rfl

/-- `P hm t` = units u of `ZMod n` with `u^t ≡ ±1 (mod m)`, for a divisor m of n -/
def P {n m : ℕ} (hm : m ∣ n) (t : ℕ) : Subgroup (ZMod n)ˣ :=
  (pmSub (ZMod m)).comap ((powMonoidHom t).comp (unitsMap hm))

theorem mem_P {n m : ℕ} (hm : m ∣ n) (t : ℕ) (u : (ZMod n)ˣ) :
    u ∈ P hm t ↔ (unitsMap hm u) ^ t = 1 ∨ (unitsMap hm u) ^ t = -1 := Iff.rfl

theorem mem_P_self {n : ℕ} (t : ℕ) (u : (ZMod n)ˣ) :
    u ∈ P (dvd_refl n) t ↔ u ^ t = 1 ∨ u ^ t = -1 := by
  rw [mem_P, unitsMap_self]; rfl

theorem unitsMap_neg_one {n m : ℕ} (hm : m ∣ n) : unitsMap hm (-1) = -1 := by
  rw [unitsMap_def]; exact Units.map_neg_one _

theorem unitsMap_unitsMap {n m k : ℕ} (hk : k ∣ m) (hm : m ∣ n) (u : (ZMod n)ˣ) :
    unitsMap hk (unitsMap hm u) = unitsMap (dvd_trans hk hm) u := by
  rw [← unitsMap_comp hk hm]; rfl

/-- `±1` modulo m stays `±1` modulo a divisor of m -/
theorem P_mono {n m k : ℕ} (hk : k ∣ m) (hm : m ∣ n) (t : ℕ) :
    P hm t ≤ P (dvd_trans hk hm) t := by
  intro u hu
  rw [mem_P] at hu ⊢
  rw [← unitsMap_unitsMap hk hm]
  rcases hu with h | h
  · left; rw [← map_pow, h, map_one]
  · right; rw [← map_pow, h, unitsMap_neg_one]

theorem neg_one_ne_one_units {m : ℕ} (hm : 2 < m) : (-1 : (ZMod m)ˣ) ≠ 1 := by
  intro h
  have h' : (-1 : ZMod m) = 1 := by
    have := congrArg Units.val h
    simpa using this
  have : Fact (2 < m) := ⟨hm⟩
  exact ZMod.neg_one_ne_one h'

/-- CRT for units: prescribe a unit modulo two coprime divisors of n. -/
theorem crt_unit {n m₁ m₂ : ℕ} [NeZero n] (h₁ : m₁ ∣ n) (h₂ : m₂ ∣ n) (hc : m₁.Coprime m₂)
    (u₁ : (ZMod m₁)ˣ) (u₂ : (ZMod m₂)ˣ) :
    ∃ u : (ZMod n)ˣ, unitsMap h₁ u = u₁ ∧ unitsMap h₂ u = u₂ := by
  have hn0 : n ≠ 0 := NeZero.ne n
  have hm1 : NeZero m₁ := ⟨fun h => hn0 (by rw [h] at h₁; exact zero_dvd_iff.mp h₁)⟩
  have hm2 : NeZero m₂ := ⟨fun h => hn0 (by rw [h] at h₂; exact zero_dvd_iff.mp h₂)⟩
  have h12 : m₁ * m₂ ∣ n := hc.mul_dvd_of_dvd_of_dvd h₁ h₂
  obtain ⟨k, hk1, hk2⟩ := Nat.chineseRemainder hc u₁.val.val u₂.val.val
  have c1 : k.Coprime m₁ := by
    have := ZMod.val_coe_unit_coprime u₁
    rw [Nat.Coprime, Nat.ModEq.gcd_eq hk1]
    exact this
  have c2 : k.Coprime m₂ := by
    have := ZMod.val_coe_unit_coprime u₂
    rw [Nat.Coprime, Nat.ModEq.gcd_eq hk2]
    exact this
  have c12 : k.Coprime (m₁ * m₂) := Nat.Coprime.mul_right c1 c2
  obtain ⟨u, hu⟩ := unitsMap_surjective h12 (unitOfCoprime k c12)
  refine ⟨u, ?_, ?_⟩
  · rw [← unitsMap_unitsMap (Dvd.intro _ rfl) h12, hu]
    apply Units.ext
    rw [unitsMap_val, coe_unitOfCoprime, ZMod.cast_natCast (Dvd.intro _ rfl)]
    rw [(ZMod.natCast_eq_natCast_iff _ _ _).mpr hk1, ZMod.natCast_zmod_val]
  · rw [← unitsMap_unitsMap (Dvd.intro_left _ rfl) h12, hu]
    apply Units.ext
    rw [unitsMap_val, coe_unitOfCoprime, ZMod.cast_natCast (Dvd.intro_left _ rfl)]
    rw [(ZMod.natCast_eq_natCast_iff _ _ _).mpr hk2, ZMod.natCast_zmod_val]

end NTV.RM

namespace NTV.RM
open ZMod

/-- if `a₀^t = −1` in `(ZMod n)ˣ` and m₁, m₂ > 2 are coprime divisors of n, some unit is `±1` modulo
m₁ and modulo m₂ after raising to the t, but not modulo m₁·m₂ -/
theorem split_strict {n m₁ m₂ : ℕ} [NeZero n] (h₁ : m₁ ∣ n) (h₂ : m₂ ∣ n) (hc : m₁.Coprime m₂)
    (g₁ : 2 < m₁) (g₂ : 2 < m₂) (t : ℕ) (a₀ : (ZMod n)ˣ) (ha₀ : a₀ ^ t = -1)
    (hM : m₁ * m₂ ∣ n) :
    ∃ b : (ZMod n)ˣ, b ∈ P h₁ t ∧ b ∈ P h₂ t ∧ b ∉ P hM t := by
  obtain ⟨b, hb1, hb2⟩ := crt_unit h₁ h₂ hc (unitsMap h₁ a₀) 1
  have e1 : (unitsMap h₁ b) ^ t = -1 := by
    rw [hb1, ← map_pow, ha₀, unitsMap_neg_one]
  have e2 : (unitsMap h₂ b) ^ t = 1 := by rw [hb2, one_pow]
  refine ⟨b, Or.inr e1, Or.inl e2, ?_⟩
  intro hb
  have q1 := P_mono (Dvd.intro _ rfl : m₁ ∣ m₁ * m₂) hM t hb
  have q2 := P_mono (Dvd.intro_left _ rfl : m₂ ∣ m₁ * m₂) hM t hb
  rw [mem_P] at hb
  rcases hb with hb | hb
  · -- ≡ 1 mod m₁ m₂, so ≡ 1 mod m₁, but it is −1 there
    have : (unitsMap h₁ b) ^ t = 1 := by
      rw [← unitsMap_unitsMap (Dvd.intro _ rfl : m₁ ∣ m₁ * m₂) hM, ← map_pow, hb, map_one]
    rw [e1] at this
    exact neg_one_ne_one_units g₁ this
  · have : (unitsMap h₂ b) ^ t = -1 := by
      rw [← unitsMap_unitsMap (Dvd.intro_left _ rfl : m₂ ∣ m₁ * m₂) hM, ← map_pow, hb,
        unitsMap_neg_one]
    rw [e2] at this
    exact neg_one_ne_one_units g₂ this.symm

/-- the counting core: n = m₁·m₂ with coprime m₁, m₂ > 2, `−1` is a t-th power, and some unit is not
`±1` modulo both factors after raising to the t: then at most a quarter of the units satisfy
`u^t = ±1`. -/
theorem quarter_of_split {n m₁ m₂ : ℕ} [NeZero n] (hn : m₁ * m₂ = n) (hc : m₁.Coprime m₂)
    (g₁ : 2 < m₁) (g₂ : 2 < m₂) (t : ℕ) (a₀ : (ZMod n)ˣ) (ha₀ : a₀ ^ t = -1)
    (w : (ZMod n)ˣ)
    (hw : ¬ (w ∈ P (Dvd.intro _ hn : m₁ ∣ n) t ∧ w ∈ P (Dvd.intro_left _ hn : m₂ ∣ n) t)) :
    4 * Nat.card (P (dvd_refl n) t) ≤ Nat.card (ZMod n)ˣ := by
  have h₁ : m₁ ∣ n := Dvd.intro _ hn
  have h₂ : m₂ ∣ n := Dvd.intro_left _ hn
  have hM : m₁ * m₂ ∣ n := by rw [hn]
  obtain ⟨b, b1, b2, b3⟩ := split_strict h₁ h₂ hc g₁ g₂ t a₀ ha₀ hM
  have hPM : P hM t = P (dvd_refl n) t := by subst hn; rfl
  rw [hPM] at b3
  apply card_chain4 (P (dvd_refl n) t) (P h₁ t ⊓ P h₂ t) ⊤
  · exact le_inf (P_mono h₁ (dvd_refl n) t) (P_mono h₂ (dvd_refl n) t)
  · exact le_top
  · intro h
    apply b3; rw [h]; exact ⟨b1, b2⟩
  · intro h
    apply hw
    have : w ∈ P h₁ t ⊓ P h₂ t := by rw [h]; trivial
    exact this

/-- a unit modulo a divisor m whose order does not divide n − 1 gives a unit outside `P m t`
(as soon as 2t ∣ n − 1): used with Fermat witnesses. -/
theorem exists_not_mem_P_of_exponent {n m : ℕ} [NeZero n] (hm : m ∣ n) (t : ℕ)
    (h2t : 2 * t ∣ n - 1) (hexp : ¬ Monoid.exponent (ZMod m)ˣ ∣ n - 1) :
    ∃ w : (ZMod n)ˣ, w ∉ P hm t := by
  by_contra hall
  simp only [not_exists, not_not] at hall
  apply hexp
  apply Monoid.exponent_dvd_of_forall_pow_eq_one
  intro x
  obtain ⟨w, rfl⟩ := unitsMap_surjective hm x
  have hw := hall w
  rw [mem_P] at hw
  obtain ⟨k, hk⟩ := h2t
  have h2 : (unitsMap hm w) ^ (2 * t) = 1 := by
    rw [mul_comm, pow_mul]
    rcases hw with h | h <;> rw [h] <;> simp
  rw [hk, pow_mul, h2, one_pow]

end NTV.RM
