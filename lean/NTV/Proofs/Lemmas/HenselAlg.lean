import Mathlib.Algebra.Polynomial.Basic
import Mathlib.Tactic
open Polynomial
namespace NTV.Hensel

/-- congruence of integer polynomials modulo an integer -/
def PCong (q : ℤ) (f g : ℤ[X]) : Prop := ∃ h : ℤ[X], f - g = C q * h

/-- Algebraic core of Cohen 3.5.5 as implemented by `hensel_lift`: whatever quotient `t` is used,
c ≡ a·b (mod q), a·u + b·v ≡ 1 (mod r), r ∣ q give c ≡ a₁·b₁ (mod q·r). -/
theorem hensel_step (q r : ℤ) (hrq : r ∣ q) (a b c u v f t F : ℤ[X])
    (hc : c - a * b = C q * F) (hf : PCong r f F) (huv : PCong r (a * u + b * v) 1) :
    PCong (q * r) c ((a + C q * (v * f - a * t)) * (b + C q * (u * f + b * t))) ∧
    PCong q (a + C q * (v * f - a * t)) a ∧ PCong q (b + C q * (u * f + b * t)) b := by
  obtain ⟨s, rfl⟩ := hrq
  obtain ⟨g, hg⟩ := hf
  obtain ⟨w, hw⟩ := huv
  refine ⟨?_, ⟨v * f - a * t, by ring⟩, ⟨u * f + b * t, by ring⟩⟩
  refine ⟨-(g * (1 + C r * w) + F * w + C s * ((v * f - a * t) * (u * f + b * t))), ?_⟩
  have hf' : f = F + C r * g := by linear_combination hg
  have hw' : a * u + b * v = 1 + C r * w := by linear_combination hw
  have hc' : c = a * b + C (r * s) * F := by linear_combination hc
  simp only [C_mul] at hc' ⊢
  linear_combination hc' - (C r * C s * f) * hw' - (C r * C s * (1 + C r * w)) * hf'

end NTV.Hensel
