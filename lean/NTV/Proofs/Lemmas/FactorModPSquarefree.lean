import NTV.Proofs.Lemmas.FactorModPStages
import NTV.Proofs.Lemmas.FactorModPMult
/-! # C08: the squarefree stage (`squarefree` = `sqOuter` / `sqInner`) -/
open Polynomial
namespace NTV.PolyMod
open NTV.PolyG NTV.Hensel

theorem mulUsize_ok {a b r : Nat} (h : mulUsize a b = .ok r) : r = a * b := by
  unfold mulUsize at h
  split at h
  · simp only [pure, Except.pure, Except.ok.injEq] at h; exact h.symm
  · simp [throw, throwThe, MonadExceptOf.throw] at h

section prime
variable (p : ℕ) [hp : Fact p.Prime]

/-- entries of an intermediate factor list: good non-zero polynomial, positive exponent -/
def Entry (x : Poly × Nat) : Prop := GoodNZ p x.1 ∧ 1 ≤ x.2

omit hp in
theorem entry_append {result : Factors} {x : Poly × Nat} (h : ∀ y ∈ result, Entry p y) (hx : Entry p x) :
    ∀ y ∈ result ++ [x], Entry p y := by
  intro y hy
  rcases List.mem_append.mp hy with hy | hy
  · exact h y hy
  · simp only [List.mem_singleton] at hy; subst hy; exact hx

/-- the inner loop of `squarefree` -/
theorem sqInner_spec (e : Nat) (he : 1 ≤ e) : ∀ (fuel : Nat) (t v : Poly) (k : Nat) (result : Factors)
    (exit : SqExit) (result' : Factors),
    GoodNZ p t → GoodNZ p v → SqInv p (mp p t) (mp p v) → (∀ x ∈ result, Entry p x) →
    sqInner (p : Int) e fuel t v k result = .ok (exit, result') →
    (∀ x ∈ result', Entry p x) ∧
    (exit = .done → Associated (fprod p result') (fprod p result * (mp p t * mp p v ^ (k + 1)) ^ e)) ∧
    (∀ t', exit = .root t' → GoodNZ p t' ∧ degU t' ≠ 0 ∧ derivative (mp p t') = 0 ∧ mp p t' ∣ mp p t ∧
      Associated (fprod p result' * mp p t' ^ e) (fprod p result * (mp p t * mp p v ^ (k + 1)) ^ e)) ∧
    (SqJ p (pprod p result) (mp p t) (mp p v) → SqF p (pprod p result') ∧
      ∀ t', exit = .root t' → ∀ q : (ZMod p)[X], Irreducible q → q ∣ pprod p result' → ¬ q ∣ mp p t') := by
  intro fuel
  induction fuel with
  | zero => intro t v k result exit result' _ _ _ _ h; simp [sqInner] at h
  | succ fuel ih =>
    intro t v k result exit result' ht hv hinv hres h
    simp only [sqInner] at h
    split at h
    · rename_i hv0
      have hvu : IsUnit (mp p v) := isUnit_mp_of_degU_zero p hv hv0
      split at h
      · rename_i ht0
        simp only [pure, Except.pure, Except.ok.injEq, Prod.mk.injEq] at h
        obtain ⟨rfl, rfl⟩ := h
        refine ⟨hres, fun _ => ?_, (fun t' ht' => by cases ht'),
          fun hJ => ⟨hJ.sqF_left p, fun t' ht' => by cases ht'⟩⟩
        have hu : IsUnit ((mp p t * mp p v ^ (k + 1)) ^ e) :=
          ((isUnit_mp_of_degU_zero p ht ht0).mul (hvu.pow _)).pow _
        exact associated_mul_unit_right _ _ hu
      · rename_i ht0
        simp only [pure, Except.pure, Except.ok.injEq, Prod.mk.injEq] at h
        obtain ⟨rfl, rfl⟩ := h
        refine ⟨hres, (fun hh => by cases hh), fun t' ht' => ?_,
          fun hJ => ⟨hJ.sqF_left p, fun t' ht' => by cases ht'; exact hJ.2⟩⟩
        cases ht'
        refine ⟨ht, ht0, sqInv_exit p (GoodNZ.mp_ne_zero p ht) hinv hvu, dvd_refl _, ?_⟩
        have : Associated (mp p t) (mp p t * mp p v ^ (k + 1)) :=
          associated_mul_unit_right _ _ (hvu.pow _)
        exact (this.pow_pow (n := e)).mul_left _
    · obtain ⟨w, hg, h⟩ := (bind_ok_iff _ _ _).mp h
      obtain ⟨g1, g2⟩ := gcd_out p ht.1 hv.1 (Or.inl ht.2) hg
      obtain ⟨ea, ga⟩ := divide_out p hv g2 g1.2.1
      obtain ⟨et, gt⟩ := divide_out p ht g2 g1.1
      set aek := (polyDivrem v w p).1 with haek
      set t1 := (polyDivrem t w p).1 with ht1
      have hinv' : SqInv p (mp p t1) (mp p w) := sqInv_step p (GoodNZ.mp_ne_zero p ht) hinv g1 et
      -- the factor list after the push
      have hpush : ∃ res1, ((∀ x ∈ res1, Entry p x) ∧
          Associated (fprod p res1) (fprod p result * mp p aek ^ (e * (k + 1))) ∧
          (SqJ p (pprod p result) (mp p t) (mp p v) → SqJ p (pprod p res1) (mp p t1) (mp p w))) ∧
          sqInner (p : Int) e fuel t1 w (k + 1) res1 = .ok (exit, result') := by
        split at h
        · rename_i hd
          obtain ⟨res1, hr, h⟩ := (bind_ok_iff _ _ _).mp h
          obtain ⟨ek, hek, hr⟩ := (bind_ok_iff _ _ _).mp hr
          have := mulUsize_ok hek
          subst this
          simp only [pure, Except.pure, Except.ok.injEq] at hr
          subst hr
          refine ⟨_, ⟨entry_append p hres ⟨ga, ?_⟩, ?_, ?_⟩, h⟩
          · show 1 ≤ e * (k + 1)
            exact Nat.one_le_iff_ne_zero.mpr (Nat.mul_ne_zero (by omega) (by omega))
          · rw [fprod_append, fprod_cons, fprod_nil, mul_one]
          · intro hJ
            rw [pprod_append, pprod_cons, pprod_nil, mul_one]
            exact hJ.step_push p g1 ea et
        · rename_i hd
          obtain ⟨res1, hr, h⟩ := (bind_ok_iff _ _ _).mp h
          simp only [pure, Except.pure, Except.ok.injEq] at hr
          subst hr
          have hd0 : degU aek = 0 := by simpa using hd
          exact ⟨_, ⟨hres, associated_mul_unit_right _ _ ((isUnit_mp_of_degU_zero p ga hd0).pow _),
            fun hJ => hJ.step_skip p ea et⟩, h⟩
      obtain ⟨res1, hpush, h⟩ := hpush
      obtain ⟨i1, i2, i3, i4⟩ := ih t1 w (k + 1) res1 exit result' gt g2 hinv' hpush.1 h
      have key : fprod p result * mp p aek ^ (e * (k + 1)) * (mp p t1 * mp p w ^ (k + 1 + 1)) ^ e =
          fprod p result * (mp p t * mp p v ^ (k + 1)) ^ e := by
        rw [et, ea, pow_mul', mul_assoc (fprod p result), ← mul_pow]
        congr 2
        ring
      refine ⟨i1, fun hd => ?_, fun t' ht' => ?_, fun hJ => i4 (hpush.2.2 hJ)⟩
      · refine (i2 hd).trans ?_
        rw [← key]
        exact hpush.2.1.mul_right _
      · obtain ⟨j1, j2, j3, j4, j5⟩ := i3 t' ht'
        refine ⟨j1, j2, j3, j4.trans ⟨mp p w, et⟩, j5.trans ?_⟩
        rw [← key]
        exact hpush.2.1.mul_right _

theorem length_fromRaw_le_length (l : List Int) : (fromRaw l).length ≤ l.length := by
  unfold fromRaw
  rw [List.length_reverse]
  exact (List.dropWhile_sublist _).length_le.trans (by simp)

/-- the p-th root taken by `squarefree` is the p-contraction -/
theorem mp_root (t : Poly) (ht : GoodNZ p t) :
    mp p (fromRaw ((List.range (degU t / p + 1)).map (fun i => coefAt t (p * i)))) = contract p (mp p t) := by
  ext i
  rw [mp_fromRaw, coeff_mp, coeff_contract hp.out.ne_zero, coeff_mp]
  congr 1
  simp only [List.getD_eq_getElem?_getD, List.getElem?_map]
  by_cases hi : i < degU t / p + 1
  · rw [List.getElem?_range hi]
    simp [coefAt, mul_comm]
  · have : (List.range (degU t / p + 1))[i]? = none := by simp; omega
    rw [this]
    simp only [Option.map_none, Option.getD_none]
    have hlen : t.length ≤ i * p := by
      have hd : degU t = t.length - 1 := by
        unfold degU; cases t with
        | nil => exact absurd rfl ht.2
        | cons a l => simp
      have hpos : 0 < p := hp.out.pos
      have h1 : degU t / p < i := by omega
      have h2 : degU t < i * p := (Nat.div_lt_iff_lt_mul hpos).mp h1
      have : 0 < t.length := List.length_pos_of_ne_nil ht.2
      omega
    have : t[i * p]? = none := by simp; omega
    rw [this]; rfl

theorem good_root (t : Poly) (ht : GoodNZ p t) :
    Good p (fromRaw ((List.range (degU t / p + 1)).map (fun i => coefAt t (p * i)))) := by
  refine ⟨reduced_fromRaw _ _ ?_, canon_fromRaw _⟩
  apply reduced_of_forall_mem _ (by exact_mod_cast hp.out.pos)
  intro c hc
  obtain ⟨i, _, rfl⟩ := List.mem_map.mp hc
  exact ht.1.1 _

/-- the outer loop of `squarefree`: the collected pairs multiply to t₀ᵉ (up to a unit); the machine-word
copy `pusize` of p is used only when a p-th root is taken, which needs deg t₀ ≥ p -/
theorem sqOuter_spec (pusize : Nat) : ∀ (fuel : Nat) (t0 : Poly) (e : Nat) (result result' : Factors),
    GoodNZ p t0 → 1 ≤ e → (pusize = p ∨ t0.length ≤ p) → (∀ x ∈ result, Entry p x) →
    sqOuter (p : Int) pusize fuel t0 e result = .ok result' →
    Associated (fprod p result') (fprod p result * mp p t0 ^ e) ∧ (∀ x ∈ result', Entry p x) ∧
    (SqF p (pprod p result) → (∀ q : (ZMod p)[X], Irreducible q → q ∣ pprod p result → ¬ q ∣ mp p t0) →
      SqF p (pprod p result')) := by
  intro fuel
  induction fuel with
  | zero => intro t0 e result result' _ _ _ _ h; simp [sqOuter] at h
  | succ fuel ih =>
    intro t0 e result result' ht0 he hpu hres h
    simp only [sqOuter] at h
    split at h
    · rename_i hd0
      simp only [pure, Except.pure, Except.ok.injEq] at h
      subst h
      exact ⟨associated_mul_unit_right _ _ ((isUnit_mp_of_degU_zero p ht0 hd0).pow _), hres, fun h _ => h⟩
    · obtain ⟨t, hg, h⟩ := (bind_ok_iff _ _ _).mp h
      have hder : Good p (differentialMod t0 p) := by
        unfold differentialMod
        split
        · exact good_nil p hp.out.pos
        · exact good_polyMod p hp.out.pos _
      have hderm : mp p (differentialMod t0 p) = derivative (mp p t0) := by
        unfold differentialMod
        split
        · rename_i he; exact absurd (by cases t0 <;> simp_all) ht0.2
        · rw [mp_polyMod]; simp [mp, toPoly_differential, derivative_map]
      obtain ⟨g1, g2⟩ := gcd_out p ht0.1 hder (Or.inl ht0.2) hg
      rw [hderm] at g1
      obtain ⟨ev, gv⟩ := divide_out p ht0 g2 g1.1
      have hinv : SqInv p (mp p t) (mp p (polyDivrem t0 t p).1) :=
        sqInv_init p (GoodNZ.mp_ne_zero p ht0) g1 ev
      obtain ⟨⟨exit, r1⟩, hin, h⟩ := (bind_ok_iff _ _ _).mp h
      obtain ⟨i1, i2, i3, i4⟩ := sqInner_spec p e he _ t _ 0 result exit r1 g2 gv hinv hres hin
      have hJ0 : SqF p (pprod p result) → (∀ q : (ZMod p)[X], Irreducible q → q ∣ pprod p result → ¬ q ∣ mp p t0) →
          SqJ p (pprod p result) (mp p t) (mp p (polyDivrem t0 t p).1) :=
        fun h1 h2 => SqJ.init p h1 h2 hinv.sqF ev
      have eT : mp p t * mp p (polyDivrem t0 t p).1 ^ (0 + 1) = mp p t0 := by
        rw [ev]; ring
      rw [eT] at i2 i3
      cases exit with
      | done =>
        simp only [pure, Except.pure, Except.ok.injEq] at h
        subst h
        exact ⟨i2 rfl, i1, fun h1 h2 => (i4 (hJ0 h1 h2)).1⟩
      | root t' =>
        obtain ⟨j1, j2, j3, j4, j5⟩ := i3 t' rfl
        simp only at h
        -- a p-th root is only taken when deg t₀ ≥ p
        have hnd : (mp p t').natDegree ≠ 0 := by rw [← degU_eq_natDegree p t' j1.1 j1.2]; exact j2
        have hge := le_natDegree_of_derivative_eq_zero p j3 hnd
        have hle : (mp p t').natDegree ≤ (mp p t0).natDegree :=
          natDegree_le_of_dvd (j4.trans g1.1) (GoodNZ.mp_ne_zero p ht0)
        have hpu' : pusize = p := by
          rcases hpu with h1 | h1
          · exact h1
          · exfalso
            rw [(natDegree_mp p t0 ht0.1 ht0.2).1] at hle
            have : 0 < t0.length := List.length_pos_of_ne_nil ht0.2
            omega
        subst hpu'
        split at h
        · simp [throw, throwThe, MonadExceptOf.throw, bind, Except.bind] at h
        obtain ⟨e', he', h⟩ := (bind_ok_iff _ _ _).mp h
        have := mulUsize_ok he'
        subst this
        have hroot : mp pusize (fromRaw ((List.range (degU t' / pusize + 1)).map (fun i => coefAt t' (pusize * i)))) ^ pusize
            = mp pusize t' := by
          rw [mp_root pusize t' j1]; exact (eq_contract_pow pusize j3).symm
        have hgood := good_root pusize t' j1
        have hnz : GoodNZ pusize (fromRaw ((List.range (degU t' / pusize + 1)).map (fun i => coefAt t' (pusize * i)))) := by
          apply goodNZ_of_mp_ne_zero pusize hgood
          intro e0
          rw [e0, zero_pow hp.out.ne_zero] at hroot
          exact GoodNZ.mp_ne_zero pusize j1 hroot.symm
        obtain ⟨k1, k2, k3⟩ := ih _ _ _ result' hnz
          (Nat.one_le_iff_ne_zero.mpr (Nat.mul_ne_zero (by omega) hp.out.ne_zero)) (Or.inl rfl) i1 h
        refine ⟨k1.trans ?_, k2, fun h1 h2 => ?_⟩
        · rw [pow_mul', hroot]
          exact j5
        · obtain ⟨m1, m2⟩ := i4 (hJ0 h1 h2)
          refine k3 m1 (fun q hq hqR hqt => m2 t' rfl q hq hqR ?_)
          rw [← hroot]
          exact hqt.trans (dvd_pow_self _ hp.out.ne_zero)

/-- `squarefree_product`: for a non-zero input reduced modulo p, the pairs (A, m) returned by
`squarefree` satisfy ∏ Aᵐ = input up to a unit of F_p (the A are *not* normalised to monic), every A is
a non-zero canonical polynomial with coefficients in [0, p) and every m ≥ 1. `pusize` must be p unless
deg < p. -/
theorem squarefree_product (poly : Poly) (pusize : Nat) (fs : Factors) (hpoly : GoodNZ p poly)
    (hpu : pusize = p ∨ poly.length ≤ p) (h : squarefree poly (p : Int) pusize = .ok fs) :
    Associated (fprod p fs) (mp p poly) ∧ (∀ x ∈ fs, Entry p x) ∧ SqF p (pprod p fs) := by
  unfold squarefree at h
  split at h
  · simp [throw, throwThe, MonadExceptOf.throw] at h
  rw [polyMod_of_good p poly hpoly.1] at h
  obtain ⟨h1, h2, h3⟩ := sqOuter_spec p pusize _ poly 1 [] fs hpoly (le_refl 1) hpu (by simp) h
  refine ⟨by simpa using h1, h2, h3 ?_ ?_⟩
  · intro q hq hd
    rw [pprod_nil] at hd
    exact hq.not_isUnit (isUnit_of_dvd_one (dvd_trans (dvd_pow_self q two_ne_zero) hd))
  · intro q hq hd
    rw [pprod_nil] at hd
    exact absurd (isUnit_of_dvd_one hd) hq.not_isUnit

end prime
end NTV.PolyMod
