import NTV.Proofs.Lemmas.FactorModPBasics
/-! # C08: product identities and shapes of the stages `degree`, `final_split`, normalisation -/
open Polynomial
namespace NTV.PolyMod
open NTV.PolyG NTV.Hensel

theorem bind_ok_iff {α β : Type} (x : M α) (f : α → M β) (r : β) :
    (x >>= f) = .ok r ↔ ∃ a, x = .ok a ∧ f a = .ok r := by
  cases x with
  | error e => simp [bind, Except.bind]
  | ok a => simp [bind, Except.bind]

/-- ∏ gᵉ over a factor list, in `(ZMod p)[X]` -/
noncomputable def fprod (p : ℕ) (fs : Factors) : (ZMod p)[X] := (fs.map (fun x => mp p x.1 ^ x.2)).prod
/-- ∏ g over the first components -/
noncomputable def pprod (p : ℕ) (fs : Factors) : (ZMod p)[X] := (fs.map (fun x => mp p x.1)).prod
/-- ∏ g over a list of polynomials -/
noncomputable def lprod (p : ℕ) (l : List Poly) : (ZMod p)[X] := (l.map (mp p)).prod

@[simp] theorem fprod_nil (p : ℕ) : fprod p [] = 1 := by simp [fprod]
@[simp] theorem pprod_nil (p : ℕ) : pprod p [] = 1 := by simp [pprod]
@[simp] theorem lprod_nil (p : ℕ) : lprod p [] = 1 := by simp [lprod]
theorem fprod_append (p : ℕ) (a b : Factors) : fprod p (a ++ b) = fprod p a * fprod p b := by simp [fprod]
theorem pprod_append (p : ℕ) (a b : Factors) : pprod p (a ++ b) = pprod p a * pprod p b := by simp [pprod]
theorem lprod_append (p : ℕ) (a b : List Poly) : lprod p (a ++ b) = lprod p a * lprod p b := by simp [lprod]
theorem fprod_cons (p : ℕ) (x : Poly × Nat) (b : Factors) : fprod p (x :: b) = mp p x.1 ^ x.2 * fprod p b := by simp [fprod]
theorem pprod_cons (p : ℕ) (x : Poly × Nat) (b : Factors) : pprod p (x :: b) = mp p x.1 * pprod p b := by simp [pprod]
theorem lprod_cons (p : ℕ) (x : Poly) (b : List Poly) : lprod p (x :: b) = mp p x * lprod p b := by simp [lprod]

section prime
variable (p : ℕ) [hp : Fact p.Prime]

/-- good, non-zero -/
def GoodNZ (l : List Int) : Prop := Good p l ∧ l ≠ []

theorem GoodNZ.mp_ne_zero {l : List Int} (h : GoodNZ p l) : mp p l ≠ 0 := (natDegree_mp p l h.1 h.2).2.2

omit hp in
theorem goodNZ_of_mp_ne_zero {l : List Int} (h : Good p l) (h0 : mp p l ≠ 0) : GoodNZ p l :=
  ⟨h, fun e => h0 (by rw [e]; simp)⟩

theorem isUnit_mp_of_degU_zero {l : List Int} (h : GoodNZ p l) (hd : degU l = 0) : IsUnit (mp p l) := by
  rw [Polynomial.isUnit_iff_degree_eq_zero, degree_eq_natDegree h.mp_ne_zero,
    ← degU_eq_natDegree p l h.1 h.2, hd]; rfl

theorem degU_nil_pos : degU ([] : List Int) ≠ 0 := by simp [degU]

/-- exact division in the shape the stages use it -/
theorem divide_out {a b : List Int} (ha : GoodNZ p a) (hb : GoodNZ p b) (hdvd : mp p b ∣ mp p a) :
    mp p a = mp p (polyDivrem a b p).1 * mp p b ∧ GoodNZ p (polyDivrem a b p).1 := by
  obtain ⟨h1, h2⟩ := polyDivrem_exact p a b ha.1 hb.1 hb.2 hdvd
  refine ⟨h1, goodNZ_of_mp_ne_zero p h2 ?_⟩
  intro e
  rw [e, zero_mul] at h1
  exact GoodNZ.mp_ne_zero p ha h1

/-- a gcd with a non-zero second (or first) argument, in the shape the stages use it -/
theorem gcd_out {a b g : List Int} (ha : Good p a) (hb : Good p b) (hne : a ≠ [] ∨ b ≠ [])
    (h : polyGcd a b (p : Int) = .ok g) : IsGcd (mp p g) (mp p a) (mp p b) ∧ GoodNZ p g := by
  obtain ⟨h1, h2⟩ := polyGcd_isGcd p a b g ha hb h
  refine ⟨h1, goodNZ_of_mp_ne_zero p h2 (h1.ne_zero ?_)⟩
  rcases hne with h | h
  · exact Or.inl (GoodNZ.mp_ne_zero p ⟨ha, h⟩)
  · exact Or.inr (GoodNZ.mp_ne_zero p ⟨hb, h⟩)

/-! ## distinct degree stage -/

theorem degreeLoop_product : ∀ (fuel : Nat) (v w : Poly) (d : Nat) (result ds : Factors),
    GoodNZ p v → (∀ x ∈ result, GoodNZ p x.1) →
    degreeLoop (p : Int) fuel v w d result = .ok ds →
    Associated (pprod p ds) (pprod p result * mp p v) ∧ (∀ x ∈ ds, GoodNZ p x.1) := by
  intro fuel
  induction fuel with
  | zero => intro v w d result ds _ _ h; simp [degreeLoop] at h
  | succ fuel ih =>
    intro v w d result ds hv hres h
    simp only [degreeLoop] at h
    split at h
    · obtain ⟨ad, hg, h⟩ := (bind_ok_iff _ _ _).mp h
      obtain ⟨g1, g2⟩ := gcd_out p (good_polyModSub p hp.out.pos _ _) hv.1 (Or.inr hv.2) hg
      split at h
      · obtain ⟨e1, e2⟩ := divide_out p hv g2 g1.2.1
        have hres' : ∀ x ∈ result ++ [(ad, d + 1)], GoodNZ p x.1 := by
          intro x hx
          rcases List.mem_append.mp hx with hx | hx
          · exact hres x hx
          · simp only [List.mem_singleton] at hx; subst hx; exact g2
        obtain ⟨i1, i2⟩ := ih _ _ _ _ ds e2 hres' h
        refine ⟨?_, i2⟩
        rw [pprod_append, pprod_cons, pprod_nil, mul_one] at i1
        rw [e1]
        have e : pprod p result * (mp p (polyDivrem v ad p).1 * mp p ad) =
            pprod p result * mp p ad * mp p (polyDivrem v ad p).1 := by ring
        rw [e]; exact i1
      · exact ih _ _ _ _ ds hv hres h
    · simp only [pure, Except.pure, Except.ok.injEq] at h
      subst h
      split
      · rw [pprod_append, pprod_cons, pprod_nil, mul_one]
        refine ⟨Associated.refl _, ?_⟩
        intro x hx
        rcases List.mem_append.mp hx with hx | hx
        · exact hres x hx
        · simp only [List.mem_singleton] at hx; subst hx; exact hv
      · rename_i hd
        have hd0 : degU v = 0 := by omega
        have hu : IsUnit (mp p v) := isUnit_mp_of_degU_zero p hv hd0
        have ha : Associated (pprod p result) (pprod p result * mp p v) := associated_mul_unit_right _ _ hu
        exact ⟨ha, hres⟩

/-- `degree_product`: the parts returned by `degree` multiply to the input, up to a unit -/
theorem degree_product (poly : Poly) (ds : Factors) (hpoly : GoodNZ p poly)
    (h : degree poly (p : Int) = .ok ds) :
    Associated (pprod p ds) (mp p poly) ∧ (∀ x ∈ ds, GoodNZ p x.1) := by
  have := degreeLoop_product p _ poly [0, 1] 0 [] ds hpoly (by simp) h
  simpa using this


/-! ## equal degree splitting -/

theorem assoc_split {A R B D P L : (ZMod p)[X]} (h1 : Associated R (L * B)) (h2 : Associated A (R * D))
    (hP : P = D * B) : Associated A (L * P) := by
  refine h2.trans ?_
  have := h1.mul_right D
  refine this.trans ?_
  rw [hP]
  exact Associated.of_eq (by ring)

theorem finalSplitOdd_product (d : Nat) : ∀ (fuel : Nat) (poly : Poly) (result : List Poly) (s : NTV.Draw.Stream)
    (res' : List Poly) (s' : NTV.Draw.Stream), GoodNZ p poly → (∀ x ∈ result, GoodNZ p x) →
    finalSplitOdd (p : Int) d fuel poly result s = .ok (res', s') →
    Associated (lprod p res') (lprod p result * mp p poly) ∧ (∀ x ∈ res', GoodNZ p x) ∧ d ≠ 0 := by
  intro fuel
  induction fuel with
  | zero => intro poly result s res' s' _ _ h; simp [finalSplitOdd] at h
  | succ fuel ih =>
    intro poly result s res' s' hpoly hres h
    simp only [finalSplitOdd] at h
    split at h
    · simp [throw, throwThe, MonadExceptOf.throw] at h
    rename_i hd0
    split at h
    · simp [throw, throwThe, MonadExceptOf.throw] at h
    split at h
    · simp only [pure, Except.pure, Except.ok.injEq, Prod.mk.injEq] at h
      obtain ⟨rfl, rfl⟩ := h
      rw [lprod_append, lprod_cons, lprod_nil, mul_one]
      refine ⟨Associated.refl _, ?_, hd0⟩
      intro x hx
      rcases List.mem_append.mp hx with hx | hx
      · exact hres x hx
      · simp only [List.mem_singleton] at hx; subst hx; exact hpoly
    split at h
    · simp [throw, throwThe, MonadExceptOf.throw] at h
    rename_i raw s1 hdraw
    obtain ⟨b, hg, h⟩ := (bind_ok_iff _ _ _).mp h
    split at h
    · exact ih _ _ _ _ _ hpoly hres h
    · rename_i hcond
      obtain ⟨g1, g2⟩ := gcd_out p (good_polyModSub p hp.out.pos _ _) hpoly.1 (Or.inr hpoly.2) hg
      obtain ⟨⟨r1, s2⟩, h1, h2⟩ := (bind_ok_iff _ _ _).mp h
      obtain ⟨i1, i2, _⟩ := ih _ _ _ _ _ g2 hres h1
      obtain ⟨e1, e2⟩ := divide_out p hpoly g2 g1.2.1
      obtain ⟨j1, j2, _⟩ := ih _ _ _ _ _ e2 i2 h2
      exact ⟨assoc_split p i1 j1 e1, j2, hd0⟩

theorem good_x : Good p [0, 1] := by
  have h2 := hp.out.two_le
  constructor
  · intro j
    match j with
    | 0 => simp; omega
    | 1 => simp; omega
    | j + 2 => simp; omega
  · intro _; simp

theorem good_mul_x2 (t : Poly) (ht : Good p t) : Good p (mul t [0, 0, 1]) := by
  refine ⟨?_, canon_mul _ _⟩
  intro j
  have e : toPoly ([0, 0, 1] : List Int) = X ^ 2 := by simp [toPoly]; ring
  rw [← coeff_toPoly, toPoly_mul, e, coeff_mul_X_pow']
  split
  · rw [coeff_toPoly]; exact ht.1 _
  · have : (0 : ℤ) < p := by exact_mod_cast hp.out.pos
    exact ⟨le_refl _, this⟩

end prime

section two
instance fact_prime_two' : Fact (Nat.Prime 2) := ⟨Nat.prime_two⟩

theorem traceIter_good (poly t : Poly) (hpoly : GoodNZ 2 poly) : ∀ (n : Nat) (c : Poly), Good 2 c →
    Good 2 (traceIter poly t n c) := by
  intro n
  induction n with
  | zero => intro c hc; exact hc
  | succ n ih =>
    intro c hc
    simp only [traceIter]
    apply ih
    exact (polyDivrem_mp 2 _ poly (good_polyMod 2 (by norm_num) _) hpoly.1 hpoly.2).2.2.2

theorem finalSplit2_product (d : Nat) : ∀ (fuel : Nat) (poly t : Poly) (result : List Poly)
    (res' : List Poly), GoodNZ 2 poly → Good 2 t → (∀ x ∈ result, GoodNZ 2 x) →
    finalSplit2 d fuel poly t result = .ok res' →
    Associated (lprod 2 res') (lprod 2 result * mp 2 poly) ∧ (∀ x ∈ res', GoodNZ 2 x) ∧ d ≠ 0 := by
  intro fuel
  induction fuel with
  | zero => intro poly t result res' _ _ _ h; simp [finalSplit2] at h
  | succ fuel ih =>
    intro poly t result res' hpoly ht hres h
    simp only [finalSplit2] at h
    split at h
    · simp [throw, throwThe, MonadExceptOf.throw] at h
    rename_i hd0
    split at h
    · simp [throw, throwThe, MonadExceptOf.throw] at h
    split at h
    · simp only [pure, Except.pure, Except.ok.injEq] at h
      subst h
      rw [lprod_append, lprod_cons, lprod_nil, mul_one]
      refine ⟨Associated.refl _, ?_, hd0⟩
      intro x hx
      rcases List.mem_append.mp hx with hx | hx
      · exact hres x hx
      · simp only [List.mem_singleton] at hx; subst hx; exact hpoly
    obtain ⟨b, hg, h⟩ := (bind_ok_iff _ _ _).mp h
    split at h
    · exact ih _ _ _ _ hpoly (good_mul_x2 2 t ht) hres h
    · have hc : Good 2 (traceIter poly t (d - 1) t) := traceIter_good poly t hpoly _ t ht
      obtain ⟨g1, g2⟩ := gcd_out 2 hpoly.1 hc (Or.inl hpoly.2) hg
      obtain ⟨r1, h1, h2⟩ := (bind_ok_iff _ _ _).mp h
      obtain ⟨i1, i2, _⟩ := ih _ _ _ _ g2 (good_x 2) hres h1
      obtain ⟨e1, e2⟩ := divide_out 2 hpoly g2 g1.1
      obtain ⟨j1, j2, _⟩ := ih _ _ _ _ e2 (good_x 2) i2 h2
      exact ⟨assoc_split 2 i1 j1 e1, j2, hd0⟩
end two

section prime
variable (p : ℕ) [hp : Fact p.Prime]

/-- `finalSplit_product`: the pieces returned by `final_split` multiply to the input piece (up to a
unit), for every draw stream; a successful run has d ≠ 0 -/
theorem finalSplit_product (poly : Poly) (d : Nat) (s : NTV.Draw.Stream) (res : List Poly) (s' : NTV.Draw.Stream)
    (hpoly : GoodNZ p poly) (h : finalSplit poly (p : Int) d s = .ok (res, s')) :
    Associated (lprod p res) (mp p poly) ∧ (∀ x ∈ res, GoodNZ p x) ∧ d ≠ 0 := by
  unfold finalSplit at h
  split at h
  · have := finalSplitOdd_product p d _ poly [] s res s' hpoly (by simp) h
    simpa using this
  · rename_i hodd
    have hp2 : p = 2 := by
      rcases hp.out.eq_two_or_odd with h2 | h2
      · exact h2
      · exfalso; apply hodd; omega
    subst hp2
    obtain ⟨r, h1, h2⟩ := (bind_ok_iff _ _ _).mp h
    simp only [pure, Except.pure, Except.ok.injEq, Prod.mk.injEq] at h2
    obtain ⟨rfl, rfl⟩ := h2
    have := finalSplit2_product d _ poly [0, 1] [] r hpoly (good_x 2) (by simp) h1
    simpa using this


/-! ## normalisation and assembly -/

/-- the shape of a returned pair: canonical, coefficients in [0, p), monic, degree ≥ 1, exponent ≥ 1 -/
def Shape (x : Poly × Nat) : Prop := Good p x.1 ∧ lc x.1 = 1 ∧ 2 ≤ x.1.length ∧ 1 ≤ x.2

theorem Shape.monic {x : Poly × Nat} (h : Shape p x) : (mp p x.1).Monic := by
  have hne : x.1 ≠ [] := by intro e; have := h.2.2.1; rw [e] at this; simp at this
  have := (natDegree_mp p x.1 h.1 hne).2.1
  rw [Monic, this, h.2.1]; simp

/-- what the normalisation step does to one factor -/
theorem normalise_one (factor : Poly) (d : Nat) (hf : GoodNZ p factor) (hd : degU factor = d) (hd1 : 1 ≤ d) (e : Nat)
    (he : 1 ≤ e) :
    Shape p (polyMod (mul factor (fromRaw [modinv (coefAt factor d) p])) p, e) ∧
    Associated (mp p (polyMod (mul factor (fromRaw [modinv (coefAt factor d) p])) p)) (mp p factor) := by
  set g := polyMod (mul factor (fromRaw [modinv (coefAt factor d) p])) p with hg
  obtain ⟨n1, n2, n3⟩ := natDegree_mp p factor hf.1 hf.2
  have hdeg : d = factor.length - 1 := by
    rw [← hd]; unfold degU; cases factor <;> simp_all
  have hlead : coefAt factor d = lc factor := by
    unfold coefAt; rw [hdeg]; exact lc_eq_getD factor hf.2
  have hinv : ((lc factor : ℤ) : ZMod p) * ((modinv (lc factor) p : ℤ) : ZMod p) = 1 := by
    have := modinv_spec p hp.out (lc factor) (lc_coprime p hp.out factor hf.2 hf.1.2 hf.1.1)
    have := (ZMod.intCast_eq_intCast_iff _ _ p).mpr this
    simpa using this
  have hmp : mp p g = mp p factor * C ((mp p factor).leadingCoeff)⁻¹ := by
    rw [hg, mp_polyMod, mp_mul, mp_fromRaw, hlead, n2]
    congr 1
    have : mp p [modinv (lc factor) p] = C ((modinv (lc factor) p : ℤ) : ZMod p) := by
      simp [mp, toPoly]
    rw [this]
    congr 1
    exact (eq_inv_of_mul_eq_one_right hinv)
  have hmonic : (mp p g).Monic := by rw [hmp]; exact monic_mul_leadingCoeff_inv n3
  have hgood : Good p g := good_polyMod p hp.out.pos _
  have hgnz : GoodNZ p g := goodNZ_of_mp_ne_zero p hgood hmonic.ne_zero
  obtain ⟨m1, m2, m3⟩ := natDegree_mp p g hgood hgnz.2
  have hnd : (mp p g).natDegree = (mp p factor).natDegree := by
    rw [hmp]; exact natDegree_mul_leadingCoeff_inv _ n3
  obtain ⟨l0, l1⟩ := lc_pos_of_good p g hgood hgnz.2
  have hlc1 : lc g = 1 := by
    have h1 : ((lc g : ℤ) : ZMod p) = ((1 : ℤ) : ZMod p) := by
      rw [← m2, Int.cast_one]; exact hmonic
    rw [ZMod.intCast_eq_intCast_iff_dvd_sub] at h1
    obtain ⟨k, hk⟩ := h1
    have hp0 : (0 : ℤ) < p := by exact_mod_cast hp.out.pos
    have : k = 0 := by
      by_contra hk0
      rcases lt_or_gt_of_ne hk0 with hk1 | hk1
      · have : (p : ℤ) * k ≤ (p : ℤ) * (-1) := Int.mul_le_mul_of_nonneg_left (by omega) (le_of_lt hp0)
        omega
      · have : (p : ℤ) * 1 ≤ (p : ℤ) * k := Int.mul_le_mul_of_nonneg_left (by omega) (le_of_lt hp0)
        omega
    rw [this] at hk
    omega
  refine ⟨⟨hgood, hlc1, ?_, he⟩, ?_⟩
  · show 2 ≤ g.length
    rw [m1, n1] at hnd
    omega
  · rw [hmp]
    have hu : IsUnit (C ((mp p factor).leadingCoeff)⁻¹) := by
      rw [Polynomial.isUnit_C]
      exact IsUnit.mk0 _ (inv_ne_zero (leadingCoeff_ne_zero.mpr n3))
    exact (associated_mul_unit_right _ _ hu).symm

theorem normaliseAll_spec (d e : Nat) (hd1 : 1 ≤ d) (he : 1 ≤ e) : ∀ (l : List Poly) (result res' : Factors),
    (∀ x ∈ l, GoodNZ p x) → (∀ x ∈ result, Shape p x) →
    normaliseAll (p : Int) d e l result = .ok res' →
    Associated (fprod p res') (fprod p result * lprod p l ^ e) ∧ (∀ x ∈ res', Shape p x) := by
  intro l
  induction l with
  | nil =>
    intro result res' _ hres h
    simp only [normaliseAll, pure, Except.pure, Except.ok.injEq] at h
    subst h
    simpa using hres
  | cons factor rest ih =>
    intro result res' hl hres h
    simp only [normaliseAll] at h
    split at h
    · simp [throw, throwThe, MonadExceptOf.throw] at h
    rename_i hdeg
    have hdeg : degU factor = d := by simpa using hdeg
    obtain ⟨s1, s2⟩ := normalise_one p factor d (hl factor (by simp)) hdeg hd1 e he
    have hres' : ∀ x ∈ result ++ [(polyMod (mul factor (fromRaw [modinv (coefAt factor d) p])) p, e)], Shape p x := by
      intro x hx
      rcases List.mem_append.mp hx with hx | hx
      · exact hres x hx
      · simp only [List.mem_singleton] at hx; subst hx; exact s1
    obtain ⟨i1, i2⟩ := ih _ res' (fun x hx => hl x (by simp [hx])) hres' h
    refine ⟨?_, i2⟩
    refine i1.trans ?_
    rw [fprod_append, fprod_cons, fprod_nil, mul_one, lprod_cons, mul_pow]
    have := ((s2.pow_pow (n := e)).mul_left (fprod p result)).mul_right (lprod p rest ^ e)
    refine this.trans (Associated.of_eq (by ring))

theorem splitAll_spec (e : Nat) (he : 1 ≤ e) : ∀ (ds result : Factors) (s : NTV.Draw.Stream) (res' : Factors)
    (s' : NTV.Draw.Stream), (∀ x ∈ ds, GoodNZ p x.1) → (∀ x ∈ result, Shape p x) →
    splitAll (p : Int) e ds result s = .ok (res', s') →
    Associated (fprod p res') (fprod p result * pprod p ds ^ e) ∧ (∀ x ∈ res', Shape p x) := by
  intro ds
  induction ds with
  | nil =>
    intro result s res' s' _ hres h
    simp only [splitAll, pure, Except.pure, Except.ok.injEq, Prod.mk.injEq] at h
    obtain ⟨rfl, rfl⟩ := h
    simpa using hres
  | cons x rest ih =>
    obtain ⟨prod, d⟩ := x
    intro result s res' s' hds hres h
    have hprod : GoodNZ p prod := hds (prod, d) (by simp)
    have hrest : ∀ x ∈ rest, GoodNZ p x.1 := fun x hx => hds x (by simp [hx])
    simp only [splitAll] at h
    split at h
    · rename_i hd0
      obtain ⟨i1, i2⟩ := ih _ _ _ _ hrest hres h
      refine ⟨i1.trans ?_, i2⟩
      rw [pprod_cons, mul_pow]
      have hu : IsUnit (mp p prod ^ e) := (isUnit_mp_of_degU_zero p hprod hd0).pow e
      have := (associated_unit_mul_right (pprod p rest ^ e) _ hu).mul_left (fprod p result)
      exact this
    · obtain ⟨⟨spl, s1⟩, h1, h⟩ := (bind_ok_iff _ _ _).mp h
      obtain ⟨r1, h2, h3⟩ := (bind_ok_iff _ _ _).mp h
      obtain ⟨f1, f2, f3⟩ := finalSplit_product p prod d s spl s1 hprod h1
      obtain ⟨n1, n2⟩ := normaliseAll_spec p d e (by omega) he spl result r1 f2 hres h2
      obtain ⟨i1, i2⟩ := ih _ _ _ _ hrest n2 h3
      refine ⟨i1.trans ?_, i2⟩
      rw [pprod_cons, mul_pow]
      have := (n1.trans ((f1.pow_pow (n := e)).mul_left (fprod p result))).mul_right (pprod p rest ^ e)
      exact this.trans (Associated.of_eq (by ring))

theorem factorAll_spec : ∀ (sqs result : Factors) (s : NTV.Draw.Stream) (res' : Factors)
    (s' : NTV.Draw.Stream), (∀ x ∈ sqs, GoodNZ p x.1 ∧ 1 ≤ x.2) → (∀ x ∈ result, Shape p x) →
    factorAll (p : Int) sqs result s = .ok (res', s') →
    Associated (fprod p res') (fprod p result * fprod p sqs) ∧ (∀ x ∈ res', Shape p x) := by
  intro sqs
  induction sqs with
  | nil =>
    intro result s res' s' _ hres h
    simp only [factorAll, pure, Except.pure, Except.ok.injEq, Prod.mk.injEq] at h
    obtain ⟨rfl, rfl⟩ := h
    simpa using hres
  | cons x rest ih =>
    obtain ⟨sq, e⟩ := x
    intro result s res' s' hsqs hres h
    obtain ⟨hsq, he⟩ := hsqs (sq, e) (by simp)
    simp only [factorAll] at h
    obtain ⟨degrees, h1, h⟩ := (bind_ok_iff _ _ _).mp h
    obtain ⟨⟨r1, s1⟩, h2, h3⟩ := (bind_ok_iff _ _ _).mp h
    obtain ⟨d1, d2⟩ := degree_product p sq degrees hsq h1
    obtain ⟨p1, p2⟩ := splitAll_spec p e he degrees result s r1 s1 d2 hres h2
    obtain ⟨i1, i2⟩ := ih _ _ _ _ (fun x hx => hsqs x (by simp [hx])) p2 h3
    refine ⟨i1.trans ?_, i2⟩
    rw [fprod_cons]
    have := (p1.trans ((d1.pow_pow (n := e)).mul_left (fprod p result))).mul_right (fprod p rest)
    exact this.trans (Associated.of_eq (by ring))

end prime
end NTV.PolyMod
