import NTV.Proofs.Lemmas.PolyGProofs
import NTV.Proofs.Lemmas.ResProofs
import Mathlib.RingTheory.Polynomial.Resultant.Basic
open Polynomial
namespace NTV.PolyG

def Canon {R : Type} [Zero R] (l : List R) : Prop := ∀ h : l ≠ [], l.getLast h ≠ 0

theorem getLast_eq_getD {α : Type} [Zero α] (l : List α) (h : l ≠ []) : l.getLast h = l.getD (l.length - 1) 0 := by
  have hpos : 0 < l.length := List.length_pos_of_ne_nil h
  rw [List.getLast_eq_getElem, List.getD_eq_getElem?_getD, List.getElem?_eq_getElem (by omega)]
  rfl

section
variable {R : Type} [CommRing R] [DecidableEq R]

theorem canon_fromRaw (l : List R) : Canon (fromRaw l) := by
  intro h
  unfold fromRaw at h ⊢
  rw [List.getLast_reverse]
  have hne : l.reverse.dropWhile (fun x => decide (x = 0)) ≠ [] := by
    intro e; apply h; rw [e]; rfl
  have := List.head_dropWhile_not (fun x => decide (x = 0)) hne
  simpa using this

theorem getD_fromRaw (l : List R) (j : Nat) : (fromRaw l).getD j 0 = l.getD j 0 := by
  rw [← coeff_toPoly, toPoly_fromRaw, coeff_toPoly]

theorem length_fromRaw_le (l : List R) (k : Nat) (h : ∀ j, k ≤ j → l.getD j 0 = 0) : (fromRaw l).length ≤ k := by
  by_contra hlt
  have hne : fromRaw l ≠ [] := by intro e; rw [e] at hlt; simp at hlt
  have hc := canon_fromRaw l hne
  have hlast := getLast_eq_getD (fromRaw l) hne
  rw [hlast, getD_fromRaw] at hc
  exact hc (h _ (by omega))

theorem natDegree_toPoly (l : List R) (hne : l ≠ []) (hc : Canon l) :
    (toPoly l).natDegree = l.length - 1 ∧ (toPoly l).leadingCoeff = lc l ∧ toPoly l ≠ 0 := by
  have hlast := getLast_eq_getD l hne
  have hcoef : (toPoly l).coeff (l.length - 1) ≠ 0 := by rw [coeff_toPoly, ← hlast]; exact hc hne
  have hle : (toPoly l).natDegree ≤ l.length - 1 := by
    rw [natDegree_le_iff_coeff_eq_zero]
    intro N hN
    rw [coeff_toPoly]
    simp only [List.getD_eq_getElem?_getD]
    have : l[N]? = none := by simp; omega
    simp [this]
  have hdeg : (toPoly l).natDegree = l.length - 1 := le_antisymm hle (le_natDegree_of_ne_zero hcoef)
  refine ⟨hdeg, ?_, ?_⟩
  · rw [leadingCoeff, hdeg, coeff_toPoly, ← hlast]
    unfold lc
    rw [List.getLastD_eq_getLast?, List.getLast?_eq_some_getLast hne]; rfl
  · intro e; rw [e] at hcoef; simp at hcoef
end

/-- contract of `div_rem_bigrational` (main branch) -/
theorem divRemRat_spec (a b : List Rat) (ha : a ≠ []) (hb : b ≠ []) (hcb : Canon b) (hab : b.length ≤ a.length) :
    toPoly a = toPoly (divRemRat a b).1 * toPoly b + toPoly (divRemRat a b).2 ∧
    (divRemRat a b).2.length < b.length ∧ Canon (divRemRat a b).2 := by
  unfold divRemRat
  have h1 : a.isEmpty = false := by cases a <;> simp_all
  have h2 : b.isEmpty = false := by cases b <;> simp_all
  have h3 : ¬ a.length < b.length := by omega
  simp only [h1, h2, Bool.or_self, h3, decide_false, Bool.false_eq_true, ↓reduceIte]
  have hblen : b.length = (b.length - 1) + 1 := by
    have : 0 < b.length := List.length_pos_of_ne_nil hb; omega
  have hlc : b.getD (b.length - 1) 0 = lc b := by
    unfold lc
    rw [List.getLastD_eq_getLast?, List.getLast?_eq_some_getLast hb]
    exact (getLast_eq_getD b hb).symm
  have hlc0 : lc b ≠ 0 := by
    unfold lc; rw [List.getLastD_eq_getLast?, List.getLast?_eq_some_getLast hb]; exact hcb hb
  have hid := divLoop_identity b (fun top => top / lc b) (b.length - 1) (a.length - b.length + 1) a []
  have hdg := divLoop_degree b (b.length - 1) hblen (fun top => top / lc b)
    (by intro t; rw [hlc]; field_simp) (a.length - b.length + 1) a []
    (by intro j hj
        simp only [List.getD_eq_getElem?_getD]
        have : a[j]? = none := by simp; omega
        simp [this])
  refine ⟨?_, ?_, canon_fromRaw _⟩
  · simp only [toPoly_fromRaw]
    simp only [toPoly, mul_zero, zero_mul, add_zero] at hid
    rw [← hid]; ring
  · have := length_fromRaw_le _ (b.length - 1) hdg
    have : 0 < b.length := List.length_pos_of_ne_nil hb
    omega

theorem ratPow_eq (x : Rat) (n : Nat) : ratPow x n = x ^ n := by
  induction n with
  | zero => simp [ratPow]
  | succ n ih => simp [ratPow, ih, pow_succ]

/-- C04, rational variant, **full**: the model of `resultant_rational` computes the determinant of
the Sylvester matrix (Mathlib's `Polynomial.resultant`) for all non-zero canonical inputs. -/
theorem resRatAux_eq (fuel : Nat) (a b : List Rat) (ha : a ≠ []) (hb : b ≠ []) (hca : Canon a) (hcb : Canon b)
    (hf : b.length ≤ fuel) :
    resRatAux fuel a b = resultant (toPoly a) (toPoly b) := by
  induction fuel generalizing a b with
  | zero => have : 0 < b.length := List.length_pos_of_ne_nil hb; omega
  | succ fuel ih =>
    obtain ⟨hda, hla, hna⟩ := natDegree_toPoly a ha hca
    obtain ⟨hdb, hlb, hnb⟩ := natDegree_toPoly b hb hcb
    unfold resRatAux
    have h1 : a.isEmpty = false := by cases a <;> simp_all
    have h2 : b.isEmpty = false := by cases b <;> simp_all
    simp only [h1, h2, Bool.or_self, Bool.false_eq_true, ↓reduceIte]
    by_cases hb1 : b.length = 1
    · -- b is a non-zero constant
      simp only [hb1, ↓reduceIte]
      obtain ⟨c, rfl⟩ : ∃ c, b = [c] := by
        match b, hb1 with
        | [c], _ => exact ⟨c, rfl⟩
      simp only [toPoly, mul_zero, add_zero, List.getD_cons_zero]
      rw [ratPow_eq]
      have := resultant_C_zero_right (toPoly a) (toPoly a).natDegree c
      rw [← hda]
      simpa [natDegree_C] using this.symm
    · simp only [hb1, ↓reduceIte]
      have hblen : 2 ≤ b.length := by
        have : 0 < b.length := List.length_pos_of_ne_nil hb; omega
      have hnb0 : (toPoly b).natDegree ≠ 0 := by rw [hdb]; omega
      have hsign : ∀ x : Rat, (if (a.length - 1) % 2 = 1 ∧ (b.length - 1) % 2 = 1 then -x else x)
          = (-1 : Rat) ^ ((toPoly a).natDegree * (toPoly b).natDegree) * x := by
        intro x
        rw [hda, hdb]
        by_cases hodd : (a.length - 1) % 2 = 1 ∧ (b.length - 1) % 2 = 1
        · have : Odd ((a.length - 1) * (b.length - 1)) :=
            Nat.odd_mul.mpr ⟨Nat.odd_iff.mpr hodd.1, Nat.odd_iff.mpr hodd.2⟩
          simp [hodd, this.neg_one_pow]
        · have : Even ((a.length - 1) * (b.length - 1)) := by
            rw [Nat.even_mul]
            by_contra hcon
            simp only [not_or, Nat.not_even_iff_odd, Nat.odd_iff] at hcon
            exact hodd hcon
          simp [hodd, this.neg_one_pow]
      by_cases hlt : a.length < b.length
      · -- no division step: the remainder is `a` itself
        have hr : (divRemRat a b).2 = a := by
          unfold divRemRat; simp [hlt]
        rw [hr]
        simp only [h1, Bool.false_eq_true, ↓reduceIte, Nat.sub_self]
        rw [ih b a hb ha hcb hca (by omega), hsign, resultant_comm]
        simp only [ratPow, mul_one]
        rw [← mul_assoc, mul_comm (toPoly b).natDegree, ← pow_add, ← two_mul, pow_mul]
        simp
      · obtain ⟨hdiv, hrlen, hcr⟩ := divRemRat_spec a b ha hb hcb (by omega)
        by_cases hr0 : (divRemRat a b).2 = []
        · -- exact division: common factor of positive degree, resultant 0
          simp only [hr0, List.isEmpty_nil, ↓reduceIte]
          rw [hr0] at hdiv
          simp only [toPoly, add_zero] at hdiv
          rw [resultant_comm]
          have e : toPoly a = 0 + toPoly b * toPoly (divRemRat a b).1 := by rw [hdiv]; ring
          have hq : (toPoly (divRemRat a b).1).natDegree + (toPoly b).natDegree ≤ (toPoly a).natDegree := by
            have hq0 : toPoly (divRemRat a b).1 ≠ 0 := by
              intro e0; rw [e0, zero_mul] at hdiv; exact hna hdiv
            rw [hdiv, natDegree_mul hq0 hnb]
          have := resultant_add_mul_right (toPoly b) 0 (toPoly (divRemRat a b).1) (toPoly b).natDegree
            (toPoly a).natDegree hq le_rfl
          rw [← e] at this
          rw [this, resultant_zero_right]
          simp [hnb0]
        · have hre : (divRemRat a b).2.isEmpty = false := by
            cases hh : (divRemRat a b).2 <;> simp_all
          simp only [hre, Bool.false_eq_true, ↓reduceIte]
          obtain ⟨hdr, _, hnr⟩ := natDegree_toPoly _ hr0 hcr
          have hrpos : 0 < (divRemRat a b).2.length := List.length_pos_of_ne_nil hr0
          rw [ih b _ hb hr0 hcb hcr (by omega), hsign, ratPow_eq]
          have step := NTV.Res.resultant_euclid_step (toPoly a) (toPoly b) (toPoly (divRemRat a b).1)
            (toPoly (divRemRat a b).2) hdiv hnb0 hnr (by rw [hdr, hdb]; omega) (by rw [hda, hdb]; omega)
          rw [step, hlb, hda, hdr]
          ring

end NTV.PolyG

namespace NTV.PolyG
/-- top level -/
theorem resultantRational_eq (a b : List Rat) (ha : a ≠ []) (hb : b ≠ []) (hca : Canon a) (hcb : Canon b) :
    resultantRational a b = resultant (toPoly a) (toPoly b) :=
  resRatAux_eq (b.length + 1) a b ha hb hca hcb (by omega)

theorem resultantRational_zero_left (b : List Rat) : resultantRational [] b = 0 := by
  simp [resultantRational, resRatAux]

theorem resultantRational_zero_right (a : List Rat) : resultantRational a [] = 0 := by
  simp [resultantRational, resRatAux]

end NTV.PolyG
