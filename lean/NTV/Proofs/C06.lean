import NTV.Model.Round2
import NTV.Proofs.Lemmas.TrialProofs
import NTV.Proofs.C02
import NTV.Proofs.Lemmas.Round2ProofsG
/-! # C06 — integral basis (Round 2): what is proved so far.
Closure under multiplication and p-maximality of the result (Pohst–Zassenhaus) are not proved; they are
certified on every explored case by an independent oracle (`NTV.Spec.MaxOrder`: ring test, containment of
the starting order, discriminant/index relation, and p-maximality at every p with p² | disc by two
independent criteria). The theorems below are facts the routine relies on, for all inputs. -/
namespace NTV.C06

/-- the set of primes the outer loop visits: `factorize(|disc|)` is the true prime factorisation of the
discriminant of the starting order — strictly increasing primes with positive exponents and product
|disc| — so every prime p with p² | disc is visited (and no composite is ever passed to Round 2) -/
theorem primes_visited (d : Nat) (hd : 1 ≤ d) :
    d = NTV.Trial.prodOf (NTV.Trial.factorize d) ∧
    (∀ qe ∈ NTV.Trial.factorize d, qe.1.Prime ∧ 0 < qe.2) ∧
    (NTV.Trial.factorize d).Pairwise (fun a b => a.1 < b.1) := NTV.Trial.factorize_correct d hd

/-- every order the routine stores is put in canonical form by a Hermite normal form computation:
two integer generating sets of the same module give the same stored basis -/
theorem stored_basis_canonical (A A' : NTV.Hnf.Mat) (n n' m : Nat) (hr : NTV.Hnf.Rect n m A)
    (hr' : NTV.Hnf.Rect n' m A') (hn : 0 < n) (hn' : 0 < n') (hm : 0 < m)
    (hsame : ∀ v : Fin m → ℤ, NTV.Hnf.InLattice n m A v ↔ NTV.Hnf.InLattice n' m A' v) :
    NTV.Hnf.hnfNew A = NTV.Hnf.hnfNew A' := NTV.C02.canonical A A' n n' m hr hr' hn hn' hm hsame

/-- a zero discriminant of the starting order (f not squarefree) is refused -/
theorem zero_discriminant_refused (f : List Int) (o : NTV.Round2.Order)
    (ho : NTV.Ord.nonMonicInitialOrder f = .ok o) (hd : NTV.Ord.discriminantOrd o f = .ok 0) :
    NTV.Round2.findIntegralBasis f = .error "panic assert" := by
  simp [NTV.Round2.findIntegralBasis, ho, hd, bind, Except.bind]

/-! ## The structural clauses: the result is a full-rank ℤ-module containing the starting order and 1, and its
discriminant is the discriminant of the starting order divided by the square of the index

An order is its stored basis `o : List (List Rat)`; `Rect n n o` says n rows of length n and `toM n n o` is the
Mathlib matrix. "The module of `o` is contained in the module of `o'`" is `toM o = P·toM o'` for an INTEGER matrix
`P`; "stored" is `fromBasis o = .ok o` (a fixed point of `Order::from_basis`). Helper lemmas:
`NTV.Proofs.Lemmas.Round2ProofsA`–`G`. -/
section Structural
open Matrix
open NTV.Ord NTV.Round2 NTV.PolyG
open NTV.RowOps (toM Rect)

/-- **one Round 2 step enlarges the order.** For a non-singular stored n×n order `o` (n = deg f ≥ 1) and p ≥ 1
(in particular p prime), a successful `one_step` returns a non-singular stored n×n order `o'` whose module CONTAINS
the module of `o` (the last normal form `u` is taken of generators that include p·I, and the new basis is
(1/p)·u·o), with index exactly (o' : o) = p^howmany (the returned counter), hence (C15)
disc(o) = p^(2·howmany)·disc(o') whenever disc(o') is computed. -/
theorem one_step_contains (f : List Int) (o o' : Order) (p : Int) (h : Nat) (hn : 0 < degU f)
    (ho : Rect (degU f) (degU f) o) (hdet : (toM (degU f) (degU f) o).det ≠ 0) (hst : fromBasis o = .ok o)
    (hp : 0 < p) (H : oneStep f o p = .ok (o', h)) :
    Rect (degU f) (degU f) o' ∧ (toM (degU f) (degU f) o').det ≠ 0 ∧ fromBasis o' = .ok o' ∧
    (∃ P : Matrix (Fin (degU f)) (Fin (degU f)) ℤ,
      toM (degU f) (degU f) o = P.map (Int.castRingHom ℚ) * toM (degU f) (degU f) o') ∧
    index o' o = .ok (p ^ h) ∧
    (∀ d' : Int, discriminantOrd o' f = .ok d' → discriminantOrd o f = .ok (p ^ (2 * h) * d')) := by
  have e := oneStep_ext f o p o' h hn ho hdet hst hp H
  refine ⟨e.rect, e.det, e.stored, e.sub, e.idx, ?_⟩
  intro d' hd'
  have := disc_of_ext' ho e f d' hd'
  rwa [← pow_two, ← pow_mul, Nat.mul_comm] at this

/-- the converse direction for one step: disc(o') = disc(o)/p^(2·howmany) is computed without a panic PROVIDED
p^(2·howmany) divides disc(o). Partial: the divisibility (integrality of the discriminant of the new module) is
not a structural fact — it holds because the new module is a ring (Pohst–Zassenhaus, out of scope); inside
`find_integral_basis` it is guaranteed by the checked subtraction `e -= 2 * howmany` (see `prime_loop_contains`). -/
theorem one_step_discriminant_partial (f : List Int) (o o' : Order) (p : Int) (h : Nat) (hn : 0 < degU f)
    (ho : Rect (degU f) (degU f) o) (hdet : (toM (degU f) (degU f) o).det ≠ 0) (hst : fromBasis o = .ok o)
    (hp : 0 < p) (H : oneStep f o p = .ok (o', h)) (d : Int) (hd : discriminantOrd o f = .ok d)
    (hdvd : p ^ (2 * h) ∣ d) :
    ∃ d' : Int, discriminantOrd o' f = .ok d' ∧ d = p ^ (2 * h) * d' := by
  have e := oneStep_ext f o p o' h hn ho hdet hst hp H
  obtain ⟨d', rfl⟩ := hdvd
  refine ⟨d', disc_of_ext ho e f _ d' hd ?_, rfl⟩
  rw [← pow_two, ← pow_mul, Nat.mul_comm]

/-- non-vacuity: f = x² + 3, o = Z[θ] (the identity matrix), p = 2: one step reaches Z[(1+θ)/2], howmany = 1 -/
example : 0 < degU ([3, 0, 1] : List Int) ∧ fromBasis [[1, 0], [0, 1]] = .ok [[1, 0], [0, 1]] ∧
    oneStep [3, 0, 1] [[1, 0], [0, 1]] 2 = .ok ([[1, 0], [1/2, 1/2]], 1) ∧
    discriminantOrd [[1, 0], [0, 1]] [3, 0, 1] = .ok (-12) ∧
    discriminantOrd [[1, 0], [1/2, 1/2]] [3, 0, 1] = .ok (-3) := by
  decide +kernel

example : Rect 2 2 ([[1, 0], [0, 1]] : QMat) ∧ (toM 2 2 ([[1, 0], [0, 1]] : QMat)).det ≠ 0 := by
  refine ⟨⟨rfl, by simp⟩, ?_⟩
  rw [Matrix.det_fin_two]
  simp [toM, NTV.RowOps.ent]

/-- **the loop for one prime.** `while e >= 2 { one_step; e -= 2·howmany; … }` started on a non-singular stored
order `o` returns a non-singular stored order `o'` ⊇ `o` with (o' : o) = p^k, 2k ≤ e; and if p^e divides disc(o)
(as it does in `find_integral_basis`, where e is the exponent of p in the discriminant) then disc(o') is computed
without a panic and disc(o) = p^(2k)·disc(o'). -/
theorem prime_loop_contains (f : List Int) (p : Int) (fuel : Nat) (o o' : Order) (e : Nat) (hn : 0 < degU f)
    (ho : Rect (degU f) (degU f) o) (hdet : (toM (degU f) (degU f) o).det ≠ 0) (hst : fromBasis o = .ok o)
    (hp : 0 < p) (H : primeLoop f p fuel o e = .ok o') :
    ∃ k : Nat, 2 * k ≤ e ∧
    Rect (degU f) (degU f) o' ∧ (toM (degU f) (degU f) o').det ≠ 0 ∧ fromBasis o' = .ok o' ∧
    (∃ P : Matrix (Fin (degU f)) (Fin (degU f)) ℤ,
      toM (degU f) (degU f) o = P.map (Int.castRingHom ℚ) * toM (degU f) (degU f) o') ∧
    index o' o = .ok (p ^ k) ∧
    (∀ d : Int, discriminantOrd o f = .ok d → p ^ e ∣ d →
      ∃ d' : Int, discriminantOrd o' f = .ok d' ∧ d = p ^ (2 * k) * d') := by
  obtain ⟨k, hk, ext⟩ := primeLoop_ext f p hp hn fuel o e o' ho hdet hst H
  refine ⟨k, hk, ext.rect, ext.det, ext.stored, ext.sub, ext.idx, ?_⟩
  intro d hd hdvd
  obtain ⟨d', rfl⟩ := dvd_trans (pow_dvd_pow p hk) hdvd
  refine ⟨d', disc_of_ext ho ext f _ d' hd ?_, rfl⟩
  rw [← pow_two, ← pow_mul, Nat.mul_comm]

/-- non-vacuity: f = x² + 3, p = 2, e = 2 (disc = −12 = −2²·3) -/
example : primeLoop [3, 0, 1] 2 3 [[1, 0], [0, 1]] 2 = .ok [[1, 0], [1/2, 1/2]] ∧ (2 : Int) ^ 2 ∣ -12 := by
  decide +kernel

/-- **the result contains the starting order and 1; discriminant = disc(start) / index².** If
`find_integral_basis(f)` returns `O`, then the starting order `S = non_monic_initial_order(f)` (Z[θ] ∩ Z[1/θ]) and
its non-zero discriminant `dS` were computed, n = deg f ≥ 1, and
* `O` is a full-rank module: a non-singular stored n×n matrix;
* `S ⊆ O`: the basis of `S` is an integer matrix times the basis of `O`;
* `index(O, S)` returns i ≥ 1, i² divides dS, so every prime factor of i has its square dividing dS;
* `O.discriminant` returns `dO` (no panic) and dS = i²·dO — the discriminant of the starting order divided by the
  square of the index;
* 1 ∈ O: the vector (1,0,…,0) is an integer combination of the rows of `O`;
* the CLI output `index_and_disc` is exactly (i, dO).
No hypothesis on `f` is needed beyond the success of the routine. -/
theorem result_contains_start (f : List Int) (O : Order) (H : findIntegralBasis f = .ok O) :
    ∃ (S : Order) (dS i dO : Int),
      nonMonicInitialOrder f = .ok S ∧ discriminantOrd S f = .ok dS ∧ dS ≠ 0 ∧ 0 < degU f ∧
      Rect (degU f) (degU f) S ∧
      Rect (degU f) (degU f) O ∧ (toM (degU f) (degU f) O).det ≠ 0 ∧ fromBasis O = .ok O ∧
      (∃ P : Matrix (Fin (degU f)) (Fin (degU f)) ℤ,
        toM (degU f) (degU f) S = P.map (Int.castRingHom ℚ) * toM (degU f) (degU f) O) ∧
      index O S = .ok i ∧ 1 ≤ i ∧ i ^ 2 ∣ dS ∧
      (∀ q : Nat, q.Prime → (q : Int) ∣ i → (q : Int) ^ 2 ∣ dS) ∧
      discriminantOrd O f = .ok dO ∧ dS = i ^ 2 * dO ∧
      (∃ c : Fin (degU f) → ℤ,
        (fun k => (c k : ℚ)) ᵥ* toM (degU f) (degU f) O = fun j => if j.val = 0 then 1 else 0) ∧
      indexAndDisc f O = .ok (i, dO) := by
  unfold findIntegralBasis at H
  obtain ⟨S, hS, H⟩ := (bind_ok _ _ _).mp H
  obtain ⟨dS, hdS, H⟩ := (bind_ok _ _ _).mp H
  split at H
  · cases H
  · rename_i hd0
    obtain ⟨hn, rS, dtS, sS, c, hc⟩ := start_good f S dS hS hdS hd0
    have hfac := NTV.Trial.factorize_correct dS.natAbs (by omega)
    obtain ⟨i, ext, hi⟩ := fold_ext f hn (NTV.Trial.factorize dS.natAbs)
      (fun pe hpe => ((hfac.2.1 pe hpe).1).pos) S O rS dtS sS H
    rw [← hfac.1, Int.dvd_natAbs] at hi
    obtain ⟨dO, hdO⟩ := hi
    have hdO' : dS = i ^ 2 * dO := by rw [hdO]; ring
    have hO := disc_of_ext rS ext f dS dO hdS hdO
    obtain ⟨P, hP⟩ := ext.sub
    refine ⟨S, dS, i, dO, hS, hdS, hd0, hn, rS, ext.rect, ext.det, ext.stored, ⟨P, hP⟩, ext.idx, ext.pos,
      ⟨dO, hdO'⟩, ?_, hO, hdO', ?_, ?_⟩
    · intro q _ hq
      exact dvd_trans (pow_dvd_pow_of_dvd hq 2) ⟨dO, hdO'⟩
    · refine ⟨c ᵥ* P, ?_⟩
      have := castV_vecMul c P
      unfold castV at this hc
      rw [this, ← hc, hP, Matrix.vecMul_vecMul]
    · unfold indexAndDisc
      simp [hS, ext.idx, hO, bind, Except.bind, pure, Except.pure]

/-- what the CLI prints (`index_and_disc`) for the returned order is the pair (i, dO) of `result_contains_start`:
whenever the three calls succeed separately, that is the printed pair -/
theorem printed_index_and_disc (f : List Int) (O S : Order) (i dO : Int)
    (hS : nonMonicInitialOrder f = .ok S) (hi : index O S = .ok i) (hd : discriminantOrd O f = .ok dO) :
    indexAndDisc f O = .ok (i, dO) := by
  unfold indexAndDisc
  simp [hS, hi, hd, bind, Except.bind, pure, Except.pure]

/-- non-vacuity: f = x² + 3 and f = x² − 5: the maximal orders Z[(1+θ)/2] have index 2 in Z[θ], and
disc −12 = 2²·(−3), 20 = 2²·5 -/
example : findIntegralBasis [3, 0, 1] = .ok [[1, 0], [1/2, 1/2]] ∧
    indexAndDisc [3, 0, 1] [[1, 0], [1/2, 1/2]] = .ok (2, -3) ∧
    discriminantOrd [[1, 0], [0, 1]] [3, 0, 1] = .ok (-12) := by
  decide +kernel

example : findIntegralBasis [-5, 0, 1] = .ok [[1, 0], [1/2, 1/2]] ∧
    indexAndDisc [-5, 0, 1] [[1, 0], [1/2, 1/2]] = .ok (2, 5) ∧
    discriminantOrd [[1, 0], [0, 1]] [-5, 0, 1] = .ok 20 := by
  decide +kernel

/-- non-vacuity for a non-monic f = 4x³ + 2: start Z[θ] ∩ Z[1/θ], index 4 -/
example : findIntegralBasis [2, 0, 0, 4] = .ok [[1, 0, 0], [0, 2, 0], [0, 0, 2]] ∧
    indexAndDisc [2, 0, 0, 4] [[1, 0, 0], [0, 2, 0], [0, 0, 2]] = .ok (4, -108) := by
  decide +kernel

end Structural

end NTV.C06
