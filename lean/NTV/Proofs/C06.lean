import NTV.Model.Round2
import NTV.Proofs.Lemmas.TrialProofs
import NTV.Proofs.C02
import NTV.Proofs.Lemmas.Round2ProofsG
import NTV.Proofs.Lemmas.Round2RingP
import NTV.Proofs.Lemmas.FieldDiscE
import Mathlib.Algebra.Polynomial.SpecificDegree
/-! # C06 — integral basis (Round 2).
Proved for all inputs (f canonical): the result is a full-rank module containing the starting order and 1 with
disc = disc(start)/index² (`result_contains_start`), it is CLOSED UNDER MULTIPLICATION (`result_is_ring`), every
`one_step` computes the multiplier ring of the p-radical (`one_step_semantics`), a step with `howmany = 0` proves
p-maximality (`one_step_maximal`, Pohst–Zassenhaus), the result is p-MAXIMAL AT EVERY PRIME (`result_is_maximal`;
at the primes with p² ∤ disc(O) because the discriminant of every order is the integral determinant of its trace
form, `order_discriminant_is_integer`), hence contained in no strictly larger order (`result_is_maximal_order`). -/
namespace NTV.C06

/-- the set of primes the outer loop visits: `factorize(|disc|)` is the true prime factorisation of the
discriminant of the starting order — strictly increasing primes with positive exponents and product
|disc| — so every prime p with p² | disc is visited (and no composite is ever passed to Round 2) -/
theorem primes_visited (d : Nat) (hd : 1 ≤ d) :
    d = NTV.Trial.prodOf (NTV.Trial.factorize d) ∧
    (∀ qe ∈ NTV.Trial.factorize d, qe.1.Prime ∧ 0 < qe.2) ∧
    (NTV.Trial.factorize d).Pairwise (fun a b => a.1 < b.1) := NTV.Trial.factorize_correct d hd

/-- every order the routine stores is put in canonical form by a Hermite normal form computation:
two integer generating sets of the same module give the same stored basis -/
theorem stored_basis_canonical (A A' : NTV.Hnf.Mat) (n n' m : Nat) (hr : NTV.Hnf.Rect n m A)
    (hr' : NTV.Hnf.Rect n' m A') (hn : 0 < n) (hn' : 0 < n') (hm : 0 < m)
    (hsame : ∀ v : Fin m → ℤ, NTV.Hnf.InLattice n m A v ↔ NTV.Hnf.InLattice n' m A' v) :
    NTV.Hnf.hnfNew A = NTV.Hnf.hnfNew A' := NTV.C02.canonical A A' n n' m hr hr' hn hn' hm hsame

/-- a zero discriminant of the starting order (f not squarefree) is refused -/
theorem zero_discriminant_refused (f : List Int) (o : NTV.Round2.Order)
    (ho : NTV.Ord.nonMonicInitialOrder f = .ok o) (hd : NTV.Ord.discriminantOrd o f = .ok 0) :
    NTV.Round2.findIntegralBasis f = .error "panic assert" := by
  simp [NTV.Round2.findIntegralBasis, ho, hd, bind, Except.bind]

/-! ## The structural clauses: the result is a full-rank ℤ-module containing the starting order and 1, and its
discriminant is the discriminant of the starting order divided by the square of the index

An order is its stored basis `o : List (List Rat)`; `Rect n n o` says n rows of length n and `toM n n o` is the
Mathlib matrix. "The module of `o` is contained in the module of `o'`" is `toM o = P·toM o'` for an INTEGER matrix
`P`; "stored" is `fromBasis o = .ok o` (a fixed point of `Order::from_basis`). Helper lemmas:
`NTV.Proofs.Lemmas.Round2ProofsA`–`G`. -/
section Structural
open Matrix
open NTV.Ord NTV.Round2 NTV.PolyG
open NTV.RowOps (toM Rect)

/-- **one Round 2 step enlarges the order.** For a non-singular stored n×n order `o` (n = deg f ≥ 1) and p ≥ 1
(in particular p prime), a successful `one_step` returns a non-singular stored n×n order `o'` whose module CONTAINS
the module of `o` (the last normal form `u` is taken of generators that include p·I, and the new basis is
(1/p)·u·o), with index exactly (o' : o) = p^howmany (the returned counter), hence (C15)
disc(o) = p^(2·howmany)·disc(o') whenever disc(o') is computed. -/
theorem one_step_contains (f : List Int) (o o' : Order) (p : Int) (h : Nat) (hn : 0 < degU f)
    (ho : Rect (degU f) (degU f) o) (hdet : (toM (degU f) (degU f) o).det ≠ 0) (hst : fromBasis o = .ok o)
    (hp : 0 < p) (H : oneStep f o p = .ok (o', h)) :
    Rect (degU f) (degU f) o' ∧ (toM (degU f) (degU f) o').det ≠ 0 ∧ fromBasis o' = .ok o' ∧
    (∃ P : Matrix (Fin (degU f)) (Fin (degU f)) ℤ,
      toM (degU f) (degU f) o = P.map (Int.castRingHom ℚ) * toM (degU f) (degU f) o') ∧
    index o' o = .ok (p ^ h) ∧
    (∀ d' : Int, discriminantOrd o' f = .ok d' → discriminantOrd o f = .ok (p ^ (2 * h) * d')) := by
  have e := oneStep_ext f o p o' h hn ho hdet hst hp H
  refine ⟨e.rect, e.det, e.stored, e.sub, e.idx, ?_⟩
  intro d' hd'
  have := disc_of_ext' ho e f d' hd'
  rwa [← pow_two, ← pow_mul, Nat.mul_comm] at this

/-- the converse direction for one step: disc(o') = disc(o)/p^(2·howmany) is computed without a panic PROVIDED
p^(2·howmany) divides disc(o). Partial: the divisibility (integrality of the discriminant of the new module) is
not a structural fact — it holds because the new module is a ring (Pohst–Zassenhaus, out of scope); inside
`find_integral_basis` it is guaranteed by the checked subtraction `e -= 2 * howmany` (see `prime_loop_contains`). -/
theorem one_step_discriminant_partial (f : List Int) (o o' : Order) (p : Int) (h : Nat) (hn : 0 < degU f)
    (ho : Rect (degU f) (degU f) o) (hdet : (toM (degU f) (degU f) o).det ≠ 0) (hst : fromBasis o = .ok o)
    (hp : 0 < p) (H : oneStep f o p = .ok (o', h)) (d : Int) (hd : discriminantOrd o f = .ok d)
    (hdvd : p ^ (2 * h) ∣ d) :
    ∃ d' : Int, discriminantOrd o' f = .ok d' ∧ d = p ^ (2 * h) * d' := by
  have e := oneStep_ext f o p o' h hn ho hdet hst hp H
  obtain ⟨d', rfl⟩ := hdvd
  refine ⟨d', disc_of_ext ho e f _ d' hd ?_, rfl⟩
  rw [← pow_two, ← pow_mul, Nat.mul_comm]

/-- non-vacuity: f = x² + 3, o = Z[θ] (the identity matrix), p = 2: one step reaches Z[(1+θ)/2], howmany = 1 -/
example : 0 < degU ([3, 0, 1] : List Int) ∧ fromBasis [[1, 0], [0, 1]] = .ok [[1, 0], [0, 1]] ∧
    oneStep [3, 0, 1] [[1, 0], [0, 1]] 2 = .ok ([[1, 0], [1/2, 1/2]], 1) ∧
    discriminantOrd [[1, 0], [0, 1]] [3, 0, 1] = .ok (-12) ∧
    discriminantOrd [[1, 0], [1/2, 1/2]] [3, 0, 1] = .ok (-3) := by
  decide +kernel

example : Rect 2 2 ([[1, 0], [0, 1]] : QMat) ∧ (toM 2 2 ([[1, 0], [0, 1]] : QMat)).det ≠ 0 := by
  refine ⟨⟨rfl, by simp⟩, ?_⟩
  rw [Matrix.det_fin_two]
  simp [toM, NTV.RowOps.ent]

/-- **the loop for one prime.** `while e >= 2 { one_step; e -= 2·howmany; … }` started on a non-singular stored
order `o` returns a non-singular stored order `o'` ⊇ `o` with (o' : o) = p^k, 2k ≤ e; and if p^e divides disc(o)
(as it does in `find_integral_basis`, where e is the exponent of p in the discriminant) then disc(o') is computed
without a panic and disc(o) = p^(2k)·disc(o'). -/
theorem prime_loop_contains (f : List Int) (p : Int) (fuel : Nat) (o o' : Order) (e : Nat) (hn : 0 < degU f)
    (ho : Rect (degU f) (degU f) o) (hdet : (toM (degU f) (degU f) o).det ≠ 0) (hst : fromBasis o = .ok o)
    (hp : 0 < p) (H : primeLoop f p fuel o e = .ok o') :
    ∃ k : Nat, 2 * k ≤ e ∧
    Rect (degU f) (degU f) o' ∧ (toM (degU f) (degU f) o').det ≠ 0 ∧ fromBasis o' = .ok o' ∧
    (∃ P : Matrix (Fin (degU f)) (Fin (degU f)) ℤ,
      toM (degU f) (degU f) o = P.map (Int.castRingHom ℚ) * toM (degU f) (degU f) o') ∧
    index o' o = .ok (p ^ k) ∧
    (∀ d : Int, discriminantOrd o f = .ok d → p ^ e ∣ d →
      ∃ d' : Int, discriminantOrd o' f = .ok d' ∧ d = p ^ (2 * k) * d') := by
  obtain ⟨k, hk, ext⟩ := primeLoop_ext f p hp hn fuel o e o' ho hdet hst H
  refine ⟨k, hk, ext.rect, ext.det, ext.stored, ext.sub, ext.idx, ?_⟩
  intro d hd hdvd
  obtain ⟨d', rfl⟩ := dvd_trans (pow_dvd_pow p hk) hdvd
  refine ⟨d', disc_of_ext ho ext f _ d' hd ?_, rfl⟩
  rw [← pow_two, ← pow_mul, Nat.mul_comm]

/-- non-vacuity: f = x² + 3, p = 2, e = 2 (disc = −12 = −2²·3) -/
example : primeLoop [3, 0, 1] 2 3 [[1, 0], [0, 1]] 2 = .ok [[1, 0], [1/2, 1/2]] ∧ (2 : Int) ^ 2 ∣ -12 := by
  decide +kernel

/-- **the result contains the starting order and 1; discriminant = disc(start) / index².** If
`find_integral_basis(f)` returns `O`, then the starting order `S = non_monic_initial_order(f)` (Z[θ] ∩ Z[1/θ]) and
its non-zero discriminant `dS` were computed, n = deg f ≥ 1, and
* `O` is a full-rank module: a non-singular stored n×n matrix;
* `S ⊆ O`: the basis of `S` is an integer matrix times the basis of `O`;
* `index(O, S)` returns i ≥ 1, i² divides dS, so every prime factor of i has its square dividing dS;
* `O.discriminant` returns `dO` (no panic) and dS = i²·dO — the discriminant of the starting order divided by the
  square of the index;
* 1 ∈ O: the vector (1,0,…,0) is an integer combination of the rows of `O`;
* the CLI output `index_and_disc` is exactly (i, dO).
No hypothesis on `f` is needed beyond the success of the routine. -/
theorem result_contains_start (f : List Int) (O : Order) (H : findIntegralBasis f = .ok O) :
    ∃ (S : Order) (dS i dO : Int),
      nonMonicInitialOrder f = .ok S ∧ discriminantOrd S f = .ok dS ∧ dS ≠ 0 ∧ 0 < degU f ∧
      Rect (degU f) (degU f) S ∧
      Rect (degU f) (degU f) O ∧ (toM (degU f) (degU f) O).det ≠ 0 ∧ fromBasis O = .ok O ∧
      (∃ P : Matrix (Fin (degU f)) (Fin (degU f)) ℤ,
        toM (degU f) (degU f) S = P.map (Int.castRingHom ℚ) * toM (degU f) (degU f) O) ∧
      index O S = .ok i ∧ 1 ≤ i ∧ i ^ 2 ∣ dS ∧
      (∀ q : Nat, q.Prime → (q : Int) ∣ i → (q : Int) ^ 2 ∣ dS) ∧
      discriminantOrd O f = .ok dO ∧ dS = i ^ 2 * dO ∧
      (∃ c : Fin (degU f) → ℤ,
        (fun k => (c k : ℚ)) ᵥ* toM (degU f) (degU f) O = fun j => if j.val = 0 then 1 else 0) ∧
      indexAndDisc f O = .ok (i, dO) := by
  unfold findIntegralBasis at H
  obtain ⟨S, hS, H⟩ := (bind_ok _ _ _).mp H
  obtain ⟨dS, hdS, H⟩ := (bind_ok _ _ _).mp H
  split at H
  · cases H
  · rename_i hd0
    obtain ⟨hn, rS, dtS, sS, c, hc⟩ := start_good f S dS hS hdS hd0
    have hfac := NTV.Trial.factorize_correct dS.natAbs (by omega)
    obtain ⟨i, ext, hi⟩ := fold_ext f hn (NTV.Trial.factorize dS.natAbs)
      (fun pe hpe => ((hfac.2.1 pe hpe).1).pos) S O rS dtS sS H
    rw [← hfac.1, Int.dvd_natAbs] at hi
    obtain ⟨dO, hdO⟩ := hi
    have hdO' : dS = i ^ 2 * dO := by rw [hdO]; ring
    have hO := disc_of_ext rS ext f dS dO hdS hdO
    obtain ⟨P, hP⟩ := ext.sub
    refine ⟨S, dS, i, dO, hS, hdS, hd0, hn, rS, ext.rect, ext.det, ext.stored, ⟨P, hP⟩, ext.idx, ext.pos,
      ⟨dO, hdO'⟩, ?_, hO, hdO', ?_, ?_⟩
    · intro q _ hq
      exact dvd_trans (pow_dvd_pow_of_dvd hq 2) ⟨dO, hdO'⟩
    · refine ⟨c ᵥ* P, ?_⟩
      have := castV_vecMul c P
      unfold castV at this hc
      rw [this, ← hc, hP, Matrix.vecMul_vecMul]
    · unfold indexAndDisc
      simp [hS, ext.idx, hO, bind, Except.bind, pure, Except.pure]

/-- what the CLI prints (`index_and_disc`) for the returned order is the pair (i, dO) of `result_contains_start`:
whenever the three calls succeed separately, that is the printed pair -/
theorem printed_index_and_disc (f : List Int) (O S : Order) (i dO : Int)
    (hS : nonMonicInitialOrder f = .ok S) (hi : index O S = .ok i) (hd : discriminantOrd O f = .ok dO) :
    indexAndDisc f O = .ok (i, dO) := by
  unfold indexAndDisc
  simp [hS, hi, hd, bind, Except.bind, pure, Except.pure]

/-- non-vacuity: f = x² + 3 and f = x² − 5: the maximal orders Z[(1+θ)/2] have index 2 in Z[θ], and
disc −12 = 2²·(−3), 20 = 2²·5 -/
example : findIntegralBasis [3, 0, 1] = .ok [[1, 0], [1/2, 1/2]] ∧
    indexAndDisc [3, 0, 1] [[1, 0], [1/2, 1/2]] = .ok (2, -3) ∧
    discriminantOrd [[1, 0], [0, 1]] [3, 0, 1] = .ok (-12) := by
  decide +kernel

example : findIntegralBasis [-5, 0, 1] = .ok [[1, 0], [1/2, 1/2]] ∧
    indexAndDisc [-5, 0, 1] [[1, 0], [1/2, 1/2]] = .ok (2, 5) ∧
    discriminantOrd [[1, 0], [0, 1]] [-5, 0, 1] = .ok 20 := by
  decide +kernel

/-- non-vacuity for a non-monic f = 4x³ + 2: start Z[θ] ∩ Z[1/θ], index 4 -/
example : findIntegralBasis [2, 0, 0, 4] = .ok [[1, 0, 0], [0, 2, 0], [0, 0, 2]] ∧
    indexAndDisc [2, 0, 0, 4] [[1, 0, 0], [0, 2, 0], [0, 0, 2]] = .ok (4, -108) := by
  decide +kernel

end Structural

/-! ## Closure under multiplication and p-maximality: the Round 2 algorithm (Pohst–Zassenhaus)

`K = ℚ[X]/(f)` (any `f` canonical of degree `n ≥ 1`, not necessarily irreducible); an order is its stored basis
`o` (n×n, non-singular), `omegaK f o n i ∈ K` is the class of row `i`, `el (qK f) (omegaK f o n) z = Σ z_i ω_i` the
element with INTEGER coordinate vector `z`, `Olat hC one` the ℤ-span of the ω_i as a `Subring K` (it needs the
multiplication table `hC` and `1 ∈ O`), `vecZ l n` the list `l` as a vector. `HasOne n o` says that (1,0,…,0) is an
integer combination of the rows; `GoodOrder f n o` collects: `f` canonical of degree `n ≥ 1`, `o` a non-singular
stored n×n basis containing 1 and closed under multiplication. Commutative algebra: `Lemmas/Round2RingA.lean`,
`Round2RingB.lean`; the model: `Round2RingC`–`L.lean`; starting order: `Round2Start.lean`. -/
section Round2Ring
open Matrix Polynomial
open NTV.Ord NTV.Round2 NTV.PolyG
open NTV.RowOps (toM Rect)
open NTV.R2Abs (el Olat radQ multR pO IdealIn PMax)
open NTV.Round2 (HasOne GoodOrder PMaximal PMaxK)
open NTV.TableAbs (Ctx)

/-- **(M1) `mul_mod_p` and the tables.** If the table loop of `one_step` succeeds on a non-singular basis `o`
containing 1 (p ≠ 0), then `o` IS closed under multiplication (the integrality assertions passed), and for all
coordinate vectors `a`, `b` of length n: `mul_mod_p(a, b, table, p)` are coordinates of the product
`(Σ a_i ω_i)(Σ b_j ω_j)` modulo `p·O`, and `mul_mod_p(a, b, table2, p²)` modulo `p²·O`. -/
theorem mul_mod_p_semantics (f : List Int) (o : Order) (n : Nat) (hf : Canon f) (hlen : f.length = n + 1)
    (hn : 1 ≤ n) (hr : Rect n n o) (hdet : (toM n n o).det ≠ 0) (h1 : HasOne n o) (P : ℕ) (hP : P ≠ 0)
    (t t2 : NTV.Ord.Table) (htab : tables f o n (P : ℤ) ((P : ℤ) * (P : ℤ)) = .ok (t, t2)) (a b : List Int)
    (ha : a.length = n) (hb : b.length = n) :
    Closed f o n ∧
    (∃ d : Fin n → ℤ, el (qK f) (omegaK f o n) (vecZ (mulModP a b t (P : ℤ)) n) =
      el (qK f) (omegaK f o n) (vecZ a n) * el (qK f) (omegaK f o n) (vecZ b n) +
        (P : ℚ[X] ⧸ Ideal.span {NTV.Alg.modulus f}) * el (qK f) (omegaK f o n) d) ∧
    (∃ d : Fin n → ℤ, el (qK f) (omegaK f o n) (vecZ (mulModP a b t2 ((P : ℤ) * (P : ℤ))) n) =
      el (qK f) (omegaK f o n) (vecZ a n) * el (qK f) (omegaK f o n) (vecZ b n) +
        (P : ℚ[X] ⧸ Ideal.span {NTV.Alg.modulus f}) * (P : ℚ[X] ⧸ Ideal.span {NTV.Alg.modulus f}) *
          el (qK f) (omegaK f o n) d) := by
  have S : Setup f o n := ⟨hf, hlen, hn, hr, hdet⟩
  have hp0 : (P : ℤ) ≠ 0 := by exact_mod_cast hP
  have hcl := NTV.Round2.tables_closed S (P : ℤ) _ (mul_ne_zero hp0 hp0) t t2 htab
  obtain ⟨_, hC⟩ := S.ctx_of_closed hcl
  have one := h1.el_one S
  obtain ⟨ct, ct2, hT, hT2⟩ := NTV.Round2.tables_mod S P t t2 htab hP
  refine ⟨hcl, ?_, ?_⟩
  · obtain ⟨_, ⟨d, rfl⟩, hd⟩ := NTV.Round2.mulModP_el hC one P (P : ℤ) (dvd_refl _) a b t ha hb ct hT
    exact ⟨d, by rw [← hd]; ring⟩
  · obtain ⟨_, ⟨d, rfl⟩, hd⟩ := NTV.Round2.mulModP_el hC one (P * P) ((P : ℤ) * (P : ℤ))
      (by push_cast; exact dvd_refl _) a b t2 ha hb ct2 hT2
    refine ⟨d, ?_⟩
    push_cast at hd
    rw [← hd]; ring

/-- **(M1) `pow_mod_p`.** Under the same hypotheses, for an exponent `e ≥ 1` a successful
`pow_mod_p(a, e, table, p)` returns coordinates (of length n) of `(Σ a_i ω_i)^e` modulo `p·O`. -/
theorem pow_mod_p_semantics (f : List Int) (o : Order) (n : Nat) (hf : Canon f) (hlen : f.length = n + 1)
    (hn : 1 ≤ n) (hr : Rect n n o) (hdet : (toM n n o).det ≠ 0) (h1 : HasOne n o) (P : ℕ) (hP : P ≠ 0)
    (t t2 : NTV.Ord.Table) (htab : tables f o n (P : ℤ) ((P : ℤ) * (P : ℤ)) = .ok (t, t2)) (a r : List Int) (e : Int)
    (he : 1 ≤ e) (ha : a.length = n) (hpow : powModP a e t (P : ℤ) = .ok r) :
    r.length = n ∧ ∃ d : Fin n → ℤ, el (qK f) (omegaK f o n) (vecZ r n) =
      el (qK f) (omegaK f o n) (vecZ a n) ^ e.toNat +
        (P : ℚ[X] ⧸ Ideal.span {NTV.Alg.modulus f}) * el (qK f) (omegaK f o n) d := by
  have S : Setup f o n := ⟨hf, hlen, hn, hr, hdet⟩
  have hp0 : (P : ℤ) ≠ 0 := by exact_mod_cast hP
  have hcl := NTV.Round2.tables_closed S (P : ℤ) _ (mul_ne_zero hp0 hp0) t t2 htab
  obtain ⟨_, hC⟩ := S.ctx_of_closed hcl
  have one := h1.el_one S
  obtain ⟨ct, _, hT, _⟩ := NTV.Round2.tables_mod S P t t2 htab hP
  obtain ⟨hl, _, ⟨d, rfl⟩, hd⟩ := NTV.Round2.powModP_el hC one P (P : ℤ) (dvd_refl _) t ct hT a r e he ha hpow
  exact ⟨hl, d, by rw [← hd]; ring⟩

/-- **(M1) the exponent.** `let mut pow = 1; while pow < deg { pow *= p }` returns the LEAST power `p^k ≥ deg` -/
theorem pow_bound_least (deg : Nat) (p : Int) (fuel : Nat) (pow : Int)
    (h : powBound deg p fuel 1 = .ok pow) :
    ∃ k : ℕ, pow = p ^ k ∧ (deg : Int) ≤ pow ∧ ∀ j < k, p ^ j < (deg : Int) := by
  obtain ⟨k, hk, h1, h2⟩ := NTV.Round2.powBound_least deg p fuel 1 pow h
  refine ⟨k, by simpa using hk, h1, ?_⟩
  intro j hj
  simpa using h2 j hj

example : powBound 5 2 5 1 = .ok 8 := by decide +kernel

/-- **(M1) the p-radical is an ideal, and it is the radical of `pO`.** For an order `O` (ℤ-span of the ω_i, with
multiplication table and 1), a prime `p` and `p^k ≥ n`: `I_p = {x ∈ O | x^(p^k) ∈ pO}` is an ideal of `O` containing
`p` (the map `x ↦ x^(p^k)` is additive modulo `p`), and every `x ∈ O` with SOME power in `pO` lies in `I_p`
(a nilpotent element of the n-dimensional 𝔽_p-algebra `O/pO` has n-th power 0). -/
theorem p_radical_is_radical_ideal {K : Type*} [CommRing K] {n : ℕ} {q : ℚ →+* K} {Ω : Fin n → K}
    {T : Fin n → Fin n → Fin n → ℤ} (hC : Ctx q Ω T) (one : ∃ e : Fin n → ℤ, el q Ω e = 1) (P k : ℕ)
    (hP : P.Prime) (hk : n ≤ P ^ k) :
    IdealIn (Olat hC one) (radQ (Olat hC one) P (P ^ k)) ∧ (P : K) ∈ radQ (Olat hC one) P (P ^ k) ∧
    ∀ x ∈ Olat hC one, ∀ t : ℕ, x ^ t ∈ pO (Olat hC one) P → x ∈ radQ (Olat hC one) P (P ^ k) :=
  ⟨NTV.R2Abs.radQ_ideal _ P k hP, NTV.R2Abs.p_mem_radQ _ P _ (Nat.one_le_pow _ _ hP.pos),
    fun x hx t ht => ⟨hx, NTV.R2Abs.rad_of_pow hC one P hP (P ^ k) hk x hx t ht⟩⟩

/-- **(M1) `ip` spans the p-radical.** With `table` the multiplication table modulo `p` (`TableMod`), `phiw` the rows
`pow_mod_p(e_i, p^k, table, p)`, the truncated normal form of `HNF::kernel([phiw ; p·I])` — the matrix `i_p` of
`one_step` — is rectangular of width n and an integer vector `v` lies in its row lattice iff
`Σ v_i ω_i ∈ I_p = {x ∈ O | x^(p^k) ∈ pO}` (Frobenius: `(Σ v_i ω_i)^(p^k) ≡ Σ v_i ω_i^(p^k)` modulo `pO`). -/
theorem ip_spans_radical {K : Type*} [CommRing K] {n : ℕ} {q : ℚ →+* K} {Ω : Fin n → K}
    {T : Fin n → Fin n → Fin n → ℤ} (hC : Ctx q Ω T) (one : ∃ e : Fin n → ℤ, el q Ω e = 1) (hn : 0 < n)
    (P k : ℕ) (hP : P.Prime) (t : NTV.Ord.Table) (ct : NTV.Round2.Cube3 n t) (hT : NTV.Round2.TableMod n t T P)
    (phiw K0 ip0 : NTV.Ord.IMat)
    (hphiw : tabulate n (fun i =>
      powModP ((List.range n).map (fun j => if i = j then 1 else 0)) ((P : ℤ) ^ k) t (P : ℤ)) = .ok phiw)
    (hK : kernelM (phiw ++ scalarRows n (P : ℤ)) = .ok K0) (hip0 : hnfM K0 = .ok ip0) :
    ∃ r0, NTV.Hnf.Rect r0 n (ip0.map (fun row => row.take n)) ∧
      ∀ v : Fin n → ℤ, NTV.Hnf.InLattice r0 n (ip0.map (fun row => row.take n)) v ↔
        el q Ω v ∈ radQ (Olat hC one) P (P ^ k) :=
  NTV.Round2.ip_lattice hC one hn P k hP t ct hT phiw K0 ip0 hphiw hK hip0

/-- **(M2) the `U_p` loop.** If `ip` spans `I_p` (previous theorem) and `table2` is the multiplication table modulo
`p²`, the fold of `upStep` over the rows of `ip`, started at `ip`, returns generators of
`U = {u ∈ I_p | u·I_p ⊆ p·I_p}`; after the last `HNF::new(up ++ p·I)` (`NTV.Round2.u_lattice`) one gets
`U + pO`, and `(1/p)(U + pO) = {x | x·I_p ⊆ I_p}` (`NTV.R2Abs.mem_multR_iff`). -/
theorem up_loop_computes_U {K : Type*} [CommRing K] {n : ℕ} {q : ℚ →+* K} {Ω : Fin n → K}
    {T : Fin n → Fin n → Fin n → ℤ} (hC : Ctx q Ω T) (one : ∃ e : Fin n → ℤ, el q Ω e = 1) (hn : 0 < n)
    (P k : ℕ) (hP : P.Prime) (t2 : NTV.Ord.Table) (ct2 : NTV.Round2.Cube3 n t2)
    (hT2 : NTV.Round2.TableMod n t2 T (P * P)) (ip : NTV.Ord.IMat) (r0 : ℕ) (hr0 : 0 < r0) (hip : NTV.Hnf.Rect r0 n ip)
    (hipI : ∀ v : Fin n → ℤ, NTV.Hnf.InLattice r0 n ip v ↔ el q Ω v ∈ radQ (Olat hC one) P (P ^ k)) (up : NTV.Ord.IMat)
    (hfold : ip.foldlM (fun up etai => upStep n (P : ℤ) ((P : ℤ) * (P : ℤ)) t2 ip up etai) ip = .ok up) :
    ∃ r, NTV.Hnf.Rect r n up ∧ ∀ v : Fin n → ℤ, NTV.Hnf.InLattice r n up v ↔
      el q Ω v ∈ NTV.R2Abs.U0 (radQ (Olat hC one) P (P ^ k)) P :=
  NTV.Round2.up_lattice hC one P k hP hn t2 ct2 hT2 ip r0 hr0 hip hipI up hfold

/-- **(M2) semantics of `one_step`** (Cohen, Theorem 6.1.3 (1)). For a non-singular basis `o` containing 1 and a
PRIME `p`, a successful `one_step` certifies that `o` is closed under multiplication, returns a non-singular n×n basis
`o'`, and — for `p^k ≥ n` the exponent used by the routine — the ℤ-span of `o'` is EXACTLY the multiplier ring
`{x ∈ K | x·I_p ⊆ I_p}` of the p-radical `I_p = {x ∈ O | x^(p^k) ∈ pO}`. (The routine computes
`I_p` as the kernel of `[φ ; p·I]`, `U = {u ∈ I_p | u·I_p ⊆ p·I_p}` by the `U_p` loop and `O' = (1/p)(U + pO)`:
`NTV.Round2.ip_lattice`, `up_lattice`, `u_lattice`.) -/
theorem one_step_semantics (f : List Int) (o : Order) (n : Nat) (hf : Canon f) (hlen : f.length = n + 1)
    (hn : 1 ≤ n) (hr : Rect n n o) (hdet : (toM n n o).det ≠ 0) (P : ℕ) (hP : P.Prime) (o' : Order) (hm : Nat)
    (H : oneStep f o (P : ℤ) = .ok (o', hm)) :
    Closed f o n ∧ Rect n n o' ∧ (toM n n o').det ≠ 0 ∧
    ∀ (hC : Ctx (qK f) (omegaK f o n) (tabT (tableOf f o n) n))
      (one : ∃ e : Fin n → ℤ, el (qK f) (omegaK f o n) e = 1),
      ∃ k : ℕ, n ≤ P ^ k ∧ ∀ x : ℚ[X] ⧸ Ideal.span {NTV.Alg.modulus f},
        (∃ z : Fin n → ℤ, x = el (qK f) (omegaK f o' n) z) ↔
          x ∈ multR (radQ (Olat hC one) P (P ^ k)) := by
  obtain ⟨h1, S', h3⟩ := NTV.Round2.oneStep_sem ⟨hf, hlen, hn, hr, hdet⟩ P hP o' hm H
  exact ⟨h1, S'.rect, S'.det, h3⟩

/-- **(M3) the new order is a ring.** For a non-singular stored basis `o` containing 1 and a prime `p`, a successful
`one_step` returns a good order: non-singular, stored, containing 1 and CLOSED UNDER MULTIPLICATION (a multiplier ring
is a ring); `o` itself was closed (certified by the table loop). -/
theorem one_step_ring (f : List Int) (o : Order) (n : Nat) (hf : Canon f) (hlen : f.length = n + 1)
    (hn : 1 ≤ n) (hr : Rect n n o) (hdet : (toM n n o).det ≠ 0) (hst : fromBasis o = .ok o) (h1 : HasOne n o)
    (P : ℕ) (hP : P.Prime) (o' : Order) (hm : Nat) (H : oneStep f o (P : ℤ) = .ok (o', hm)) :
    Closed f o n ∧ GoodOrder f n o' ∧ Closed f o' n := by
  have S : Setup f o n := ⟨hf, hlen, hn, hr, hdet⟩
  obtain ⟨hcl, _, _⟩ := NTV.Round2.oneStep_closed S h1 P hP o' hm H
  have g' := (NTV.Round2.oneStep_good ⟨S, hst, h1, hcl⟩ P hP o' hm H).1
  exact ⟨hcl, g', g'.closed⟩

theorem hasOne_identity2 : HasOne 2 ([[1, 0], [0, 1]] : QMat) := by
  refine ⟨fun i => if i = 0 then 1 else 0, ?_⟩
  funext j
  fin_cases j <;> simp [Matrix.vecMul, dotProduct, toM, NTV.RowOps.ent]

/-- non-vacuity: f = x² + 3, o = Z[θ], p = 2: the new order Z[(1+θ)/2] is closed under multiplication -/
example : Closed [3, 0, 1] [[1, 0], [1/2, 1/2]] 2 := by
  have hdet : (toM 2 2 ([[1, 0], [0, 1]] : QMat)).det ≠ 0 := by
    rw [Matrix.det_fin_two]; simp [toM, NTV.RowOps.ent]
  have H : oneStep [3, 0, 1] [[1, 0], [0, 1]] ((2 : ℕ) : ℤ) = .ok ([[1, 0], [1/2, 1/2]], 1) := by decide +kernel
  have hst : fromBasis ([[1, 0], [0, 1]] : QMat) = .ok [[1, 0], [0, 1]] := by decide +kernel
  exact (one_step_ring [3, 0, 1] [[1, 0], [0, 1]] 2 (by simp [Canon]) rfl (by decide) ⟨rfl, by simp⟩ hdet
    hst hasOne_identity2 2 Nat.prime_two _ 1 H).2.2

/-- **(M3) the result of `find_integral_basis` is closed under multiplication**: for every canonical `f`, a returned
`O` is a good order — n×n non-singular (n = deg f ≥ 1), stored, containing 1, and every product of two basis vectors is
an INTEGRAL combination of the basis vectors (`Closed`: so `Order::get_mult_table` succeeds on it, C14). The
starting order `Z[θ] ∩ Z[1/θ]` is a ring for non-monic `f` as well (`NTV.Round2.start_closed`). -/
theorem result_is_ring (f : List Int) (hf : Canon f) (O : Order) (H : findIntegralBasis f = .ok O) :
    GoodOrder f (degU f) O ∧ Closed f O (degU f) := by
  have g := NTV.Round2.findIntegralBasis_good f hf O H
  exact ⟨g, g.closed⟩

/-- non-vacuity: Dedekind's cubic x³ − x² − 2x − 8 (index 2) and the non-monic 4x³ + 2 -/
example : Closed [-8, -2, -1, 1] [[1, 0, 0], [0, 1, 0], [0, 1/2, 1/2]] 3 :=
  (result_is_ring [-8, -2, -1, 1] (by simp [Canon]) [[1, 0, 0], [0, 1, 0], [0, 1/2, 1/2]] (by decide +kernel)).2

example : Closed [2, 0, 0, 4] [[1, 0, 0], [0, 2, 0], [0, 0, 2]] 3 :=
  (result_is_ring [2, 0, 0, 4] (by simp [Canon]) [[1, 0, 0], [0, 2, 0], [0, 0, 2]] (by decide +kernel)).2

/-- **(M4) Pohst–Zassenhaus** (Cohen, Theorem 6.1.3 (2)). If `one_step` on a non-singular stored basis `o` containing
1 and a prime `p` returns `howmany = 0` (the multiplier ring of the p-radical is `O` itself), then `O` is p-MAXIMAL:
every order `S ⊇ O` (non-singular n×n basis, closed under multiplication) with `p^r·S ⊆ O` for some `r` — i.e. in which
`O` has p-power index — is contained in `O` (`NTV.Round2.PMaximal`). -/
theorem one_step_maximal (f : List Int) (o : Order) (n : Nat) (hf : Canon f) (hlen : f.length = n + 1)
    (hn : 1 ≤ n) (hr : Rect n n o) (hdet : (toM n n o).det ≠ 0) (hst : fromBasis o = .ok o) (h1 : HasOne n o)
    (P : ℕ) (hP : P.Prime) (o' : Order) (H : oneStep f o (P : ℤ) = .ok (o', 0)) :
    PMaximal f n o P := by
  have S : Setup f o n := ⟨hf, hlen, hn, hr, hdet⟩
  obtain ⟨hcl, _, _⟩ := NTV.Round2.oneStep_closed S h1 P hP o' 0 H
  have g : GoodOrder f n o := ⟨S, hst, h1, hcl⟩
  exact (NTV.Round2.oneStep_max g P hP o' H).pmaximal g

/-- the statement of p-maximality, unfolded -/
theorem pMaximal_iff (f : List Int) (n : Nat) (O : QMat) (p : ℕ) :
    PMaximal f n O p ↔
      ∀ S : QMat, Rect n n S → (toM n n S).det ≠ 0 → Closed f S n →
        (∃ A : Matrix (Fin n) (Fin n) ℤ, toM n n O = A.map (Int.castRingHom ℚ) * toM n n S) →
        (∃ (r : ℕ) (B : Matrix (Fin n) (Fin n) ℤ),
          ((p : ℚ) ^ r) • toM n n S = B.map (Int.castRingHom ℚ) * toM n n O) →
        ∃ R : Matrix (Fin n) (Fin n) ℤ, toM n n S = R.map (Int.castRingHom ℚ) * toM n n O := Iff.rfl

theorem hasOne_eisenstein : HasOne 2 ([[1, 0], [1/2, 1/2]] : QMat) := by
  refine ⟨fun i => if i = 0 then 1 else 0, ?_⟩
  funext j
  fin_cases j <;> simp [Matrix.vecMul, dotProduct, toM, NTV.RowOps.ent]

/-- non-vacuity: Z[(1+√−3)/2] is 2-maximal and 3-maximal (`one_step` returns howmany = 0) -/
example : PMaximal [3, 0, 1] 2 [[1, 0], [1/2, 1/2]] 2 ∧ PMaximal [3, 0, 1] 2 [[1, 0], [1/2, 1/2]] 3 := by
  have hdet : (toM 2 2 ([[1, 0], [1/2, 1/2]] : QMat)).det ≠ 0 := by
    rw [Matrix.det_fin_two]; simp [toM, NTV.RowOps.ent]
  have H2 : oneStep [3, 0, 1] [[1, 0], [1/2, 1/2]] ((2 : ℕ) : ℤ) = .ok ([[1, 0], [1/2, 1/2]], 0) := by
    decide +kernel
  have H3 : oneStep [3, 0, 1] [[1, 0], [1/2, 1/2]] ((3 : ℕ) : ℤ) = .ok ([[1, 0], [1/2, 1/2]], 0) := by
    decide +kernel
  have hst : fromBasis ([[1, 0], [1/2, 1/2]] : QMat) = .ok [[1, 0], [1/2, 1/2]] := by decide +kernel
  exact ⟨one_step_maximal [3, 0, 1] _ 2 (by simp [Canon]) rfl (by decide) ⟨rfl, by simp⟩ hdet
      hst hasOne_eisenstein 2 Nat.prime_two _ H2,
    one_step_maximal [3, 0, 1] _ 2 (by simp [Canon]) rfl (by decide) ⟨rfl, by simp⟩ hdet
      hst hasOne_eisenstein 3 Nat.prime_three _ H3⟩

/-- **(M4) maximality of the result, first half** (superseded by `result_is_maximal` below, kept because it shows the
mechanism). For every canonical `f`: a returned `O` is p-maximal at every prime `p` whose square divides the
discriminant of `O` (as computed by `Order::discriminant`): the loop for such a `p` can only have ended with
`howmany = 0` (Pohst–Zassenhaus), and the later primes enlarge the order by indices prime to `p`, which preserves
p-maximality. The primes with `p² ∤ disc(O)` are handled by `result_is_maximal` through the trace form. -/
theorem result_is_maximal_at_square_primes (f : List Int) (hf : Canon f) (O : Order) (H : findIntegralBasis f = .ok O)
    (p : ℕ) (hp : p.Prime) (dO : ℤ) (hdO : discriminantOrd O f = .ok dO) (hdvd : (p : ℤ) ^ 2 ∣ dO) :
    PMaximal f (degU f) O p :=
  (NTV.Round2.findIntegralBasis_max f hf O H p hp dO hdO hdvd).pmaximal
    (NTV.Round2.findIntegralBasis_good f hf O H)

/-- non-vacuity: f = x² + 1: the result Z[i] has discriminant −4 and is 2-maximal -/
example : PMaximal [1, 0, 1] 2 [[1, 0], [0, 1]] 2 :=
  result_is_maximal_at_square_primes [1, 0, 1] (by simp [Canon]) [[1, 0], [0, 1]] (by decide +kernel) 2 Nat.prime_two (-4)
    (by decide +kernel) (by decide)

/-- **the discriminant of an order is an integer** — `Order::discriminant` never panics on a non-singular basis that
is closed under multiplication: `disc(f)·det²/lc(f)^(2n−2)` is (exactly) the determinant of the integral trace form
`Tr(ω_i ω_j)` (`NTV.DiscrTrace.discr_powerBasis_adjoinRoot_eq`: for every non-zero `F` of degree n ≥ 1 over a field,
the trace-form discriminant of 1, θ, …, θ^(n−1) in `k[X]/(F)` is `discr F / lc(F)^(2n−2)`). -/
theorem order_discriminant_is_integer (f : List Int) (o : Order) (n : Nat) (hf : Canon f)
    (hlen : f.length = n + 1) (hn : 1 ≤ n) (hr : Rect n n o) (hdet : (toM n n o).det ≠ 0)
    (hcl : Closed f o n) : ∃ d : ℤ, discriminantOrd o f = .ok d :=
  NTV.Round2.discriminantOrd_closed ⟨hf, hlen, hn, hr, hdet⟩ hcl

/-- **one step and the discriminant — FULL** (the divisibility hypothesis of `one_step_discriminant_partial` is now a
theorem): for a non-singular stored basis `o` containing 1 and a prime `p`, after a successful `one_step` both
discriminants are computed without a panic and disc(o) = p^(2·howmany)·disc(o'). -/
theorem one_step_discriminant (f : List Int) (o : Order) (n : Nat) (hf : Canon f) (hlen : f.length = n + 1)
    (hn : 1 ≤ n) (hr : Rect n n o) (hdet : (toM n n o).det ≠ 0) (hst : fromBasis o = .ok o) (h1 : HasOne n o)
    (P : ℕ) (hP : P.Prime) (o' : Order) (hm : Nat) (H : oneStep f o (P : ℤ) = .ok (o', hm)) :
    ∃ d d' : ℤ, discriminantOrd o f = .ok d ∧ discriminantOrd o' f = .ok d' ∧ d = (P : ℤ) ^ (2 * hm) * d' := by
  have S : Setup f o n := ⟨hf, hlen, hn, hr, hdet⟩
  obtain ⟨hcl, _, _⟩ := NTV.Round2.oneStep_closed S h1 P hP o' hm H
  obtain ⟨g', ext⟩ := NTV.Round2.oneStep_good ⟨S, hst, h1, hcl⟩ P hP o' hm H
  obtain ⟨d', hd'⟩ := NTV.Round2.discriminantOrd_closed g'.setup g'.closed
  refine ⟨_, d', disc_of_ext' hr ext f d' hd', hd', ?_⟩
  rw [← pow_two, ← pow_mul, Nat.mul_comm]

/-- **(M4) the result of `find_integral_basis` is p-maximal at EVERY prime p** (f canonical): every order `S ⊇ O`
(non-singular n×n basis closed under multiplication) with `p^r·S ⊆ O` for some `r` is contained in `O`. For
`p² | disc(O)` the loop for `p` ended with `howmany = 0` (`one_step_maximal`) and the later primes have indices prime
to `p`; for `p² ∤ disc(O)` a strictly larger `S` would have index `p^j`, `j ≥ 1`, and `disc(O) = p^(2j)·disc(S)` with
`disc(S)` an integer (`order_discriminant_is_integer`). -/
theorem result_is_maximal (f : List Int) (hf : Canon f) (O : Order) (H : findIntegralBasis f = .ok O)
    (p : ℕ) (hp : p.Prime) : PMaximal f (degU f) O p :=
  NTV.Round2.findIntegralBasis_pmaximal_all f hf O H p hp

/-- non-vacuity: Dedekind's cubic x³ − x² − 2x − 8: the result (index 2 in Z[θ], disc −503) is 2-maximal;
here 2² ∤ −503, so this instance goes through the trace form -/
example : PMaximal [-8, -2, -1, 1] 3 [[1, 0, 0], [0, 1, 0], [0, 1/2, 1/2]] 2 :=
  result_is_maximal [-8, -2, -1, 1] (by simp [Canon]) [[1, 0, 0], [0, 1, 0], [0, 1/2, 1/2]] (by decide +kernel) 2
    Nat.prime_two

/-- **so no strictly larger order exists**: the result of `find_integral_basis` contains every order (non-singular
n×n basis closed under multiplication) that contains it — it is THE maximal order of `ℚ[x]/(f)` among the orders
containing the starting order. -/
theorem result_is_maximal_order (f : List Int) (hf : Canon f) (O : Order) (H : findIntegralBasis f = .ok O)
    (S : QMat) (hS : Rect (degU f) (degU f) S) (hdS : (toM (degU f) (degU f) S).det ≠ 0)
    (hcS : Closed f S (degU f))
    (hOS : ∃ A : Matrix (Fin (degU f)) (Fin (degU f)) ℤ,
      toM (degU f) (degU f) O = A.map (Int.castRingHom ℚ) * toM (degU f) (degU f) S) :
    ∃ R : Matrix (Fin (degU f)) (Fin (degU f)) ℤ,
      toM (degU f) (degU f) S = R.map (Int.castRingHom ℚ) * toM (degU f) (degU f) O :=
  NTV.Round2.findIntegralBasis_maximal f hf O H S hS hdS hcS hOS

/-- non-vacuity: the hypotheses are satisfiable (S = O = Z[(1+√5)/2] for f = x² − 5) -/
example : ∃ R : Matrix (Fin 2) (Fin 2) ℤ,
    toM 2 2 ([[1, 0], [1/2, 1/2]] : QMat) = R.map (Int.castRingHom ℚ) * toM 2 2 ([[1, 0], [1/2, 1/2]] : QMat) := by
  have H : findIntegralBasis [-5, 0, 1] = .ok [[1, 0], [1/2, 1/2]] := by decide +kernel
  have hdet : (toM 2 2 ([[1, 0], [1/2, 1/2]] : QMat)).det ≠ 0 := by
    rw [Matrix.det_fin_two]; simp [toM, NTV.RowOps.ent]
  have hr : Rect 2 2 ([[1, 0], [1/2, 1/2]] : QMat) := ⟨rfl, by simp⟩
  exact result_is_maximal_order [-5, 0, 1] (by simp [Canon]) _ H _ hr hdet
    (result_is_ring [-5, 0, 1] (by simp [Canon]) _ H).2 ⟨1, by simp⟩


end Round2Ring

/-! ## The discriminant of the result is the FIELD discriminant

`K_f = AdjoinRoot (modulus f) = ℚ[X]/(f)` (`modulus f` is `f` as a rational polynomial), a number field when `f` is
irreducible over ℚ. For `f` canonical and irreducible, the ℤ-span of the rows of the returned basis (as elements of
`K_f`) is the integral closure of ℤ in `K_f` (`order_is_integral_closure`), so the value returned by
`Order::discriminant` on it is Mathlib's `NumberField.discr K_f` (`discriminant_is_field_discriminant`); hence two
polynomials defining the same field (a ℚ-algebra isomorphism `K_f ≃ K_g`) give the same discriminant
(`discriminant_is_field_invariant`), in particular for the changes of generator θ + k, −θ, c·θ
(`discriminant_affine_invariant`, `discriminant_shift_invariant`) and 1/θ (`discriminant_reciprocal_invariant`).
Lemmas: `Lemmas/FieldDiscA.lean` – `FieldDiscE.lean`. -/
section FieldDiscriminant
open Polynomial
open NTV.Ord NTV.Round2 NTV.PolyG
open NTV.Alg (modulus)

/-- **the result of `find_integral_basis` is the ring of integers.** For `f` canonical and irreducible over ℚ, an
element of `ℚ[X]/(f)` is integral over ℤ iff it is an integer combination of the rows of the returned basis
(row `i` is the class of the polynomial with coefficient list `O[i]`). -/
theorem order_is_integral_closure (f : List Int) (hf : Canon f) (hirr : Irreducible (modulus f)) (O : Order)
    (H : findIntegralBasis f = .ok O) (x : AdjoinRoot (modulus f)) :
    x ∈ integralClosure ℤ (AdjoinRoot (modulus f)) ↔
      x ∈ Submodule.span ℤ (Set.range
        (fun i : Fin (degU f) => AdjoinRoot.mk (modulus f) (toPoly (O.getD i [])))) :=
  NTV.FieldDisc.findIntegralBasis_integral_iff f hf hirr O H x

/-- **its discriminant is the field discriminant**: the value `Order::discriminant` returns on the result of
`find_integral_basis` is the absolute discriminant `NumberField.discr` of the number field `ℚ[X]/(f)`. -/
theorem discriminant_is_field_discriminant (f : List Int) (hf : Canon f) [Fact (Irreducible (modulus f))]
    (O : Order) (H : findIntegralBasis f = .ok O) (d : ℤ) (hd : discriminantOrd O f = .ok d) :
    d = @NumberField.discr (AdjoinRoot (modulus f)) _ (NTV.FieldDisc.numberField_adjoinRoot (modulus f)) :=
  NTV.FieldDisc.findIntegralBasis_discr f hf O H d hd

/-- **the discriminant depends only on the field**: if `f` and `g` (canonical, irreducible over ℚ) define the same
field — there is a ℚ-algebra isomorphism `ℚ[X]/(f) ≃ ℚ[X]/(g)` — then the discriminants of the two computed orders
are equal. -/
theorem discriminant_is_field_invariant (f g : List Int) (hf : Canon f) (hg : Canon g)
    (hif : Irreducible (modulus f)) (hig : Irreducible (modulus g))
    (e : AdjoinRoot (modulus f) ≃ₐ[ℚ] AdjoinRoot (modulus g))
    (O O' : Order) (H : findIntegralBasis f = .ok O) (H' : findIntegralBasis g = .ok O')
    (d d' : ℤ) (hd : discriminantOrd O f = .ok d) (hd' : discriminantOrd O' g = .ok d') : d = d' :=
  NTV.FieldDisc.findIntegralBasis_discr_invariant f g hf hg hif hig e O O' H H' d d' hd hd'

/-- generator `θ' = c·θ + k` (θ + k: c = u = 1; −θ: c = −1, u = ±1; c·θ: k = 0, u = cⁿ): if
`g(c·X + k) = u·f(X)` with `c, u ≠ 0`, `f` irreducible, then `g` is irreducible and the discriminants agree. -/
theorem discriminant_affine_invariant (f g : List Int) (hf : Canon f) (hg : Canon g)
    (hif : Irreducible (modulus f)) (c k u : ℤ) (hc : c ≠ 0) (hu : u ≠ 0)
    (h : (toPoly g).comp (C c * X + C k) = C u * toPoly f)
    (O O' : Order) (H : findIntegralBasis f = .ok O) (H' : findIntegralBasis g = .ok O')
    (d d' : ℤ) (hd : discriminantOrd O f = .ok d) (hd' : discriminantOrd O' g = .ok d') :
    Irreducible (modulus g) ∧ d = d' :=
  NTV.FieldDisc.findIntegralBasis_discr_affine f g hf hg hif c k u hc hu h O O' H H' d d' hd hd'

/-- generator `θ + k`: `g(X + k) = f(X)` -/
theorem discriminant_shift_invariant (f g : List Int) (hf : Canon f) (hg : Canon g)
    (hif : Irreducible (modulus f)) (k : ℤ) (h : (toPoly g).comp (X + C k) = toPoly f)
    (O O' : Order) (H : findIntegralBasis f = .ok O) (H' : findIntegralBasis g = .ok O')
    (d d' : ℤ) (hd : discriminantOrd O f = .ok d) (hd' : discriminantOrd O' g = .ok d') : d = d' :=
  (discriminant_affine_invariant f g hf hg hif 1 k 1 one_ne_zero one_ne_zero (by simpa using h)
    O O' H H' d d' hd hd').2

/-- generator `−θ`: `g(−X) = u·f(X)` (u = ±1) -/
theorem discriminant_neg_invariant (f g : List Int) (hf : Canon f) (hg : Canon g)
    (hif : Irreducible (modulus f)) (u : ℤ) (hu : u ≠ 0) (h : (toPoly g).comp (-X) = C u * toPoly f)
    (O O' : Order) (H : findIntegralBasis f = .ok O) (H' : findIntegralBasis g = .ok O')
    (d d' : ℤ) (hd : discriminantOrd O f = .ok d) (hd' : discriminantOrd O' g = .ok d') : d = d' :=
  (discriminant_affine_invariant f g hf hg hif (-1) 0 u (by norm_num) hu (by simpa using h)
    O O' H H' d d' hd hd').2

/-- generator `c·θ`: `g(c·X) = u·f(X)` (c ≠ 0, u = cⁿ for monic f, g) -/
theorem discriminant_scale_invariant (f g : List Int) (hf : Canon f) (hg : Canon g)
    (hif : Irreducible (modulus f)) (c u : ℤ) (hc : c ≠ 0) (hu : u ≠ 0)
    (h : (toPoly g).comp (C c * X) = C u * toPoly f)
    (O O' : Order) (H : findIntegralBasis f = .ok O) (H' : findIntegralBasis g = .ok O')
    (d d' : ℤ) (hd : discriminantOrd O f = .ok d) (hd' : discriminantOrd O' g = .ok d') : d = d' :=
  (discriminant_affine_invariant f g hf hg hif c 0 u hc hu (by simpa using h) O O' H H' d d' hd hd').2

/-- generator `1/θ`: `g = u·Xⁿ·f(1/X)` (the coefficients reversed, `u ≠ 0`; `f(0) ≠ 0` so that θ ≠ 0) -/
theorem discriminant_reciprocal_invariant (f g : List Int) (hf : Canon f) (hg : Canon g)
    (hif : Irreducible (modulus f)) (hig : Irreducible (modulus g)) (u : ℤ) (hu : u ≠ 0)
    (h0 : (toPoly f).coeff 0 ≠ 0) (h : toPoly g = C u * (toPoly f).reverse)
    (O O' : Order) (H : findIntegralBasis f = .ok O) (H' : findIntegralBasis g = .ok O')
    (d d' : ℤ) (hd : discriminantOrd O f = .ok d) (hd' : discriminantOrd O' g = .ok d') : d = d' :=
  NTV.FieldDisc.findIntegralBasis_discr_reciprocal f g hf hg hif hig u hu h0 h O O' H H' d d' hd hd'

/-! ### non-vacuity: ℚ(√−3) through x² + 3 (θ), x² − 2x + 4 (θ + 1), x² + 12 (2θ), 3x² + 1 (1/θ); the four computed
orders differ but all have discriminant −3 -/

theorem x2p3_irreducible : Irreducible (modulus [3, 0, 1]) := by
  have hm : modulus [3, 0, 1] = Polynomial.X ^ 2 + Polynomial.C 3 := by
    simp [NTV.Alg.modulus, NTV.Alg.intsToRats, NTV.PolyG.toPoly]; ring
  rw [hm]
  apply Polynomial.irreducible_of_degree_le_three_of_not_isRoot
  · rw [Polynomial.natDegree_X_pow_add_C]; decide
  · intro x hx
    simp only [Polynomial.IsRoot, Polynomial.eval_add, Polynomial.eval_pow, Polynomial.eval_X,
      Polynomial.eval_C] at hx
    nlinarith [sq_nonneg x]

example : findIntegralBasis [3, 0, 1] = .ok [[1, 0], [1/2, 1/2]] ∧
    discriminantOrd [[1, 0], [1/2, 1/2]] [3, 0, 1] = .ok (-3) ∧
    findIntegralBasis [4, -2, 1] = .ok [[1, 0], [0, 1/2]] ∧
    discriminantOrd [[1, 0], [0, 1/2]] [4, -2, 1] = .ok (-3) ∧
    findIntegralBasis [12, 0, 1] = .ok [[1, 0], [1/2, 1/4]] ∧
    discriminantOrd [[1, 0], [1/2, 1/4]] [12, 0, 1] = .ok (-3) ∧
    findIntegralBasis [1, 0, 3] = .ok [[1, 0], [1/2, 3/2]] ∧
    discriminantOrd [[1, 0], [1/2, 3/2]] [1, 0, 3] = .ok (-3) := by decide +kernel

/-- the hypotheses of `discriminant_shift_invariant` hold for x² + 3 and x² − 2x + 4 = (x − 1)² + 3 -/
example : (-3 : ℤ) = -3 :=
  discriminant_shift_invariant [3, 0, 1] [4, -2, 1] (by intro _; simp) (by intro _; simp) x2p3_irreducible 1
    (by simp [NTV.PolyG.toPoly]; ring) _ _ (by decide +kernel : findIntegralBasis [3, 0, 1] = .ok [[1, 0], [1/2, 1/2]])
    (by decide +kernel : findIntegralBasis [4, -2, 1] = .ok [[1, 0], [0, 1/2]]) _ _
    (by decide +kernel : discriminantOrd [[1, 0], [1/2, 1/2]] [3, 0, 1] = .ok (-3))
    (by decide +kernel : discriminantOrd [[1, 0], [0, 1/2]] [4, -2, 1] = .ok (-3))

/-- … of `discriminant_scale_invariant` for x² + 3 and x² + 12 (generator 2θ, g(2X) = 4·f(X)) -/
example : Irreducible (modulus [12, 0, 1]) ∧ (-3 : ℤ) = -3 :=
  discriminant_affine_invariant [3, 0, 1] [12, 0, 1] (by intro _; simp) (by intro _; simp) x2p3_irreducible 2 0 4
    (by norm_num) (by norm_num) (by simp [NTV.PolyG.toPoly]; ring) _ _
    (by decide +kernel : findIntegralBasis [3, 0, 1] = .ok [[1, 0], [1/2, 1/2]])
    (by decide +kernel : findIntegralBasis [12, 0, 1] = .ok [[1, 0], [1/2, 1/4]]) _ _
    (by decide +kernel : discriminantOrd [[1, 0], [1/2, 1/2]] [3, 0, 1] = .ok (-3))
    (by decide +kernel : discriminantOrd [[1, 0], [1/2, 1/4]] [12, 0, 1] = .ok (-3))

/-- … of `discriminant_reciprocal_invariant` for x² + 3 and 3x² + 1 (generator 1/θ) -/
theorem x2p3rev_irreducible : Irreducible (modulus [1, 0, 3]) := by
  have hm : modulus [1, 0, 3] = Polynomial.C 3 * Polynomial.X ^ 2 + Polynomial.C 1 := by
    simp [NTV.Alg.modulus, NTV.Alg.intsToRats, NTV.PolyG.toPoly]; ring
  rw [hm]
  have hd : (Polynomial.C 3 * Polynomial.X ^ 2 + Polynomial.C 1 : ℚ[X]).natDegree = 2 := by compute_degree!
  apply Polynomial.irreducible_of_degree_le_three_of_not_isRoot
  · rw [hd]; decide
  · intro x hx
    simp only [Polynomial.IsRoot, Polynomial.eval_add, Polynomial.eval_mul, Polynomial.eval_pow,
      Polynomial.eval_X, Polynomial.eval_C] at hx
    nlinarith [sq_nonneg x]

theorem x2p3_reverse : toPoly ([1, 0, 3] : List ℤ) = C 1 * (toPoly ([3, 0, 1] : List ℤ)).reverse := by
  have h1 : toPoly ([3, 0, 1] : List ℤ) = X ^ 2 + C 3 := by simp [NTV.PolyG.toPoly]; ring
  have h2 : toPoly ([1, 0, 3] : List ℤ) = C 3 * X ^ 2 + 1 := by simp [NTV.PolyG.toPoly]; ring
  have hd : (X ^ 2 + C 3 : ℤ[X]).natDegree = 2 := by compute_degree!
  rw [h1, h2, reverse, hd, reflect_add, reflect_C, reflect_monomial]
  rw [revAt_le (by norm_num)]; simp; ring

example : (-3 : ℤ) = -3 :=
  discriminant_reciprocal_invariant [3, 0, 1] [1, 0, 3] (by intro _; simp) (by intro _; simp) x2p3_irreducible
    x2p3rev_irreducible 1 one_ne_zero (by simp [NTV.PolyG.toPoly]) x2p3_reverse _ _
    (by decide +kernel : findIntegralBasis [3, 0, 1] = .ok [[1, 0], [1/2, 1/2]])
    (by decide +kernel : findIntegralBasis [1, 0, 3] = .ok [[1, 0], [1/2, 3/2]]) _ _
    (by decide +kernel : discriminantOrd [[1, 0], [1/2, 1/2]] [3, 0, 1] = .ok (-3))
    (by decide +kernel : discriminantOrd [[1, 0], [1/2, 3/2]] [1, 0, 3] = .ok (-3))

/-- … and the field discriminant of ℚ(√−3) is −3, through the model -/
example : @NumberField.discr (AdjoinRoot (modulus [3, 0, 1])) (@AdjoinRoot.instField _ _ _ ⟨x2p3_irreducible⟩)
    (@NTV.FieldDisc.numberField_adjoinRoot (modulus [3, 0, 1]) ⟨x2p3_irreducible⟩) = -3 :=
  haveI : Fact (Irreducible (modulus [3, 0, 1])) := ⟨x2p3_irreducible⟩
  (discriminant_is_field_discriminant [3, 0, 1] (by intro _; simp) _
    (by decide +kernel : findIntegralBasis [3, 0, 1] = .ok [[1, 0], [1/2, 1/2]]) (-3)
    (by decide +kernel : discriminantOrd [[1, 0], [1/2, 1/2]] [3, 0, 1] = .ok (-3))).symm

end FieldDiscriminant

end NTV.C06
