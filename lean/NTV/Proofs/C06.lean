import NTV.Model.Round2
import NTV.Proofs.Lemmas.TrialProofs
import NTV.Proofs.C02
/-! # C06 — integral basis (Round 2): what is proved so far.
Closure under multiplication and p-maximality of the result (Pohst–Zassenhaus) are not proved; they are
certified on every explored case by an independent oracle (`NTV.Spec.MaxOrder`: ring test, containment of
the starting order, discriminant/index relation, and p-maximality at every p with p² | disc by two
independent criteria). The theorems below are facts the routine relies on, for all inputs. -/
namespace NTV.C06

/-- the set of primes the outer loop visits: `factorize(|disc|)` is the true prime factorisation of the
discriminant of the starting order — strictly increasing primes with positive exponents and product
|disc| — so every prime p with p² | disc is visited (and no composite is ever passed to Round 2) -/
theorem primes_visited (d : Nat) (hd : 1 ≤ d) :
    d = NTV.Trial.prodOf (NTV.Trial.factorize d) ∧
    (∀ qe ∈ NTV.Trial.factorize d, qe.1.Prime ∧ 0 < qe.2) ∧
    (NTV.Trial.factorize d).Pairwise (fun a b => a.1 < b.1) := NTV.Trial.factorize_correct d hd

/-- every order the routine stores is put in canonical form by a Hermite normal form computation:
two integer generating sets of the same module give the same stored basis -/
theorem stored_basis_canonical (A A' : NTV.Hnf.Mat) (n n' m : Nat) (hr : NTV.Hnf.Rect n m A)
    (hr' : NTV.Hnf.Rect n' m A') (hn : 0 < n) (hn' : 0 < n') (hm : 0 < m)
    (hsame : ∀ v : Fin m → ℤ, NTV.Hnf.InLattice n m A v ↔ NTV.Hnf.InLattice n' m A' v) :
    NTV.Hnf.hnfNew A = NTV.Hnf.hnfNew A' := NTV.C02.canonical A A' n n' m hr hr' hn hn' hm hsame

/-- a zero discriminant of the starting order (f not squarefree) is refused -/
theorem zero_discriminant_refused (f : List Int) (o : NTV.Round2.Order)
    (ho : NTV.Ord.nonMonicInitialOrder f = .ok o) (hd : NTV.Ord.discriminantOrd o f = .ok 0) :
    NTV.Round2.findIntegralBasis f = .error "panic assert" := by
  simp [NTV.Round2.findIntegralBasis, ho, hd, bind, Except.bind]

end NTV.C06
