import NTV.Proofs.Lemmas.PolyModBasics
import NTV.Proofs.Lemmas.PolyDivremMod
import NTV.Proofs.Lemmas.PolyGcdMod
import NTV.Model.PolyModFactor
/-! # C08 — factorisation modulo a prime: what is proved about the model so far.
Irreducibility, distinctness and the product identity are certified on every explored case by an
independent oracle (Rabin's test cross-checked by brute force, product modulo p). -/
namespace NTV.C08
open NTV.PolyMod

/-- `modpow` is modular exponentiation (as a congruence) for every base, exponent ≥ 0 and modulus -/
theorem modpow_correct (x e m : Int) : modpow x e m ≡ x ^ e.toNat [ZMOD m] := modpow_modEq x e m

/-- the inverse of a leading coefficient used by `poly_divrem` and the final normalisation is a true
inverse modulo a prime p -/
theorem leading_coefficient_inverse (p : Nat) (hp : p.Prime) (x : Int) (hx : IsCoprime x (p : Int)) :
    x * modinv x (p : Int) ≡ 1 [ZMOD (p : Int)] := modinv_spec p hp x hx

/-- the division primitive every stage is built on, `poly_divrem(a, b, p)`, satisfies its contract for
every prime p not dividing lc(b): a ≡ q·b + r (mod p), deg r < deg b, results canonical -/
theorem division_contract (a b : List Int) (p : Nat) (hp : p.Prime) (ha : a ≠ []) (hb : b ≠ [])
    (hab : b.length ≤ a.length) (hlc : IsCoprime (NTV.PolyG.lc b) (p : Int)) :
    NTV.Hensel.PCong p (NTV.PolyG.toPoly a)
      (NTV.PolyG.toPoly (NTV.PolyMod.polyDivrem a b p).1 * NTV.PolyG.toPoly b +
        NTV.PolyG.toPoly (NTV.PolyMod.polyDivrem a b p).2) ∧
    (NTV.PolyMod.polyDivrem a b p).2.length < b.length ∧
    NTV.PolyG.Canon (NTV.PolyMod.polyDivrem a b p).1 ∧ NTV.PolyG.Canon (NTV.PolyMod.polyDivrem a b p).2 :=
  NTV.PolyMod.polyDivrem_contract_prime a b p hp ha hb hab hlc

/-- every gcd the routine takes, `poly_gcd(a, b, p)` on reduced canonical arguments, returns a
polynomial that divides both arguments modulo the prime p (and is reduced and canonical): so every
polynomial split off by a gcd is a divisor of the current cofactor -/
theorem gcd_divides_both (p : Nat) (hp : p.Prime) (a b g : List Int)
    (hra : NTV.PolyMod.Reduced (p : Int) a) (hrb : NTV.PolyMod.Reduced (p : Int) b)
    (hca : NTV.PolyG.Canon a) (hcb : NTV.PolyG.Canon b) (h : NTV.PolyMod.polyGcd a b (p : Int) = .ok g) :
    NTV.PolyMod.DvdP p (NTV.PolyG.toPoly g) (NTV.PolyG.toPoly a) ∧
    NTV.PolyMod.DvdP p (NTV.PolyG.toPoly g) (NTV.PolyG.toPoly b) ∧
    NTV.PolyMod.Reduced (p : Int) g ∧ NTV.PolyG.Canon g :=
  NTV.PolyMod.polyGcd_dvd p hp a b g hra hrb hca hcb h

/-- the reduction applied to the input first: `poly_mod(f, p)` has coefficients in [0, p), is canonical
and congruent to f -/
theorem input_reduction (f : List Int) (p : Int) (hp : 0 < p) :
    NTV.PolyMod.Reduced p (NTV.PolyMod.polyMod f p) ∧ NTV.PolyG.Canon (NTV.PolyMod.polyMod f p) ∧
    NTV.Hensel.PCong p (NTV.PolyG.toPoly (NTV.PolyMod.polyMod f p)) (NTV.PolyG.toPoly f) :=
  NTV.PolyMod.polyMod_reduced f p hp

end NTV.C08
