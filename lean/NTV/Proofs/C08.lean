import NTV.Proofs.Lemmas.PolyModBasics
import NTV.Proofs.Lemmas.PolyDivremMod
import NTV.Model.PolyModFactor
/-! # C08 — factorisation modulo a prime: what is proved about the model so far.
Irreducibility, distinctness and the product identity are certified on every explored case by an
independent oracle (Rabin's test cross-checked by brute force, product modulo p). -/
namespace NTV.C08
open NTV.PolyMod

/-- `modpow` is modular exponentiation (as a congruence) for every base, exponent ≥ 0 and modulus -/
theorem modpow_correct (x e m : Int) : modpow x e m ≡ x ^ e.toNat [ZMOD m] := modpow_modEq x e m

/-- the inverse of a leading coefficient used by `poly_divrem` and the final normalisation is a true
inverse modulo a prime p -/
theorem leading_coefficient_inverse (p : Nat) (hp : p.Prime) (x : Int) (hx : IsCoprime x (p : Int)) :
    x * modinv x (p : Int) ≡ 1 [ZMOD (p : Int)] := modinv_spec p hp x hx

/-- the division primitive every stage is built on, `poly_divrem(a, b, p)`, satisfies its contract for
every prime p not dividing lc(b): a ≡ q·b + r (mod p), deg r < deg b, results canonical -/
theorem division_contract (a b : List Int) (p : Nat) (hp : p.Prime) (ha : a ≠ []) (hb : b ≠ [])
    (hab : b.length ≤ a.length) (hlc : IsCoprime (NTV.PolyG.lc b) (p : Int)) :
    NTV.Hensel.PCong p (NTV.PolyG.toPoly a)
      (NTV.PolyG.toPoly (NTV.PolyMod.polyDivrem a b p).1 * NTV.PolyG.toPoly b +
        NTV.PolyG.toPoly (NTV.PolyMod.polyDivrem a b p).2) ∧
    (NTV.PolyMod.polyDivrem a b p).2.length < b.length ∧
    NTV.PolyG.Canon (NTV.PolyMod.polyDivrem a b p).1 ∧ NTV.PolyG.Canon (NTV.PolyMod.polyDivrem a b p).2 :=
  NTV.PolyMod.polyDivrem_contract_prime a b p hp ha hb hab hlc

end NTV.C08
