import NTV.Proofs.Lemmas.PolyModBasics
import NTV.Model.PolyModFactor
/-! # C08 — factorisation modulo a prime: what is proved about the model so far.
Irreducibility, distinctness and the product identity are certified on every explored case by an
independent oracle (Rabin's test cross-checked by brute force, product modulo p). -/
namespace NTV.C08
open NTV.PolyMod

/-- `modpow` is modular exponentiation (as a congruence) for every base, exponent ≥ 0 and modulus -/
theorem modpow_correct (x e m : Int) : modpow x e m ≡ x ^ e.toNat [ZMOD m] := modpow_modEq x e m

/-- the inverse of a leading coefficient used by `poly_divrem` and the final normalisation is a true
inverse modulo a prime p -/
theorem leading_coefficient_inverse (p : Nat) (hp : p.Prime) (x : Int) (hx : IsCoprime x (p : Int)) :
    x * modinv x (p : Int) ≡ 1 [ZMOD (p : Int)] := modinv_spec p hp x hx

end NTV.C08
