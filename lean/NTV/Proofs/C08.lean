import NTV.Proofs.Lemmas.PolyModBasics
import NTV.Proofs.Lemmas.PolyDivremMod
import NTV.Proofs.Lemmas.PolyGcdMod
import NTV.Model.PolyModFactor
import NTV.Proofs.Lemmas.FactorModPIrred
import NTV.Proofs.Lemmas.NoPanicFactorC
/-! # C08 — factorisation modulo a prime: what is proved about the model so far.
Irreducibility, distinctness and the product identity are certified on every explored case by an
independent oracle (Rabin's test cross-checked by brute force, product modulo p).
(Later addition: they are now also proved for all inputs and all draw streams, see `factorization_correct`
at the end of this file.) -/
namespace NTV.C08
open NTV.PolyMod

/-- `modpow` is modular exponentiation (as a congruence) for every base, exponent ≥ 0 and modulus -/
theorem modpow_correct (x e m : Int) : modpow x e m ≡ x ^ e.toNat [ZMOD m] := modpow_modEq x e m

/-- the inverse of a leading coefficient used by `poly_divrem` and the final normalisation is a true
inverse modulo a prime p -/
theorem leading_coefficient_inverse (p : Nat) (hp : p.Prime) (x : Int) (hx : IsCoprime x (p : Int)) :
    x * modinv x (p : Int) ≡ 1 [ZMOD (p : Int)] := modinv_spec p hp x hx

/-- the division primitive every stage is built on, `poly_divrem(a, b, p)`, satisfies its contract for
every prime p not dividing lc(b): a ≡ q·b + r (mod p), deg r < deg b, results canonical -/
theorem division_contract (a b : List Int) (p : Nat) (hp : p.Prime) (ha : a ≠ []) (hb : b ≠ [])
    (hab : b.length ≤ a.length) (hlc : IsCoprime (NTV.PolyG.lc b) (p : Int)) :
    NTV.Hensel.PCong p (NTV.PolyG.toPoly a)
      (NTV.PolyG.toPoly (NTV.PolyMod.polyDivrem a b p).1 * NTV.PolyG.toPoly b +
        NTV.PolyG.toPoly (NTV.PolyMod.polyDivrem a b p).2) ∧
    (NTV.PolyMod.polyDivrem a b p).2.length < b.length ∧
    NTV.PolyG.Canon (NTV.PolyMod.polyDivrem a b p).1 ∧ NTV.PolyG.Canon (NTV.PolyMod.polyDivrem a b p).2 :=
  NTV.PolyMod.polyDivrem_contract_prime a b p hp ha hb hab hlc

/-- every gcd the routine takes, `poly_gcd(a, b, p)` on reduced canonical arguments, returns a
polynomial that divides both arguments modulo the prime p (and is reduced and canonical): so every
polynomial split off by a gcd is a divisor of the current cofactor -/
theorem gcd_divides_both (p : Nat) (hp : p.Prime) (a b g : List Int)
    (hra : NTV.PolyMod.Reduced (p : Int) a) (hrb : NTV.PolyMod.Reduced (p : Int) b)
    (hca : NTV.PolyG.Canon a) (hcb : NTV.PolyG.Canon b) (h : NTV.PolyMod.polyGcd a b (p : Int) = .ok g) :
    NTV.PolyMod.DvdP p (NTV.PolyG.toPoly g) (NTV.PolyG.toPoly a) ∧
    NTV.PolyMod.DvdP p (NTV.PolyG.toPoly g) (NTV.PolyG.toPoly b) ∧
    NTV.PolyMod.Reduced (p : Int) g ∧ NTV.PolyG.Canon g :=
  NTV.PolyMod.polyGcd_dvd p hp a b g hra hrb hca hcb h

/-- the reduction applied to the input first: `poly_mod(f, p)` has coefficients in [0, p), is canonical
and congruent to f -/
theorem input_reduction (f : List Int) (p : Int) (hp : 0 < p) :
    NTV.PolyMod.Reduced p (NTV.PolyMod.polyMod f p) ∧ NTV.PolyG.Canon (NTV.PolyMod.polyMod f p) ∧
    NTV.Hensel.PCong p (NTV.PolyG.toPoly (NTV.PolyMod.polyMod f p)) (NTV.PolyG.toPoly f) :=
  NTV.PolyMod.polyMod_reduced f p hp


/-! ## The factorisation itself

Notation. `Good p l` (= `Reduced p l ∧ Canon l`): `l` is a canonical coefficient list with entries in
[0, p). `factorProduct fs = ∏ gᵉ`, `partProduct ds = ∏ g`, `listProduct l = ∏ g` in ℤ[X].
`PCong p F G`: F ≡ G modulo p. The draw stream `s` is universally quantified ("all random draws"); the
statements are about the runs that return `.ok` (a run on an exhausted stream / fuel is `.error
"inconclusive …"`, a Rust panic is `.error "panic …"`). -/
open Polynomial NTV.PolyG NTV.Hensel

/-- decidable equality of results, for the examples -/
instance : DecidableEq (Except String Factors) := fun a b =>
  match a, b with
  | .ok x, .ok y => if h : x = y then isTrue (by rw [h]) else isFalse (by intro e; cases e; exact h rfl)
  | .error x, .error y => if h : x = y then isTrue (by rw [h]) else isFalse (by intro e; cases e; exact h rfl)
  | .ok _, .error _ => isFalse (by intro e; cases e)
  | .error _, .ok _ => isFalse (by intro e; cases e)

/-- Stage 1, `squarefree(poly, p, pusize)` (Cohen 3.4.2 with p-th roots): for every prime p and every
non-zero `poly` reduced modulo p, with `pusize = p` (or any `pusize` when deg poly < p: then no p-th
root is taken), the returned pairs (A, m) satisfy c · ∏ Aᵐ ≡ poly (mod p) for an integer unit
0 < c < p. The parts A are **not** monic in general (`squarefree [1,2,1] 5 5 = [([2,2],2)]`): they are
non-zero canonical lists with coefficients in [0, p); every m ≥ 1. -/
theorem squarefree_product (p : Nat) (hp : p.Prime) (poly : List Int) (pusize : Nat) (fs : Factors)
    (hred : Reduced (p : Int) poly) (hcan : Canon poly) (hne : poly ≠ [])
    (hpu : pusize = p ∨ poly.length ≤ p) (h : squarefree poly (p : Int) pusize = .ok fs) :
    (∃ c : Int, 0 < c ∧ c < p ∧ PCong (p : Int) (C c * factorProduct fs) (toPoly poly)) ∧
    ∀ x ∈ fs, Reduced (p : Int) x.1 ∧ Canon x.1 ∧ x.1 ≠ [] ∧ 1 ≤ x.2 := by
  have : Fact p.Prime := ⟨hp⟩
  obtain ⟨h1, h2, _⟩ := NTV.PolyMod.squarefree_product p poly pusize fs ⟨⟨hred, hcan⟩, hne⟩ hpu h
  refine ⟨pcong_of_associated p _ _ ?_, fun x hx => ⟨(h2 x hx).1.1.1, (h2 x hx).1.1.2, (h2 x hx).1.2, (h2 x hx).2⟩⟩
  rw [map_factorProduct]; exact h1

example : squarefree [1, 2, 1] 5 5 = .ok [([2, 2], 2)] := by decide +kernel
example : squarefree [1, 0, 0, 1] 3 3 = .ok [([1, 1], 3)] := by decide +kernel   -- a p-th root is taken

/-- Stage 2, `degree(poly, p)` (distinct degree): the returned parts multiply to `poly` up to a unit,
for every prime p and every non-zero `poly` reduced modulo p -/
theorem degree_product (p : Nat) (hp : p.Prime) (poly : List Int) (ds : Factors)
    (hred : Reduced (p : Int) poly) (hcan : Canon poly) (hne : poly ≠ [])
    (h : degree poly (p : Int) = .ok ds) :
    (∃ c : Int, 0 < c ∧ c < p ∧ PCong (p : Int) (C c * partProduct ds) (toPoly poly)) ∧
    ∀ x ∈ ds, Reduced (p : Int) x.1 ∧ Canon x.1 ∧ x.1 ≠ [] := by
  have : Fact p.Prime := ⟨hp⟩
  obtain ⟨h1, h2⟩ := NTV.PolyMod.degree_product p poly ds ⟨⟨hred, hcan⟩, hne⟩ h
  refine ⟨pcong_of_associated p _ _ ?_, fun x hx => ⟨(h2 x hx).1.1, (h2 x hx).1.2, (h2 x hx).2⟩⟩
  rw [map_partProduct]; exact h1

example : degree [2, 0, 0, 0, 1] 3 = .ok [([2, 0, 1], 1), ([1, 0, 1], 2)] := by decide +kernel

/-- Stage 3, `final_split(poly, p, d)` (Cantor–Zassenhaus for odd p with the random polynomials read
from the draw stream; the trace-like map for p = 2): for every stream the returned pieces multiply to
the input piece up to a unit (every split replaces u by (g, u/g) with g ∣ u) -/
theorem finalSplit_product (p : Nat) (hp : p.Prime) (poly : List Int) (d : Nat) (s s' : NTV.Draw.Stream)
    (res : List (List Int)) (hred : Reduced (p : Int) poly) (hcan : Canon poly) (hne : poly ≠ [])
    (h : finalSplit poly (p : Int) d s = .ok (res, s')) :
    (∃ c : Int, 0 < c ∧ c < p ∧ PCong (p : Int) (C c * listProduct res) (toPoly poly)) ∧
    (∀ x ∈ res, Reduced (p : Int) x ∧ Canon x ∧ x ≠ []) ∧ d ≠ 0 := by
  have : Fact p.Prime := ⟨hp⟩
  obtain ⟨h1, h2, h3⟩ := NTV.PolyMod.finalSplit_product p poly d s res s' ⟨⟨hred, hcan⟩, hne⟩ h
  refine ⟨pcong_of_associated p _ _ ?_, fun x hx => ⟨(h2 x hx).1.1, (h2 x hx).1.2, (h2 x hx).2⟩, h3⟩
  rw [map_listProduct]; exact h1

example : finalSplit [2, 0, 1] 3 1 [[0,0,0,0],[0,0,0,64]] = .ok ([[2, 1], [1, 1]], []) := by decide +kernel
example : finalSplit [1, 1, 1, 1, 1, 1, 1] 2 3 [] = .ok ([[1, 1, 0, 1], [1, 0, 1, 1]], []) := by decide +kernel

/-- **C08, product identity.** For every prime p, every f ∈ ℤ[x], every draw stream s: if
`factorize_mod_p(f, p, pusize)` returns the pairs (gᵢ, eᵢ) then lc(f mod p) · ∏ gᵢ^eᵢ ≡ f (mod p),
i.e. ∏ gᵢ^eᵢ ≡ f / lc(f mod p). The machine-word copy `pusize` must be p when p fits a word
(p < 2⁶⁴); for larger p it is arbitrary (the length of a coefficient vector is below 2⁶⁴). -/
theorem product_identity (p : Nat) (hp : p.Prime) (f : List Int) (pusize : Nat) (s : NTV.Draw.Stream)
    (fs : Factors) (hpu : p < 2 ^ 64 → pusize = p) (hlen : 2 ^ 64 ≤ p → f.length < 2 ^ 64)
    (h : factorizeModP f (p : Int) pusize s = .ok fs) :
    PCong (p : Int) (C (lc (polyMod f p)) * factorProduct fs) (toPoly f) := by
  have : Fact p.Prime := ⟨hp⟩
  have hpu' : pusize = p ∨ f.length ≤ p := by
    rcases Nat.lt_or_ge p (2 ^ 64) with h1 | h1
    · exact Or.inl (hpu h1)
    · exact Or.inr (by have := hlen h1; omega)
  obtain ⟨h1, _, h3⟩ := factorizeModP_spec p f pusize s fs hpu' h
  rw [pcong_iff_map, Polynomial.map_mul, map_factorProduct, map_C]
  have hl := (natDegree_mp p (polyMod f p) (good_polyMod p hp.pos f) h3).2.1
  rw [mp_polyMod] at hl
  rw [eq_intCast, ← hl]
  exact h1.symm

/-- **C08, shape of the factors.** Every returned gᵢ is monic (`lc = 1`), canonical, with coefficients
in [0, p), of degree ≥ 1 (`length ≥ 2`), and every eᵢ ≥ 1 -/
theorem factor_shape (p : Nat) (hp : p.Prime) (f : List Int) (pusize : Nat) (s : NTV.Draw.Stream)
    (fs : Factors) (hpu : p < 2 ^ 64 → pusize = p) (hlen : 2 ^ 64 ≤ p → f.length < 2 ^ 64)
    (h : factorizeModP f (p : Int) pusize s = .ok fs) :
    ∀ x ∈ fs, lc x.1 = 1 ∧ Reduced (p : Int) x.1 ∧ Canon x.1 ∧ 2 ≤ x.1.length ∧ 1 ≤ x.2 := by
  have : Fact p.Prime := ⟨hp⟩
  have hpu' : pusize = p ∨ f.length ≤ p := by
    rcases Nat.lt_or_ge p (2 ^ 64) with h1 | h1
    · exact Or.inl (hpu h1)
    · exact Or.inr (by have := hlen h1; omega)
  obtain ⟨_, h2, _⟩ := factorizeModP_spec p f pusize s fs hpu' h
  intro x hx
  obtain ⟨a, b, c, d⟩ := h2 x hx
  exact ⟨b, a.1, a.2, c, d⟩

/-- **C08, constant input.** When f mod p is a non-zero constant the result is the empty list (for
every modulus p > 0, every `pusize`, every stream) -/
theorem constant_input (p : Nat) (hp : 0 < p) (f : List Int) (pusize : Nat) (s : NTV.Draw.Stream)
    (hc : (polyMod f p).length = 1) : factorizeModP f (p : Int) pusize s = .ok [] := by
  have hg := good_polyMod p hp f
  have hne : (polyMod f p).isEmpty = false := by
    cases hq : polyMod f p <;> simp_all
  have hd : degU (polyMod f p) = 0 := by simp [degU, hne, hc]
  simp only [factorizeModP, squarefree, hne, Bool.false_eq_true, ↓reduceIte, polyMod_of_good p _ hg]
  simp [sqOuter, hd, factorAll, bind, Except.bind, pure, Except.pure]

/-- **C08, the machine-word copy of p.** For p ≥ 2⁶⁴ (p does not fit a word) the result — factor
list, panic or inconclusive run alike — does not depend on `pusize`: any value, including 0, gives
the same result. `f.length < 2⁶⁴` holds for every coefficient vector (a `Vec` has fewer than 2⁶⁴
entries); without it the statement is false for the model (f = x^p). -/
theorem pusize_irrelevant (p : Nat) (hp : p.Prime) (hbig : 2 ^ 64 ≤ p) (f : List Int)
    (hlen : f.length < 2 ^ 64) (u u' : Nat) (s : NTV.Draw.Stream) :
    factorizeModP f (p : Int) u s = factorizeModP f (p : Int) u' s := by
  have : Fact p.Prime := ⟨hp⟩
  exact factorizeModP_pusize_irrelevant p f u u' s (by omega)

/-- more generally `pusize` is not read as soon as deg f < p -/
theorem pusize_irrelevant_small_degree (p : Nat) (hp : p.Prime) (f : List Int) (hlen : f.length ≤ p)
    (u u' : Nat) (s : NTV.Draw.Stream) :
    factorizeModP f (p : Int) u s = factorizeModP f (p : Int) u' s := by
  have : Fact p.Prime := ⟨hp⟩
  exact factorizeModP_pusize_irrelevant p f u u' s hlen

/-! Non-vacuity: the Rust unit tests x⁴ + x² mod 3 and x³ + 1 mod 2 (no draw is needed), x² − 1 mod 3
and x⁴ − 1 mod 5 with explicit draw streams, a constant input, and `pusize = 0` with deg f < p. -/
example : factorizeModP [0, 0, 1, 0, 1] 3 3 [] = .ok [([1, 0, 1], 1), ([0, 1], 2)] := by decide +kernel
example : factorizeModP [1, 0, 0, 1] 2 2 [] = .ok [([1, 1], 1), ([1, 1, 1], 1)] := by decide +kernel
example : factorizeModP [2, 0, 1] 3 3 [[0,0,0,0],[0,0,0,64]] = .ok [([2, 1], 1), ([1, 1], 1)] := by decide +kernel
example : factorizeModP [5, 0, 3] 3 3 [] = .ok [] := constant_input 3 (by decide) _ _ _ (by decide +kernel)
example : factorizeModP [2, 0, 1] 3 0 [[0,0,0,0],[0,0,0,64]] = .ok [([2, 1], 1), ([1, 1], 1)] := by
  exact (pusize_irrelevant_small_degree 3 (by norm_num) [2, 0, 1] (by decide) 0 3 _).trans (by decide +kernel)
example : PCong (3 : Int) (C 1 * factorProduct [([1, 0, 1], 1), ([0, 1], 2)]) (toPoly [0, 0, 1, 0, 1]) := by
  have := product_identity 3 (by norm_num) [0, 0, 1, 0, 1] 3 [] _ (fun _ => rfl) (fun h => by omega)
    (by decide +kernel : factorizeModP [0, 0, 1, 0, 1] ((3 : Nat) : Int) 3 [] = .ok [([1, 0, 1], 1), ([0, 1], 2)])
  exact this


/-! ## Irreducibility and distinctness -/

/-- Stage 2 is sound and complete (`distinct_degree_sound`): for every prime p and every non-zero
squarefree `poly` reduced modulo p, every irreducible factor of the part that `degree` returns under
the label d has degree exactly d, and every irreducible factor q of `poly` divides a returned part
labelled deg q. Hence a divisor of degree d of the part labelled d is irreducible. -/
theorem distinct_degree_sound (p : Nat) (hp : p.Prime) (poly : List Int) (ds : Factors)
    (hred : Reduced (p : Int) poly) (hcan : Canon poly) (hne : poly ≠ [])
    (hsq : Squarefree ((toPoly poly).map (Int.castRingHom (ZMod p))))
    (h : degree poly (p : Int) = .ok ds) :
    (∀ x ∈ ds, ∀ q : (ZMod p)[X], Irreducible q → q ∣ (toPoly x.1).map (Int.castRingHom (ZMod p)) →
      q.natDegree = x.2) ∧
    (∀ q : (ZMod p)[X], Irreducible q → q ∣ (toPoly poly).map (Int.castRingHom (ZMod p)) →
      ∃ x ∈ ds, q ∣ (toPoly x.1).map (Int.castRingHom (ZMod p)) ∧ x.2 = q.natDegree) := by
  have : Fact p.Prime := ⟨hp⟩
  have hnz : GoodNZ p poly := ⟨⟨hred, hcan⟩, hne⟩
  have hsqf : SqF p (mp p poly) := by
    intro q hq hd
    rw [pow_two] at hd
    exact hq.not_isUnit (hsq q hd)
  have hs := degree_sound p poly ds hnz hsqf h
  obtain ⟨h1, _⟩ := NTV.PolyMod.degree_product p poly ds hnz h
  refine ⟨fun x hx => hs x hx, fun q hq hqd => ?_⟩
  have hqp : q ∣ pprod p ds := hqd.trans h1.symm.dvd
  obtain ⟨y, hy, hqy⟩ := (hq.prime.dvd_prod_iff).mp hqp
  obtain ⟨x, hx, rfl⟩ := List.mem_map.mp hy
  exact ⟨x, hx, hqy, (hs x hx q hq hqy).symm⟩

example : degree [1, 1, 0, 0, 1, 1] 3 = .ok [([2, 2], 1), ([2, 0, 0, 0, 2], 2)] := by decide +kernel

/-- **C08, irreducibility.** Every returned gᵢ is irreducible over F_p (its image in `(ZMod p)[X]` is
irreducible), for every prime p, every input and every draw stream -/
theorem factors_irreducible (p : Nat) (hp : p.Prime) (f : List Int) (pusize : Nat) (s : NTV.Draw.Stream)
    (fs : Factors) (hpu : p < 2 ^ 64 → pusize = p) (hlen : 2 ^ 64 ≤ p → f.length < 2 ^ 64)
    (h : factorizeModP f (p : Int) pusize s = .ok fs) :
    ∀ x ∈ fs, Irreducible ((toPoly x.1).map (Int.castRingHom (ZMod p))) := by
  have : Fact p.Prime := ⟨hp⟩
  have hpu' : pusize = p ∨ f.length ≤ p := by
    rcases Nat.lt_or_ge p (2 ^ 64) with h1 | h1
    · exact Or.inl (hpu h1)
    · exact Or.inr (by have := hlen h1; omega)
  exact (factorizeModP_irreducible_nodup p f pusize s fs hpu' h).1

/-- **C08, distinctness.** The returned gᵢ are pairwise distinct -/
theorem factors_distinct (p : Nat) (hp : p.Prime) (f : List Int) (pusize : Nat) (s : NTV.Draw.Stream)
    (fs : Factors) (hpu : p < 2 ^ 64 → pusize = p) (hlen : 2 ^ 64 ≤ p → f.length < 2 ^ 64)
    (h : factorizeModP f (p : Int) pusize s = .ok fs) : (fs.map Prod.fst).Nodup := by
  have : Fact p.Prime := ⟨hp⟩
  have hpu' : pusize = p ∨ f.length ≤ p := by
    rcases Nat.lt_or_ge p (2 ^ 64) with h1 | h1
    · exact Or.inl (hpu h1)
    · exact Or.inr (by have := hlen h1; omega)
  exact (factorizeModP_irreducible_nodup p f pusize s fs hpu' h).2

/-- **C08.** For every prime p, every f ∈ ℤ[x] and every sequence of random draws: if the mod-p
factorisation returns the pairs (gᵢ, eᵢ) (it does not when f mod p = 0: the Rust code panics, the run
is `.error`), then every gᵢ is monic with coefficients in [0, p), canonical, of degree ≥ 1 and
irreducible over F_p, the gᵢ are pairwise distinct, every eᵢ ≥ 1, and lc(f mod p) · ∏ gᵢ^eᵢ ≡ f
(mod p). `pusize` is p when p < 2⁶⁴ and arbitrary otherwise. -/
theorem factorization_correct (p : Nat) (hp : p.Prime) (f : List Int) (pusize : Nat) (s : NTV.Draw.Stream)
    (fs : Factors) (hpu : p < 2 ^ 64 → pusize = p) (hlen : 2 ^ 64 ≤ p → f.length < 2 ^ 64)
    (h : factorizeModP f (p : Int) pusize s = .ok fs) :
    (∀ x ∈ fs, lc x.1 = 1 ∧ Reduced (p : Int) x.1 ∧ Canon x.1 ∧ 2 ≤ x.1.length ∧ 1 ≤ x.2 ∧
      Irreducible ((toPoly x.1).map (Int.castRingHom (ZMod p)))) ∧
    (fs.map Prod.fst).Nodup ∧
    PCong (p : Int) (C (lc (polyMod f p)) * factorProduct fs) (toPoly f) := by
  refine ⟨fun x hx => ?_, factors_distinct p hp f pusize s fs hpu hlen h,
    product_identity p hp f pusize s fs hpu hlen h⟩
  obtain ⟨a, b, c, d, e⟩ := factor_shape p hp f pusize s fs hpu hlen h x hx
  exact ⟨a, b, c, d, e, factors_irreducible p hp f pusize s fs hpu hlen h x hx⟩

/-- x² + 1 and x are irreducible modulo 3, by the theorem, from the run on x⁴ + x² -/
example : Irreducible ((toPoly ([1, 0, 1] : List Int)).map (Int.castRingHom (ZMod 3))) :=
  factors_irreducible 3 (by norm_num) [0, 0, 1, 0, 1] 3 [] _ (fun _ => rfl) (fun h => by omega)
    (by decide +kernel : factorizeModP [0, 0, 1, 0, 1] ((3 : Nat) : Int) 3 [] = .ok [([1, 0, 1], 1), ([0, 1], 2)])
    ([1, 0, 1], 1) (by simp)

end NTV.C08

/-! ## Panic-freedom: on legal input the only failures are inconclusive runs

Legal input: p prime, f ≢ 0 (mod p) (for f ≡ 0 the Rust code panics: `squarefree` is called on the zero
polynomial), `pusize` = p when p fits a machine word, and the coefficient vector has fewer than 2⁶⁴ entries
(true of every `Vec`; without it the exponent arithmetic `e * k` on `usize` does overflow: f = x^(2⁶⁴),
p = 2). -/
namespace NTV.C08
open NTV.PolyMod Polynomial NTV.PolyG NTV.Hensel

/-- Stage 1 is total: `squarefree` returns a list for every prime p and every non-zero reduced input of
length < 2⁶⁴ (`pusize = p`, or arbitrary when deg < p) — no `usize` overflow in `e * k` / `e * pusize`, no
division by `pusize = 0`, and neither the fuel of the two loops nor that of `poly_gcd` is exhausted -/
theorem squarefree_total (p : Nat) (hp : p.Prime) (poly : List Int) (pusize : Nat)
    (hred : Reduced (p : Int) poly) (hcan : Canon poly) (hne : poly ≠ [])
    (hpu : pusize = p ∨ poly.length ≤ p) (hlen : poly.length < 2 ^ 64) :
    ∃ fs, squarefree poly (p : Int) pusize = .ok fs := by
  have : Fact p.Prime := ⟨hp⟩
  exact NTV.PolyMod.squarefree_total p poly pusize ⟨⟨hred, hcan⟩, hne⟩ hpu (by omega)

/-- Stage 2 is total: `degree` returns a list for every prime p and every non-zero reduced input -/
theorem degree_total (p : Nat) (hp : p.Prime) (poly : List Int)
    (hred : Reduced (p : Int) poly) (hcan : Canon poly) (hne : poly ≠ []) :
    ∃ ds, degree poly (p : Int) = .ok ds := by
  have : Fact p.Prime := ⟨hp⟩
  exact NTV.PolyMod.degree_total p poly ⟨⟨hred, hcan⟩, hne⟩

/-- Stage 3 for p = 2 is total: on a non-constant reduced `poly` whose image in 𝔽₂[x] is squarefree with all
irreducible factors of degree d (what stages 1 and 2 deliver), `final_split(poly, 2, d)` returns — nothing is
drawn, and the fuel |poly|² + 8 that the model gives to `final_split_2` is never exhausted: the trace map
u ↦ Σ_{i<d} u^(2^i) splits such a product at some odd power x^m, m < deg poly (so the Rust loop terminates) —
and every piece has degree d (`degU` = `deg()`) -/
theorem final_split_two_total (poly : List Int) (d : Nat) (s : NTV.Draw.Stream)
    (hred : Reduced ((2 : Nat) : Int) poly) (hcan : Canon poly) (hlen : 2 ≤ poly.length)
    (hsq : Squarefree ((toPoly poly).map (Int.castRingHom (ZMod 2))))
    (hfac : ∀ q : (ZMod 2)[X], Irreducible q → q ∣ (toPoly poly).map (Int.castRingHom (ZMod 2)) →
      q.natDegree = d) :
    ∃ res, finalSplit poly 2 d s = .ok (res, s) ∧ ∀ x ∈ res, degU x = d := by
  have hne : poly ≠ [] := by rintro rfl; simp at hlen
  have hnz : GoodNZ 2 poly := ⟨⟨hred, hcan⟩, hne⟩
  have hl := nd_length 2 hnz
  have heq : EqDeg 2 d poly := ⟨hnz, by omega, hfac⟩
  have hsqf : SqF 2 (mp 2 poly) := by
    intro q hq hd
    rw [pow_two] at hd
    exact hq.not_isUnit (hsq q hd)
  exact finalSplit_two_total poly d s heq hsqf

/-- **C08 panic-freedom.** For every prime p, every f ≢ 0 mod p with fewer than 2⁶⁴ coefficients, `pusize`
= p when p < 2⁶⁴, and EVERY draw stream: a run of `factorize_mod_p` that does not return a factor list
fails with `inconclusive stream` (the supplied random chunks ran out — not a behaviour of the code). No Rust
panic is possible: no `usize` overflow, no division by zero, `unreachable!()` is unreachable, the degree
`assert_eq!` of the normalisation loop holds (every piece returned by `final_split` has degree exactly d).
And `inconclusive fuel` is impossible: the fuel of `squarefree`, `degree`, `poly_gcd`, `final_split_odd` and
`final_split_2` is never exhausted (all these loops terminate). -/
theorem no_panic (p : Nat) (hp : p.Prime) (f : List Int) (pusize : Nat) (s : NTV.Draw.Stream) (e : String)
    (hf : (toPoly f).map (Int.castRingHom (ZMod p)) ≠ 0)
    (hpu : p < 2 ^ 64 → pusize = p) (hlen : f.length < 2 ^ 64)
    (h : factorizeModP f (p : Int) pusize s = .error e) : e = "inconclusive stream" := by
  have : Fact p.Prime := ⟨hp⟩
  have hpu' : pusize = p ∨ f.length ≤ p := by
    rcases Nat.lt_or_ge p (2 ^ 64) with h1 | h1
    · exact Or.inl (hpu h1)
    · exact Or.inr (by omega)
  exact factorizeModP_no_panic p f pusize s e hf hpu' (by omega) h

/-- "f mod p non-zero" in elementary terms: some coefficient is not divisible by p -/
theorem nonzero_mod_iff (p : ℕ) (f : List Int) :
    (toPoly f).map (Int.castRingHom (ZMod p)) ≠ 0 ↔ ∃ j, ¬ (p : Int) ∣ f.getD j 0 := by
  rw [Ne, Polynomial.ext_iff, not_forall]
  refine exists_congr fun j => ?_
  rw [coeff_map, coeff_toPoly, coeff_zero, eq_intCast, ZMod.intCast_zmod_eq_zero_iff_dvd]

/-! non-vacuity: the inconclusive case occurs (x² − 1 mod 3 needs draws), with exactly this message; the
hypothesis f ≢ 0 is needed (the zero polynomial panics); the theorem applied to a concrete input -/
example : factorizeModP [2, 0, 1] 3 3 [] = .error "inconclusive stream" := by decide +kernel
example : factorizeModP [3, 6] 3 3 [] = .error "panic other" := by decide +kernel
example : ∀ s e, factorizeModP [2, 0, 1] ((3 : Nat) : Int) 3 s = .error e → e = "inconclusive stream" :=
  fun s e h => no_panic 3 (by norm_num) [2, 0, 1] 3 s e
    ((nonzero_mod_iff 3 [2, 0, 1]).mpr ⟨0, by decide⟩) (fun _ => rfl) (by decide) h

end NTV.C08
