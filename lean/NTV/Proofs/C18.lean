import NTV.Proofs.Lemmas.LinAlgProofs
import NTV.Proofs.Lemmas.LinAlgIim
import NTV.Proofs.Lemmas.LinAlgSupp
import NTV.Proofs.Lemmas.LinAlgImgFinal
/-! # C18 — exact rational linear algebra: property theorems about the model `NTV.LinAlg`
`A` is any square rational (resp. integer) matrix given as a list of `n` rows of length `n`;
`toM n n A` is the corresponding Mathlib matrix. Helper lemmas are in
`NTV.Proofs.Lemmas.LinAlgProofs`. -/
namespace NTV.C18
open NTV.LinAlg Matrix
open NTV.RowOps (toM Rect)

/-- the determinant routine computes the (Leibniz) determinant of every square rational matrix -/
theorem determinant_is_det (A : QMat) (n : Nat) (hr : Rect n n A) :
    determinant A = .ok (toM n n A).det := determinant_eq A n hr

/-- the inverse routine returns `B` with `B * A = 1` exactly when `A` is non-singular, and
`MatrixNotInvertible` (never anything else) otherwise -/
theorem inv_exactly_when_nonsingular (A : QMat) (n : Nat) (hr : Rect n n A) :
    ((toM n n A).det ≠ 0 → ∃ B, inv A = .ok B ∧ toM n n B * toM n n A = 1) ∧
    ((toM n n A).det = 0 → inv A = .error errNotInvertible) := by
  constructor
  · intro hdet
    cases h : inv A with
    | ok B => exact ⟨B, rfl, inv_ok A B n hr h⟩
    | error e => exact absurd (inv_err A n hr e h).2 hdet
  · intro hdet
    cases h : inv A with
    | ok B =>
      have h1 := inv_ok A B n hr h
      have := congrArg Matrix.det h1
      rw [det_mul, hdet, mul_zero, det_one] at this
      exact absurd this zero_ne_one
    | error e => rw [(inv_err A n hr e h).1]

/-- the linear solver returns the row vector `x` with `x * A = b` exactly when `A` is non-singular,
and `MatrixNotInvertible` (never anything else) otherwise — also when the singular system happens to
be solvable -/
theorem solve_exactly_when_nonsingular (A : QMat) (b : QRow) (n : Nat) (hr : Rect n n A)
    (hb : b.length = n) :
    ((toM n n A).det ≠ 0 → ∃ x, solve A b = .ok x ∧
      (fun k : Fin n => x.getD k 0) ᵥ* toM n n A = fun c : Fin n => b.getD c 0) ∧
    ((toM n n A).det = 0 → solve A b = .error errNotInvertible) := by
  constructor
  · intro hdet
    cases h : solve A b with
    | ok x => exact ⟨x, rfl, solve_ok A b x n hr hb h⟩
    | error e => exact absurd (solve_err A b n hr hb e h).2 hdet
  · intro hdet
    cases h : solve A b with
    | ok x => exact absurd hdet (solve_ok_nonsingular A b x n hr hb h)
    | error e => rw [(solve_err A b n hr hb e h).1]

/-- the inverse-image routine on an `n × m` matrix `M` and an `r × m` matrix `V` (`n, r ≥ 1`, any
`m`, in particular `m > n`): it reports `LinearlyDependent` exactly when the rows of `M` are
dependent; when they are independent it returns `X` with `X * M = V` if every row of `V` lies in
their span, and `NotInImage` otherwise — so each of the two errors is reported correctly -/
theorem inverse_image (M V : QMat) (n m r : Nat) (hM : Rect n m M) (hV : Rect r m V) (hn : 0 < n) (hr : 0 < r) :
    let dependent := ∃ y : Fin n → ℚ, y ≠ 0 ∧ y ᵥ* toM n m M = 0
    let inSpan := ∀ i : Fin r, ∃ x : Fin n → ℚ, x ᵥ* toM n m M = toM r m V i
    (dependent → iim M V = .error errLinearlyDependent) ∧
    (¬ dependent → inSpan → ∃ X, iim M V = .ok X ∧ toM r n X * toM n m M = toM r m V) ∧
    (¬ dependent → ¬ inSpan → iim M V = .error errNotInImage) := iim_spec M V n m r hM hV hn hr

/-- basis supplementation on a `k × n` matrix (`k ≥ 1`): it returns an invertible `n × n` matrix
whose first `k` rows are the input exactly when the input rows are independent (rank `k`), and
`InsufficientRank` otherwise -/
theorem supplement (M : QMat) (k n : Nat) (hM : Rect k n M) (hk : 0 < k) :
    let independent := ∀ y : Fin k → ℚ, y ᵥ* toM k n M = 0 → y = 0
    (independent → ∃ B, supplementBasis M = .ok B ∧ k ≤ n ∧ Rect n n B ∧
      (∀ i c, i < k → ent B i c = ent M i c) ∧ (toM n n B).det ≠ 0) ∧
    (¬ independent → supplementBasis M = .error errInsufficientRank) := supp_spec M k n hM hk

/-- exact right division: `Ok(C)` only with `C * B = A`; `MatrixNotInvertible` only for singular
`B`; the integrality assertion fails only when no integer `C` with `C * B = A` exists — so for
non-singular `B` the quotient is returned whenever it exists -/
theorem right_division (A B : IMat) (n : Nat) (hn : 0 < n) (hA : Rect n n A) (hB : Rect n n B) :
    (∀ C, mulInvFromRightExact A B = .ok C → toMZ n C * toMZ n B = toMZ n A) ∧
    (∀ e, mulInvFromRightExact A B = .error e →
      (e = errNotInvertible ∧ (toMZ n B).det = 0) ∨
      (e = panicAssert ∧ ¬ ∃ C : Matrix (Fin n) (Fin n) ℤ, C * toMZ n B = toMZ n A)) :=
  mulInv_spec A B n hn hA hB

/-- non-vacuity: concrete square inputs, both outcomes of `inv` -/
example : Rect 2 2 ([[5, 2], [2, 1]] : QMat) := ⟨rfl, by simp⟩
example : inv [[5, 2], [2, 1]] = .ok [[1, -2], [-2, 5]] := by decide +kernel
example : inv [[1, 2], [2, 4]] = .error errNotInvertible := by decide +kernel
example : solve [[1, 2], [3, 4]] [5, 8] = .ok [2, 1] := by decide +kernel
example : iim [[1, 0, 5]] [[2, 0, 10]] = .ok [[2]] := by decide +kernel
example : iim [[1, 0, 1], [2, 0, 3]] [[3, 1, 4]] = .error errNotInImage := by decide +kernel
example : iim [[1, 0], [2, 0]] [[3, 1]] = .error errLinearlyDependent := by decide +kernel
example : supplementBasis [[1, 0, 1], [2, 0, 3]] = .ok [[1, 0, 1], [2, 0, 3], [0, 1, 0]] := by decide +kernel
example : supplementBasis [[1, 0, 1], [2, 0, 2]] = .error errInsufficientRank := by decide +kernel

/-- the image routine over `F_p` never fails on a rectangular `n × m` integer matrix (`n ≥ 1`, any
`m`, `p` prime) — in particular its internal count assertion never fires — and what it returns is a
list of rows of the input, taken at pairwise distinct row indices (whatever the entries are) -/
theorem image_mod_p_total (M : IMat) (n m p : Nat) (hp : p.Prime) (hM : Rect n m M) (hn : 0 < n) :
    ∃ idx : List Nat, (∀ i ∈ idx, i < n) ∧ idx.Nodup ∧
      imageModP M (p : Int) = .ok (idx.map (fun i => M.getD i [])) := by
  obtain ⟨idx, h1, h2, h3, _⟩ := imageModP_spec p hp M n m hM hn
  exact ⟨idx, h1, h2, h3⟩

/-- the image routine over `F_p` (`p` prime) on an `n × m` matrix (`n ≥ 1`, any `m`) whose entries
represent elements of `F_p` faithfully — the only entry divisible by `p` is `0`, as is the case for
entries in `0..p` or in `-p..p` — returns rows of the input (at pairwise distinct row indices
`idx`) that, read modulo `p`, are linearly independent and span every row of the input: a basis of
the row space of `M` over `F_p` consisting of rows of `M`.

The hypothesis on the entries cannot be dropped: the code tests the integer entries of the input
against `0`, not their residues (`imageModP [[5, 1], [0, 1]] 5 = [[5, 1], [0, 1]]`, see below). -/
theorem image_mod_p (M : IMat) (n m p : Nat) (hp : p.Prime) (hM : Rect n m M) (hn : 0 < n)
    (hred : ∀ row ∈ M, ∀ x ∈ row, (p : Int) ∣ x → x = 0) :
    ∃ idx : List Nat, (∀ i ∈ idx, i < n) ∧ idx.Nodup ∧
      imageModP M (p : Int) = .ok (idx.map (fun i => M.getD i [])) ∧
      let R := idx.map (fun i => M.getD i [])
      let Rp : Matrix (Fin idx.length) (Fin m) (ZMod p) := (toM idx.length m R).map (Int.cast : ℤ → ZMod p)
      let Mp : Matrix (Fin n) (Fin m) (ZMod p) := (toM n m M).map (Int.cast : ℤ → ZMod p)
      (∀ y : Fin idx.length → ZMod p, y ᵥ* Rp = 0 → y = 0) ∧
      (∀ i : Fin n, ∃ x : Fin idx.length → ZMod p, x ᵥ* Rp = Mp i) := by
  obtain ⟨idx, h1, h2, h3, h4⟩ := imageModP_spec p hp M n m hM hn
  exact ⟨idx, h1, h2, h3, h4 hred⟩

/-- the same for entries in `0..p` -/
theorem image_mod_p_reduced (M : IMat) (n m p : Nat) (hp : p.Prime) (hM : Rect n m M) (hn : 0 < n)
    (hred : ∀ row ∈ M, ∀ x ∈ row, 0 ≤ x ∧ x < (p : Int)) :
    ∃ idx : List Nat, (∀ i ∈ idx, i < n) ∧ idx.Nodup ∧
      imageModP M (p : Int) = .ok (idx.map (fun i => M.getD i [])) ∧
      let R := idx.map (fun i => M.getD i [])
      let Rp : Matrix (Fin idx.length) (Fin m) (ZMod p) := (toM idx.length m R).map (Int.cast : ℤ → ZMod p)
      let Mp : Matrix (Fin n) (Fin m) (ZMod p) := (toM n m M).map (Int.cast : ℤ → ZMod p)
      (∀ y : Fin idx.length → ZMod p, y ᵥ* Rp = 0 → y = 0) ∧
      (∀ i : Fin n, ∃ x : Fin idx.length → ZMod p, x ᵥ* Rp = Mp i) := by
  apply image_mod_p M n m p hp hM hn
  intro row hrow x hx hd
  obtain ⟨h0, h1⟩ := hred row hrow x hx
  exact Int.eq_zero_of_dvd_of_nonneg_of_lt h0 h1 hd

/-- non-vacuity for `image_mod_p`: a rank-2 matrix over `F_5`, and the two inputs with an entry
`5` on which the conclusion fails (a zero row, resp. two equal rows modulo 5, are returned) -/
example : Rect 3 3 ([[1, 3, 2], [2, 1, 3], [0, 0, 1]] : IMat) := ⟨rfl, by simp⟩
example : ∀ row ∈ ([[1, 3, 2], [2, 1, 3], [0, 0, 1]] : IMat), ∀ x ∈ row, 0 ≤ x ∧ x < ((5 : Nat) : Int) := by decide
example : imageModP [[1, 3, 2], [2, 1, 3], [0, 0, 1]] 5 = .ok [[1, 3, 2], [2, 1, 3]] := by decide +kernel
example : imageModP [[1, 3, 2], [0, 0, 0], [2, 1, 0], [0, 0, 0]] 5 = .ok [[1, 3, 2], [2, 1, 0]] := by decide +kernel
example : imageModP [[5]] 5 = .ok [[5]] := by decide +kernel
example : imageModP [[5, 1], [0, 1]] 5 = .ok [[5, 1], [0, 1]] := by decide +kernel

end NTV.C18
