import NTV.Proofs.Lemmas.LllOpsProofs
/-! # C20 — LLL / short vectors / roots of unity: what is proved.
Floating point is not modelled. The theorem below covers the two clauses of the property that do not
depend on `f64` decisions (H unimodular, B' = H·B); reducedness of the implementation's outputs, the
short-vector enumeration and the unit count are certified on every explored case by exact rational
checkers (`NTV.Spec.Lll`, `NTV.Spec.Enum`, `NTV.Spec.Muk`). -/
namespace NTV.C20
open NTV.LllOps Matrix
open NTV.Hnf (Rect toM)

/-- every sequence of the two operations `lll` performs on (basis, H) — `red!(k, l)` with ANY integer
multiplier and `swap!(k)`, indices in range — keeps H an integer matrix with unit determinant and the
basis equal to H·B₀: these two clauses hold whatever the floating-point part decides -/
theorem bookkeeping_full (B0 : IMat) (n m : Nat) (hr : Rect n m B0) (ops : List Op)
    (hv : ∀ op ∈ ops, OpValid n op) :
    Rect n m (applyOps (init B0) ops).B ∧ Rect n n (applyOps (init B0) ops).H ∧
    IsUnit (toM n n (applyOps (init B0) ops).H).det ∧
    toM n n (applyOps (init B0) ops).H * toM n m B0 = toM n m (applyOps (init B0) ops).B :=
  applyOps_inv B0 n m hr ops hv

/-- non-vacuity: a valid operation list on a 2×2 basis -/
example : ∀ op ∈ [Op.red 1 0 3, Op.swap 0], OpValid 2 op := by
  intro op h
  simp only [List.mem_cons, List.mem_nil_iff, or_false] at h
  rcases h with rfl | rfl <;> simp [OpValid]

end NTV.C20
