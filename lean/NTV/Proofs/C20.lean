import NTV.Proofs.Lemmas.LllOpsProofs
import NTV.Proofs.Lemmas.EnumCheckMain
import NTV.Proofs.Lemmas.LllCheck
/-! # C20 — LLL / short vectors / roots of unity: what is proved.
Floating point is not modelled. The theorem below covers the two clauses of the property that do not
depend on `f64` decisions (H unimodular, B' = H·B); reducedness of the implementation's outputs, the
short-vector enumeration and the unit count are certified on every explored case by exact rational
checkers (`NTV.Spec.Lll`, `NTV.Spec.Enum`, `NTV.Spec.Muk`). -/
namespace NTV.C20
open NTV.LllOps Matrix
open NTV.Hnf (Rect toM)

/-- every sequence of the two operations `lll` performs on (basis, H) — `red!(k, l)` with ANY integer
multiplier and `swap!(k)`, indices in range — keeps H an integer matrix with unit determinant and the
basis equal to H·B₀: these two clauses hold whatever the floating-point part decides -/
theorem bookkeeping_full (B0 : IMat) (n m : Nat) (hr : Rect n m B0) (ops : List Op)
    (hv : ∀ op ∈ ops, OpValid n op) :
    Rect n m (applyOps (init B0) ops).B ∧ Rect n n (applyOps (init B0) ops).H ∧
    IsUnit (toM n n (applyOps (init B0) ops).H).det ∧
    toM n n (applyOps (init B0) ops).H * toM n m B0 = toM n m (applyOps (init B0) ops).B :=
  applyOps_inv B0 n m hr ops hv

/-- non-vacuity: a valid operation list on a 2×2 basis -/
example : ∀ op ∈ [Op.red 1 0 3, Op.swap 0], OpValid 2 op := by
  intro op h
  simp only [List.mem_cons, List.mem_nil_iff, or_false] at h
  rcases h with rfl | rfl <;> simp [OpValid]

end NTV.C20

/-! # C20 — soundness of the exact checkers (grade "checker")

The floating-point routines are judged per explored case by the executable rational checkers of
`NTV.Spec.Enum`, `NTV.Spec.Lll` and `NTV.Spec.Mat`. The theorems below prove that these checkers decide
exactly the mathematical notions (Mathlib matrices via `NTV.RowOps.toM`, sums over `Fin n`), for every
input of every size. -/
namespace NTV.C20
open Matrix
open NTV.RowOps (toM Rect ent)
open NTV.Spec.Enum NTV.Spec.Mat
open NTV.EnumCheck (IsPosDefForm NonZero)

/-! ## K1 — short vectors: `quadVal`, `floorSqrt`, `inverse`, `isPosDef`, `box`, `shortVectors` -/

/-- `quadVal Q x = xᵀQx = Σ_i Σ_j x_i Q_ij x_j` for an `n × n` rational `Q` and `x ∈ ℤⁿ` -/
theorem quadVal_checker (Q : QMat) (x : List Int) (n : Nat) (hr : Rect n n Q) (hx : x.length = n) :
    quadVal Q x = ∑ i : Fin n, ∑ j : Fin n, ((x.getD i 0 : ℤ) : ℚ) * ent Q i j * ((x.getD j 0 : ℤ) : ℚ) := by
  rw [NTV.EnumCheck.quadVal_spec Q x n hr hx, NTV.EnumCheck.qf_eq_sum]; rfl

/-- `floorSqrt r = ⌊√r⌋` for rational `r ≥ 0`: `k² ≤ r < (k+1)²` -/
theorem floorSqrt_checker (r : ℚ) (hr : 0 ≤ r) :
    ((floorSqrt r : ℕ) : ℚ) ^ 2 ≤ r ∧ r < ((floorSqrt r : ℕ) + 1 : ℚ) ^ 2 :=
  NTV.EnumCheck.floorSqrt_spec r hr

/-- Gauss–Jordan `inverse`: a returned matrix is the two-sided inverse; `none` exactly for singular `Q` -/
theorem inverse_checker (Q : QMat) (n : Nat) (hr : Rect n n Q) :
    (∀ Qi, inverse Q = some Qi →
        Rect n n Qi ∧ toM n n Qi * toM n n Q = 1 ∧ toM n n Q * toM n n Qi = 1) ∧
    (inverse Q = none ↔ (toM n n Q).det = 0) := by
  refine ⟨fun Qi h => ⟨(NTV.EnumCheck.inverse_spec Q Qi n hr h).1, (NTV.EnumCheck.inverse_spec Q Qi n hr h).2,
    NTV.EnumCheck.inverse_spec_right Q Qi n hr h⟩, ?_⟩
  have h := NTV.EnumCheck.inverse_isSome_iff Q n hr
  constructor
  · exact NTV.EnumCheck.inverse_none Q n hr
  · intro hd
    cases hq : inverse Q with
    | none => rfl
    | some Qi => rw [hq] at h; exact absurd hd (h.mp rfl)

/-- **Sylvester's criterion is exact**: `isPosDef Q = true` iff `Q` is square (`n = Q.length` rows of
length `n`), symmetric, and `xᵀQx > 0` for every non-zero rational vector `x` (Sylvester's criterion over
ℚ is proved in `EnumCheckSylv.lean`; `qdet` is the Mathlib determinant by `MatCheck.qdet_spec`) -/
theorem isPosDef_checker (Q : QMat) :
    isPosDef Q = true ↔
      Rect Q.length Q.length Q ∧ (∀ i j : Fin Q.length, ent Q i j = ent Q j i) ∧
        ∀ x : Fin Q.length → ℚ, x ≠ 0 → 0 < ∑ i : Fin Q.length, ∑ j : Fin Q.length, x i * ent Q i j * x j :=
  NTV.EnumCheck.isPosDef_iff Q

/-- **box completeness** (Cauchy–Schwarz in the `Q` inner product): for a form accepted by `isPosDef`
the box exists for every `c`, its `i`-th bound is `⌊√(c·(Q⁻¹)_ii)⌋` for the true inverse, and every
integer vector with `xᵀQx ≤ c` has `|x_i| ≤ b_i` for all `i` -/
theorem box_complete (Q : QMat) (hpd : isPosDef Q = true) (c : ℚ) :
    ∃ b : List Nat, box Q c = some b ∧ b.length = Q.length ∧
      (∃ Qi : QMat, toM Q.length Q.length Qi * toM Q.length Q.length Q = 1 ∧
        ∀ i, i < Q.length → b.getD i 0 = floorSqrt (c * ent Qi i i)) ∧
      ∀ x : List Int, x.length = Q.length → quadVal Q x ≤ c →
        ∀ i, i < Q.length → (x.getD i 0).natAbs ≤ b.getD i 0 := by
  have hf := (NTV.EnumCheck.isPosDef_iff Q).mp hpd
  have hs := NTV.EnumCheck.box_isSome Q _ hf c
  obtain ⟨b, hb⟩ := Option.isSome_iff_exists.mp hs
  obtain ⟨Qi, _, h2, h3, h4⟩ := NTV.EnumCheck.box_spec Q _ hf.1 c b hb
  refine ⟨b, hb, h3, ⟨Qi, h2, h4⟩, ?_⟩
  intro x hx hq i hi
  have := NTV.EnumCheck.box_complete Q _ hf c b hb x hx hq
  exact ((NTV.EnumCheck.inBox_iff x b).mp this).2 i (h3 ▸ hi)

/-- **`shortVectors` lists exactly the short vectors, each once**: for `Q` accepted by `isPosDef` and
`box Q c = some b`,
(1) every non-zero `x ∈ ℤⁿ` with `xᵀQx ≤ c` appears as its sign representative `canon x` with its value;
(2) every listed pair `(v, val)` is a non-zero canonical vector of `ℤⁿ` with `val = vᵀQv ≤ c`;
(3) no vector is listed twice, and `v`, `−v` are never both listed (only one of them is canonical). -/
theorem shortVectors_checker (Q : QMat) (hpd : isPosDef Q = true) (c : ℚ) (b : List Nat)
    (hb : box Q c = some b) :
    (∀ x : List Int, x.length = Q.length → (∃ t ∈ x, t ≠ 0) → quadVal Q x ≤ c →
        (canon x = x ∨ canon x = x.map (fun t => -t)) ∧ (canon x, quadVal Q x) ∈ shortVectors Q c b) ∧
    (∀ p ∈ shortVectors Q c b, p.1.length = Q.length ∧ (∃ t ∈ p.1, t ≠ 0) ∧ canon p.1 = p.1 ∧
        p.2 = quadVal Q p.1 ∧ p.2 ≤ c) ∧
    ((shortVectors Q c b).map Prod.fst).Nodup ∧
    (∀ p ∈ shortVectors Q c b, ∀ q ∈ shortVectors Q c b, q.1 ≠ p.1.map (fun t => -t)) := by
  have hf := (NTV.EnumCheck.isPosDef_iff Q).mp hpd
  refine ⟨?_, ?_, NTV.EnumCheck.nodup_shortVectors Q c b, ?_⟩
  · intro x hx hnz hq
    exact ⟨NTV.EnumCheck.canon_cases x, NTV.EnumCheck.shortVectors_complete Q _ hf c b hb x hx hnz hq⟩
  · intro p hp
    obtain ⟨h1, h2, _, h4, h5, h6⟩ := NTV.EnumCheck.shortVectors_sound Q _ hf.1 c b hb p hp
    exact ⟨h1, h2, h4, h5, h6⟩
  · intro p hp q hq hcon
    have h1 := (NTV.EnumCheck.shortVectors_sound Q _ hf.1 c b hb p hp).2.2.1
    have h2 := (NTV.EnumCheck.shortVectors_sound Q _ hf.1 c b hb q hq).2.2.1
    have h3 := NTV.EnumCheck.isCanonical_negv p.1 h1
    unfold NTV.EnumCheck.negv at h3
    rw [← hcon, h2] at h3
    exact absurd h3 (by simp)

/-- non-vacuity: the form `2x² + 2xy + 3y²` is accepted, its box for `c = 3` is `[1, 1]`, and the short
vectors are `(0,1)` (value 3), `(1,-1)` (value 3), `(1,0)` (value 2) -/
example : isPosDef [[2, 1], [1, 3]] = true ∧ box [[2, 1], [1, 3]] 3 = some [1, 1] ∧
    shortVectors [[2, 1], [1, 3]] 3 [1, 1] = [([0, 1], 3), ([1, -1], 3), ([1, 0], 2)] := by
  decide +kernel
example : ∃ b, box [[2, 1], [1, 3]] 3 = some b ∧ b.length = 2 :=
  let ⟨b, h1, h2, _⟩ := box_complete [[2, 1], [1, 3]] (by decide +kernel) 3
  ⟨b, h1, h2⟩
/-- the indefinite form `x² + 4xy + y²` and a non-symmetric matrix are rejected -/
example : isPosDef [[1, 2], [2, 1]] = false ∧ isPosDef [[1, 0], [1, 1]] = false := by decide +kernel

/-! ## K2 — LLL-reducedness: `gso`, `isReduced` -/
open NTV.Spec.Lll in
/-- `gso B` computes the Gram–Schmidt data of the rows `b_i` of `B` (`n × m` integer matrix): with
`b*_i = b_i − Σ_{j<i} μ_ij b*_j`, `μ_ij = ⟨b_i, b*_j⟩ / ⟨b*_j, b*_j⟩` (`NTV.LllCheck.bstar`, `gsMu`; proved
pairwise orthogonal, with the same spans as the `b_i`: `bstar_orth`, `span_bstar`), the table `μ` has the
entries `μ_ij` (`j < i < n`) and `Bnorm_i = ‖b*_i‖²`. -/
theorem gso_checker (B : List (List Int)) (n m : Nat) (hr : Rect n m B) :
    (gso B).1.length = n ∧ (∀ i, i < n → ((gso B).1.getD i []).length = i) ∧ (gso B).2.length = n ∧
    (∀ i j, j < i → i < n → mu (gso B) i j = NTV.LllCheck.gsMu (NTV.LllCheck.rowQ m B) i j) ∧
    (∀ i, i < n → bn (gso B) i =
      NTV.LllCheck.bstar (NTV.LllCheck.rowQ m B) i ⬝ᵥ NTV.LllCheck.bstar (NTV.LllCheck.rowQ m B) i) ∧
    (∀ i j, i ≠ j →
      NTV.LllCheck.bstar (NTV.LllCheck.rowQ m B) i ⬝ᵥ NTV.LllCheck.bstar (NTV.LllCheck.rowQ m B) j = 0) ∧
    (∀ i, NTV.LllCheck.bstar (NTV.LllCheck.rowQ m B) i = NTV.LllCheck.rowQ m B i -
      ∑ j ∈ Finset.range i, NTV.LllCheck.gsMu (NTV.LllCheck.rowQ m B) i j •
        NTV.LllCheck.bstar (NTV.LllCheck.rowQ m B) j) := by
  obtain ⟨h1, h2, h3, h4, h5⟩ := NTV.LllCheck.gso_spec B hr
  exact ⟨h1, h2, h3, h4, h5, fun i j hij => NTV.LllCheck.bstar_orth _ i j hij, fun i => NTV.LllCheck.bstar_eq _ i⟩

open NTV.Spec.Lll in
/-- **`isReduced` decides LLL-reducedness**: for an `n × m` integer matrix `B` (rows = basis) and rational
`δ`, `η`: the checker accepts iff the rows are linearly independent over ℚ, `|μ_ij| ≤ η` for `j < i < n`,
and `‖b*_i‖² ≥ (δ − μ_{i,i−1}²) ‖b*_{i−1}‖²` for `1 ≤ i < n`. -/
theorem isReduced_checker (B : List (List Int)) (n m : Nat) (hr : Rect n m B) (δ η : ℚ) :
    isReduced B δ η = true ↔
      LinearIndependent ℚ ((toM n m B).map (Int.cast : ℤ → ℚ)).row ∧
      (∀ i j, j < i → i < n → |NTV.LllCheck.gsMu (NTV.LllCheck.rowQ m B) i j| ≤ η) ∧
      (∀ i, 1 ≤ i → i < n →
        NTV.LllCheck.bstar (NTV.LllCheck.rowQ m B) i ⬝ᵥ NTV.LllCheck.bstar (NTV.LllCheck.rowQ m B) i ≥
          (δ - NTV.LllCheck.gsMu (NTV.LllCheck.rowQ m B) i (i - 1) ^ 2) *
            (NTV.LllCheck.bstar (NTV.LllCheck.rowQ m B) (i - 1) ⬝ᵥ
              NTV.LllCheck.bstar (NTV.LllCheck.rowQ m B) (i - 1))) :=
  NTV.LllCheck.isReduced_iff_toM B hr δ η

/-- non-vacuity: the classical example basis is rejected, its LLL reduction accepted (δ = 3/4, η = 1/2) -/
example : NTV.Spec.Lll.isReduced [[1, 1, 1], [-1, 0, 2], [3, 5, 6]] (3/4) (1/2) = false ∧
    NTV.Spec.Lll.isReduced [[0, 1, 0], [1, 0, 1], [-1, 0, 2]] (3/4) (1/2) = true := by decide +kernel

/-! ## K3 — `Spec.Mat`: determinant and product -/

/-- `qdet` (rational elimination) is the determinant -/
theorem qdet_checker (a : QMat) (n : Nat) (hr : Rect n n a) : qdet a = (toM n n a).det :=
  NTV.MatCheck.qdet_spec a n hr
/-- `det` of an integer matrix is the determinant (used for `det H = ±1` in the C20 verdict) -/
theorem det_checker (a : IMat) (n : Nat) (hr : Rect n n a) : NTV.Spec.Mat.det a = (toM n n a).det :=
  NTV.MatCheck.det_spec a n hr
/-- `mul` is the matrix product (`0 < m`: the column count of the result is read off the first row of `b`) -/
theorem mul_checker (a b : IMat) (n m k : Nat) (ha : Rect n m a) (hb : Rect m k b) (hm : 0 < m) :
    Rect n k (NTV.Spec.Mat.mul a b) ∧ toM n k (NTV.Spec.Mat.mul a b) = toM n m a * toM m k b :=
  NTV.MatCheck.mul_spec a b n m k ha hb hm

example : NTV.Spec.Mat.det [[0, 2, 1], [1, 1, 0], [3, 0, 1]] = -5 ∧
    NTV.Spec.Mat.mul [[1, 2, 3], [4, 5, 6]] [[1, 0], [0, 1], [2, 2]] = [[7, 8], [16, 17]] := by decide +kernel

end NTV.C20
