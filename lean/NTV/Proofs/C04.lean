import NTV.Model.Resultant
import NTV.Proofs.Lemmas.ResRatProofs
import NTV.Proofs.Lemmas.SubresStep
import NTV.Proofs.Lemmas.SubresLoop
import NTV.Proofs.Lemmas.Subres2Loop
/-! # C04 — the resultant equals the Sylvester determinant.
`Polynomial.resultant` is Mathlib's determinant of the Sylvester matrix. -/
open Polynomial
namespace NTV.C04
open NTV.PolyG NTV.Res

/-- the rational-coefficient variant (`resultant_rational`, Euclid over ℚ) equals the determinant of
the Sylvester matrix, for all non-zero canonical a, b ∈ ℚ[x] — FULL -/
theorem resultantRational_is_sylvester (a b : List Rat) (ha : a ≠ []) (hb : b ≠ []) (hca : Canon a) (hcb : Canon b) :
    resultantRational a b = resultant (toPoly a) (toPoly b) := resultantRational_eq a b ha hb hca hcb

/-- … and is 0 when either argument is the zero polynomial -/
theorem resultantRational_zero (a : List Rat) : resultantRational [] a = 0 ∧ resultantRational a [] = 0 :=
  ⟨resultantRational_zero_left a, resultantRational_zero_right a⟩

/-- scaling law of the specification: Res(s·f, t·g) = s^deg g · t^deg f · Res(f, g) (s, t ≠ 0) -/
theorem scaling_law (f g : ℚ[X]) (s t : ℚ) (hs : s ≠ 0) (ht : t ≠ 0) :
    resultant (C s * f) (C t * g) = s ^ g.natDegree * t ^ f.natDegree * resultant f g := by
  have h1 : (C s * f).natDegree = f.natDegree := natDegree_C_mul hs
  have h2 : (C t * g).natDegree = g.natDegree := natDegree_C_mul ht
  have e : resultant (C s * f) (C t * g) =
      resultant (C s * f) (C t * g) f.natDegree g.natDegree := by rw [resultant, h1, h2]; rfl
  rw [e, resultant_C_mul_left, resultant_C_mul_right]
  ring

/-- the integer routine on the degenerate inputs: 0 if either argument is 0 … -/
theorem smart_zero (f g : List Int) :
    resultantSmartE [] g = some (.ok (0, true)) ∧
    (f ≠ [] → resultantSmartE f [] = some (.ok (0, true))) := by
  refine ⟨by simp [resultantSmartE], ?_⟩
  intro hf
  have : f.isEmpty = false := by cases f <;> simp_all
  simp [resultantSmartE, this, resLoop]

/-- … 1 for two constants (the un-repaired code underflowed `deg f − 1` here) … -/
theorem smart_const_const (c d : Int) : resultantSmartE [c] [d] = some (.ok (1, true)) := by
  simp [resultantSmartE, resLoop]

/-- … and c^deg for a constant against a non-constant, in either order -/
theorem smart_const_right (f : List Int) (d : Int) (hf : 2 ≤ f.length) :
    resultantSmartE f [d] = some (.ok (d ^ (f.length - 1), true)) := by
  have h0 : f.isEmpty = false := by cases f <;> simp_all
  have h1 : ¬ (f.length - 1 = 0) := by omega
  have hs : ¬ ((f.length - 1) % 2 = 1 ∧ 0 % 2 = 1) := by omega
  simp [resultantSmartE, h0, resLoop, h1, tdivX, Int.tmod_one]

theorem smart_const_left (g : List Int) (c : Int) (hg : 2 ≤ g.length) :
    resultantSmartE [c] g = some (.ok (c ^ (g.length - 1), true)) := by
  have h0 : g.isEmpty = false := by cases g <;> simp_all
  have h1 : ¬ (g.length - 1 = 0) := by omega
  have h2 : 0 < g.length - 1 := by omega
  have hfuel : [c].length + g.length + 3 = (g.length + 2) + 1 + 1 := by simp; omega
  rw [resultantSmartE]
  simp only [List.isEmpty_cons, Bool.false_eq_true, ↓reduceIte, hfuel]
  simp [resLoop, h0, h1, h2, tdivX, Int.tmod_one]

/-- the integer routine `resultant_smart` (subresultant PRS), partial: for all non-zero canonical
f, g ∈ ℤ[x], whenever every truncated division it performs is exact — the flag the model carries and the
check asserts on every explored case (exactness for all inputs is the fundamental theorem of
subresultants, not proved here) — the returned value IS the determinant of the Sylvester matrix. -/
theorem smart_is_sylvester_partial (f g : List Int) (hf : f ≠ []) (hg : g ≠ []) (hcf : Canon f) (hcg : Canon g)
    (v : Int) (h : resultantSmartE f g = some (.ok (v, true))) :
    v = resultant (toPoly f) (toPoly g) := resultantSmart_exact f g hf hg hcf hcg v h

/-- non-vacuity: the exactness flag is true on a concrete degree-gap input (the third unit test) -/
example : resultantSmartE [2, 0, 1, 0, 1] [1, 0, 1] = some (.ok (4, true)) := by decide +kernel

/-- the exactness flag of `resultant_smart` is always set on canonical input: every truncated division
of the subresultant recurrence is exact (the fundamental theorem of subresultant pseudo-remainder
sequences, proved in `Proofs/Lemmas/Subres0Det … Subres2Loop`) — FULL -/
theorem smart_flag (f g : List Int) (hcf : Canon f) (hcg : Canon g) (v : Int) (ok : Bool)
    (h : resultantSmartE f g = some (.ok (v, ok))) : ok = true :=
  resultantSmart_flag f g hcf hcg v ok h

/-- C04 for the integer routine `resultant_smart` (subresultant PRS) — FULL: for all non-zero
canonical f, g ∈ ℤ[x] the model neither panics nor runs out of fuel, all its divisions are exact, and the
returned value IS the determinant of the Sylvester matrix. -/
theorem smart_is_sylvester (f g : List Int) (hf : f ≠ []) (hg : g ≠ []) (hcf : Canon f) (hcg : Canon g) :
    resultantSmartE f g = some (.ok (resultant (toPoly f) (toPoly g), true)) := by
  obtain ⟨v, hv⟩ := resultantSmart_total f g hcf hcg
  rw [hv, resultantSmart_exact f g hf hg hcf hcg v hv]

/-- the same for the total wrapper `resultantSmart` -/
theorem smart_value_is_sylvester (f g : List Int) (hf : f ≠ []) (hg : g ≠ []) (hcf : Canon f) (hcg : Canon g) :
    resultantSmart f g = (resultant (toPoly f) (toPoly g), true) := by
  simp [resultantSmart, smart_is_sylvester f g hf hg hcf hcg]

/-- non-vacuity / instance: Knuth's example (a defective sequence is the third unit test above) -/
example : resultantSmartE [-5, 2, 8, -3, -3, 0, 1, 0, 1] [21, -9, -4, 0, 5, 0, 3] = some (.ok (260708, true)) := by
  decide +kernel

end NTV.C04
