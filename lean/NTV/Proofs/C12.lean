import NTV.Proofs.Lemmas.PolyModBasics
import NTV.Proofs.Lemmas.PolyDivremMod
import NTV.Proofs.Lemmas.PolyGcdMod
import NTV.Proofs.Lemmas.PolyModLinearMain
import NTV.Proofs.Lemmas.NoPanicLinear
/-! # C12 — roots modulo p with multiplicity.
First the building blocks (shift range, root test, inverse, division, gcd, input reduction); then, in the
second part of the file, the full statement for every prime, every input and every history of draws:
`roots_in_range`, `roots_sound`, `roots_complete` (the returned multiset equals the roots with
multiplicity), with the corollaries `no_root_empty`, `splits_length`, `history_independent`. -/
namespace NTV.C12
open NTV.PolyMod

/-- every random shift the routine draws lies in [0, p), whatever the generator serves -/
theorem shift_in_range (p : Int) (s : NTV.Draw.Stream) (a : Int) (rest : NTV.Draw.Stream)
    (h : NTV.Draw.range 0 p s = some (a, rest)) : 0 ≤ a ∧ a < p := draw_shift_range p s a rest h

/-- the root test used before every deflation, `poly_of_mod(f, a, p) == 0`, decides f(a) ≡ 0 (mod p) -/
theorem root_test_sound (f : List Int) (a p : Int) :
    polyOfMod f a p ≡ NTV.PolyG.eval f a [ZMOD p] := polyOfMod_modEq f a p

/-- the modular inverse used for the degree-1 base case (−c₀·c₁⁻¹) is an inverse for prime p -/
theorem linear_case_inverse (p : Nat) (hp : p.Prime) (x : Int) (hx : IsCoprime x (p : Int)) :
    x * modinv x (p : Int) ≡ 1 [ZMOD (p : Int)] := modinv_spec p hp x hx

/-- the division primitive every stage is built on, `poly_divrem(a, b, p)`, satisfies its contract for
every prime p not dividing lc(b): a ≡ q·b + r (mod p), deg r < deg b, results canonical -/
theorem division_contract (a b : List Int) (p : Nat) (hp : p.Prime) (ha : a ≠ []) (hb : b ≠ [])
    (hab : b.length ≤ a.length) (hlc : IsCoprime (NTV.PolyG.lc b) (p : Int)) :
    NTV.Hensel.PCong p (NTV.PolyG.toPoly a)
      (NTV.PolyG.toPoly (NTV.PolyMod.polyDivrem a b p).1 * NTV.PolyG.toPoly b +
        NTV.PolyG.toPoly (NTV.PolyMod.polyDivrem a b p).2) ∧
    (NTV.PolyMod.polyDivrem a b p).2.length < b.length ∧
    NTV.PolyG.Canon (NTV.PolyMod.polyDivrem a b p).1 ∧ NTV.PolyG.Canon (NTV.PolyMod.polyDivrem a b p).2 :=
  NTV.PolyMod.polyDivrem_contract_prime a b p hp ha hb hab hlc

/-- every gcd the routine takes, `poly_gcd(a, b, p)` on reduced canonical arguments, returns a
polynomial that divides both arguments modulo the prime p (and is reduced and canonical): so every
polynomial split off by a gcd is a divisor of the current cofactor -/
theorem gcd_divides_both (p : Nat) (hp : p.Prime) (a b g : List Int)
    (hra : NTV.PolyMod.Reduced (p : Int) a) (hrb : NTV.PolyMod.Reduced (p : Int) b)
    (hca : NTV.PolyG.Canon a) (hcb : NTV.PolyG.Canon b) (h : NTV.PolyMod.polyGcd a b (p : Int) = .ok g) :
    NTV.PolyMod.DvdP p (NTV.PolyG.toPoly g) (NTV.PolyG.toPoly a) ∧
    NTV.PolyMod.DvdP p (NTV.PolyG.toPoly g) (NTV.PolyG.toPoly b) ∧
    NTV.PolyMod.Reduced (p : Int) g ∧ NTV.PolyG.Canon g :=
  NTV.PolyMod.polyGcd_dvd p hp a b g hra hrb hca hcb h

/-- the reduction applied to the input first: `poly_mod(f, p)` has coefficients in [0, p), is canonical
and congruent to f -/
theorem input_reduction (f : List Int) (p : Int) (hp : 0 < p) :
    NTV.PolyMod.Reduced p (NTV.PolyMod.polyMod f p) ∧ NTV.PolyG.Canon (NTV.PolyMod.polyMod f p) ∧
    NTV.Hensel.PCong p (NTV.PolyG.toPoly (NTV.PolyMod.polyMod f p)) (NTV.PolyG.toPoly f) :=
  NTV.PolyMod.polyMod_reduced f p hp

end NTV.C12

/-! ## The full property: the returned list is the multiset of roots, for every history of draws

`f mod p` is `(toPoly f).map (Int.castRingHom (ZMod p)) : (ZMod p)[X]`; "f mod p non-zero" is the
hypothesis `hf`. The random shifts are the explicit stream `s`: the theorems quantify over all of them
(a stream that is too short makes the model return `.error "inconclusive stream"`, never a wrong list). -/
namespace NTV.C12
open NTV.PolyMod NTV.PolyG Polynomial

/-- "f mod p non-zero" in elementary terms: some coefficient is not divisible by p -/
theorem nonzero_mod_iff (p : ℕ) (f : List Int) :
    (toPoly f).map (Int.castRingHom (ZMod p)) ≠ 0 ↔ ∃ j, ¬ (p : Int) ∣ f.getD j 0 := by
  rw [Ne, Polynomial.ext_iff, not_forall]
  refine exists_congr fun j => ?_
  rw [coeff_map, coeff_toPoly, coeff_zero, eq_intCast, ZMod.intCast_zmod_eq_zero_iff_dvd]

/-- **C12 (1) range**: every returned value lies in [0, p) — all primes p, all f ≢ 0 mod p, all draw
histories -/
theorem roots_in_range (p : ℕ) [Fact p.Prime] (f : List Int) (s : NTV.Draw.Stream) (res : List Int)
    (hf : (toPoly f).map (Int.castRingHom (ZMod p)) ≠ 0)
    (h : findLinearFactors f p s = .ok res) : ∀ r ∈ res, 0 ≤ r ∧ r < (p : Int) :=
  (findLinearFactors_spec p f s res hf h).1

/-- **C12 (3) completeness with multiplicity** (implies (2)): the multiset of roots of f in F_p (Mathlib's
`Polynomial.roots`, counted with multiplicity) equals the multiset of the returned list — all primes p,
all f ≢ 0 mod p, all draw histories -/
theorem roots_complete (p : ℕ) [Fact p.Prime] (f : List Int) (s : NTV.Draw.Stream) (res : List Int)
    (hf : (toPoly f).map (Int.castRingHom (ZMod p)) ≠ 0)
    (h : findLinearFactors f p s = .ok res) :
    ((toPoly f).map (Int.castRingHom (ZMod p))).roots = Multiset.map (Int.cast : Int → ZMod p) (res : Multiset Int) :=
  (findLinearFactors_spec p f s res hf h).2

/-- **C12 (2) soundness with multiplicity**: every returned value is a root of f modulo p, and the
product of the (X − r) over the returned list (with repetitions) divides f modulo p, so no value is
returned more often than its multiplicity -/
theorem roots_sound (p : ℕ) [Fact p.Prime] (f : List Int) (s : NTV.Draw.Stream) (res : List Int)
    (hf : (toPoly f).map (Int.castRingHom (ZMod p)) ≠ 0)
    (h : findLinearFactors f p s = .ok res) :
    (∀ r ∈ res, Polynomial.eval r (toPoly f) ≡ 0 [ZMOD (p : Int)]) ∧
    DvdP (p : Int) ((res.map (fun r => (X - C r : ℤ[X]))).prod) (toPoly f) := by
  have hroots := roots_complete p f s res hf h
  constructor
  · intro r hr
    have hmem : ((r : Int) : ZMod p) ∈ ((toPoly f).map (Int.castRingHom (ZMod p))).roots := by
      rw [hroots]; exact Multiset.mem_map_of_mem _ (by simpa using hr)
    have hroot := isRoot_of_mem_roots hmem
    have := eval_red p f r
    unfold red at this
    rw [IsRoot.def, this, ZMod.intCast_zmod_eq_zero_iff_dvd, NTV.PolyG.eval_eq] at hroot
    exact Int.modEq_zero_iff_dvd.mpr hroot
  · rw [dvdP_map]
    have hd := prod_multiset_X_sub_C_dvd ((toPoly f).map (Int.castRingHom (ZMod p)))
    rw [hroots] at hd
    have e : ((res.map (fun r => (X - C r : ℤ[X]))).prod).map (Int.castRingHom (ZMod p)) =
        (Multiset.map (fun a => X - C a) (Multiset.map (Int.cast : Int → ZMod p) (res : Multiset Int))).prod := by
      rw [Polynomial.map_list_prod, List.map_map, Multiset.map_map, Multiset.map_coe, Multiset.prod_coe]
      congr 1
      apply List.map_congr_left
      intro r _
      simp
    rw [e]; exact hd

/-- in particular the list is empty when f has no root in F_p -/
theorem no_root_empty (p : ℕ) [Fact p.Prime] (f : List Int) (s : NTV.Draw.Stream) (res : List Int)
    (hf : (toPoly f).map (Int.castRingHom (ZMod p)) ≠ 0)
    (h : findLinearFactors f p s = .ok res)
    (hno : ∀ x : ZMod p, Polynomial.eval x ((toPoly f).map (Int.castRingHom (ZMod p))) ≠ 0) : res = [] := by
  have hroots := roots_complete p f s res hf h
  have hz : ((toPoly f).map (Int.castRingHom (ZMod p))).roots = 0 :=
    Multiset.eq_zero_of_forall_notMem fun x hx => hno x (isRoot_of_mem_roots hx)
  rw [hz] at hroots
  have := congrArg Multiset.card hroots
  simp only [Multiset.card_zero, Multiset.card_map, Multiset.coe_card] at this
  exact List.length_eq_zero_iff.mp this.symm

/-- and has length deg(f mod p) when f mod p splits completely (as many roots, with multiplicity, as
its degree) -/
theorem splits_length (p : ℕ) [Fact p.Prime] (f : List Int) (s : NTV.Draw.Stream) (res : List Int)
    (hf : (toPoly f).map (Int.castRingHom (ZMod p)) ≠ 0)
    (h : findLinearFactors f p s = .ok res)
    (hsplit : Multiset.card ((toPoly f).map (Int.castRingHom (ZMod p))).roots
      = ((toPoly f).map (Int.castRingHom (ZMod p))).natDegree) :
    res.length = ((toPoly f).map (Int.castRingHom (ZMod p))).natDegree := by
  have hroots := roots_complete p f s res hf h
  rw [hroots] at hsplit
  simpa using hsplit

/-- the answer does not depend on the history of draws, up to order: two successful runs return
permutations of each other -/
theorem history_independent (p : ℕ) [Fact p.Prime] (f : List Int) (s₁ s₂ : NTV.Draw.Stream) (res₁ res₂ : List Int)
    (hf : (toPoly f).map (Int.castRingHom (ZMod p)) ≠ 0)
    (h₁ : findLinearFactors f p s₁ = .ok res₁) (h₂ : findLinearFactors f p s₂ = .ok res₂) :
    res₁.Perm res₂ := by
  have e := (roots_complete p f s₁ res₁ hf h₁).symm.trans (roots_complete p f s₂ res₂ hf h₂)
  have back : ∀ (res : List Int), (∀ r ∈ res, 0 ≤ r ∧ r < (p : Int)) →
      Multiset.map (fun x : ZMod p => (x.val : Int)) (Multiset.map (Int.cast : Int → ZMod p) (res : Multiset Int))
        = (res : Multiset Int) := by
    intro res hr
    rw [Multiset.map_map]
    conv_rhs => rw [← Multiset.map_id (res : Multiset Int)]
    apply Multiset.map_congr rfl
    intro r hmem
    obtain ⟨h0, h1⟩ := hr r (by simpa using hmem)
    simp only [Function.comp_apply, id_eq, ZMod.val_intCast]
    exact Int.emod_eq_of_lt h0 h1
  have := congrArg (Multiset.map (fun x : ZMod p => (x.val : Int))) e
  rw [back res₁ (roots_in_range p f s₁ res₁ hf h₁), back res₂ (roots_in_range p f s₂ res₂ hf h₂)] at this
  exact Multiset.coe_eq_coe.mp this

/-- the same for one call of the recursive routine `find_linear_factors_impl` with ANY fuel, any
accumulated `result` and any stream: what it appends to `result` is the multiset of roots of `poly` -/
theorem impl_roots (p : ℕ) [Fact p.Prime] (fuel : Nat) (poly result : List Int) (s : NTV.Draw.Stream)
    (res : List Int) (s' : NTV.Draw.Stream) (hr : Reduced (p : Int) poly) (hc : Canon poly) (hne : poly ≠ [])
    (h : findLinearImpl p fuel poly result s = .ok (res, s')) :
    ∃ rs : List Int, res = result ++ rs ∧ (∀ r ∈ rs, 0 ≤ r ∧ r < (p : Int)) ∧
      ((toPoly poly).map (Int.castRingHom (ZMod p))).roots = Multiset.map (Int.cast : Int → ZMod p) (rs : Multiset Int) := by
  obtain ⟨rs, e1, e2, e3⟩ := findLinearImpl_spec p fuel poly result s res s' (good_of p poly hr hc hne) h
  exact ⟨rs, e1, e2, by rw [← red, e3, roots_one]; exact add_zero _⟩

/-- `poly_gcd(a, b, p)` is a GREATEST common divisor modulo the prime p: every common divisor of a and b
modulo p divides the result modulo p (complements `gcd_divides_both`) -/
theorem gcd_greatest (p : ℕ) (hp : p.Prime) (a b g : List Int)
    (hra : Reduced (p : Int) a) (hrb : Reduced (p : Int) b) (hca : Canon a) (hcb : Canon b) (hb : b ≠ [])
    (h : polyGcd a b (p : Int) = .ok g) (d : ℤ[X])
    (hda : DvdP (p : Int) d (toPoly a)) (hdb : DvdP (p : Int) d (toPoly b)) : DvdP (p : Int) d (toPoly g) := by
  rw [dvdP_map] at hda hdb ⊢
  exact (polyGcd_red p hp a b g hra hrb hca hcb hb h).2.2.2.2.2 _ hda hdb

/-! non-vacuity: concrete successful runs (two different draw histories for x² + 1 mod 5 return the two
roots in different orders; a double root; the p = 2 branch) -/
example : findLinearFactors [1, 0, 1] 5 [[0, 0, 0, 32], [0, 0, 0, 64], [0, 0, 0, 96]] = .ok [3, 2] := by decide +kernel
example : findLinearFactors [1, 0, 1] 5 [[0, 0, 0, 0], [0, 0, 0, 64], [0, 0, 0, 96], [0, 0, 0, 32]] = .ok [2, 3] := by
  decide +kernel
example : findLinearFactors [0, 0, 3] 23 [[0, 0, 0, 8], [0, 0, 0, 16]] = .ok [0, 0] := by decide +kernel
example : findLinearFactors [0, 0, 1, 1, 1] 2 [] = .ok [0, 0] := by decide +kernel
example : findLinearFactors [2, 0, 1] 5 [[0, 0, 0, 32]] = .ok [] := by decide +kernel

/-- the hypotheses are satisfiable: x² + 1 is non-zero modulo 5 -/
example : (toPoly [1, 0, 1]).map (Int.castRingHom (ZMod 5)) ≠ 0 :=
  (nonzero_mod_iff 5 [1, 0, 1]).mpr ⟨0, by decide⟩

/-- and the theorem applied to that run: the roots of x² + 1 in F_5 are {3, 2} -/
example : haveI : Fact (Nat.Prime 5) := ⟨by norm_num⟩
    ((toPoly [1, 0, 1]).map (Int.castRingHom (ZMod 5))).roots = Multiset.map (Int.cast : Int → ZMod 5) (([3, 2] : List Int) : Multiset Int) :=
  haveI : Fact (Nat.Prime 5) := ⟨by norm_num⟩
  roots_complete 5 [1, 0, 1] [[0, 0, 0, 32], [0, 0, 0, 64], [0, 0, 0, 96]] [3, 2]
    ((nonzero_mod_iff 5 [1, 0, 1]).mpr ⟨0, by decide⟩) (by decide +kernel)

end NTV.C12

/-! ## Panic-freedom: on legal input the only failure is an exhausted draw stream -/
namespace NTV.C12
open NTV.PolyMod NTV.PolyG Polynomial

/-- **C12 panic-freedom**: for every prime p, every f ≢ 0 mod p and EVERY draw stream, a run of
`find_linear_factors` that does not return a list fails with `inconclusive stream` (the supplied stream of
random chunks ran out — not a behaviour of the code). In particular no Rust panic is possible: the
`debug_assert!(modpow(a, p, p) == a)` never fires (Fermat), `divide_by_x_a` is only called on roots of a
non-zero polynomial (neither its `debug_assert!` nor the `vec![0; usize::MAX]` overflow fires), and neither
the fuel of `poly_gcd` nor that of the recursion is ever exhausted (`inconclusive fuel` is impossible). -/
theorem no_panic (p : ℕ) [Fact p.Prime] (f : List Int) (s : NTV.Draw.Stream) (e : String)
    (hf : (toPoly f).map (Int.castRingHom (ZMod p)) ≠ 0)
    (h : findLinearFactors f p s = .error e) : e = "inconclusive stream" :=
  findLinearFactors_no_panic p f s e hf h

/-- for p = 2 nothing is drawn and the routine is total -/
theorem total_two (f : List Int) (s : NTV.Draw.Stream)
    (hf : (toPoly f).map (Int.castRingHom (ZMod 2)) ≠ 0) : ∃ res, findLinearFactors f 2 s = .ok res :=
  findLinearFactors_two_total f s hf

/-- the recursive routine itself, for any fuel exceeding the number of chunks left: no panic, no fuel
exhaustion, and on success the stream has not grown -/
theorem impl_no_panic (p : ℕ) [Fact p.Prime] (fuel : Nat) (poly result : List Int) (s : NTV.Draw.Stream)
    (hr : Reduced (p : Int) poly) (hc : Canon poly) (hne : poly ≠ []) (hfuel : s.length < fuel) :
    (∀ e, findLinearImpl p fuel poly result s = .error e → e = "inconclusive stream") ∧
    (∀ res s', findLinearImpl p fuel poly result s = .ok (res, s') → s'.length ≤ s.length) := by
  have := findLinearImpl_post p fuel poly result s (good_of p poly hr hc hne) hfuel
  constructor
  · intro e he; rw [he] at this; exact this
  · intro res s' he; rw [he] at this; exact this

/-! non-vacuity: the error case does occur (a stream that is too short), with exactly this message; the
hypotheses are those of `roots_complete` (satisfiable, see above) -/
example : findLinearFactors [1, 0, 1] 5 [] = .error "inconclusive stream" := by decide +kernel
example : haveI : Fact (Nat.Prime 5) := ⟨by norm_num⟩
    ∀ e, findLinearFactors [1, 0, 1] 5 [[0, 0, 0, 32], [0, 0, 0, 64]] = .error e → e = "inconclusive stream" :=
  haveI : Fact (Nat.Prime 5) := ⟨by norm_num⟩
  fun e h => no_panic 5 [1, 0, 1] _ e ((nonzero_mod_iff 5 [1, 0, 1]).mpr ⟨0, by decide⟩) h

end NTV.C12
