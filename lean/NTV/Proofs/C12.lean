import NTV.Proofs.Lemmas.PolyModBasics
import NTV.Proofs.Lemmas.PolyDivremMod
/-! # C12 — roots modulo p with multiplicity: what is proved about the model so far.
The full statement (the returned multiset equals the roots with multiplicity) is certified on every
explored case by an independent brute-force / planted-root oracle; see lib/propinfo.py. -/
namespace NTV.C12
open NTV.PolyMod

/-- every random shift the routine draws lies in [0, p), whatever the generator serves -/
theorem shift_in_range (p : Int) (s : NTV.Draw.Stream) (a : Int) (rest : NTV.Draw.Stream)
    (h : NTV.Draw.range 0 p s = some (a, rest)) : 0 ≤ a ∧ a < p := draw_shift_range p s a rest h

/-- the root test used before every deflation, `poly_of_mod(f, a, p) == 0`, decides f(a) ≡ 0 (mod p) -/
theorem root_test_sound (f : List Int) (a p : Int) :
    polyOfMod f a p ≡ NTV.PolyG.eval f a [ZMOD p] := polyOfMod_modEq f a p

/-- the modular inverse used for the degree-1 base case (−c₀·c₁⁻¹) is an inverse for prime p -/
theorem linear_case_inverse (p : Nat) (hp : p.Prime) (x : Int) (hx : IsCoprime x (p : Int)) :
    x * modinv x (p : Int) ≡ 1 [ZMOD (p : Int)] := modinv_spec p hp x hx

/-- the division primitive every stage is built on, `poly_divrem(a, b, p)`, satisfies its contract for
every prime p not dividing lc(b): a ≡ q·b + r (mod p), deg r < deg b, results canonical -/
theorem division_contract (a b : List Int) (p : Nat) (hp : p.Prime) (ha : a ≠ []) (hb : b ≠ [])
    (hab : b.length ≤ a.length) (hlc : IsCoprime (NTV.PolyG.lc b) (p : Int)) :
    NTV.Hensel.PCong p (NTV.PolyG.toPoly a)
      (NTV.PolyG.toPoly (NTV.PolyMod.polyDivrem a b p).1 * NTV.PolyG.toPoly b +
        NTV.PolyG.toPoly (NTV.PolyMod.polyDivrem a b p).2) ∧
    (NTV.PolyMod.polyDivrem a b p).2.length < b.length ∧
    NTV.PolyG.Canon (NTV.PolyMod.polyDivrem a b p).1 ∧ NTV.PolyG.Canon (NTV.PolyMod.polyDivrem a b p).2 :=
  NTV.PolyMod.polyDivrem_contract_prime a b p hp ha hb hab hlc

end NTV.C12
