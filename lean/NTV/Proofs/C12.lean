import NTV.Proofs.Lemmas.PolyModBasics
import NTV.Proofs.Lemmas.PolyDivremMod
import NTV.Proofs.Lemmas.PolyGcdMod
/-! # C12 — roots modulo p with multiplicity: what is proved about the model so far.
The full statement (the returned multiset equals the roots with multiplicity) is certified on every
explored case by an independent brute-force / planted-root oracle; see lib/propinfo.py. -/
namespace NTV.C12
open NTV.PolyMod

/-- every random shift the routine draws lies in [0, p), whatever the generator serves -/
theorem shift_in_range (p : Int) (s : NTV.Draw.Stream) (a : Int) (rest : NTV.Draw.Stream)
    (h : NTV.Draw.range 0 p s = some (a, rest)) : 0 ≤ a ∧ a < p := draw_shift_range p s a rest h

/-- the root test used before every deflation, `poly_of_mod(f, a, p) == 0`, decides f(a) ≡ 0 (mod p) -/
theorem root_test_sound (f : List Int) (a p : Int) :
    polyOfMod f a p ≡ NTV.PolyG.eval f a [ZMOD p] := polyOfMod_modEq f a p

/-- the modular inverse used for the degree-1 base case (−c₀·c₁⁻¹) is an inverse for prime p -/
theorem linear_case_inverse (p : Nat) (hp : p.Prime) (x : Int) (hx : IsCoprime x (p : Int)) :
    x * modinv x (p : Int) ≡ 1 [ZMOD (p : Int)] := modinv_spec p hp x hx

/-- the division primitive every stage is built on, `poly_divrem(a, b, p)`, satisfies its contract for
every prime p not dividing lc(b): a ≡ q·b + r (mod p), deg r < deg b, results canonical -/
theorem division_contract (a b : List Int) (p : Nat) (hp : p.Prime) (ha : a ≠ []) (hb : b ≠ [])
    (hab : b.length ≤ a.length) (hlc : IsCoprime (NTV.PolyG.lc b) (p : Int)) :
    NTV.Hensel.PCong p (NTV.PolyG.toPoly a)
      (NTV.PolyG.toPoly (NTV.PolyMod.polyDivrem a b p).1 * NTV.PolyG.toPoly b +
        NTV.PolyG.toPoly (NTV.PolyMod.polyDivrem a b p).2) ∧
    (NTV.PolyMod.polyDivrem a b p).2.length < b.length ∧
    NTV.PolyG.Canon (NTV.PolyMod.polyDivrem a b p).1 ∧ NTV.PolyG.Canon (NTV.PolyMod.polyDivrem a b p).2 :=
  NTV.PolyMod.polyDivrem_contract_prime a b p hp ha hb hab hlc

/-- every gcd the routine takes, `poly_gcd(a, b, p)` on reduced canonical arguments, returns a
polynomial that divides both arguments modulo the prime p (and is reduced and canonical): so every
polynomial split off by a gcd is a divisor of the current cofactor -/
theorem gcd_divides_both (p : Nat) (hp : p.Prime) (a b g : List Int)
    (hra : NTV.PolyMod.Reduced (p : Int) a) (hrb : NTV.PolyMod.Reduced (p : Int) b)
    (hca : NTV.PolyG.Canon a) (hcb : NTV.PolyG.Canon b) (h : NTV.PolyMod.polyGcd a b (p : Int) = .ok g) :
    NTV.PolyMod.DvdP p (NTV.PolyG.toPoly g) (NTV.PolyG.toPoly a) ∧
    NTV.PolyMod.DvdP p (NTV.PolyG.toPoly g) (NTV.PolyG.toPoly b) ∧
    NTV.PolyMod.Reduced (p : Int) g ∧ NTV.PolyG.Canon g :=
  NTV.PolyMod.polyGcd_dvd p hp a b g hra hrb hca hcb h

/-- the reduction applied to the input first: `poly_mod(f, p)` has coefficients in [0, p), is canonical
and congruent to f -/
theorem input_reduction (f : List Int) (p : Int) (hp : 0 < p) :
    NTV.PolyMod.Reduced p (NTV.PolyMod.polyMod f p) ∧ NTV.PolyG.Canon (NTV.PolyMod.polyMod f p) ∧
    NTV.Hensel.PCong p (NTV.PolyG.toPoly (NTV.PolyMod.polyMod f p)) (NTV.PolyG.toPoly f) :=
  NTV.PolyMod.polyMod_reduced f p hp

end NTV.C12
