import NTV.Proofs.C16
#print axioms NTV.C16.sum_is_hnf_of_stack
#print axioms NTV.C16.sum_depends_only_on_lattice
#print axioms NTV.C16.norm_is_index
#print axioms NTV.C16.contains_def
