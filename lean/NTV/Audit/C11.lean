import NTV.Proofs.C11
#print axioms NTV.C11.hensel_step_algebra
#print axioms NTV.C11.henselLift_full
#print axioms NTV.C11.exponent_one_unchanged
#print axioms NTV.C11.division_contract
#print axioms NTV.C11.witness_spec
#print axioms NTV.C11.witness_spec_unreduced
#print axioms NTV.C11.lift_two_spec
#print axioms NTV.C11.lift_factorization_spec
#print axioms NTV.C11.lift_factorization_monic
