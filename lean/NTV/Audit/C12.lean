import NTV.Proofs.C12
#print axioms NTV.C12.shift_in_range
#print axioms NTV.C12.root_test_sound
#print axioms NTV.C12.linear_case_inverse
#print axioms NTV.C12.division_contract
#print axioms NTV.C12.gcd_divides_both
#print axioms NTV.C12.input_reduction
#print axioms NTV.C12.roots_in_range
#print axioms NTV.C12.roots_sound
#print axioms NTV.C12.roots_complete
#print axioms NTV.C12.no_root_empty
#print axioms NTV.C12.splits_length
#print axioms NTV.C12.history_independent
#print axioms NTV.C12.impl_roots
#print axioms NTV.C12.gcd_greatest
#print axioms NTV.C12.nonzero_mod_iff
