import NTV.Proofs.C12
#print axioms NTV.C12.shift_in_range
#print axioms NTV.C12.root_test_sound
#print axioms NTV.C12.linear_case_inverse
#print axioms NTV.C12.division_contract
#print axioms NTV.C12.gcd_divides_both
#print axioms NTV.C12.input_reduction
