import NTV.Proofs.C12
#print axioms NTV.C12.shift_in_range
#print axioms NTV.C12.root_test_sound
#print axioms NTV.C12.linear_case_inverse
