import NTV.Proofs.C02
#print axioms NTV.C02.normal_form
#print axioms NTV.C02.same_lattice_and_rank
#print axioms NTV.C02.canonical
#print axioms NTV.C02.union_is_hnf_of_stack
#print axioms NTV.C02.determinant_is_index
