import NTV.Proofs.C18
#print axioms NTV.C18.determinant_is_det
#print axioms NTV.C18.inv_exactly_when_nonsingular
#print axioms NTV.C18.solve_exactly_when_nonsingular
#print axioms NTV.C18.inverse_image
#print axioms NTV.C18.supplement
#print axioms NTV.C18.right_division
#print axioms NTV.C18.image_mod_p_total
#print axioms NTV.C18.image_mod_p
#print axioms NTV.C18.image_mod_p_reduced
