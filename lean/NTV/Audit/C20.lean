import NTV.Proofs.C20
#print axioms NTV.C20.bookkeeping_full
#print axioms NTV.C20.box_complete
#print axioms NTV.C20.shortVectors_checker
#print axioms NTV.C20.isPosDef_checker
#print axioms NTV.C20.quadVal_checker
#print axioms NTV.C20.floorSqrt_checker
#print axioms NTV.C20.inverse_checker
#print axioms NTV.C20.isReduced_checker
#print axioms NTV.C20.gso_checker
#print axioms NTV.C20.qdet_checker
#print axioms NTV.C20.det_checker
#print axioms NTV.C20.mul_checker
