import NTV.Proofs.C20
#print axioms NTV.C20.bookkeeping_full
