import NTV.Proofs.C14
#print axioms NTV.C14.product_is_remainder
#print axioms NTV.C14.sum_and_difference
#print axioms NTV.C14.mul_comm
#print axioms NTV.C14.mul_assoc
#print axioms NTV.C14.left_distrib
#print axioms NTV.C14.one_and_zero
#print axioms NTV.C14.power_is_remainder
#print axioms NTV.C14.pow_add
#print axioms NTV.C14.mul_pow
