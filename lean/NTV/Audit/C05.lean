import NTV.Proofs.C05
#print axioms NTV.C05.sign_rule
#print axioms NTV.C05.zero_panics
#print axioms NTV.C05.linear
#print axioms NTV.C05.discriminant_is_discr_partial
#print axioms NTV.C05.discriminant_total
#print axioms NTV.C05.discriminant_is_discr
