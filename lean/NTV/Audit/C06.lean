import NTV.Proofs.C06
#print axioms NTV.C06.primes_visited
#print axioms NTV.C06.stored_basis_canonical
#print axioms NTV.C06.zero_discriminant_refused
