import NTV.Proofs.C06
#print axioms NTV.C06.primes_visited
#print axioms NTV.C06.stored_basis_canonical
#print axioms NTV.C06.zero_discriminant_refused
#print axioms NTV.C06.one_step_contains
#print axioms NTV.C06.one_step_discriminant_partial
#print axioms NTV.C06.prime_loop_contains
#print axioms NTV.C06.result_contains_start
#print axioms NTV.C06.printed_index_and_disc
