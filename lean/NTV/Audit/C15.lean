import NTV.Proofs.C15
#print axioms NTV.C15.index_is_determinant_quotient
#print axioms NTV.C15.index_is_det_of_change_of_basis
#print axioms NTV.C15.index_multiplicative
#print axioms NTV.C15.discriminant_index_relation
#print axioms NTV.C15.index_of_unimodular_rebasing
#print axioms NTV.C15.equal_modules_give_equal_orders
#print axioms NTV.C15.stored_basis_spans_input
#print axioms NTV.C15.from_basis_idempotent
#print axioms NTV.C15.union_spans
#print axioms NTV.C15.union_least
#print axioms NTV.C15.union_comm
#print axioms NTV.C15.union_absorb
#print axioms NTV.C15.union_idem
#print axioms NTV.C15.union_contains
#print axioms NTV.C15.power_basis_discriminant
#print axioms NTV.C15.singly_gen_linear_panics
#print axioms NTV.C15.power_basis_discriminant_full
