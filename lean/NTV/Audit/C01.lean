import NTV.Proofs.C01
#print axioms NTV.C01.trial_division_correct
#print axioms NTV.C01.oneshot_err_divides
#print axioms NTV.C01.oneshot_parallel_err_divides
#print axioms NTV.C01.ecm_returns_proper_divisor
#print axioms NTV.C01.ecm_parallel_returns_proper_divisor
#print axioms NTV.C01.driver_seq_product
#print axioms NTV.C01.driver_par_product
#print axioms NTV.C01.stage2_start_dev_ok
#print axioms NTV.C01.oneshot_dev_never_panics
