import NTV.Proofs.C17
#print axioms NTV.C17.refuses_when_p_divides_index
#print axioms NTV.C17.word_copy
