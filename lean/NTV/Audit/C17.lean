import NTV.Proofs.C17
#print axioms NTV.C17.refuses_when_p_divides_index
#print axioms NTV.C17.word_copy
#print axioms NTV.C17.decompose_shape
#print axioms NTV.C17.degree_sum
#print axioms NTV.C17.prime_above_lattice
#print axioms NTV.C17.prime_above_capZ
#print axioms NTV.C17.decompose_ideals
#print axioms NTV.C17.decompose_lattices
