import NTV.Proofs.C19
#print axioms NTV.C19.inv_full
#print axioms NTV.C19.zmod_full
