import NTV.Proofs.C19
#print axioms NTV.C19.inv_full
#print axioms NTV.C19.zmod_full
#print axioms NTV.C19.nthRoot_full
#print axioms NTV.C19.perfectPower_full
#print axioms NTV.C19.kronecker_full
#print axioms NTV.C19.kronecker_zero_modulus
#print axioms NTV.C19.kronecker_decomposition
#print axioms NTV.C19.sieve_full
#print axioms NTV.C19.iterator_full
