import NTV.Proofs.C07
#print axioms NTV.C07.content_split
#print axioms NTV.C07.trial_division_exact
#print axioms NTV.C07.trial_division_sound
#print axioms NTV.C07.zero_and_constants
#print axioms NTV.C07.product_identity_partial
#print axioms NTV.C07.product_identity_irreducible_partial
#print axioms NTV.C07.factor_shape
#print axioms NTV.C07.factor_shape_exact_partial
#print axioms NTV.C07.multiplicity_true_coprime_partial
#print axioms NTV.C07.multiplicity_true_partial
#print axioms NTV.C07.distinct_partial
#print axioms NTV.C07.gcdExact_holds
#print axioms NTV.C07.factor_shape_exact
#print axioms NTV.C07.distinct
#print axioms NTV.C07.multiplicity_true
#print axioms NTV.C07.product_identity_of_irreducible_partial
