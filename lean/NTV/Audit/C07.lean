import NTV.Proofs.C07
#print axioms NTV.C07.content_split
#print axioms NTV.C07.trial_division_exact
#print axioms NTV.C07.trial_division_sound
#print axioms NTV.C07.zero_and_constants
