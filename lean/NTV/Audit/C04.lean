import NTV.Proofs.C04
#print axioms NTV.C04.resultantRational_is_sylvester
#print axioms NTV.C04.resultantRational_zero
#print axioms NTV.C04.scaling_law
#print axioms NTV.C04.smart_zero
#print axioms NTV.C04.smart_const_const
#print axioms NTV.C04.smart_const_right
#print axioms NTV.C04.smart_const_left
#print axioms NTV.C04.smart_is_sylvester_partial
#print axioms NTV.C04.smart_flag
#print axioms NTV.C04.smart_is_sylvester
#print axioms NTV.C04.smart_value_is_sylvester
