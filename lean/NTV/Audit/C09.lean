import NTV.Proofs.C09
#print axioms NTV.C09.refine_add
#print axioms NTV.C09.refine_sub
#print axioms NTV.C09.refine_mul
#print axioms NTV.C09.refine_neg
#print axioms NTV.C09.refine_fromRaw
#print axioms NTV.C09.canonical_results
#print axioms NTV.C09.eq_iff
#print axioms NTV.C09.ring_laws
#print axioms NTV.C09.eval_hom
#print axioms NTV.C09.differential_product_rule
#print axioms NTV.C09.pseudoDivRem_contract
#print axioms NTV.C09.pseudoDivRem_shortcut
#print axioms NTV.C09.divRemMonic_contract
#print axioms NTV.C09.divRemRat_contract
#print axioms NTV.C09.divExact_sound_partial
