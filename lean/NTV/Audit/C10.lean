import NTV.Proofs.C10
#print axioms NTV.C10.gcd_zero_left
#print axioms NTV.C10.gcd_certificate_sound
#print axioms NTV.C10.result_shape_partial
#print axioms NTV.C10.is_gcd_partial
#print axioms NTV.C10.gcd_unique
#print axioms NTV.C10.gcd_total
#print axioms NTV.C10.gcd_flag
#print axioms NTV.C10.result_shape
#print axioms NTV.C10.is_gcd
