import NTV.Proofs.C03
#print axioms NTV.C03.terminates
#print axioms NTV.C03.transform_spec
#print axioms NTV.C03.rank_spec
#print axioms NTV.C03.kernel_spec
#print axioms NTV.C03.kernel_empty_of_independent
