import NTV.Proofs.C08
#print axioms NTV.C08.modpow_correct
#print axioms NTV.C08.leading_coefficient_inverse
