import NTV.Proofs.C08
#print axioms NTV.C08.modpow_correct
#print axioms NTV.C08.leading_coefficient_inverse
#print axioms NTV.C08.division_contract
#print axioms NTV.C08.gcd_divides_both
#print axioms NTV.C08.input_reduction
