import NTV.Proofs.C08
#print axioms NTV.C08.modpow_correct
#print axioms NTV.C08.leading_coefficient_inverse
#print axioms NTV.C08.division_contract
#print axioms NTV.C08.gcd_divides_both
#print axioms NTV.C08.input_reduction
#print axioms NTV.C08.squarefree_product
#print axioms NTV.C08.degree_product
#print axioms NTV.C08.finalSplit_product
#print axioms NTV.C08.product_identity
#print axioms NTV.C08.factor_shape
#print axioms NTV.C08.constant_input
#print axioms NTV.C08.pusize_irrelevant
#print axioms NTV.C08.pusize_irrelevant_small_degree
#print axioms NTV.C08.distinct_degree_sound
#print axioms NTV.C08.factors_irreducible
#print axioms NTV.C08.factors_distinct
#print axioms NTV.C08.factorization_correct
