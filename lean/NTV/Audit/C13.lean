import NTV.Proofs.C13
#print axioms NTV.C13.le_one_rejected
#print axioms NTV.C13.even_rejected
#print axioms NTV.C13.prime_never_rejected
#print axioms NTV.C13.false_means_not_prime
#print axioms NTV.C13.prime_passes_all_bases
#print axioms NTV.C13.modpow_spec
#print axioms NTV.C13.composite_has_witness
