import NTV.Spec.Elementary
/-! Specification oracles for C01 (integer factorisation), independent of ECM: they look only at the
input n and at the answer. Import-free apart from `Spec/Elementary` (reference primality). -/
namespace NTV.Spec.Factor

/-- strictly increasing first components -/
def strictlyIncreasing : List (Int × Nat) → Bool
  | [] => true
  | [_] => true
  | u :: v :: rest => u.1 < v.1 && strictlyIncreasing (v :: rest)

def product (l : List (Int × Nat)) : Int := l.foldl (fun acc pe => acc * pe.1 ^ pe.2) 1

/-- Primality of one reported factor: the deterministic reference below 2^64; above, only the primes
the harness used to *construct* n (`certified`, primes by construction, e.g. Mersenne primes) are
accepted. `none` = cannot decide. -/
def primeStatus (certified : List Int) (p : Int) : Option Bool :=
  if p < 2 then some false
  else
    match NTV.Spec.Elem.isPrimeRef p.toNat with
    | some b => some b
    | none => if certified.contains p then some true else none

/-- is `expected` usable as a certificate: product n and every entry below 2^64 really prime -/
def certificateOk (n : Int) (expected : List (Int × Nat)) : Bool :=
  !expected.isEmpty && product expected == n &&
  expected.all (fun pe => pe.2 ≥ 1 && pe.1 ≥ 2 &&
    (match NTV.Spec.Elem.isPrimeRef pe.1.toNat with | some b => b | none => true))

/-- The property, for an answer of a `factorize` entry point on n ≥ 1:
strictly increasing primes, exponents ≥ 1, product exactly n (so the empty list iff n = 1).
`expected` is the factorisation the harness built n from (empty when there is none). -/
def checkFactorization (n : Int) (ans : List (Int × Nat)) (expected : List (Int × Nat)) : String :=
  if n < 1 then "fail:answer-for-n<1"
  else if !strictlyIncreasing ans then "fail:not-strictly-increasing"
  else if ans.any (fun pe => pe.2 == 0) then "fail:zero-exponent"
  else if product ans != n then "fail:product-differs-from-n"
  else
    let cert := if certificateOk n expected then expected.map (·.1) else []
    let st := ans.map (fun pe => primeStatus cert pe.1)
    if st.any (· == some false) then "fail:composite-factor"
    else if st.all (· == some true) then "ok"
    else if !cert.isEmpty then
      -- n = ∏ cert (all prime by construction) and a reported factor ≥ 2^64 is not among them:
      -- by unique factorisation it is not prime
      "fail:factor-not-in-the-construction"
    else "skip:no-primality-reference-above-2^64"

/-- the property for `ecm`: a proper divisor -/
def checkDivisor (n d : Int) : String :=
  if !(1 < d) then "fail:divisor-not-above-1"
  else if !(d < n) then "fail:divisor-not-below-n"
  else if Int.emod n d != 0 then "fail:not-a-divisor"
  else "ok"

/-- an `Err(d)` leaving the point arithmetic must be a divisor of n larger than 1 -/
def checkErr (n d : Int) : String :=
  if !(1 < d) then "fail:err-not-above-1"
  else if Int.emod n d != 0 then "fail:err-not-a-divisor"
  else "ok"

def congr (n u v : Int) : Bool := Int.emod (u - v) n == 0

/-- Independent check of one affine addition P1 + P2 = R on y² = x³ + ax + b (mod n), all three
points finite with z = 1, written with denominators cleared (no inversion):
chord:   s = y1 − y2, t = x1 − x2:   x3·t² ≡ s² − (x1 + x2)·t²,  (y3 + y1)·t ≡ s·(x1 − x3);
tangent: s = 3x1² + a, t = 2y1 (same two congruences). -/
def affineSumOk (n a : Int) (x1 y1 x2 y2 x3 y3 : Int) : Bool :=
  let tangent := congr n x1 x2 && congr n y1 y2
  -- the law only speaks about two points of one curve (same b = y² − x³ − ax) that are not
  -- "x equal, y different" (there the sum is the point at infinity or undefined modulo a composite)
  let sameCurve := congr n (y1 * y1 - x1 * x1 * x1 - a * x1) (y2 * y2 - x2 * x2 * x2 - a * x2)
  if !sameCurve || (congr n x1 x2 && !tangent) then true else
  let s := if tangent then 3 * x1 * x1 + a else y1 - y2
  let t := if tangent then 2 * y1 else x1 - x2
  congr n (x3 * t * t) (s * s - (x1 + x2) * t * t) && congr n ((y3 + y1) * t) (s * (x1 - x3))

end NTV.Spec.Factor
