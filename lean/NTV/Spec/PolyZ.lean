import NTV.Spec.Poly
import NTV.Spec.PolyMod
import NTV.Spec.Resultant
import NTV.Model.Polynomial
/-! Specification oracle for C07 (factorization over Z), independent of the algorithm under test.
On an (input `a`, answer `(c, [(f_i, e_i)])`) pair it decides
* the *shape*: `c · ∏ f_i^{e_i} = a` exactly (convolution products), every `f_i` non-constant, primitive,
  with positive leading coefficient, pairwise distinct, `e_i ≥ 1`, `f_i^{e_i + 1} ∤ a` (exact division
  test `NTV.PolyG.divExact`, proved sound and complete), `c` = signed content; zero ↦ `(0, [])`,
  constant `c` ↦ `(c, [])`;
* *irreducibility over ℚ* of every `f_i` by an independent certificate, tried in this order:
  (i) degree 1; (ii) irreducible modulo a small prime `q ∤ lc` (Rabin's test of `Spec/PolyMod.lean`);
  (iii) degree sets: for the small primes `q ∤ lc` modulo which `f` is squarefree, the degrees of the
  irreducible factors mod `q` (distinct-degree factorization) give the achievable degrees of a proper
  factor; an empty intersection over the primes proves irreducibility; (iv) brute force over all candidate
  divisors of degree ≤ n/2 inside Mignotte's bound (small cases only; this one can also *refute*);
  (v) otherwise the factorization expected by the harness (inputs are products of polynomials irreducible
  by construction) is compared as a multiset; without an expectation the verdict is
  `skip:irreducibility-undecided`.
Import-free apart from `NTV.Spec.*` and the proved `NTV.PolyG.divExact`. -/
namespace NTV.Spec.PolyZ
open NTV.Spec.Poly

abbrev Poly := List Int
abbrev Fac := List (Poly × Nat)

def degree (f : Poly) : Nat := f.length - 1
def lead (f : Poly) : Int := f.getLastD 0

/-- f^n by repeated convolution -/
def powSpec (f : Poly) : Nat → Poly
  | 0 => [1]
  | n + 1 => mulSpec (powSpec f n) f

/-- c · ∏ f_i^{e_i} -/
def expand (c : Int) (fac : Fac) : Poly :=
  scaleSpec c (fac.foldl (fun acc fe => mulSpec acc (powSpec fe.1 fe.2)) [1])

/-- gcd of the coefficients with the sign of the leading coefficient -/
def signedContent (a : Poly) : Int :=
  let g : Int := (a.foldl (fun g c => Nat.gcd g c.natAbs) 0 : Nat)
  if lead a < 0 then -g else g

def isPrimitive (f : Poly) : Bool := f.foldl (fun g c => Nat.gcd g c.natAbs) 0 == 1

/-- exact divisibility in Z[x] -/
def divides (g a : Poly) : Bool := (NTV.PolyG.divExact a g).isSome

/-- everything the property demands except irreducibility; `none` = fine, `some why` otherwise -/
def shapeFault (a : Poly) (c : Int) (fac : Fac) : Option String :=
  if a.isEmpty then (if c == 0 && fac.isEmpty then none else some "zero-must-give-(0,[])")
  else if a.length == 1 then (if c == a.getD 0 0 && fac.isEmpty then none else some "constant-must-give-(c,[])")
  else if !fac.all (fun fe => canon fe.1 && fe.1.length ≥ 2) then some "constant-or-non-canonical-factor"
  else if !fac.all (fun fe => decide (lead fe.1 > 0)) then some "factor-with-non-positive-leading-coefficient"
  else if !fac.all (fun fe => isPrimitive fe.1) then some "factor-not-primitive"
  else if !fac.all (fun fe => fe.2 ≥ 1) then some "zero-multiplicity"
  else if (fac.map (·.1)).eraseDups.length != fac.length then some "repeated-factor"
  else if c != signedContent a then some "content"
  else if expand c fac != a then some "product-differs-from-input"
  else if !fac.all (fun fe => !divides (powSpec fe.1 (fe.2 + 1)) a) then some "multiplicity-too-small"
  else none

/-! ### irreducibility certificates -/

def smallPrimes : List Nat := [2, 3, 5, 7, 11, 13, 17, 19, 23, 29, 31]

/-- the small primes not dividing the leading coefficient -/
def goodPrimes (f : Poly) : List Int :=
  (smallPrimes.filter (fun (q : Nat) => lead f % (q : Int) != 0)).map (fun (q : Nat) => (q : Int))

/-- (ii) irreducible modulo some small prime not dividing the leading coefficient -/
def irreducibleModSomePrime (f : Poly) : Bool :=
  (goodPrimes f).any (fun q => NTV.Spec.PolyMod.irreducible q f == some true)

/-- distinct-degree factorization of a squarefree monic `rem` over F_q: the degrees of its irreducible
factors with repetition; `h` = x^(q^(i-1)) mod rem. `none` = fuel exhausted (never expected). -/
def ddfLoop (q : Int) : Nat → Nat → Poly → Poly → List Nat → Option (List Nat)
  | 0, _, _, _, _ => none
  | fuel + 1, i, rem, h, acc =>
    if rem.length ≤ 1 then some acc
    else if 2 * i > degree rem then some (acc ++ [degree rem])
    else
      let h := NTV.Spec.PolyMod.powModP q rem h q.toNat
      let g := NTV.Spec.PolyMod.gcdP q (NTV.Spec.PolyMod.subP q h [0, 1]) rem
      if g.length ≥ 2 then
        let rem' := (NTV.Spec.PolyMod.divModP q rem g).1
        ddfLoop q fuel (i + 1) rem' (NTV.Spec.PolyMod.modP q h rem') (acc ++ List.replicate (degree g / i) i)
      else ddfLoop q fuel (i + 1) rem h acc

/-- degrees of the irreducible factors of f mod q, when q ∤ lc(f) and f is squarefree mod q -/
def factorDegrees (q : Int) (f : Poly) : Option (List Nat) :=
  if NTV.Spec.PolyMod.gcdP q f (NTV.Spec.Res.deriv f) != [1] then none
  else
    let m := NTV.Spec.PolyMod.monicP q f
    match ddfLoop q (m.length + 2) 1 m (NTV.Spec.PolyMod.modP q [0, 1] m) [] with
    | some ds => if ds.foldl (· + ·) 0 == degree m then some ds else none
    | none => none

/-- sums of sub-multisets that are proper (0 < k < n) -/
def properSubsums (n : Nat) (ds : List Nat) : List Nat :=
  (ds.foldl (fun s d => (s ++ s.map (· + d)).eraseDups) [0]).filter (fun k => 0 < k && k < n)

/-- (iii) the degrees a proper factor over ℚ could have, as far as the small primes allow -/
def possibleFactorDegrees (f : Poly) : List Nat :=
  let n := degree f
  (goodPrimes f).foldl (fun cand q =>
    if cand.isEmpty then cand
    else match factorDegrees q f with
      | some ds => let s := properSubsums n ds; cand.filter (fun k => s.contains k)
      | none => cand) ((List.range n).filter (· ≥ 1))

def divisorsNat (n : Nat) : List Nat := (List.range (n + 1)).filter (fun d => d ≥ 1 && n % d == 0)

/-- coefficient lists of length k over [-B, B] -/
def boxLists (B : Nat) : Nat → List (List Int)
  | 0 => [[]]
  | k + 1 => (boxLists B k).flatMap (fun l => (List.range (2 * B + 1)).map (fun (i : Nat) => ((i : Int) - (B : Int)) :: l))

/-- (iv) brute force from the definition. A proper factorization over ℚ gives a divisor g ∈ Z[x] of
degree 1 ≤ k ≤ n/2 with lc(g) | lc(f), lc(g) > 0, g(0) | f(0) and, by Mignotte's bound,
‖g‖∞ ≤ 2^k ‖f‖₂ ≤ 2^k ‖f‖₁. `none` when that search is too large. -/
def bruteIrreducible (f : Poly) : Option Bool :=
  let n := degree f
  let c0 := (f.getD 0 0).natAbs
  let l := (lead f).natAbs
  if n ≤ 1 then some true
  else if c0 == 0 then some false
  else if c0 > 5000 || l > 5000 then none
  else
    let l1 := f.foldl (fun s c => s + c.natAbs) 0
    let lcs := divisorsNat l
    let c0s := divisorsNat c0
    let size := (List.range (n / 2)).foldl (fun s i =>
      s + lcs.length * 2 * c0s.length * (2 * (2 ^ (i + 1) * l1) + 1) ^ i) 0
    if size > 20000 then none
    else
      some ((List.range (n / 2)).all (fun i =>
        let k := i + 1
        (boxLists (2 ^ k * l1) (k - 1)).all (fun mid =>
          lcs.all (fun lc => c0s.all (fun c =>
            !divides ((c : Int) :: mid ++ [(lc : Int)]) f && !divides (-(c : Int) :: mid ++ [(lc : Int)]) f)))))

/-- irreducibility over ℚ of a non-constant f: `some true` certified, `some false` refuted, `none` undecided -/
def certify (f : Poly) : Option Bool :=
  if f.length < 2 then some false
  else if f.length == 2 then some true
  else if irreducibleModSomePrime f then some true
  else if (possibleFactorDegrees f).isEmpty then some true
  else bruteIrreducible f

def sameMultiset (x y : Fac) : Bool :=
  x.length == y.length && x.all (fun fe => y.contains fe) && y.all (fun fe => x.contains fe)

/-- the conclusion of C07 on one answer; `expected` is the factorization the input was built from -/
def judge (a : Poly) (c : Int) (fac : Fac) (expected : Option (Int × Fac)) : String :=
  match shapeFault a c fac with
  | some why => "fail:" ++ why
  | none =>
    let certs := fac.map (fun fe => certify fe.1)
    if certs.contains (some false) then "fail:reducible-factor"
    else if certs.all (· == some true) then "ok"
    else match expected with
      | none => "skip:irreducibility-undecided"
      | some (ec, efac) =>
        -- an expected factor refuted by a certificate, or properly divisible by a returned factor, is reducible
        if (shapeFault a ec efac).isSome || (efac.map (fun fe => certify fe.1)).contains (some false) ||
            efac.any (fun ge => fac.any (fun fe => fe.1.length < ge.1.length && divides fe.1 ge.1)) then
          "skip:bad-expectation"
        else if c == ec && sameMultiset fac efac then "ok"
        else "fail:differs-from-the-factorization-into-known-irreducibles"

/-- degree of the squarefree part of a non-constant a (number of lifted factors is at most this) -/
def radicalDegree (a : Poly) : Nat := degree a - NTV.Spec.Res.gcdDegQ a (NTV.Spec.Res.deriv a)

end NTV.Spec.PolyZ
