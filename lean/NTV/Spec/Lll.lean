import NTV.Spec.Mat
/-! Specification side of C20 (lattice reduction): exact rational Gram–Schmidt orthogonalisation of an
integer matrix whose rows are the basis vectors, and the LLL-reducedness predicate of the property
statement. Written independently of `lll.rs` (classical Gram–Schmidt from the definition, no
incremental updates). Imports only `NTV.Spec.Mat` (products, determinant). -/
namespace NTV.Spec.Lll
open NTV.Spec.Mat

def qdot (u v : List Rat) : Rat := (List.zipWith (· * ·) u v).foldl (· + ·) 0
def qnormSq (u : List Rat) : Rat := qdot u u
def toQRow (r : List Int) : List Rat := r.map (fun (x : Int) => (x : Rat))

/-- `det` of an integer matrix (fraction-exact rational elimination, from `Spec.Mat`). -/
def det (a : IMat) : Int := NTV.Spec.Mat.det a
/-- matrix product of integer matrices. -/
def mul (a b : IMat) : IMat := NTV.Spec.Mat.mul a b
/-- `n × n` integer matrix -/
def isSquare (a : IMat) (n : Nat) : Bool := a.length == n && a.all (fun r => r.length == n)

/-- One Gram–Schmidt step: given the orthogonal vectors `b*_0 … b*_{i-1}` (with their squared norms)
and the next basis vector `v = b_i`, returns the coefficients `μ_{i,j} = ⟨b_i, b*_j⟩ / ‖b*_j‖²`
(`0` when `b*_j = 0`) and `b*_i = b_i − Σ_j μ_{i,j} b*_j`. -/
def gsoStep (prev : List (List Rat × Rat)) (v : List Rat) : List Rat × List Rat :=
  let mus := prev.map (fun (bs, nb) => if nb == 0 then 0 else qdot v bs / nb)
  let vstar := (List.zip mus prev).foldl
    (fun (acc : List Rat) (p : Rat × (List Rat × Rat)) =>
      List.zipWith (fun x y => x - p.1 * y) acc p.2.1) v
  (mus, vstar)

/-- Gram–Schmidt data of the rows of `B`: `μ` (row `i` has the `i` entries `μ_{i,0} … μ_{i,i-1}`)
and `Bnorm` (`Bnorm_i = ‖b*_i‖²`). -/
def gso (B : IMat) : (List (List Rat)) × (List Rat) :=
  let (mu, prev) := B.foldl
    (fun (st : List (List Rat) × List (List Rat × Rat)) row =>
      let (mus, vstar) := gsoStep st.2 (toQRow row)
      (st.1 ++ [mus], st.2 ++ [(vstar, qnormSq vstar)])) ([], [])
  (mu, prev.map (·.2))

def mu (g : List (List Rat) × List Rat) (i j : Nat) : Rat := (g.1.getD i []).getD j 0
def bn (g : List (List Rat) × List Rat) (i : Nat) : Rat := g.2.getD i 0

/-- size-reducedness: `|μ_{i,j}| ≤ η` for all `j < i` -/
def sizeReduced (g : List (List Rat) × List Rat) (η : Rat) : Bool :=
  g.1.all (fun row => row.all (fun m => m.abs ≤ η))

/-- Lovász condition `‖b*_i‖² ≥ (δ − μ_{i,i−1}²) ‖b*_{i−1}‖²` for all `i ≥ 1` -/
def lovasz (g : List (List Rat) × List Rat) (δ : Rat) : Bool :=
  (List.range (g.2.length - 1)).all (fun t =>
    let i := t + 1
    let m := mu g i t
    decide (bn g i ≥ (δ - m * m) * bn g t))

/-- `B` (rows = basis) is LLL-reduced with parameters `δ`, `η`. All `‖b*_i‖²` must be positive
(the rows are independent). -/
def isReduced (B : IMat) (δ η : Rat) : Bool :=
  let g := gso B
  g.2.all (fun x => decide (x > 0)) && sizeReduced g η && lovasz g δ

/-- first violated clause, for the verdict text -/
def whyNotReduced (B : IMat) (δ η : Rat) : String :=
  let g := gso B
  if !(g.2.all (fun x => decide (x > 0))) then "rows-dependent"
  else if !(sizeReduced g η) then "not-size-reduced"
  else if !(lovasz g δ) then "lovasz-violated"
  else ""

end NTV.Spec.Lll
