import NTV.Model.Polynomial
import NTV.Spec.Poly
import NTV.Spec.Mat
/-! Specification-side oracles for C04 (resultant), C05 (discriminant), C10 (gcd in Z[x]),
independent of the subresultant algorithm under test: the Sylvester matrix is built explicitly and
its determinant / rank computed by elimination; divisibility by exact division and multiplication
back; coprimality by Euclid over ℚ. Import-free (uses `NTV.PolyG.divExact` / `divRemRat`, which are
proved correct, and `NTV.Spec.Mat.qdet` / `qrank`).

Sign convention (= Mathlib's `Polynomial.resultant`, the classical one): rows of `f` first, high
degree first, so `Res(x - a, x - b) = a - b` and `Res(f, g) = (-1)^(deg f · deg g) Res(g, f)`. -/
namespace NTV.Spec.Res
open NTV.Spec.Poly

/-- Sylvester matrix of two non-zero canonical polynomials `f` (degree m) and `g` (degree n):
n shifted rows of the coefficients of `f` (high degree first), then m shifted rows of `g`.
Two constants give the empty matrix. -/
def sylvester {R : Type} [Zero R] (f g : List R) : List (List R) :=
  let m := f.length - 1
  let n := g.length - 1
  (List.range n).map (fun i => List.replicate i 0 ++ f.reverse ++ List.replicate (n - 1 - i) 0) ++
  (List.range m).map (fun i => List.replicate i 0 ++ g.reverse ++ List.replicate (m - 1 - i) 0)

/-- fraction-free (Bareiss) determinant of a square integer matrix of size `n`; `prev` is the
previous pivot. Each round picks the first row with a non-zero head (a swap flips the sign),
replaces the other rows by `(x_j * p - x_0 * p_j) / prev` (exact) and drops the first column. -/
def bareissAux : Nat → List (List Int) → Int → Int → Int
  | 0, _, prev, sign => sign * prev
  | n + 1, rows, prev, sign =>
    match (List.range rows.length).find? (fun i => (rows.getD i []).headD 0 != 0) with
    | none => 0
    | some p =>
      let prow := rows.getD p []
      let piv := prow.headD 0
      let ptail := prow.tail
      let rest := (if p = 0 then rows else rows.set p (rows.headD [])).tail
      let rest := rest.map (fun r =>
        let x := r.headD 0
        List.zipWith (fun y pj => (y * piv - x * pj) / prev) r.tail ptail)
      bareissAux n rest piv (if p = 0 then sign else -sign)

/-- determinant of a square integer matrix (1 for the empty matrix) -/
def idet (a : List (List Int)) : Int := bareissAux a.length a 1 1

/-- Res(f, g) as the determinant of the Sylvester matrix; Res(f, 0) = Res(0, g) = 0 -/
def sylvesterDet (f g : List Int) : Int :=
  let f := norm f
  let g := norm g
  if f.isEmpty || g.isEmpty then 0 else idet (sylvester f g)

/-- the same over ℚ by Gaussian elimination -/
def sylvesterDetQ (f g : List Rat) : Rat :=
  let f := norm f
  let g := norm g
  if f.isEmpty || g.isEmpty then 0 else NTV.Spec.Mat.qdet (sylvester f g)

def toQ (f : List Int) : List Rat := f.map (fun (x : Int) => (x : Rat))

/-- rank of the Sylvester matrix of two non-zero polynomials -/
def sylvesterRank (f g : List Int) : Nat :=
  let s := sylvester (toQ (norm f)) (toQ (norm g))
  if s.isEmpty then 0 else NTV.Spec.Mat.qrank s

/-- formal derivative by the coefficient formula -/
def deriv (f : List Int) : List Int :=
  norm ((List.range (f.length - 1)).map (fun i => coeff f (i + 1) * ((i : Int) + 1)))

/-- disc(f) = (-1)^(n(n-1)/2) Res(f, f') / lc(f) for deg f = n ≥ 1; `none` if the division is not
exact (never for a genuine polynomial) or the degree is < 1 -/
def discSpec (f : List Int) : Option Int :=
  let f := norm f
  if f.length < 2 then none
  else
    let n := f.length - 1
    let r := sylvesterDet f (deriv f)
    let r := if (n * (n - 1) / 2) % 2 = 1 then -r else r
    let l := f.getLastD 0
    if r % l = 0 then some (r / l) else none

/-- Euclid over ℚ: last non-zero remainder (some gcd of `a`, `b` in ℚ[x]) -/
def ratGcd : Nat → List Rat → List Rat → List Rat
  | 0, a, _ => a
  | fuel + 1, a, b => if b.isEmpty then a else ratGcd fuel b (NTV.PolyG.divRemRat a b).2

/-- degree of the gcd in ℚ[x] of two integer polynomials, not both zero -/
def gcdDegQ (f g : List Int) : Nat :=
  let a := toQ (norm f)
  let b := toQ (norm g)
  (ratGcd (b.length + 2) a b).length - 1

/-- gcd of the coefficients (non-negative) -/
def contentAbs (f : List Int) : Nat := f.foldl (fun g c => Nat.gcd g c.natAbs) 0

/-- `d` divides `f` exactly in Z[x]; returns the cofactor (checked by multiplying back) -/
def cofactor (f d : List Int) : Option (List Int) :=
  match NTV.PolyG.divExact f d with
  | some q => if mulSpec q d == norm f then some q else none
  | none => none

/-- The gcd property of C10 for non-zero `f`, `g` and a claimed gcd `d`; `ok` or the reason. -/
def gcdVerdict (f g d : List Int) : String :=
  if !canon d || d.isEmpty then "fail:gcd-not-canonical-nonzero"
  else if d.getLastD 0 ≤ 0 then "fail:leading-coefficient-not-positive"
  else
    match cofactor f d, cofactor g d with
    | some f1, some g1 =>
      if gcdDegQ f1 g1 != 0 then "fail:cofactors-share-a-root"
      else if Nat.gcd (contentAbs f1) (contentAbs g1) != 1 then "fail:cofactor-contents-not-coprime"
      else if contentAbs d != Nat.gcd (contentAbs f) (contentAbs g) then "fail:content-rule"
      else if d.length - 1 + sylvesterRank f g != (f.length - 1) + (g.length - 1) then "fail:degree-vs-sylvester-rank"
      else "ok"
    | none, _ => "fail:does-not-divide-f"
    | _, none => "fail:does-not-divide-g"

/-- f(x + c) by Horner with convolution products -/
def shift (f : List Int) (c : Int) : List Int :=
  f.foldr (fun a acc => addSpec (mulSpec acc [c, 1]) (norm [a])) []

/-- f(-x) -/
def negArg (f : List Int) : List Int := f.mapIdx (fun i a => if i % 2 = 1 then -a else a)

end NTV.Spec.Res
