import NTV.Spec.Mat
import NTV.Model.Trial
/-! Specification-side oracle for C06: "the integral-basis routine returns the maximal order".
Everything here is written independently of the Round 2 code under test (no HNF kernels, no
`solve_linear_system`, no arithmetic modulo p²):

* arithmetic in K = ℚ[x]/(f): convolution product followed by a top-down remainder;
* coordinates with respect to a lower-triangular basis by back-substitution;
* discriminant of a module as the determinant of the trace form `Tr(b_i b_j)`;
* p-maximality by the Pohst–Zassenhaus criterion evaluated with Gaussian elimination over F_p, and,
  for small `p^n`, by the definition (no element of (1/p)O \ O is an algebraic integer).

Uses `NTV.Trial.factorize` (proved correct) to find the primes whose square divides the discriminant
and `NTV.Spec.Mat` (`isHNF`, `qdet`, `mul`). Import-free otherwise. -/
namespace NTV.Spec.MaxOrder
open NTV.Spec.Mat (isHNF qdet)

abbrev QMat := List (List Rat)
abbrev IMat := List (List Int)
abbrev Table := List (List (List Int))

def toQ (f : List Int) : List Rat := f.map (fun (x : Int) => (x : Rat))
def pad (n : Nat) (a : List Rat) : List Rat := (a ++ List.replicate (n - a.length) 0).take n

/-! ### K = ℚ[x]/(f), elements = coefficient vectors of length n = deg f -/

/-- convolution product of two coefficient lists -/
def conv (a b : List Rat) : List Rat :=
  if a.isEmpty || b.isEmpty then []
  else (List.range (a.length + b.length - 1)).map (fun k =>
    (List.range (k + 1)).foldl (fun s i => s + a.getD i 0 * b.getD (k - i) 0) 0)

/-- `a` has `m + 1 > n` coefficients: subtract `(a_m / f_n) x^(m−n) f` and drop the (now zero) top -/
def remTop (f : List Rat) (n : Nat) (a : List Rat) : List Rat :=
  let m := a.length - 1
  let c := a.getD m 0 / f.getD n 0
  (List.range m).map (fun i => if i + n ≥ m then a.getD i 0 - c * f.getD (i + n - m) 0 else a.getD i 0)

/-- remainder modulo `f` (at most `fuel` eliminations) -/
def remF (f : List Rat) (n : Nat) : Nat → List Rat → List Rat
  | 0, a => a
  | k + 1, a => if a.length > n then remF f n k (remTop f n a) else a

/-- product in K -/
def mulK (f : List Rat) (n : Nat) (a b : List Rat) : List Rat :=
  let c := conv a b
  pad n (remF f n c.length c)

/-- `a · θ` in K -/
def mulTheta (f : List Rat) (n : Nat) (a : List Rat) : List Rat :=
  pad n (remF f n 2 ((0 : Rat) :: a))

def addV (a b : List Rat) : List Rat := List.zipWith (· + ·) a b
def smulV (c : Rat) (a : List Rat) : List Rat := a.map (c * ·)

/-- θ^0, θ^1, …, θ^(count−1) -/
def powers (f : List Rat) (n count : Nat) : List (List Rat) :=
  ((List.range count).foldl (fun (st : List (List Rat) × List Rat) _ =>
    (st.2 :: st.1, mulTheta f n st.2)) ([], pad n [1])).1.reverse

/-- `Tr_{K/ℚ}(θ^m)` for `m < n`: the trace of the matrix of multiplication by θ^m on 1, θ, …, θ^(n−1),
i.e. `Σ_k [θ^k] (θ^(m+k))` -/
def traceTheta (f : List Rat) (n : Nat) : List Rat :=
  let pw := powers f n (2 * n)
  (List.range n).map (fun m => (List.range n).foldl (fun s k => s + (pw.getD (m + k) []).getD k 0) 0)

def traceK (trTheta : List Rat) (a : List Rat) : Rat :=
  (List.zipWith (· * ·) a trTheta).foldl (· + ·) 0

/-- discriminant of the ℤ-module spanned by the rows of `b`: `det (Tr(b_i b_j))` -/
def discOf (f : List Rat) (n : Nat) (b : QMat) : Rat :=
  let tr := traceTheta f n
  qdet (b.map (fun bi => b.map (fun bj => traceK tr (mulK f n bi bj))))

/-! ### lower-triangular bases -/

def lcmDen (b : QMat) : Nat := b.foldl (fun l row => row.foldl (fun l e => Nat.lcm l e.den) l) 1
def scaled (b : QMat) (l : Nat) : IMat := b.map (fun row => row.map (fun e => (e * (l : Rat)).num))

/-- `b` is `n × n` and, after clearing denominators by their lcm, in Hermite normal form (lower
triangular, positive diagonal, entries below a diagonal entry reduced into `[0, diagonal)`). This is
the unique normal form of the module, so two equal modules have textually equal bases; it also
certifies full rank. -/
def canonical (b : QMat) (n : Nat) : Bool :=
  b.length == n && b.all (fun r => r.length == n) && isHNF (scaled b (lcmDen b))

/-- coordinates `x` with `x · b = v` for lower-triangular `b` with non-zero diagonal, by
back-substitution from the last coordinate; `none` if `v` is not in the ℚ-span (never for full rank) -/
def coords (b : QMat) (n : Nat) (v : List Rat) : Option (List Rat) :=
  let st := (List.range n).reverse.foldl (fun (st : List Rat × List Rat) i =>
    let row := b.getD i []
    let x := st.1.getD i 0 / row.getD i 0
    (List.zipWith (fun a r => a - x * r) st.1 row, x :: st.2)) (v, [])
  if st.1.all (· == 0) then some st.2 else none

def integral (x : List Rat) : Bool := x.all (fun e => e.den == 1)

/-- integer coordinates of `v` in the basis `b`, if `v` lies in the module -/
def intCoords (b : QMat) (n : Nat) (v : List Rat) : Option (List Int) :=
  match coords b n v with
  | some x => if integral x then some (x.map (·.num)) else none
  | none => none

def diagProd (b : QMat) : Rat := (List.range b.length).foldl (fun d i => d * (b.getD i []).getD i 0) 1

/-- the starting order ℤ[θ] ∩ ℤ[1/θ] of f = a_n x^n + … + a_0: ω_0 = 1, ω_1 = a_n θ,
ω_i = θ ω_(i−1) + a_(n−i+1) θ, i.e. ω_i = a_n θ^i + a_(n−1) θ^(i−1) + … + a_(n−i+1) θ (i < n) -/
def startOrder (f : List Int) (n : Nat) : QMat :=
  let fq := toQ f
  let one := pad n [1]
  let thetaTimes (c : Int) : List Rat := mulTheta fq n (smulV (c : Rat) one)
  ((List.range (n - 1)).foldl (fun (st : QMat × List Rat) t =>
    let i := t + 1
    let w := if i = 1 then thetaTimes (f.getD n 0)
      else addV (mulTheta fq n st.2) (thetaTimes (f.getD (n - i + 1) 0))
    (st.1 ++ [w], w)) ([one], one)).1

/-- multiplication table of a basis: `b_i b_j = Σ_k t[i][j][k] b_k`; `none` if some product is not in
the module (the module is not a ring) -/
def multTable (f : List Rat) (n : Nat) (b : QMat) : Option Table :=
  b.mapM (fun bi => b.mapM (fun bj => intCoords b n (mulK f n bi bj)))

/-! ### linear algebra over F_p (entries are naturals in `[0, p)`) -/

def powModAux (p : Nat) : Nat → Nat → Nat → Nat → Nat
  | 0, _, _, acc => acc
  | fuel + 1, a, e, acc =>
    if e = 0 then acc
    else powModAux p fuel (a * a % p) (e / 2) (if e % 2 = 1 then acc * a % p else acc)
def powMod (a e p : Nat) : Nat := powModAux p (e.log2 + 2) (a % p) e (1 % p)
/-- inverse of a unit modulo the prime `p` (Fermat) -/
def invMod (a p : Nat) : Nat := powMod a (p - 2) p

def subMulFp (p : Nat) (r piv : List Nat) (c : Nat) : List Nat :=
  -- r − c·piv  (mod p)
  List.zipWith (fun x y => (x + (p - c * y % p)) % p) r piv

structure Ech where
  /-- pivot rows found so far (latest first), each with its pivot column; reduced against each other -/
  done : List (Nat × List Nat)
  /-- rows with zeros in all columns treated so far -/
  rest : List (List Nat)

/-- Gauss–Jordan on the first `ncols` columns -/
def echelon (p ncols : Nat) (rows : List (List Nat)) : Ech :=
  (List.range ncols).foldl (fun (st : Ech) c =>
    match st.rest.find? (fun r => r.getD c 0 != 0) with
    | none => st
    | some r =>
      let inv := invMod (r.getD c 0) p
      let piv := r.map (fun x => x * inv % p)
      let elim := fun (row : List Nat) => subMulFp p row piv (row.getD c 0)
      let rest := (st.rest.eraseP (fun r => r.getD c 0 != 0)).map elim
      { done := (c, piv) :: st.done.map (fun d => (d.1, elim d.2)), rest := rest }) ⟨[], rows⟩

def rankFp (p ncols : Nat) (rows : List (List Nat)) : Nat := (echelon p ncols rows).done.length

def unitVec (n i : Nat) : List Nat := (List.range n).map (fun j => if i = j then 1 else 0)

/-- reduced echelon basis (pivot column, vector) of the left kernel `{c : c · M = 0}` of the
`n × m` matrix `M` over F_p: eliminate on `[M | I]`; the rows whose `M`-part vanishes carry the
kernel in their `I`-part; then bring those to reduced echelon form -/
def leftKernelFp (p n m : Nat) (mat : List (List Nat)) : List (Nat × List Nat) :=
  let aug := mat.mapIdx (fun i r => r ++ unitVec n i)
  let ker := (echelon p m aug).rest.map (fun r => r.drop m)
  ((echelon p n ker).done).reverse

/-! ### p-maximality -/

def modP (p : Nat) (x : Int) : Nat := (x % (p : Int)).toNat

def tableModP (p : Nat) (t : Table) : List (List (List Nat)) := t.map (fun ti => ti.map (fun tij => tij.map (modP p)))

/-- product in O/pO (coordinates in the basis of O) -/
def mulFp (p n : Nat) (tp : List (List (List Nat))) (a b : List Nat) : List Nat :=
  (List.range n).map (fun k =>
    (List.range n).foldl (fun s i => (List.range n).foldl (fun s j =>
      (s + a.getD i 0 * b.getD j 0 % p * (((tp.getD i []).getD j []).getD k 0)) % p) s) 0)

def powFpAux (p n : Nat) (tp : List (List (List Nat))) : Nat → List Nat → Nat → List Nat → List Nat
  | 0, _, _, acc => acc
  | fuel + 1, a, e, acc =>
    if e = 0 then acc
    else powFpAux p n tp fuel (mulFp p n tp a a) (e / 2) (if e % 2 = 1 then mulFp p n tp acc a else acc)
/-- `a^e` in O/pO for `e ≥ 1` -/
def powFp (p n : Nat) (tp : List (List (List Nat))) (a : List Nat) (e : Nat) : List Nat :=
  powFpAux p n tp (e.log2 + 2) a (e - 1) a

/-- smallest power of `p` that is `≥ n` -/
def frobExp (p n : Nat) : Nat := (List.range n).foldl (fun q _ => if q < n then q * p else q) 1

/-- The p-radical of O modulo pO: `I_p / pO = {x ∈ O/pO : x nilpotent}`. O/pO is a commutative
F_p-algebra of dimension n, so `x ↦ x^q` (q = p^j ≥ n) is F_p-linear and its kernel is exactly the set
of nilpotent elements. Returned as a reduced echelon basis (pivot column, vector). -/
def radicalFp (p n : Nat) (t : Table) : List (Nat × List Nat) :=
  let tp := tableModP p t
  let q := frobExp p n
  let phi := (List.range n).map (fun i => powFp p n tp (unitVec n i) q)
  -- x = Σ c_i w_i ↦ Σ c_i φ(w_i): the kernel is the left kernel of the matrix with rows φ(w_i)
  leftKernelFp p n n phi

/-- Pohst–Zassenhaus: with I_p the p-radical of O (the preimage of the radical of O/pO),
`O' = {x ∈ K : x I_p ⊆ I_p}` is an order containing O, contained in (1/p)O, and `O' = O` iff O is
p-maximal. Now `pO' = {y ∈ O : y I_p ⊆ p I_p}` ⊇ pO is the kernel of `O → End(I_p / p I_p)`,
`y ↦ (multiplication by y)`, so O is p-maximal iff the induced F_p-linear map
`O/pO → End_{F_p}(I_p / p I_p)` is injective.

A ℤ-basis of I_p: the lifts `g_i` of the reduced echelon basis of the radical (pivot columns `c_i`)
together with `p · e_c` for the non-pivot columns `c`. Coordinates of an integer vector `v ∈ I_p` in
this basis: `y_i = v[c_i]`; then `v − Σ y_i g_i` vanishes at the pivot columns and is divisible by p
elsewhere. The images of the `g`s form an F_p-basis of `I_p / p I_p`, and the matrix of `w_i` acting
there is the matrix of these coordinates reduced modulo p. The map is injective iff the `n` flattened
matrices are linearly independent over F_p.

Returns `none` if some `w_i g_k` does not lie in I_p (impossible for an ideal: internal error). -/
def pzMaximal (p n : Nat) (t : Table) : Option Bool :=
  let rad := radicalFp p n t
  let pivots := rad.map (·.1)
  let nonPiv := (List.range n).filter (fun c => !pivots.contains c)
  let gRad : IMat := rad.map (fun r => r.2.map (fun (x : Nat) => (x : Int)))
  let gAll : IMat := gRad ++ nonPiv.map (fun c => (List.range n).map (fun j => if j = c then (p : Int) else 0))
  let coordsG (v : List Int) : Option (List Int) :=
    let ys := pivots.map (fun c => v.getD c 0)
    let resid := (List.zip ys gRad).foldl (fun acc yg => List.zipWith (fun a g => a - yg.1 * g) acc yg.2) v
    if nonPiv.all (fun c => resid.getD c 0 % (p : Int) == 0) && pivots.all (fun c => resid.getD c 0 == 0)
    then some (ys ++ nonPiv.map (fun c => resid.getD c 0 / (p : Int))) else none
  -- w_i · g (coordinates in the basis of O): Σ_j g[j] · t[i][j]
  let timesW (i : Nat) (g : List Int) : List Int :=
    (List.zip g (t.getD i [])).foldl (fun acc gt => List.zipWith (fun a x => a + gt.1 * x) acc gt.2)
      (List.replicate n 0)
  let rows := (List.range n).mapM (fun i =>
    (gAll.mapM (fun g => coordsG (timesW i g))).map (fun m => (m.map (fun r => r.map (modP p))).flatten))
  match rows with
  | none => none
  | some rows => some (rankFp p (n * n) rows == n)

/-- all vectors of length `len` with entries in `[0, p)` -/
def allVecs (p : Nat) : Nat → List (List Nat)
  | 0 => [[]]
  | len + 1 => (allVecs p len).flatMap (fun v => (List.range p).map (fun x => x :: v))

/-- one representative of every line in F_p^n: first non-zero coordinate equal to 1 -/
def projPoints (p n : Nat) : List (List Nat) :=
  (List.range n).flatMap (fun t => (allVecs p (n - 1 - t)).map (fun tail => List.replicate t 0 ++ [1] ++ tail))

/-- characteristic polynomial `λ^n + c_1 λ^(n−1) + … + c_n` of an integer matrix by
Faddeev–LeVerrier (`M_1 = I`, `c_k = −tr(A M_k)/k`, `M_(k+1) = A M_k + c_k I`); returns `[c_1, …, c_n]` -/
def charPoly (a : IMat) : List Int :=
  let n := a.length
  let idn := NTV.Spec.Mat.identity n
  ((List.range n).foldl (fun (st : IMat × List Int) (k : Nat) =>
    let am := NTV.Spec.Mat.mul a st.1
    let tr := (List.range n).foldl (fun s i => s + (am.getD i []).getD i 0) 0
    let c := -tr / (((k + 1 : Nat) : Int))
    (List.zipWith (fun r ir => List.zipWith (fun x y => x + c * y) r ir) am idn, st.2 ++ [c])) (idn, [])).2

/-- number of lines in F_p^n, capped -/
def numLines (p n : Nat) : Nat := (List.range n).foldl (fun s t => s + p ^ (n - 1 - t)) 0

/-- The definition: O is p-maximal iff no order contains it with index divisible by p. If O ⊊ O' with
p-power index, O'/O has an element of order p, i.e. some `α = (Σ c_i w_i)/p` with `c ≢ 0 mod p` is an
algebraic integer; conversely such an α generates a larger order O[α]. α is integral iff its
characteristic polynomial `det(λ − A/p)`, `A` = matrix of multiplication by `Σ c_i w_i` on the basis of
O, has integer coefficients: `p^k | c_k(A)`. It suffices to try one `c` per line of F_p^n (if α is
integral so is every ℤ-multiple, and changing `c` by a multiple of p changes α by an element of O).
`some w` = a witness `c` (O is not p-maximal), `none` = p-maximal. -/
def bruteWitness (p n : Nat) (t : Table) : Option (List Nat) :=
  (projPoints p n).find? (fun c =>
    let a : IMat := (List.range n).map (fun j => (List.range n).map (fun k =>
      (List.range n).foldl (fun s i => s + (c.getD i 0 : Int) * (((t.getD i []).getD j []).getD k 0)) 0))
    let cs := charPoly a
    (List.range n).all (fun k => cs.getD k 0 % ((p : Int) ^ (k + 1)) == 0))

/-- primes whose square divides `d ≠ 0` -/
def squarePrimes (d : Int) : List Nat :=
  ((NTV.Trial.factorize d.natAbs).filter (fun pe => pe.2 ≥ 2)).map (·.1)

/-- bound on the number of lines for the definitional test -/
def bruteBound : Nat := 400

/-- p-maximality verdict for one prime: `none` = maximal; `some why` otherwise -/
def maximalAt (p n : Nat) (t : Table) : Option String :=
  let brute := if numLines p n ≤ bruteBound then some (bruteWitness p n t) else none
  match pzMaximal p n t, brute with
  | none, _ => some s!"skip:internal-radical-not-an-ideal-at-{p}"
  | some true, none => none
  | some true, some none => none
  | some false, none => some s!"fail:not-maximal-at-{p}"
  | some false, some (some _) => some s!"fail:not-maximal-at-{p}"
  | some true, some (some w) => some s!"fail:integral-element-outside-at-{p}-witness-{w}-but-criterion-says-maximal"
  | some false, some none => some s!"fail:criterion-says-not-maximal-at-{p}-but-no-integral-element-outside"

/-- The whole property on (f, B). `implDisc` / `implIndex`: the discriminant and the index over the
starting order as reported by the implementation (checked against the oracle's own values).
Returns `ok`, `fail:<why>` or `skip:<why>`. -/
def verdict (f : List Int) (b : QMat) (implDisc implIndex : Option Int) : String :=
  let n := f.length - 1
  if f.length < 2 || f.getLastD 0 == 0 then "skip:outside-domain"
  else
    let fq := toQ f
    let s := startOrder f n
    let discS := discOf fq n s
    if discS == 0 then "skip:outside-domain-f-not-squarefree"
    else if !canonical b n then "fail:basis-not-square-canonical-full-rank"
    else if (intCoords b n (pad n [1])).isNone then "fail:one-not-in-module"
    else match multTable fq n b with
    | none => "fail:not-closed-under-multiplication"
    | some t =>
      if !(s.all (fun w => (intCoords b n w).isSome)) then "fail:starting-order-not-contained"
      else
        -- both bases are lower triangular; B has positive diagonal
        let idx := (diagProd s) / (diagProd b)
        let idx := if idx < 0 then -idx else idx
        let discB := discOf fq n b
        if idx.den != 1 || idx.num < 1 then "fail:index-not-a-positive-integer"
        else if discB.den != 1 then "fail:discriminant-not-an-integer"
        else if discB * idx * idx != discS then "fail:discriminant-is-not-start-discriminant-over-index-squared"
        else if implIndex.any (fun i => i != idx.num) then "fail:reported-index-differs"
        else if implDisc.any (fun d => d != discB.num) then "fail:reported-discriminant-differs"
        else
          match (squarePrimes discB.num).findSome? (fun p => maximalAt p n t) with
          | some why => why
          | none => "ok"

/-- discriminant of the module (for the drivers) -/
def discInt (f : List Int) (b : QMat) : Option Int :=
  let d := discOf (toQ f) (f.length - 1) b
  if d.den == 1 then some d.num else none

end NTV.Spec.MaxOrder
