import NTV.Model.Polynomial
/-! Executable sufficient condition on the modulus bound of the Berlekamp–Zassenhaus recombination
(`get_factors_of_squarefree` in src/poly_z/mod.rs). The correctness proof uses the bound in exactly one
place: every coefficient of a true factor, scaled by the cofactor's leading coefficient, must lie in the
symmetric residue range of the modulus `pe > bound`. By Landau–Mignotte that holds as soon as
`2^n · ‖a‖₁ < bound` (n = deg a); theorem `NTV.PolyZ.mignotte_for_boundOk`. The check asks the running
implementation (through the hook `poly_z::verif::take_bounds`) for the bound it actually chose and
evaluates this predicate on it. Import-free apart from `NTV.Model.Polynomial`. -/
namespace NTV.Spec.PolyZ

/-- `2^(deg a) · Σ|a_i| < B` -/
def boundOk (a : List Int) (B : Int) : Bool :=
  decide (2 ^ (a.length - 1) *
    (List.range (a.length - 1 + 1)).foldl (fun s i => s + ((NTV.PolyG.coefAt a i).natAbs : Int)) 0 < B)

end NTV.Spec.PolyZ
