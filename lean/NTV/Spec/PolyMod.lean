import NTV.Spec.Poly
import NTV.Spec.Elementary
/-! Specification oracles for the polynomial-arithmetic-modulo-p layer (C12, C11, C08 and the
primitives of prim.rs). Written independently of the algorithms under test: a small F_p[x] library on
canonical residues (`Int.emod`, convolution products, leading-term long division on high-degree-first
lists, Euclid with monic normalisation, inverses by the integer Euclidean algorithm) and on top of it
brute-force root counting, Rabin's irreducibility test (cross-checked against trial division by every
monic polynomial of at most half the degree when that is a small search) and the Hensel congruences.
Import-free apart from `NTV.Spec.*`. Polynomials are coefficient lists, low degree first. -/
namespace NTV.Spec.PolyMod
open NTV.Spec.Poly

abbrev Poly := List Int

/-- known primes beyond the range of `isPrimeRef` (2^64 + 13, 2^89 − 1, 2^107 − 1, 2^127 − 1) -/
def knownBigPrimes : List Nat :=
  [18446744073709551629, 618970019642690137449562111, 162259276829213363391578010288127,
   170141183460469231731687303715884105727]

/-- primality of the modulus as far as the oracle can tell: `none` = cannot decide -/
def primeModulus (p : Int) : Option Bool :=
  if p < 2 then some false
  else match NTV.Spec.Elem.isPrimeRef p.toNat with
    | some b => some b
    | none => if knownBigPrimes.contains p.toNat then some true else none

/-- canonical with all coefficients in [0, m) -/
def reduced (m : Int) (f : Poly) : Bool := canon f && f.all (fun c => decide (0 ≤ c) && decide (c < m))

/-- reduction to canonical residues modulo m > 0 -/
def red (m : Int) (f : Poly) : Poly := norm (f.map (fun c => c % m))

def degree (f : Poly) : Nat := f.length - 1
def lead (f : Poly) : Int := f.getLastD 0
def isMonic (f : Poly) : Bool := lead f == 1

/-- convolution product modulo m (array indexing) -/
def mulP (m : Int) (a b : Poly) : Poly :=
  if a.isEmpty || b.isEmpty then []
  else
    let A := a.toArray
    let B := b.toArray
    red m ((List.range (A.size + B.size - 1)).map (fun k =>
      (List.range (k + 1)).foldl (fun acc i => acc + A.getD i 0 * B.getD (k - i) 0) 0))

def addP (m : Int) (a b : Poly) : Poly := red m (addSpec a b)
def subP (m : Int) (a b : Poly) : Poly := red m (subSpec a b)
def scaleP (m : Int) (c : Int) (a : Poly) : Poly := red m (a.map (fun x => c * x))

def prodP (m : Int) (fs : List Poly) : Poly := fs.foldl (fun acc f => mulP m acc f) (red m [1])

def powP (m : Int) (f : Poly) : Nat → Poly
  | 0 => red m [1]
  | n + 1 => mulP m (powP m f n) f

/-- Euclid on integers: `(r0, r1, t0, t1)` with `t_i · x ≡ r_i (mod m)` -/
def invLoop : Nat → Int → Int → Int → Int → Int × Int
  | 0, r0, _, t0, _ => (r0, t0)
  | f + 1, r0, r1, t0, t1 =>
    if r1 = 0 then (r0, t0) else invLoop f r1 (r0 % r1) t1 (t0 - (r0 / r1) * t1)

/-- inverse of x modulo m (m ≥ 2) if gcd(x, m) = 1, else 0 -/
def invMod (m x : Int) : Int :=
  let x := x % m
  let (g, t) := invLoop (2 * m.toNat.log2 + 4) m x 0 1
  if g = 1 && (t * x) % m = 1 % m then t % m else 0

/-- value at a, by direct Horner on residues -/
def evalP (m : Int) (f : Poly) (a : Int) : Int := f.foldr (fun c acc => (acc * a + c) % m) 0

/-- monic associate (p prime) -/
def monicP (p : Int) (f : Poly) : Poly :=
  let f := red p f
  if f.isEmpty then [] else scaleP p (invMod p (lead f)) f

def zipSubHF (c p : Int) : List Int → List Int → List Int
  | r :: rs, g :: gs => ((r - c * g) % p) :: zipSubHF c p rs gs
  | rs, [] => rs
  | [], _ => []

/-- leading-term cancellation on high-degree-first lists: `n` steps, each removing the leading
coefficient of the running dividend -/
def divStepsHF (p ginv : Int) (gTail : List Int) : Nat → List Int → List Int → List Int × List Int
  | 0, aHF, q => (q, aHF)
  | _ + 1, [], q => (q, [])
  | n + 1, top :: rest, q =>
    let c := (top * ginv) % p
    divStepsHF p ginv gTail n (zipSubHF c p rest gTail) (c :: q)

/-- quotient and remainder in F_p[x] (p prime); division by 0 returns (0, a) -/
def divModP (p : Int) (a b : Poly) : Poly × Poly :=
  let a := red p a
  let b := red p b
  if b.isEmpty || a.length < b.length then ([], a)
  else
    match b.reverse with
    | [] => ([], a)
    | lcb :: gTail =>
      let (q, rHF) := divStepsHF p (invMod p lcb) gTail (a.length - b.length + 1) a.reverse []
      (norm q, norm rHF.reverse)

def modP (p : Int) (a b : Poly) : Poly := (divModP p a b).2

def gcdLoop (p : Int) : Nat → Poly → Poly → Poly
  | 0, a, _ => a
  | f + 1, a, b => if b.isEmpty then a else gcdLoop p f b (modP p a b)

/-- monic gcd in F_p[x] (0 for two zero arguments) -/
def gcdP (p : Int) (a b : Poly) : Poly :=
  monicP p (gcdLoop p (a.length + b.length + 2) (red p a) (red p b))

/-- b^e mod (g, p), by binary powering on the digits of e (fuel = bit length) -/
def powModLoop (p : Int) (g : Poly) : Nat → Poly → Nat → Poly → Poly
  | 0, _, _, acc => acc
  | f + 1, b, e, acc =>
    if e = 0 then acc
    else powModLoop p g f (modP p (mulP p b b) g) (e / 2) (if e % 2 = 1 then modP p (mulP p acc b) g else acc)

def powModP (p : Int) (g b : Poly) (e : Nat) : Poly :=
  powModLoop p g (e.log2 + 1) (modP p b g) e (modP p [1] g)

/-- h(y) mod (g, p) by Horner: substitution of the residue y into h -/
def composeP (p : Int) (g h y : Poly) : Poly :=
  h.foldr (fun c acc => addP p (modP p (mulP p acc y) g) [c]) []

/-- x^(p^i) mod g for i = 0..n, as a list. The next Frobenius power of h is h^p, computed either by
binary powering (small p) or as h(x^p) (coefficients in F_p are fixed by Frobenius), n multiplications -/
def frobList (p : Int) (g : Poly) (xp : Poly) : Nat → Poly → List Poly
  | 0, h => [h]
  | n + 1, h => h :: frobList p g xp n (if p ≤ 64 then powModP p g h p.toNat else composeP p g h xp)

def primeDivisors (n : Nat) : List Nat := (NTV.Trial.factorize n).map (·.1)

/-- Rabin's test for a monic g of degree n ≥ 1 over F_p: x^(p^n) ≡ x (mod g) and
gcd(x^(p^(n/q)) − x, g) = 1 for every prime q | n -/
def rabin (p : Int) (g : Poly) : Bool :=
  let g := red p g
  let n := degree g
  if g.length < 2 then false
  else if n = 1 then true
  else
    let x : Poly := modP p [0, 1] g
    let fr := frobList p g (powModP p g x p.toNat) n x
    subP p (fr.getD n []) x == [] &&
      (primeDivisors n).all (fun q => gcdP p (subP p (fr.getD (n / q) []) x) g == [1])

/-- all coefficient lists of length k over [0, p) -/
def allLists (p : Nat) : Nat → List (List Int)
  | 0 => [[]]
  | k + 1 => (allLists p k).flatMap (fun l => (List.range p).map (fun (c : Nat) => (c : Int) :: l))

/-- number of monic polynomials of degree 1..k over F_p -/
def searchSize (p : Nat) (k : Nat) : Nat := (List.range k).foldl (fun acc i => acc + p ^ (i + 1)) 0

/-- irreducibility from the definition: no monic divisor of degree 1..⌊n/2⌋ -/
def bruteIrreducible (p : Int) (g : Poly) : Bool :=
  let g := red p g
  let n := degree g
  g.length ≥ 2 &&
    (List.range (n / 2)).all (fun i =>
      (allLists p.toNat (i + 1)).all (fun l => modP p g (l ++ [1]) != []))

/-- irreducibility over F_p: Rabin, cross-checked by brute force when the search is small;
`none` = the two disagree (an oracle bug, never expected) -/
def irreducible (p : Int) (g : Poly) : Option Bool :=
  let r := rabin p g
  if searchSize p.toNat (degree (red p g) / 2) ≤ 3000 then
    (if bruteIrreducible p g == r then some r else none)
  else some r

/-! ### C12: roots with multiplicity -/

/-- multiplicity of the root a of f (f ≢ 0): repeated exact division by (x − a) -/
def rootMult (p : Int) (a : Int) : Nat → Poly → Nat
  | 0, _ => 0
  | fuel + 1, f =>
    if f.isEmpty then 0
    else
      let (q, r) := divModP p f [(-a) % p, 1]
      if r.isEmpty then 1 + rootMult p a fuel q else 0

/-- all roots of f mod p in [0, p) with multiplicity, ascending (brute force over the residues) -/
def rootsBrute (p : Int) (f : Poly) : List Int :=
  let f := red p f
  (List.range p.toNat).flatMap (fun (n : Nat) =>
    let a : Int := n
    if evalP p f a == 0 then List.replicate (rootMult p a f.length f) a else [])

def insertSorted (x : Int) : List Int → List Int
  | [] => [x]
  | y :: ys => if x ≤ y then x :: y :: ys else y :: insertSorted x ys

def sortInts (l : List Int) : List Int := l.foldr insertSorted []

/-- Certifies that the (untrusted) multiset `planted` is exactly the multiset of roots of f in F_p:
dividing f by every (x − r) leaves no remainder, and the cofactor g has no root at all:
gcd(x^p − x, g) = 1. -/
def rootsCertified (p : Int) (f : Poly) (planted : List Int) : Bool :=
  let f := red p f
  let step : Option Poly → Int → Option Poly := fun acc r =>
    match acc with
    | none => none
    | some g =>
      let (q, rem) := divModP p g [(-r) % p, 1]
      if rem.isEmpty && !g.isEmpty then some q else none
  match planted.foldl step (some f) with
  | none => false
  | some g =>
    planted.all (fun r => decide (0 ≤ r) && decide (r < p)) &&
    (g.length ≤ 1 ||
      gcdP p (subP p (powModP p g [0, 1] p.toNat) [0, 1]) g == [1])

/-! ### C11: Hensel lifting -/

/-- the conclusion of C11 for the lifted factors `gs` -/
def liftOk (p : Int) (e : Nat) (c : Poly) (fs gs : List Poly) : Bool :=
  let q := p ^ e
  gs.length == fs.length &&
  (List.zip fs gs).all (fun (f, g) =>
    reduced q g && isMonic g && g.length == f.length && red p g == red p f) &&
  prodP q gs == scaleP q (invMod q (lead c)) c &&
  (e != 1 || gs == fs)

/-- the hypotheses of C11: p prime is checked by the caller; p ∤ lc(c), the f_i monic with
coefficients in [0, p), of degree ≥ 1, pairwise distinct, irreducible, with product c / lc(c) mod p.
`none` = irreducibility oracle inconsistent. -/
def liftPre (p : Int) (c : Poly) (fs : List Poly) : Option Bool :=
  let basic := !c.isEmpty && lead c % p != 0 &&
    fs.all (fun f => reduced p f && isMonic f && f.length ≥ 2) &&
    fs.eraseDups.length == fs.length &&
    prodP p fs == monicP p c
  if !basic then some false
  else fs.foldl (fun acc f => match acc, irreducible p f with
    | some b, some i => some (b && i)
    | _, _ => none) (some true)

/-- a·u + b·v ≡ 1 (mod p) -/
def bezoutOk (p : Int) (a b u v : Poly) : Bool :=
  addP p (mulP p a u) (mulP p b v) == red p [1]

/-! ### C08: factorization -/

/-- the conclusion of C08 (without irreducibility): shape, distinctness and product -/
def factorShapeOk (p : Int) (f : Poly) (fac : List (Poly × Nat)) : Bool :=
  fac.all (fun (g, e) => reduced p g && isMonic g && g.length ≥ 2 && e ≥ 1) &&
  (fac.map (·.1)).eraseDups.length == fac.length &&
  fac.foldl (fun acc (g, e) => mulP p acc (powP p g e)) (red p [1]) == monicP p f &&
  (fac.isEmpty == ((red p f).length ≤ 1))

def allIrreducible (p : Int) (fac : List (Poly × Nat)) : Option Bool :=
  fac.foldl (fun acc (g, _) => match acc, irreducible p g with
    | some b, some i => some (b && i)
    | _, _ => none) (some true)

end NTV.Spec.PolyMod
