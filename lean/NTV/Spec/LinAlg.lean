import NTV.Spec.Mat
import NTV.Model.Inv
/-! Specification-side oracles for C18 (exact rational linear algebra). Nothing here uses the
routines of `NTV.Model.LinAlg`: determinants are expanded by cofactors (the Leibniz sum grouped by
the first row), inverses come from the adjugate, ranks over ℚ from `Spec.Mat.rankDet`, ranks over
F_p from a separate row reduction that uses the proved modular inverse `NTV.inv`. Import-free. -/
namespace NTV.Spec.LinAlg
open NTV.Spec.Mat (QMat IMat qent qrank qdet)

def width {α : Type} (a : List (List α)) : Nat := (a.headD []).length
def isShape {α : Type} (a : List (List α)) (n m : Nat) : Bool :=
  a.length == n && a.all (fun r => r.length == m)
def isSquare {α : Type} (a : List (List α)) : Bool := isShape a a.length a.length

/-! ### products -/
def qdot (u v : List Rat) : Rat := (List.zipWith (· * ·) u v).foldl (· + ·) 0
def qtranspose (a : QMat) (m : Nat) : QMat := (List.range m).map (fun j => a.map (fun r => r.getD j 0))
/-- `a * b` where `b` has `m` columns -/
def qmul (a b : QMat) (m : Nat) : QMat :=
  let bt := qtranspose b m
  a.map (fun r => bt.map (fun c => qdot r c))
def qvecMul (x : List Rat) (a : QMat) (m : Nat) : List Rat := (qtranspose a m).map (fun c => qdot x c)
def qidentity (n : Nat) : QMat :=
  (List.range n).map (fun i => (List.range n).map (fun j => if i = j then 1 else 0))
def toQ (a : IMat) : QMat := a.map (fun r => r.map (fun (x : Int) => (x : Rat)))

/-! ### Leibniz determinant by cofactor expansion along the first row -/
def minor (a : QMat) (i j : Nat) : QMat := (a.eraseIdx i).map (fun r => r.eraseIdx j)

/-- determinant of the leading `n × n` matrix `a` (`n` = number of rows) -/
def cofDet : Nat → QMat → Rat
  | 0, _ => 1
  | n + 1, a =>
    let r0 := a.headD []
    (List.range (n + 1)).foldl (fun acc j =>
      let x := r0.getD j 0
      if x == 0 then acc
      else
        let t := x * cofDet n (minor a 0 j)
        if j % 2 == 0 then acc + t else acc - t) 0

/-- the determinant the property speaks about: cofactor expansion up to 8 × 8, beyond that the
independent rational elimination of `Spec.Mat`. The second component says that the two independent
determinants agree (sanity of the oracle itself). -/
def detChecked (a : QMat) : Rat × Bool :=
  if a.length ≤ 8 then
    let d := cofDet a.length a
    (d, d == qdet a)
  else (qdet a, true)
def det (a : QMat) : Rat := (detChecked a).1

/-- inverse through the adjugate: `inv[i][j] = (-1)^(i+j) det(minor j i) / det` -/
def adjInverse (a : QMat) : Option QMat :=
  let n := a.length
  let d := det a
  if d == 0 then none
  else some ((List.range n).map (fun i => (List.range n).map (fun j =>
    let c := cofDet (n - 1) (minor a j i)
    (if (i + j) % 2 == 0 then c else -c) / d)))

/-! ### rank over F_p -/
def modp (x : Int) (p : Int) : Int := x % p   -- `Int.emod`: in [0, p) for p > 0
def invModP (x p : Int) : Int := match NTV.inv (modp x p) p with | .ok y => y | .error _ => 0

/-- rank of the rows over F_p: pick a row with non-zero leading entry, clear that column in the
others, drop the column -/
def rankModPAux (p : Int) : Nat → List (List Int) → Nat
  | 0, _ => 0
  | c + 1, rows =>
    match rows.findIdx? (fun r => modp (r.headD 0) p != 0) with
    | none => rankModPAux p c (rows.map List.tail)
    | some t =>
      let piv := rows.getD t []
      let pinv := invModP (piv.headD 0) p
      let rest := (rows.eraseIdx t).map (fun r =>
        let f := modp (r.headD 0 * pinv) p
        (List.zipWith (fun x y => modp (x - f * y) p) r piv).tail)
      1 + rankModPAux p c rest

def rankModP (a : IMat) (p : Int) : Nat := rankModPAux p (width a) a

/-- is `out` a sub-multiset of `rows` (each output row uses up one input row) -/
def subMultiset : List (List Int) → List (List Int) → Bool
  | [], _ => true
  | r :: out, rows => rows.contains r && subMultiset out (rows.erase r)

/-! ### the oracles (each returns a list of (condition, name-of-the-violated-clause)) -/

abbrev Checks := List (Bool × String)

/-- `determinant(a) = d` -/
def checkDet (a : QMat) (d : Rat) : Checks :=
  let (da, agree) := detChecked a
  [(agree, "ORACLE-determinants-disagree"), (d == da, "determinant-differs-from-Leibniz")]

/-- `inv(a) = Ok(b)` -/
def checkInvOk (a b : QMat) : Checks :=
  let n := a.length
  let (da, agree) := detChecked a
  [(agree, "ORACLE-determinants-disagree"),
   (da != 0, "inverse-returned-for-singular-matrix"),
   (isShape b n n, "inverse-shape"),
   (qmul b a n == qidentity n, "B*A-is-not-identity")]
/-- `inv(a) = Err(MatrixNotInvertible)` (also used for the solver) -/
def checkSingular (a : QMat) : Checks :=
  let (da, agree) := detChecked a
  [(agree, "ORACLE-determinants-disagree"),
   (da == 0, "error-for-non-singular-matrix"), (qrank a < a.length, "ORACLE-rank-vs-det")]

/-- `solve_linear_system(a, b) = Ok(x)`: the row vector `x` satisfies `x * a = b` -/
def checkSolveOk (a : QMat) (b x : List Rat) : Checks :=
  let n := a.length
  [(det a != 0, "solution-returned-for-singular-matrix"),
   (x.length == n, "solution-length"),
   (qvecMul x a n == b, "x*A-differs-from-b")]

/-- rows of `m` independent -/
def independent (m : QMat) : Bool := qrank m == m.length
/-- every row of `v` in the row span of `m` -/
def inSpan (m v : QMat) : Bool := qrank (m ++ v) == qrank m

def checkIimOk (m v x : QMat) : Checks :=
  [(independent m, "solution-although-rows-of-M-dependent"),
   (isShape x v.length m.length, "X-shape"),
   (qmul x m (width m) == v, "X*M-differs-from-V")]
def checkIimDependent (m : QMat) : Checks :=
  [(!independent m, "LinearlyDependent-but-rows-independent")]
def checkIimNotInImage (m v : QMat) : Checks :=
  [(independent m, "NotInImage-but-rows-of-M-dependent"),
   (!inSpan m v, "NotInImage-but-all-rows-of-V-in-span")]

def checkSuppOk (m b : QMat) : Checks :=
  let k := m.length
  let n := width m
  [(qrank m == k, "basis-returned-although-rank-below-k"),
   (isShape b n n, "result-not-n-by-n"),
   (b.take k == m, "first-k-rows-differ-from-input"),
   ((detChecked b).2, "ORACLE-determinants-disagree"),
   ((detChecked b).1 != 0, "result-not-invertible")]
def checkSuppErr (m : QMat) : Checks :=
  [(qrank m < m.length, "InsufficientRank-but-rank-is-k")]

/-- `image_mod_p(a, p) = out` for reduced (or at least |entry| < p) input -/
def checkImage (a : IMat) (p : Int) (out : IMat) : Checks :=
  [(subMultiset out a, "output-row-not-an-input-row"),
   (rankModP out p == out.length, "output-rows-dependent-mod-p"),
   (out.length == rankModP a p, "output-does-not-span-the-row-space")]

/-- the exact rational quotient `a * b⁻¹` (none when `b` is singular) -/
def quotient (a b : IMat) : Option QMat :=
  (adjInverse (toQ b)).map (fun bi => qmul (toQ a) bi b.length)
def integral (q : QMat) : Bool := q.all (fun r => r.all (fun x => x.den == 1))

def checkMulInvOk (a b c : IMat) : Checks :=
  let n := a.length
  [(det (toQ b) != 0, "quotient-returned-for-singular-B"),
   (isShape c n n, "C-shape"),
   (NTV.Spec.Mat.mul c b == a, "C*B-differs-from-A")]
/-- error / assertion failure: allowed only when `B` is singular resp. no integer `C` exists -/
def checkMulInvErr (b : IMat) : Checks := [(det (toQ b) == 0, "error-for-non-singular-B")]
def checkMulInvPanic (a b : IMat) : Checks :=
  match quotient a b with
  | none => [(false, "assertion-failure-for-singular-B")]
  | some q => [(!integral q, "assertion-failure-although-integer-quotient-exists")]

end NTV.Spec.LinAlg
