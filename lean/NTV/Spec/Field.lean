import NTV.Model.PolyG
import NTV.Model.Hnf
import NTV.Spec.Poly
import NTV.Spec.Mat
import NTV.Spec.LinAlg
import NTV.Spec.Resultant
/-! Specification-side oracles for C14 (arithmetic in ℚ[x]/(f), multiplication tables) and C15
(orders as canonical lattices). Nothing here uses `NTV.Model.Algebraic` / `NTV.Model.Order`:

* the product in ℚ[x]/(f) is the remainder (rational long division `NTV.PolyG.divRemRat`, whose
  contract is proved) of the convolution product `NTV.Spec.Poly.mulSpec`; powers are repeated
  multiplication;
* trace and norm are the trace and the (cofactor) determinant of the multiplication-by-α matrix in the
  *power* basis 1, x, …, x^(n−1) (no table, no linear solve), the norm also through the Sylvester
  determinant `Res(f, g) / lc(f)^deg g`;
* module containment is decided with the adjugate inverse of `NTV.Spec.LinAlg` (exact rational
  solve), the normal form with the predicate `NTV.Spec.Mat.isHNF`, the span of stacked generators with
  the proved `NTV.Hnf.hnfNew` and back-substitution `NTV.Spec.Mat.inSpanHNF`;
* the discriminant of a lattice is the determinant of its trace form `det (Tr(wᵢ wⱼ))`.

Import-free. -/
namespace NTV.Spec.Field
open NTV.Spec.Poly (canon norm mulSpec addSpec subSpec coeff)
open NTV.Spec.LinAlg (Checks isShape isSquare qmul qvecMul qidentity detChecked adjInverse)

abbrev QMat := List (List Rat)
abbrev IMat := List (List Int)
abbrev Table := List (List (List Int))

def toQ (f : List Int) : List Rat := f.map (fun (x : Int) => (x : Rat))
def qabs (r : Rat) : Rat := if r < 0 then -r else r
def isInt (r : Rat) : Bool := r.den == 1
def integral (m : QMat) : Bool := m.all (fun r => r.all isInt)

/-! ### the quotient ring ℚ[x]/(f) -/

/-- the modulus the property speaks about: canonical, degree ≥ 1 -/
def goodModulus (f : List Int) : Bool := canon f && f.length ≥ 2
/-- degree of a good modulus -/
def degOf (f : List Int) : Nat := f.length - 1
/-- canonical representative of degree < deg f -/
def reduced (f : List Int) (a : List Rat) : Bool := canon a && a.length ≤ degOf f

/-- remainder of `p` modulo `f` (rational long division) -/
def remMod (f : List Int) (p : List Rat) : List Rat := (NTV.PolyG.divRemRat (norm p) (toQ f)).2
/-- the product in ℚ[x]/(f): remainder of the convolution product -/
def fieldMul (f : List Int) (a b : List Rat) : List Rat := remMod f (mulSpec a b)
/-- `a^e` by `e` successive multiplications -/
def fieldPow (f : List Int) (a : List Rat) (e : Nat) : List Rat :=
  (List.range e).foldl (fun acc _ => fieldMul f acc a) [1]

def pad (n : Nat) (a : List Rat) : List Rat := a ++ List.replicate (n - a.length) 0
/-- the monomial x^k -/
def mono (k : Nat) : List Rat := List.replicate k 0 ++ [1]

/-- matrix of multiplication by α in the power basis: row j = α·x^j mod f -/
def mulMatrix (f : List Int) (alpha : List Rat) : QMat :=
  let n := degOf f
  (List.range n).map (fun j => pad n (fieldMul f alpha (mono j)))

def specTrace (f : List Int) (alpha : List Rat) : Rat :=
  let m := mulMatrix f alpha
  (List.range (degOf f)).foldl (fun s j => s + (m.getD j []).getD j 0) 0

/-- (determinant of the multiplication matrix, the two independent determinants agree) -/
def specNorm (f : List Int) (alpha : List Rat) : Rat × Bool := detChecked (mulMatrix f alpha)

def ratPow (x : Rat) (n : Nat) : Rat := NTV.Spec.Poly.powR x n

/-- `Res(f, g) / lc(f)^deg g` with the Sylvester determinant (`f` rows first, so
`Res(f, g) = lc(f)^deg g · ∏_{f(θ)=0} g(θ)`); the integer determinant when `g` has integer coefficients -/
def resNorm (f : List Int) (g : List Rat) : Rat :=
  let g := norm g
  if g.isEmpty then 0
  else
    let lcf : Rat := ((f.getLastD 0 : Int) : Rat)
    let res : Rat :=
      if g.all isInt then ((NTV.Spec.Res.sylvesterDet f (g.map (·.num)) : Int) : Rat)
      else NTV.Spec.Res.sylvesterDetQ (toQ f) g
    res / ratPow lcf (g.length - 1)

/-! ### lattices given by a ℚ-basis (rows) -/

def ratsOf (a : List Int) : List Rat := a.map (fun (x : Int) => (x : Rat))
/-- the element Σ aᵢ wᵢ as a canonical polynomial -/
def elemOf (b : QMat) (a : List Rat) : List Rat := norm (qvecMul a b b.length)
def basisElem (b : QMat) (i : Nat) : List Rat := norm (b.getD i [])

/-- an n × n rational matrix of non-zero determinant -/
def fullRank (b : QMat) : Bool := isSquare b && (detChecked b).1 != 0

/-- coordinates of the row vector `v` in the basis `b` (exact solve through the adjugate) -/
def coords (b : QMat) (v : List Rat) : Option (List Rat) :=
  (adjInverse b).map (fun bi => qvecMul v bi b.length)

/-- every row of `sub` is an integer combination of the rows of `sup` -/
def contains (sup sub : QMat) : Bool :=
  match adjInverse sup with
  | some si => integral (qmul sub si sup.length)
  | none => false
def sameModule (a b : QMat) : Bool := contains a b && contains b a

/-- |det| of the change of basis `sub = C · sup` (meaningful when `contains sup sub`) -/
def indexSpec (sup sub : QMat) : Option Rat :=
  match adjInverse sup with
  | some si => some (qabs (detChecked (qmul sub si sup.length)).1)
  | none => none

def lcmDen (m : QMat) : Nat := m.foldl (fun l r => r.foldl (fun l e => Nat.lcm l e.den) l) 1
def scaleToInt (l : Nat) (m : QMat) : IMat := m.map (fun r => r.map (fun e => (e * (l : Rat)).num))
def scalesToInt (l : Nat) (m : QMat) : Bool := m.all (fun r => r.all (fun e => isInt (e * (l : Rat))))

/-- the stored form the property calls canonical: the common denominator is the lcm of the
denominators and the numerator matrix is in Hermite normal form -/
def canonical (s : QMat) : Bool := NTV.Spec.Mat.isHNF (scaleToInt (lcmDen s) s)

/-- all products wᵢ wⱼ lie in the module -/
def closedUnderMul (b : QMat) (f : List Int) : Bool :=
  let n := b.length
  match adjInverse b with
  | none => false
  | some bi =>
    (List.range n).all (fun i => (List.range n).all (fun j =>
      (qvecMul (pad n (fieldMul f (basisElem b i) (basisElem b j))) bi n).all isInt))

/-- traces of the power basis, `Tr(x^k)` for k < n -/
def powerTraces (f : List Int) : List Rat := (List.range (degOf f)).map (fun k => specTrace f (mono k))
/-- trace of a reduced element by linearity from the traces of the power basis -/
def traceLin (tr : List Rat) (a : List Rat) : Rat :=
  (List.zipWith (· * ·) a tr).foldl (· + ·) 0

/-- discriminant of the lattice: determinant of the trace form -/
def discSpec (b : QMat) (f : List Int) : Rat × Bool :=
  let n := b.length
  let tr := powerTraces f
  detChecked ((List.range n).map (fun i => (List.range n).map (fun j =>
    traceLin tr (fieldMul f (basisElem b i) (basisElem b j)))))

/-! ### C14 oracles -/

/-- `a * b` in ℚ[x]/(f) -/
def checkMul (f : List Int) (a b r : List Rat) : Checks :=
  [(canon r, "product-not-canonical"),
   (r.length ≤ degOf f, "product-degree-not-below-n"),
   (r == fieldMul f a b, "product-is-not-the-remainder-of-the-polynomial-product")]
def checkAdd (a b r : List Rat) : Checks :=
  [(canon r, "sum-not-canonical"), (r == addSpec a b, "sum")]
def checkSub (a b r : List Rat) : Checks :=
  [(canon r, "difference-not-canonical"), (r == subSpec a b, "difference")]
def checkPow (f : List Int) (a : List Rat) (e : Nat) (r : List Rat) : Checks :=
  [(canon r, "power-not-canonical"),
   (r.length ≤ degOf f, "power-degree-not-below-n"),
   (r == fieldPow f a e, "power-is-not-the-repeated-product")]
def checkAsCoefs (f : List Int) (a r : List Rat) : Checks :=
  [(r.length == degOf f, "coefficient-vector-length"), (norm r == a, "coefficient-vector-content")]

def tableShape (t : Table) (n : Nat) : Bool :=
  t.length == n && t.all (fun m => m.length == n && m.all (fun r => r.length == n))

/-- the table of the order with basis `b`: integral (by type) and Σ_k t[i][j][k] w_k = w_i w_j -/
def checkTable (b : QMat) (f : List Int) (t : Table) : Checks :=
  let n := b.length
  [(tableShape t n, "table-shape"),
   ((List.range n).all (fun i => (List.range n).all (fun j =>
      qvecMul (ratsOf ((t.getD i []).getD j [])) b n
        == pad n (fieldMul f (basisElem b i) (basisElem b j)))), "table-entry-is-not-the-product-of-basis-vectors")]

/-- `MultTable::mul` against the field product transported through the basis -/
def checkTMul (b : QMat) (f : List Int) (x y z : List Int) : Checks :=
  [(z.length == b.length, "product-vector-length"),
   (elemOf b (ratsOf z) == fieldMul f (elemOf b (ratsOf x)) (elemOf b (ratsOf y)),
    "table-product-differs-from-field-product")]

def checkTrace (b : QMat) (f : List Int) (x : List Int) (t : Int) : Checks :=
  [((t : Rat) == specTrace f (elemOf b (ratsOf x)), "trace-is-not-the-trace-of-the-multiplication-map")]

def checkNorm (b : QMat) (f : List Int) (x : List Int) (nm : Int) : Checks :=
  let alpha := elemOf b (ratsOf x)
  let (d, agree) := specNorm f alpha
  [(agree, "ORACLE-determinants-disagree"),
   ((nm : Rat) == d, "norm-is-not-the-determinant-of-the-multiplication-map"),
   ((nm : Rat) == resNorm f alpha, "norm-is-not-Res(f,g)/lc(f)^deg(g)")]

/-- `inv` answered `(y, d)`: `x · y = d · 1` and `d = |norm x|` -/
def checkInv (b : QMat) (f : List Int) (x y : List Int) (d : Int) : Checks :=
  let alpha := elemOf b (ratsOf x)
  let (nm, agree) := specNorm f alpha
  [(agree, "ORACLE-determinants-disagree"),
   (y.length == b.length, "inverse-vector-length"),
   ((d : Rat) == qabs nm, "denominator-is-not-|norm|"),
   (fieldMul f alpha (elemOf b (ratsOf y)) == norm [(d : Rat)], "a*b-differs-from-d")]

/-- `to_z_basis` answered `x`: Σ xᵢ wᵢ = a -/
def checkCoords (b : QMat) (a x : List Rat) : Checks :=
  [(x.length == b.length, "coordinate-vector-length"),
   (qvecMul x b b.length == pad b.length a, "coordinates-do-not-reproduce-the-element")]

/-- is the reduced element `a` in the ℤ-module? -/
def inModule (b : QMat) (a : List Rat) : Bool :=
  match coords b (pad b.length a) with
  | some x => x.all isInt
  | none => false

/-! ### bilinear formula for a raw table (no order attached) -/
def tent (t : Table) (i j k : Nat) : Int := ((t.getD i []).getD j []).getD k 0
def rawMul (t : Table) (x y : List Int) : List Int :=
  let n := t.length
  (List.range n).map (fun k => NTV.Spec.Poly.sumRange n (fun i => NTV.Spec.Poly.sumRange n (fun j =>
    x.getD i 0 * y.getD j 0 * tent t i j k)))
/-- regular representation: row j = coordinates of x · w_j -/
def rawRegular (t : Table) (x : List Int) : QMat :=
  let n := t.length
  (List.range n).map (fun j => ratsOf (rawMul t x ((List.range n).map (fun i => if i = j then 1 else 0))))

/-! ### C15 oracles -/

/-- `from_basis(b)` answered the stored basis `s` -/
def checkStored (b s : QMat) : Checks :=
  let n := b.length
  [(isShape s n n, "stored-basis-shape"),
   (contains b s, "stored-basis-not-inside-the-module"),
   (contains s b, "input-vector-not-in-the-stored-module"),
   (canonical s, "stored-basis-not-in-canonical-form")]

/-- `index(A, B)` answered `i` for B ⊂ A -/
def checkIndex (a b : QMat) (i : Int) : Checks :=
  match indexSpec a b with
  | some d => [(i > 0, "index-not-positive"), ((i : Rat) == d, "index-is-not-|det|-of-the-change-of-basis")]
  | none => [(false, "ORACLE-singular")]

/-- `union(A, B)` answered `u` -/
def checkUnion (a b u : QMat) : Checks :=
  let n := a.length
  let l := Nat.lcm (lcmDen a) (Nat.lcm (lcmDen b) (lcmDen u))
  let stacked := scaleToInt l (a ++ b)
  let ui := scaleToInt l u
  let inStack := match NTV.Hnf.hnfNew stacked with
    | some h => ui.all (NTV.Spec.Mat.inSpanHNF h) && stacked.all (NTV.Spec.Mat.inSpanHNF ui)
    | none => false
  [(isShape u n n, "union-shape"),
   (contains u a, "first-argument-not-contained-in-the-union"),
   (contains u b, "second-argument-not-contained-in-the-union"),
   (match indexSpec u a, indexSpec u b with
     | some ia, some ib => isInt ia && isInt ib && ia > 0 && ib > 0
     | _, _ => false, "index-of-an-argument-in-the-union-not-a-positive-integer"),
   (scalesToInt l (a ++ b ++ u), "ORACLE-common-denominator"),
   (inStack, "union-is-not-the-span-of-the-stacked-generators"),
   (canonical u, "union-not-in-canonical-form")]

/-- generators of Z[θ] ∩ Z[1/θ]: 1 and x · (aₙ x^(i−1) + … + a_(n−i+1)) for 1 ≤ i < n, i.e. x times
the quotient of f by x^(n−i+1) -/
def startingRows (f : List Int) : QMat :=
  let n := degOf f
  (List.range n).map (fun i =>
    if i = 0 then pad n [1] else pad n ((0 : Rat) :: toQ (f.drop (n - i + 1))))

/-- rows α^0, …, α^(n−1) -/
def powerRows (f : List Int) (alpha : List Rat) : QMat :=
  let n := degOf f
  (List.range n).map (fun k => pad n (fieldPow f alpha k))

end NTV.Spec.Field
