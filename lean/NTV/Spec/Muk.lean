import NTV.Model.Polynomial
/-! Specification side of C20 (number of roots of unity of a number field `ℚ[x]/(f)`): exact checks
of the *closed forms* that the harness claims for a field. Import-free. Polynomials are integer
coefficient lists, low degree first.

* `cyc:n` — `f = Φ_n` is verified through `f · ∏_{d | n, μ(n/d) = −1} (x^d − 1) = ∏_{d | n, μ(n/d) = 1} (x^d − 1)`;
  the field `ℚ(ζ_n)` has `n` roots of unity for even `n` and `2n` for odd `n`.
* `real` — a real root of `f` is exhibited exactly (odd degree, or a rational point `t/8` where `f` vanishes
  or has the sign opposite to its leading coefficient); a field with a real embedding has only `±1`.
* `imquad` — `f = ax² + bx + c` with negative discriminant `D`; with `−D = s t²`, `s` squarefree, the
  field is `ℚ(√−s)`: 4 roots of unity for `s = 1`, 6 for `s = 3`, otherwise 2. -/
namespace NTV.Spec.Muk

def addP : List Int → List Int → List Int
  | [], b => b
  | a, [] => a
  | x :: xs, y :: ys => (x + y) :: addP xs ys
def mulP : List Int → List Int → List Int
  | [], _ => []
  | x :: xs, b => addP (b.map (x * ·)) (0 :: mulP xs b)
def trim (a : List Int) : List Int := (a.reverse.dropWhile (· == 0)).reverse
/-- `x^d − 1` -/
def xd1 (d : Nat) : List Int := if d = 0 then [] else (-1 : Int) :: (List.replicate (d - 1) 0 ++ [1])

def divisors (n : Nat) : List Nat := (List.range (n + 1)).filter (fun d => d ≥ 1 && n % d == 0)
def isPrime (p : Nat) : Bool := p ≥ 2 && (List.range p).all (fun d => d < 2 || p % d != 0)
/-- Möbius function by trial division -/
def mobius (n : Nat) : Int :=
  if n = 0 then 0 else
  let ps := (divisors n).filter isPrime
  if ps.any (fun p => n % (p * p) == 0) then 0 else if ps.length % 2 == 0 then 1 else -1

def isCyclotomic (f : List Int) (n : Nat) : Bool :=
  n ≥ 1 &&
  let ds := divisors n
  let num := (ds.filter (fun d => mobius (n / d) == 1)).foldl (fun acc d => mulP acc (xd1 d)) [1]
  let den := (ds.filter (fun d => mobius (n / d) == -1)).foldl (fun acc d => mulP acc (xd1 d)) [1]
  trim (mulP (trim f) den) == trim num

/-- `den^deg · f(t / den)` for `den > 0`: same sign as `f(t / den)` -/
def evalScaled (f : List Int) (t : Int) (den : Nat) : Int :=
  let deg := f.length - 1
  (List.zipIdx f).foldl (fun acc (ci : Int × Nat) => acc + ci.1 * t ^ ci.2 * ((den : Int) ^ (deg - ci.2))) 0

/-- exact witness of a real root: odd degree, or a point `t/8`, `|t| ≤ 800`, where `f` vanishes or has
the sign opposite to its leading coefficient (an even-degree polynomial has the sign of its leading
coefficient near `±∞`) -/
def hasRealRoot (f : List Int) : Bool :=
  let f := trim f
  let deg := f.length - 1
  let lc := f.getLastD 0
  f.length ≥ 2 &&
  (deg % 2 == 1 ||
   (List.range 1601).any (fun t =>
     let v := evalScaled f ((t : Int) - 800) 8
     v == 0 || (v > 0 && lc < 0) || (v < 0 && lc > 0)))

/-- squarefree part of a positive integer -/
def squarefreePart (m : Nat) : Nat :=
  (List.range (m + 1)).foldl (fun s t => if t ≥ 2 && s % (t * t) == 0 then
      -- remove every factor t² (t runs upwards, so composite t find nothing left)
      (List.range 64).foldl (fun s _ => if s % (t * t) == 0 then s / (t * t) else s) s
    else s) m

def imQuadCount (f : List Int) : Option Nat :=
  match trim f with
  | [c, b, a] =>
    let D := b * b - 4 * a * c
    if D ≥ 0 then none else
    let s := squarefreePart (-D).toNat
    some (if s == 1 then 4 else if s == 3 then 6 else 2)
  | _ => none

/-- the closed form for `kind`, or `none` if the harness's claim does not check -/
def expected (f : List Int) (kind : String) : Option Nat :=
  match kind.splitOn ":" with
  | ["cyc", ns] =>
    match ns.toNat? with
    | some n => if isCyclotomic f n then some (if n % 2 == 0 then n else 2 * n) else none
    | none => none
  | ["real"] => if hasRealRoot f then some 2 else none
  | ["imquad"] => imQuadCount f
  | ["given", ns] => ns.toNat?
  | _ => none

end NTV.Spec.Muk

namespace NTV.Spec.Muk
/-! ### exact number of real roots (Sturm) for the root finder -/
open NTV.PolyG

def sgn (r : Rat) : Int := if r > 0 then 1 else if r < 0 then -1 else 0

/-- Sturm chain f, f', −rem(f, f'), … (squarefree f) -/
def sturmChain : Nat → List Rat → List Rat → List (List Rat)
  | 0, _, _ => []
  | fuel + 1, a, b =>
    if b.isEmpty then [a]
    else a :: sturmChain fuel b (neg (divRemRat a b).2)

def signChanges (l : List Int) : Nat :=
  let nz := l.filter (· != 0)
  (nz.zip (nz.drop 1)).foldl (fun c (x, y) => if x != y then c + 1 else c) 0

/-- number of distinct real roots of a squarefree polynomial: V(−∞) − V(+∞) -/
def realRootCount (f : List Int) : Nat :=
  let fq : List Rat := f.map (fun (x : Int) => (x : Rat))
  let dq : List Rat := (differential f).map (fun (x : Int) => (x : Rat))
  let chain := sturmChain (f.length + 2) fq dq
  let atPlus := chain.map (fun p => sgn (lc p))
  let atMinus := chain.map (fun p => if (p.length - 1) % 2 = 0 then sgn (lc p) else - sgn (lc p))
  signChanges atMinus - signChanges atPlus

end NTV.Spec.Muk
