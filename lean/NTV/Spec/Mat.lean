/-! Specification-side integer/rational matrix helpers (independent of the HNF / elimination code
under test): products, fraction-free determinant, rank, lattice membership in an echelon basis.
Import-free. -/
namespace NTV.Spec.Mat

abbrev IMat := List (List Int)
abbrev QMat := List (List Rat)

def ent (a : IMat) (i j : Nat) : Int := (a.getD i []).getD j 0
def cols (a : IMat) : Nat := (a.headD []).length
def rect (a : IMat) : Bool := a.all (fun r => r.length == cols a)

def dot (u v : List Int) : Int := (List.zipWith (· * ·) u v).foldl (· + ·) 0
def transpose (a : IMat) : IMat := (List.range (cols a)).map (fun j => a.map (fun r => r.getD j 0))
def mul (a b : IMat) : IMat :=
  let bt := transpose b
  a.map (fun r => bt.map (fun c => dot r c))
def vecMul (u : List Int) (a : IMat) : List Int := (transpose a).map (fun c => dot u c)
def identity (n : Nat) : IMat := (List.range n).map (fun i => (List.range n).map (fun j => if i = j then 1 else 0))
def isZeroRow (r : List Int) : Bool := r.all (· == 0)

/-! ### rational elimination (rank, determinant) -/
def qent (a : QMat) (i j : Nat) : Rat := (a.getD i []).getD j 0

/-- one elimination step on column `c` starting at row `r`; returns (matrix, new r, sign, pivot product) -/
def elimCol (a : QMat) (r c : Nat) : QMat × Bool × Rat :=
  match (List.range (a.length - r)).find? (fun t => qent a (r + t) c != 0) with
  | none => (a, false, 1)
  | some t =>
    let p := r + t
    let rowP := a.getD p []
    let rowR := a.getD r []
    let a := (a.set p rowR).set r rowP
    let piv := rowP.getD c 0
    let a := a.mapIdx (fun i row =>
      if i ≤ r then row else
        let f := row.getD c 0 / piv
        List.zipWith (fun x y => x - f * y) row rowP)
    (a, true, if p = r then piv else -piv)

/-- (rank, product of pivots with swap signs) by Gaussian elimination over ℚ -/
def rankDet (a : QMat) (ncols : Nat) : Nat × Rat :=
  let (_, r, d) := (List.range ncols).foldl (fun (st : QMat × Nat × Rat) c =>
    let (a, r, d) := st
    let (a', found, piv) := elimCol a r c
    if found then (a', r + 1, d * piv) else (a, r, d)) (a, 0, 1)
  (r, d)

def toQ (a : IMat) : QMat := a.map (fun r => r.map (fun (x : Int) => (x : Rat)))
def rank (a : IMat) : Nat := (rankDet (toQ a) (cols a)).1
def qrank (a : QMat) : Nat := (rankDet a ((a.headD []).length)).1
/-- determinant of a square matrix (0 if rank-deficient) -/
def qdet (a : QMat) : Rat :=
  let n := a.length
  let (r, d) := rankDet a n
  if r = n then d else 0
def det (a : IMat) : Int := (qdet (toQ a)).num

/-! ### Hermite normal form predicate (as in the property statement) -/

/-- index of the last non-zero entry -/
def lastNz (r : List Int) : Option Nat :=
  (List.range r.length).foldl (fun acc j => if r.getD j 0 != 0 then some j else acc) none

/-- each row has a last non-zero entry that is positive; these pivot columns strictly increase;
entries below a pivot (later rows, same column) lie in [0, pivot) -/
def isHNF (h : IMat) : Bool :=
  let pivs := h.map lastNz
  pivs.all (·.isSome) &&
  (List.range h.length).all (fun t =>
    let p := (pivs.getD t none).getD 0
    let pv := ent h t p
    pv > 0 &&
    (t + 1 ≥ h.length || p < ((pivs.getD (t + 1) none).getD 0)) &&
    (List.range (h.length - t - 1)).all (fun s => let e := ent h (t + 1 + s) p; 0 ≤ e && e < pv))

/-- is `v` an integer combination of the rows of the echelon matrix `h` (back-substitution from the
last row, using each row's last non-zero entry) -/
def inSpanHNF (h : IMat) (v : List Int) : Bool :=
  let res := h.reverse.foldl (fun (acc : Option (List Int)) row =>
    match acc with
    | none => none
    | some v =>
      match lastNz row with
      | none => some v
      | some p =>
        let pv := row.getD p 0
        let x := v.getD p 0
        if x % pv != 0 then none
        else
          let c := x / pv
          some (List.zipWith (fun a b => a - c * b) v row)) (some v)
  match res with
  | some v => isZeroRow v
  | none => false

end NTV.Spec.Mat
