import NTV.Model.Trial
/-! Specification oracles for C19 / C13 (independent of the algorithms under test). Import-free apart
from the trial-division model, which is proved correct (`factorize_correct`). -/
namespace NTV.Spec.Elem

/-- b^e mod m by square-and-multiply on the binary digits of e (fuel = bit length). -/
def powModAux (m : Nat) : Nat → Nat → Nat → Nat → Nat
  | 0, _, _, acc => acc
  | f + 1, b, e, acc =>
    if e = 0 then acc
    else powModAux m f (b * b % m) (e / 2) (if e % 2 = 1 then acc * b % m else acc)

def powMod (b e m : Nat) : Nat := powModAux m (e.log2 + 1) (b % m) e (1 % m)

/-- Legendre symbol for an odd prime p by Euler's criterion. -/
def legendre (a : Int) (p : Nat) : Int :=
  let r := powMod (a % (p : Int)).toNat ((p - 1) / 2) p
  if r = 0 then 0 else if r = 1 then 1 else -1

/-- (a/2) -/
def kronTwo (a : Int) : Int :=
  if a % 2 = 0 then 0 else if a % 8 = 1 ∨ a % 8 = 7 then 1 else -1

/-- (a/p)^e for a prime p -/
def kronPrimePow (a : Int) (p e : Nat) : Int :=
  (if p = 2 then kronTwo a else legendre a p) ^ e

/-- Kronecker symbol from the definition: b = 0, the sign of b, b = 2, Legendre, multiplicativity in b. -/
def kronSpec (a b : Int) : Int :=
  if b = 0 then (if a = 1 ∨ a = -1 then 1 else 0)
  else
    let s : Int := if b < 0 ∧ a < 0 then -1 else 1
    (NTV.Trial.factorize b.natAbs).foldl (fun acc pe => acc * kronPrimePow a pe.1 pe.2) s

/-- simple deterministic primality by trial division (spec side). -/
def isPrimeNat (n : Nat) : Bool :=
  match NTV.Trial.factorize n with
  | [(p, 1)] => p == n
  | _ => false

/-- integer k-th root by Newton iteration from above (independent of the model's binary search). -/
def newtonRoot (n k : Nat) : Nat → Nat → Nat
  | 0, x => x
  | f + 1, x =>
    let y := ((k - 1) * x + n / x ^ (k - 1)) / k
    if y < x then newtonRoot n k f y else x

def iroot (n k : Nat) : Nat :=
  if n = 0 then 0 else if k = 1 then n else
  let x0 := 2 ^ (n.log2 / k + 1)
  newtonRoot n k (n.log2 + 2) x0

/-- is n = r^k for some r -/
def isKthPower (n k : Nat) : Bool := (iroot n k) ^ k = n

end NTV.Spec.Elem
