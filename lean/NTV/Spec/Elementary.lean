import NTV.Model.Trial
/-! Specification oracles for C19 / C13 (independent of the algorithms under test). Import-free apart
from the trial-division model, which is proved correct (`factorize_correct`). -/
namespace NTV.Spec.Elem

/-- b^e mod m by square-and-multiply on the binary digits of e (fuel = bit length). -/
def powModAux (m : Nat) : Nat → Nat → Nat → Nat → Nat
  | 0, _, _, acc => acc
  | f + 1, b, e, acc =>
    if e = 0 then acc
    else powModAux m f (b * b % m) (e / 2) (if e % 2 = 1 then acc * b % m else acc)

def powMod (b e m : Nat) : Nat := powModAux m (e.log2 + 1) (b % m) e (1 % m)

/-- Legendre symbol for an odd prime p by Euler's criterion. -/
def legendre (a : Int) (p : Nat) : Int :=
  let r := powMod (a % (p : Int)).toNat ((p - 1) / 2) p
  if r = 0 then 0 else if r = 1 then 1 else -1

/-- (a/2) -/
def kronTwo (a : Int) : Int :=
  if a % 2 = 0 then 0 else if a % 8 = 1 ∨ a % 8 = 7 then 1 else -1

/-- (a/p)^e for a prime p -/
def kronPrimePow (a : Int) (p e : Nat) : Int :=
  (if p = 2 then kronTwo a else legendre a p) ^ e

/-- Kronecker symbol from the definition: b = 0, the sign of b, b = 2, Legendre, multiplicativity in b. -/
def kronSpec (a b : Int) : Int :=
  if b = 0 then (if a = 1 ∨ a = -1 then 1 else 0)
  else
    let s : Int := if b < 0 ∧ a < 0 then -1 else 1
    (NTV.Trial.factorize b.natAbs).foldl (fun acc pe => acc * kronPrimePow a pe.1 pe.2) s

/-- simple deterministic primality by trial division (spec side). -/
def isPrimeNat (n : Nat) : Bool :=
  match NTV.Trial.factorize n with
  | [(p, 1)] => p == n
  | _ => false

/-- integer k-th root by Newton iteration from above (independent of the model's binary search). -/
def newtonRoot (n k : Nat) : Nat → Nat → Nat
  | 0, x => x
  | f + 1, x =>
    let y := ((k - 1) * x + n / x ^ (k - 1)) / k
    if y < x then newtonRoot n k f y else x

def iroot (n k : Nat) : Nat :=
  if n = 0 then 0 else if k = 1 then n else
  let x0 := 2 ^ (n.log2 / k + 1)
  newtonRoot n k (n.log2 + 2) x0

/-- is n = r^k for some r -/
def isKthPower (n k : Nat) : Bool := (iroot n k) ^ k = n

end NTV.Spec.Elem

namespace NTV.Spec.Elem
/-- one strong-probable-prime test of odd n > 2 to base a, written from the definition:
n − 1 = d·2^c, passes iff a^d ≡ 1 or a^(d·2^j) ≡ −1 for some 0 ≤ j < c -/
def sprp (n a : Nat) : Bool :=
  let c := (List.range (n.log2 + 1)).foldl (fun acc j => if (n - 1) % 2 ^ (j + 1) = 0 then j + 1 else acc) 0
  let d := (n - 1) / 2 ^ c
  powMod a d n = 1 % n || (List.range c).any (fun j => powMod a (d * 2 ^ j) n = n - 1)

/-- deterministic primality: trial division below 2^32, the 12-base Miller–Rabin test below 2^64
(Sorenson–Webster: exact below 3.3·10^24), `none` above -/
def isPrimeRef (n : Nat) : Option Bool :=
  if n < 2 then some false
  else if n < 4 then some true
  else if n % 2 = 0 then some false
  else if n < 2 ^ 32 then some (isPrimeNat n)
  else if n < 2 ^ 64 then some ([2, 3, 5, 7, 11, 13, 17, 19, 23, 29, 31, 37].all (fun a => sprp n a))
  else none
end NTV.Spec.Elem
