/-! Specification-side polynomial helpers, written independently of the model's recursions:
coefficient formulas (convolution, termwise sums, direct power sums). Import-free. -/
namespace NTV.Spec.Poly
variable {R : Type} [Zero R] [Add R] [Sub R] [Mul R] [Neg R] [DecidableEq R]

def coeff (a : List R) (i : Nat) : R := a.getD i 0

/-- no trailing zero -/
def canon (a : List R) : Bool :=
  match a.getLast? with
  | none => true
  | some x => decide (x ≠ 0)

/-- strip trailing zeros (spec-side normal form) -/
def norm (a : List R) : List R :=
  let n := (List.range a.length).foldl (fun acc i => if coeff a i = 0 then acc else i + 1) 0
  a.take n

def sumRange (n : Nat) (f : Nat → R) : R := (List.range n).foldl (fun acc i => acc + f i) 0

/-- convolution product, coefficient by coefficient -/
def mulSpec (a b : List R) : List R :=
  if a.isEmpty || b.isEmpty then []
  else norm ((List.range (a.length + b.length - 1)).map (fun k => sumRange (k + 1) (fun i => coeff a i * coeff b (k - i))))

def addSpec (a b : List R) : List R :=
  norm ((List.range (max a.length b.length)).map (fun k => coeff a k + coeff b k))
def subSpec (a b : List R) : List R :=
  norm ((List.range (max a.length b.length)).map (fun k => coeff a k - coeff b k))
def scaleSpec (c : R) (a : List R) : List R := norm (a.map (fun x => c * x))

def powR [One R] (x : R) : Nat → R
  | 0 => 1
  | n + 1 => powR x n * x

/-- Σ aᵢ xⁱ with explicit powers -/
def evalSpec [One R] (a : List R) (x : R) : R := sumRange a.length (fun i => coeff a i * powR x i)

/-- equality of canonical forms -/
def eqv (a b : List R) : Bool := decide (norm a = norm b)

end NTV.Spec.Poly
