import NTV.Spec.Mat
import NTV.Spec.PolyMod
import NTV.Model.Hnf
import NTV.Model.Trial
/-! Specification oracles for C16 (ideal arithmetic in an order given by its multiplication table) and
C17 (decomposition of a rational prime), written independently of src/ideal.rs, src/mult_table.rs and
src/prime_decomp: everything is decided from the *definition* of the structure constants
(w_i · w_j = Σ_k T[i][j][k] · w_k) by exact lattice membership in the returned echelon bases
(`NTV.Spec.Mat.inSpanHNF`), determinants by rational elimination (`NTV.Spec.Mat.det`), linear algebra
over F_p by an own echelon reduction, and the F_p[x] library of `NTV.Spec.PolyMod`.
The only model function used is `NTV.Hnf.hnfNew`, proved to return the canonical basis of the row
lattice (C02), as the normal form in which two lattices are compared.
An ideal is a full-rank echelon basis `H` (rows = coordinate vectors with respect to w_1 … w_n). -/
namespace NTV.Spec.Ideal
open NTV.Spec.Mat

abbrev Table := List (List (List Int))
abbrev Checks := List (Bool × String)

def tent (t : Table) (i j k : Nat) : Int := ((t.getD i []).getD j []).getD k 0

/-- n × n × n with n ≥ 1 -/
def wellFormed (t : Table) : Bool :=
  let n := t.length
  n ≥ 1 && t.all (fun blk => blk.length == n && blk.all (fun r => r.length == n))

def unit (n i : Nat) : List Int := (List.range n).map (fun j => if j = i then 1 else 0)
def scalar (n : Nat) (m : Int) : List Int := (List.range n).map (fun j => if j = 0 then m else 0)

/-- the matrix of "multiply by w" acting on coordinate row vectors from the right:
R(w)[i][k] = Σ_j w_j T[i][j][k], so that coordinates(v · w) = v · R(w) -/
def regular (t : Table) (w : List Int) : IMat :=
  let n := t.length
  (List.range n).map (fun i => (List.range n).map (fun k =>
    (List.range n).foldl (fun acc j => acc + w.getD j 0 * tent t i j k) 0))

/-- coordinates of the product v · w -/
def smul (t : Table) (v w : List Int) : List Int := vecMul v (regular t w)

/-- norm of the element x = determinant of its regular representation -/
def elemNorm (t : Table) (x : List Int) : Int := det (regular t x)
/-- trace of the element x = trace of its regular representation -/
def elemTrace (t : Table) (x : List Int) : Int :=
  let r := regular t x
  (List.range t.length).foldl (fun acc i => acc + ent r i i) 0

/-- `T` is the table of a commutative, associative ring with w_1 = 1 -/
def isOrderTable (t : Table) : Bool :=
  let n := t.length
  let idx := List.range n
  wellFormed t &&
  idx.all (fun j => smul t (unit n 0) (unit n j) == unit n j) &&
  idx.all (fun i => idx.all (fun j => smul t (unit n i) (unit n j) == smul t (unit n j) (unit n i))) &&
  idx.all (fun i => idx.all (fun j => idx.all (fun k =>
    smul t (smul t (unit n i) (unit n j)) (unit n k) == smul t (unit n i) (smul t (unit n j) (unit n k)))))

/-- full-rank echelon basis of a sublattice of Z^n -/
def isFullHNF (n : Nat) (h : IMat) : Bool :=
  h.length == n && h.all (fun r => r.length == n) && isHNF h

/-- closed under multiplication by the order: every row times every w_k stays in the lattice -/
def closed (t : Table) (h : IMat) : Bool :=
  let n := t.length
  h.all (fun r => (List.range n).all (fun k => inSpanHNF h (smul t r (unit n k))))

/-- a non-zero ideal of the order given by its echelon basis -/
def isIdeal (t : Table) (h : IMat) : Bool := isFullHNF t.length h && closed t h

/-- index of the lattice in Z^n -/
def index (h : IMat) : Nat := (det h).natAbs

/-- generators of I·J: all pairwise products of basis vectors -/
def productRows (t : Table) (i j : IMat) : IMat := i.flatMap (fun v => j.map (fun w => smul t v w))

/-- I·J as a canonical basis -/
def product (t : Table) (i j : IMat) : Option IMat := NTV.Hnf.hnfNew (productRows t i j)

/-- the ideal (m) of the integer m ≠ 0: |m| times the identity -/
def scalarIdeal (n : Nat) (m : Int) : IMat :=
  (List.range n).map (fun i => (List.range n).map (fun j => if i = j then (m.natAbs : Int) else 0))

/-! ### C16 -/

/-- `I + J = S` -/
def checkSum (t : Table) (i j s : IMat) : Checks :=
  [(isFullHNF t.length s, "sum-not-a-full-rank-echelon-basis"),
   ((i ++ j).all (inSpanHNF s), "sum-does-not-contain-an-argument"),
   (NTV.Hnf.hnfNew (i ++ j) == some s, "sum-is-not-the-smallest-lattice-containing-both"),
   (closed t s, "sum-not-closed-under-the-order")]

/-- `I · J = P` -/
def checkProduct (t : Table) (i j p : IMat) : Checks :=
  [(isFullHNF t.length p, "product-not-a-full-rank-echelon-basis"),
   ((productRows t i j).all (inSpanHNF p), "product-does-not-contain-a-pairwise-product"),
   (product t i j == some p, "product-is-not-generated-by-the-pairwise-products"),
   (closed t p, "product-not-closed-under-the-order")]

/-- norms as reported: each is the index of its lattice, and N(IJ) = N(I)·N(J) -/
def checkNorms (i j p : IMat) (nij ni nj : Int) : Checks :=
  [(ni == index i && nj == index j && nij == index p, "norm-is-not-the-index-of-the-lattice"),
   (nij == ni * nj, "norm-not-multiplicative")]

/-- `(x) = H` with reported norm `nrm`, x ≠ 0 -/
def checkPrincipal (t : Table) (x : List Int) (h : IMat) (nrm : Int) : Checks :=
  let n := t.length
  let gens := (List.range n).map (fun k => smul t x (unit n k))
  [(isIdeal t h, "principal-ideal-not-an-ideal"),
   (gens.all (inSpanHNF h), "principal-ideal-does-not-contain-a-multiple-of-the-generator"),
   (NTV.Hnf.hnfNew gens == some h, "principal-ideal-larger-than-the-multiples-of-the-generator"),
   (nrm == index h, "norm-is-not-the-index-of-the-lattice"),
   (nrm == (elemNorm t x).natAbs, "norm-of-principal-ideal-differs-from-norm-of-generator")]

/-- y with y · H = e_0 over ℚ, by back-substitution in the lower-triangular H -/
def firstRowOfInverse (n : Nat) (h : IMat) : List Rat :=
  (List.range n).reverse.foldl (fun (y : List Rat) j =>
    let s : Rat := (List.range (n - j - 1)).foldl (fun acc d =>
      let i := j + 1 + d
      acc + y.getD i 0 * ((ent h i j : Int) : Rat)) 0
    let rhs : Rat := if j = 0 then 1 else 0
    y.set j ((rhs - s) / ((ent h j j : Int) : Rat))) (List.replicate n 0)

/-- the positive generator of I ∩ Z (w_1 = 1): m·e_0 ∈ L ⇔ m·y integral, y = e_0 · H⁻¹ -/
def capZRef (n : Nat) (h : IMat) : Nat :=
  (firstRowOfInverse n h).foldl (fun l y => Nat.lcm l y.den) 1

/-- `I ∩ Z = (m)`, m > 0. For m below 10^9 additionally by the definition: m lies in the lattice and
no proper divisor does (it suffices to test m / q for the primes q | m) -/
def checkCapZ (t : Table) (h : IMat) (m : Int) : Checks :=
  let n := t.length
  [(m > 0, "generator-of-the-integers-of-the-ideal-not-positive"),
   (inSpanHNF h (scalar n m), "reported-integer-not-in-the-ideal"),
   (m == (capZRef n h : Int), "reported-integer-is-not-the-smallest-in-the-ideal"),
   (m ≥ 1000000000 || m ≤ 0 ||
      (NTV.Trial.factorize m.toNat).all (fun (q, _) => !inSpanHNF h (scalar n (m / (q : Int)))),
    "a-proper-divisor-lies-in-the-ideal")]

/-- `I · N = (d)` -/
def checkInv (t : Table) (i nn : IMat) (d : Int) : Checks :=
  [(d != 0, "denominator-zero"),
   (isIdeal t nn, "numerator-of-the-inverse-not-an-ideal"),
   (product t i nn == some (scalarIdeal t.length d), "ideal-times-inverse-numerator-is-not-the-denominator")]

/-- Tr(w_i w_j) -/
def traceMatrix (t : Table) : IMat :=
  let n := t.length
  (List.range n).map (fun i => (List.range n).map (fun j => elemTrace t (smul t (unit n i) (unit n j))))

/-- discriminant of the order = determinant of the trace form -/
def discRef (t : Table) : Int := det (traceMatrix t)

/-- inverse different `numer / denom`: a fractional ideal inside the dual of the order for the trace
form whose norm is 1/|disc| (hence equal to the dual): denom^n = |disc| · N(numer) -/
def checkInvDiff (t : Table) (disc : Int) (denom : Int) (numer : IMat) : Checks :=
  let n := t.length
  [(disc.natAbs == (discRef t).natAbs, "discriminant-of-the-order-differs-from-the-trace-form-determinant"),
   (denom != 0, "denominator-zero"),
   (isIdeal t numer, "numerator-of-the-inverse-different-not-an-ideal"),
   (numer.all (fun r => (List.range n).all (fun k => elemTrace t (smul t r (unit n k)) % denom == 0)),
    "inverse-different-not-inside-the-dual-of-the-order"),
   ((denom ^ n).natAbs == disc.natAbs * index numer, "norm-of-the-inverse-different-is-not-1/|disc|")]

/-! ### C17 -/

abbrev QMat := List (List Rat)

/-- x with x · B = v by Cramer's rule (B square invertible): x_i = det(B with row i := v) / det B -/
def cramer (b : QMat) (v : List Rat) : Option (List Rat) :=
  let d := qdet b
  if d == 0 then none
  else some ((List.range b.length).map (fun i => qdet (b.set i v) / d))

/-- product of two rational polynomials (low degree first) reduced modulo the monic integer
polynomial f of degree n; result has exactly n coefficients -/
def mulModF (f : List Int) (a b : List Rat) : List Rat :=
  let n := f.length - 1
  let A := a.toArray
  let B := b.toArray
  let raw : List Rat :=
    if a.isEmpty || b.isEmpty then [] else
    (List.range (A.size + B.size - 1)).map (fun k =>
      (List.range (k + 1)).foldl (fun acc i => acc + A.getD i 0 * B.getD (k - i) 0) 0)
  -- remove the coefficients of x^d, d ≥ n, from the top: x^d = −Σ_{k<n} f_k x^(d−n+k)
  let top := raw.length
  let red := (List.range (top - n)).foldl (fun (r : List Rat) s =>
    let d := top - 1 - s
    let c := r.getD d 0
    if c == 0 then r
    else (List.range (n + 1)).foldl (fun (r : List Rat) k =>
      r.set (d - n + k) (r.getD (d - n + k) 0 - c * ((f.getD k 0 : Int) : Rat))) r) raw
  (List.range n).map (fun k => red.getD k 0)

def qvecMat (x : List Rat) (b : QMat) (n : Nat) : List Rat :=
  (List.range n).map (fun k => (List.range b.length).foldl (fun acc i => acc + x.getD i 0 * (b.getD i []).getD k 0) 0)

/-- the hypotheses on the input: f monic of degree n ≥ 1, B an n × n basis (in terms of 1, θ, …) of a
ring containing Z[θ] whose structure constants are T, first basis vector 1 -/
def validField (f : List Int) (b : QMat) (t : Table) : Bool :=
  let n := f.length - 1
  let idx := List.range n
  f.length ≥ 2 && f.getLastD 0 == 1 &&
  b.length == n && b.all (fun r => r.length == n) && t.length == n && wellFormed t &&
  qdet b != 0 &&
  b.getD 0 [] == (idx.map (fun j => if j = 0 then (1 : Rat) else 0)) &&
  idx.all (fun i => idx.all (fun j =>
    mulModF f (b.getD i []) (b.getD j []) ==
      qvecMat (((t.getD i []).getD j []).map (fun (c : Int) => (c : Rat))) b n))

/-- coordinates of 1, θ, …, θ^n with respect to the basis B (`none` unless all are integral) -/
def thetaPowers (f : List Int) (b : QMat) : Option (List (List Int)) :=
  let n := f.length - 1
  let low := (List.range n).mapM (fun k =>
    match cramer b ((List.range n).map (fun j => if j = k then (1 : Rat) else 0)) with
    | some x => if x.all (fun c => c.den == 1) then some (x.map (·.num)) else none
    | none => none)
  match low with
  | none => none
  | some vs =>
    -- θ^n = −Σ_{k<n} f_k θ^k
    let top := (List.range n).map (fun j =>
      (List.range n).foldl (fun acc k => acc - f.getD k 0 * (vs.getD k []).getD j 0) 0)
    some (vs ++ [top])

/-- (O : Z[θ]) = 1 / det B -/
def indexOfZTheta (b : QMat) : Option Int :=
  let d := qdet b
  if d == 0 then none else
  let q := 1 / d
  if q.den == 1 then some q.num else none

/-! linear algebra over F_p on rows of one fixed length; an echelon basis is a list of
(pivot column, row with entry 1 at the pivot), every row vanishing at the pivots of the earlier ones -/
abbrev Ech := List (Nat × List Int)

def reduceBy (p : Int) (basis : Ech) (v : List Int) : List Int :=
  basis.foldl (fun v (c, row) =>
    let x := v.getD c 0 % p
    if x == 0 then v else List.zipWith (fun a b => (a - x * b) % p) v row) (v.map (· % p))

/-- insert v (pivots are searched among the first `w` columns only); `none` = v depends on the basis
in its first `w` columns -/
def insertRow (p : Int) (w : Nat) (basis : Ech) (v : List Int) : Option Ech :=
  let r := reduceBy p basis v
  match (List.range w).find? (fun c => r.getD c 0 % p != 0) with
  | none => none
  | some c =>
    let inv := NTV.Spec.PolyMod.invMod p (r.getD c 0)
    some (basis ++ [(c, r.map (fun a => (a * inv) % p))])

/-- the monic polynomial g of degree d with g(θ) ∈ P, provided 1, θ, …, θ^(d−1) are linearly
independent in O/P (P ⊇ pO given by its echelon basis `h`); `none` otherwise. Rows carry d + 1 tag
columns recording the combination of powers of θ. -/
def minPolyModP (p : Int) (n d : Nat) (h : IMat) (pows : List (List Int)) : Option (List Int) :=
  let zeros := List.replicate (d + 1) (0 : Int)
  let tag (k : Nat) : List Int := (List.range (d + 1)).map (fun j => if j = k then 1 else 0)
  -- the subspace P/pO of O/pO
  let w : Ech := h.foldl (fun basis r => (insertRow p n basis (r ++ zeros)).getD basis) []
  let full := (List.range d).foldl (fun (acc : Option Ech) k =>
    match acc with
    | none => none
    | some basis => insertRow p n basis (pows.getD k [] ++ tag k)) (some w)
  match full with
  | none => none
  | some basis =>
    let r := reduceBy p basis (pows.getD d [] ++ tag d)
    if (r.take n).all (· % p == 0) then some ((r.drop n).map (· % p)) else none

/-- exponent f with m = p^f, if any -/
def logP (p : Int) (m : Int) : Option Nat :=
  if p < 2 || m < 1 then none
  else
    let rec go : Nat → Int → Nat → Option Nat
      | 0, _, _ => none
      | fuel + 1, m, acc => if m == 1 then some acc else if m % p == 0 then go fuel (m / p) (acc + 1) else none
    go (m.toNat.log2 + 2) m 0

/-- P^e by repeated multiplication -/
def power (t : Table) (h : IMat) : Nat → Option IMat
  | 0 => some (scalarIdeal t.length 1)
  | e + 1 => match power t h e with
    | some q => product t q h
    | none => none

/-- the conclusion of C17 for p ∤ (O : Z[θ]) on the returned list of (P_i, e_i).
Each P_i is shown to be a *prime* ideal above p directly: O/P_i has p^f_i elements, contains
F_p[θ mod P_i] ≅ F_p[x]/(g_i) with g_i the minimal polynomial of θ mod P_i, found of degree f_i by
linear algebra over F_p and checked irreducible (Rabin, cross-checked by brute force for small p);
the g_i^e_i are required to be the factorization of f mod p. -/
def checkDecomposition (f : List Int) (b : QMat) (t : Table) (p : Int) (res : List (IMat × Nat)) : Checks :=
  let n := f.length - 1
  match thetaPowers f b with
  | none => [(false, "oracle-input-theta-not-in-the-order")]
  | some pows =>
    let ideals := res.map (·.1)
    let degs := ideals.map (fun h => logP p (index h))
    let gs := (List.zip ideals degs).map (fun (h, d) => match d with
      | some d => if d ≥ 1 && d ≤ n then minPolyModP p n d h pows else none
      | none => none)
    let fac : List (List Int × Nat) := (List.zip gs res).map (fun (g, (_, e)) => (g.getD [], e))
    let prod := res.foldl (fun (acc : Option IMat) (h, e) =>
      match acc, power t h e with
      | some a, some q => product t a q
      | _, _ => none) (some (scalarIdeal n 1))
    [(!res.isEmpty, "empty-decomposition"),
     (ideals.all (isIdeal t), "factor-not-an-ideal-of-the-order"),
     (ideals.all (fun h => inSpanHNF h (scalar n p) && !inSpanHNF h (scalar n 1)), "factor-does-not-meet-Z-in-pZ"),
     (ideals.eraseDups.length == ideals.length, "factors-not-pairwise-distinct"),
     (res.all (fun (_, e) => e ≥ 1), "exponent-zero"),
     (degs.all (fun d => match d with | some d => d ≥ 1 | none => false), "norm-not-a-power-of-p"),
     ((List.zip res degs).foldl (fun acc ((_, e), d) => acc + e * d.getD 0) 0 == n, "sum-of-e-times-f-differs-from-the-degree"),
     (gs.all (·.isSome), "residue-ring-of-a-factor-not-generated-by-theta-in-degree-f"),
     (NTV.Spec.PolyMod.factorShapeOk p f fac, "minimal-polynomials-of-theta-mod-P-are-not-the-factorization-of-f-mod-p"),
     (NTV.Spec.PolyMod.allIrreducible p fac == some true, "factor-not-prime"),
     (prod == some (scalarIdeal n p), "product-of-the-prime-powers-is-not-p")]

end NTV.Spec.Ideal
