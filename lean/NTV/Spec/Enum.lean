import NTV.Spec.Mat
/-! Specification side of C20 (short vectors of a positive-definite quadratic form): exact value
`xᵀQx`, exact positive-definiteness test (leading principal minors), exact rational inverse, integer
floor-square-root of a rational, and the brute-force list of all non-zero integer `x` (modulo sign)
with `xᵀQx ≤ c`, taken from a box that is complete by Cauchy–Schwarz in the `Q` inner product:
`x_i² = ⟨Q⁻¹e_i, x⟩_Q² ≤ (Q⁻¹)_{ii} · xᵀQx ≤ (Q⁻¹)_{ii} · c`.
Independent of `cholesky.rs` (no Cholesky decomposition, no pruning). Imports only `NTV.Spec.Mat`. -/
namespace NTV.Spec.Enum
open NTV.Spec.Mat

/-- `xᵀ Q x` for a rational form and an integer vector -/
def quadVal (Q : QMat) (x : List Int) : Rat :=
  let xq := x.map (fun (t : Int) => (t : Rat))
  (List.zipWith (fun (row : List Rat) (xi : Rat) =>
      xi * (List.zipWith (· * ·) row xq).foldl (· + ·) 0) Q xq).foldl (· + ·) 0

def isSquare (Q : QMat) : Bool := Q.all (fun r => r.length == Q.length)
def isSymmetric (Q : QMat) : Bool :=
  (List.range Q.length).all (fun i => (List.range Q.length).all (fun j => qent Q i j == qent Q j i))

/-- leading principal `k × k` block -/
def leading (Q : QMat) (k : Nat) : QMat := (Q.take k).map (·.take k)

/-- Sylvester's criterion, exact: square, symmetric, every leading principal minor `> 0` -/
def isPosDef (Q : QMat) : Bool :=
  isSquare Q && isSymmetric Q &&
  (List.range Q.length).all (fun t => decide (qdet (leading Q (t + 1)) > 0))

/-! ### exact inverse by Gauss–Jordan elimination on `[Q | I]` -/

def idQ (n : Nat) : QMat :=
  (List.range n).map (fun i => (List.range n).map (fun j => if i = j then (1 : Rat) else 0))

/-- eliminate column `c` (pivot searched at or below row `c`); `none` if the column has no pivot -/
def jordanCol (a : QMat) (c : Nat) : Option QMat :=
  match (List.range (a.length - c)).find? (fun t => qent a (c + t) c != 0) with
  | none => none
  | some t =>
    let p := c + t
    let rowP := a.getD p []
    let rowC := a.getD c []
    let a := (a.set p rowC).set c rowP
    let piv := rowP.getD c 0
    let rowN := rowP.map (· / piv)
    some (a.mapIdx (fun i row =>
      if i = c then rowN else
        let f := row.getD c 0
        List.zipWith (fun x y => x - f * y) row rowN))

/-- inverse of a square rational matrix, `none` if singular -/
def inverse (Q : QMat) : Option QMat :=
  let n := Q.length
  let aug := List.zipWith (· ++ ·) Q (idQ n)
  let res := (List.range n).foldl (fun (acc : Option QMat) c => acc.bind (fun a => jordanCol a c)) (some aug)
  res.map (fun a => a.map (·.drop n))

def qmul (a b : QMat) : QMat :=
  let n := (b.headD []).length
  a.map (fun r => (List.range n).map (fun j =>
    (List.zipWith (fun x (brow : List Rat) => x * brow.getD j 0) r b).foldl (· + ·) 0))

/-- `⌊√r⌋` for a rational `r ≥ 0` (`0` for negative `r`): `⌊√r⌋ = ⌊√⌊r⌋⌋`. -/
def floorSqrt (r : Rat) : Nat :=
  if r < 0 then 0 else Nat.sqrt r.floor.toNat

/-- the complete box: `|x_i| ≤ ⌊√(c · (Q⁻¹)_{ii})⌋` -/
def box (Q : QMat) (c : Rat) : Option (List Nat) :=
  (inverse Q).map (fun qi => (List.range Q.length).map (fun i => floorSqrt (c * qent qi i i)))

def boxVolume (b : List Nat) : Nat := b.foldl (fun acc t => acc * (2 * t + 1)) 1

/-- all integer vectors with `|x_i| ≤ b_i` -/
def boxVectors : List Nat → List (List Int)
  | [] => [[]]
  | b :: rest =>
    let tails := boxVectors rest
    (List.range (2 * b + 1)).flatMap (fun (t : Nat) => tails.map (fun v => (Int.ofNat t - Int.ofNat b) :: v))

/-- sign representative: the first non-zero coordinate is positive (the zero vector is not canonical) -/
def isCanonical : List Int → Bool
  | [] => false
  | x :: rest => if x == 0 then isCanonical rest else decide (x > 0)

def canon (x : List Int) : List Int :=
  if isCanonical x then x else x.map (fun t => -t)

/-- brute force: every canonical `x` of the box with `xᵀQx ≤ c`, with its value -/
def shortVectors (Q : QMat) (c : Rat) (b : List Nat) : List (List Int × Rat) :=
  ((boxVectors b).filter isCanonical).filterMap (fun x =>
    let v := quadVal Q x
    if v ≤ c then some (x, v) else none)

/-- lexicographic order on integer vectors, used to sort both sides -/
def lexLt : List Int → List Int → Bool
  | [], [] => false
  | [], _ => true
  | _, [] => false
  | a :: as, b :: bs => if a < b then true else if a > b then false else lexLt as bs

def insertSorted (x : List Int) : List (List Int) → List (List Int)
  | [] => [x]
  | y :: ys => if lexLt y x then y :: insertSorted x ys else x :: y :: ys
def sortVecs (l : List (List Int)) : List (List Int) := l.foldl (fun acc x => insertSorted x acc) []

/-- no two entries equal (input sorted) -/
def noDupSorted : List (List Int) → Bool
  | a :: b :: rest => a != b && noDupSorted (b :: rest)
  | _ => true

end NTV.Spec.Enum
