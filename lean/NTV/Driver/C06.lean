import NTV.Driver.Parse
import NTV.Model.Round2
import NTV.Spec.MaxOrder
/-! Driver ops for C06 (integral basis = maximal order).

* `ib.basis f` ⇒ `B|disc|index`: `find_integral_basis`, `o.discriminant(theta)`,
  `index(&o, &non_monic_initial_order(theta))` (canonical: compared textually, and judged by the oracle);
* `ib.any f` ⇒ the same on inputs outside the domain (model comparison only);
* `ib.disc f expected` ⇒ `disc`: a family with a closed-form field discriminant (supplied by the harness);
* `ib.same f g` ⇒ `disc_f disc_g`: two polynomials defining the same field;
* `ib.onestep f B p` ⇒ `B'|howmany`: one Round 2 step (`round2::one_step` is private: generated only
  once a wrapper exists);
* `cli.ib f` ⇒ `reduced_index discriminant` printed by `rust-number-theory <config>` (the basis is
  not printed on stdout: the oracle certifies the model's basis and compares the two numbers). -/
namespace NTV.Driver.C06
open NTV.Parse
namespace S
export NTV.Spec.MaxOrder (verdict discInt canonical intCoords multTable pad toQ maximalAt diagProd)
end S

def isPanic (s : String) : Bool := s.startsWith "panic"

/-- the property's domain as far as the driver can see it: canonical list, degree ≥ 1, primitive
(irreducibility is the harness's responsibility; square-freeness is re-checked by the oracle) -/
def inDomain (f : List Int) : Bool :=
  f.length ≥ 2 && f.getLastD 0 != 0 && f.foldl (fun g c => Nat.gcd g c.natAbs) 0 == 1

/-- model rendering of `ib.basis` -/
def modelBasis (f : List Int) : Except String (NTV.Round2.Order × Int × Int) := do
  let o ← NTV.Round2.findIntegralBasis f
  let (i, d) ← NTV.Round2.indexAndDisc f o
  pure (o, d, i)

def renderE {α : Type} (sh : α → String) : Except String α → String
  | .ok v => sh v
  | .error e => e

def modelDisc (f : List Int) : String := renderE (fun r => toString r.2.1) (modelBasis f)

def opBasis : Handler := fun args impl =>
  match args.mapM parseInts? with
  | some [f] =>
    let model := renderE (fun r => s!"{showRatMat r.1}|{r.2.1}|{r.2.2}") (modelBasis f)
    let v :=
      if !inDomain f then "skip:outside-domain"
      else if isPanic impl then "fail:panic-on-legal-input"
      else match impl.splitOn "|" with
        | [bs, ds, is] => match parseRatMat? bs, ds.toInt?, is.toInt? with
          | some b, some d, some i => S.verdict f b (some d) (some i)
          | _, _, _ => "fail:unexpected-" ++ impl
        | _ => "fail:unexpected-" ++ impl
    (model, v)
  | _ => bad

/-- `ib.any f` ⇒ as `ib.basis`, for inputs outside the property's domain (reducible, not primitive,
repeated roots): only the model is compared -/
def opAny : Handler := fun args impl =>
  let (m, v) := opBasis args impl
  (m, if v == "skip:bad-op" then v else "skip:outside-domain")

def opDisc : Handler := fun args impl =>
  match args with
  | [fs, es] => match parseInts? fs, es.toInt? with
    | some f, some expected =>
      let v :=
        if !inDomain f then "skip:outside-domain"
        else if isPanic impl then "fail:panic-on-legal-input"
        else match impl.toInt? with
          | some d => if d == expected then "ok" else "fail:not-the-field-discriminant"
          | none => "fail:unexpected-" ++ impl
      (modelDisc f, v)
    | _, _ => bad
  | _ => bad

def opSame : Handler := fun args impl =>
  match args.mapM parseInts? with
  | some [f, g] =>
    let (m1, m2) := (modelDisc f, modelDisc g)
    let model := match [m1, m2].find? (fun x => x.startsWith "panic" || x.startsWith "inconclusive") with
      | some x => x
      | none => m1 ++ " " ++ m2
    let v :=
      if !(inDomain f && inDomain g) then "skip:outside-domain"
      else if isPanic impl then "fail:panic-on-legal-input"
      else match (impl.splitOn " ").mapM (·.toInt?) with
        | some [a, b] => if a == b then "ok" else "fail:discriminant-depends-on-the-generator"
        | _ => "fail:unexpected-" ++ impl
    (model, v)
  | _ => bad

def isPrime (p : Nat) : Bool := NTV.Trial.factorize p == [(p, 1)]

/-- `ib.onestep f B p` ⇒ `B'|howmany`. Preconditions (else skip): `B` a canonical order of K
containing 1, `p` prime. Demands: `B'` is a canonical ring containing `B` with index `p^howmany`, and
`howmany = 0` exactly when `B` is p-maximal (independent test). -/
def opOneStep : Handler := fun args impl =>
  match args with
  | [fs, bs, ps] => match parseInts? fs, parseRatMat? bs, ps.toNat? with
    | some f, some b, some p =>
      let n := f.length - 1
      let fq := S.toQ f
      let model := renderE (fun r => s!"{showRatMat r.1}|{r.2}") (NTV.Round2.oneStep f b (p : Int))
      let v :=
        if !inDomain f || !isPrime p || !S.canonical b n || (S.intCoords b n (S.pad n [1])).isNone then "skip:outside-domain"
        else match S.multTable fq n b with
        | none => "skip:outside-domain"
        | some t =>
          if isPanic impl then "fail:panic-on-legal-input"
          else match impl.splitOn "|" with
            | [b2s, hs] => match parseRatMat? b2s, hs.toNat? with
              | some b2, some h =>
                let idx := S.diagProd b / S.diagProd b2
                if !S.canonical b2 n then "fail:result-not-canonical"
                else if (S.multTable fq n b2).isNone then "fail:result-not-a-ring"
                else if !(b.all (fun w => (S.intCoords b2 n w).isSome)) then "fail:result-does-not-contain-the-argument"
                else if idx != ((p ^ h : Nat) : Rat) then "fail:index-is-not-p-to-the-howmany"
                else match S.maximalAt p n t with
                  | none => if h == 0 then "ok" else "fail:grew-a-p-maximal-order"
                  | some why => if why.startsWith "skip" then why
                    else if h ≥ 1 then "ok" else "fail:howmany-0-on-a-non-p-maximal-order"
              | _, _ => "fail:unexpected-" ++ impl
            | _ => "fail:unexpected-" ++ impl
      (model, v)
    | _, _, _ => bad
  | _ => bad

/-- process level: stdout carries only `reduced_index` and `discriminant`. The model's basis is
certified by the oracle (maximal order ⇒ its discriminant is the field discriminant and its index
over the starting order is determined), then the two printed numbers must agree with it. -/
def opCli : Handler := fun args impl =>
  match args.mapM parseInts? with
  | some [f0] =>
    let f := NTV.PolyG.fromRaw f0
    let mb := modelBasis f
    let model := renderE (fun r => s!"{r.2.2} {r.2.1}") mb
    let v :=
      if !inDomain f then "skip:outside-domain"
      else if isPanic impl then "fail:panic-on-legal-input"
      else match mb with
        | .error e => "skip:no-certificate-" ++ e
        | .ok (o, d, i) =>
          let cert := S.verdict f o (some d) (some i)
          match (impl.splitOn " ").mapM (·.toInt?) with
          | some [ii, di] =>
            if cert != "ok" then
              -- the model's order is rejected: the implementation printing the same numbers shares the verdict
              if ii == i && di == d then cert else "skip:certificate-rejected-" ++ cert
            else if di != d then "fail:not-the-field-discriminant"
            else if ii != i then "fail:reduced-index" else "ok"
          | _ => "fail:unexpected-" ++ impl
    (model, v)
  | _ => bad

def ops : List (String × Handler) :=
  [("ib.basis", opBasis), ("ib.any", opAny), ("ib.disc", opDisc), ("ib.same", opSame), ("ib.onestep", opOneStep),
   ("cli.ib", opCli)]

end NTV.Driver.C06
