import NTV.Driver.Parse
import NTV.Model.Polynomial
import NTV.Spec.Poly
/-! Driver ops for C09 (polynomial arithmetic). `z.*` = integer coefficients, `q.*` = rational. -/
namespace NTV.Driver.C09
open NTV.Parse NTV.PolyG
namespace S
export NTV.Spec.Poly (canon norm mulSpec addSpec subSpec scaleSpec evalSpec eqv coeff)
end S

def verdict (b : Bool) (why : String) : String := if b then "ok" else "fail:" ++ why

/-- binary ring operations on integer polynomials -/
def binZ (model spec : List Int → List Int → List Int) : Handler := fun args impl =>
  match args.mapM parseInts? with
  | some [a, b] =>
    let v := match parseInts? impl with
      | some r => verdict (S.canon r && r == spec a b) "ring-op"
      | none => "fail:unexpected-" ++ impl
    (showInts (model a b), v)
  | _ => bad

def binQ (model spec : List Rat → List Rat → List Rat) : Handler := fun args impl =>
  match args.mapM parseRats? with
  | some [a, b] =>
    let v := match parseRats? impl with
      | some r => verdict (S.canon r && r == spec a b) "ring-op"
      | none => "fail:unexpected-" ++ impl
    (showRats (model a b), v)
  | _ => bad

def opNegZ : Handler := fun args impl =>
  match args.mapM parseInts? with
  | some [a] =>
    let v := match parseInts? impl with
      | some r => verdict (S.canon r && S.addSpec a r == []) "neg"
      | none => "fail:unexpected-" ++ impl
    (showInts (neg a), v)
  | _ => bad

def opOfZ : Handler := fun args impl =>
  match args with
  | [as, xs] => match parseInts? as, xs.toInt? with
    | some a, some x =>
      let v := match impl.toInt? with
        | some r => verdict (r == S.evalSpec a x) "eval"
        | none => "fail:unexpected-" ++ impl
      (toString (eval a x), v)
    | _, _ => bad
  | _ => bad

def opOfQ : Handler := fun args impl =>
  match args with
  | [as, xs] => match parseRats? as, parseRat? xs with
    | some a, some x =>
      let v := match parseRat? impl with
        | some r => verdict (r == S.evalSpec a x) "eval"
        | none => "fail:unexpected-" ++ impl
      (showRat (eval a x), v)
    | _, _ => bad
  | _ => bad

def opDiff : Handler := fun args impl =>
  match args.mapM parseInts? with
  | some [a] =>
    let spec := S.norm ((List.range (a.length - 1)).map (fun i => S.coeff a (i + 1) * ((i : Int) + 1)))
    let v := match parseInts? impl with
      | some r => verdict (r == spec) "derivative"
      | none => "fail:unexpected-" ++ impl
    (showInts (differential a), v)
  | _ => bad

def opContPP : Handler := fun args impl =>
  match args.mapM parseInts? with
  | some [a] =>
    let (c, pp) := contPP a
    let v := match impl.splitOn " " with
      | [cs, ps] => match cs.toInt?, parseInts? ps with
        | some ci, some pi =>
          if a.isEmpty then verdict (ci == 0 && pi == [1]) "zero-case"
          else
            let g : Int := pi.foldl (fun g x => (Int.gcd g x : Int)) 0
            verdict (S.canon pi && S.scaleSpec ci pi == a && g == 1 && lc pi > 0) "cont-pp"
        | _, _ => "fail:parse"
      | _ => "fail:unexpected-" ++ impl
    (s!"{c} {showInts pp}", v)
  | _ => bad

/-- `lc(b)^(deg a - deg b + 1) a = q b + r`, `deg r < deg b` -/
def opPseudo : Handler := fun args impl =>
  match args.mapM parseInts? with
  | some [a, b] =>
    let (q, r) := pseudoDivRem a b
    let v := match (impl.splitOn " ").mapM parseInts? with
      | some [qi, ri] =>
        if a.isEmpty || b.isEmpty || a.length < b.length then verdict (qi == [] && ri == a) "short-cut"
        else
          let f := (lc b) ^ (a.length - b.length + 1)
          verdict (S.canon qi && S.canon ri && S.scaleSpec f a == S.addSpec (S.mulSpec qi b) ri
                   && ri.length < b.length) "pseudo-division"
      | _ => "fail:unexpected-" ++ impl
    (s!"{showInts q} {showInts r}", v)
  | _ => bad

def opDivRemMonic : Handler := fun args impl =>
  match args.mapM parseInts? with
  | some [a, b] =>
    let model := match divRemMonic a b with
      | some (q, r) => s!"{showInts q} {showInts r}"
      | none => "panic assert"
    let v :=
      if !isMonic b then verdict (impl.startsWith "panic") "non-monic-must-panic"
      else match (impl.splitOn " ").mapM parseInts? with
      | some [qi, ri] =>
        verdict (S.canon qi && S.canon ri && a == S.addSpec (S.mulSpec qi b) ri
                 && (ri.length < b.length)) "monic-division"
      | _ => "fail:unexpected-" ++ impl
    (model, v)
  | _ => bad

/-- independent exact-division test over ℚ: long division with rational coefficients -/
def ratQuot (a b : List Int) : Option (List Int) :=
  let ar : List Rat := a.map (fun (x : Int) => (x : Rat))
  let br : List Rat := b.map (fun (x : Int) => (x : Rat))
  let (q, r) := divRemRat ar br
  if r.isEmpty && q.all (fun x => x.den == 1) then some (q.map (·.num)) else none

def opDivExact : Handler := fun args impl =>
  match args.mapM parseInts? with
  | some [a, b] =>
    let model := match divExact a b with
      | some q => "some " ++ showInts q
      | none => "none"
    let v := match impl.splitOn " " with
      | ["some", qs] => match parseInts? qs with
        | some qi => verdict (!b.isEmpty && S.canon qi && S.mulSpec qi b == a) "quotient"
        | none => "fail:parse"
      | ["none"] =>
        -- none is right iff b = 0 or b does not divide a in Z[x]
        if b.isEmpty then "ok"
        else if a.isEmpty then "fail:zero-dividend-must-divide"
        else verdict (a.length < b.length || (ratQuot a b).isNone) "missed-divisor"
      | _ => "fail:unexpected-" ++ impl
    (model, v)
  | _ => bad

def opDivRemQ : Handler := fun args impl =>
  match args.mapM parseRats? with
  | some [a, b] =>
    let (q, r) := divRemRat a b
    let v := match (impl.splitOn " ").mapM parseRats? with
      | some [qi, ri] =>
        if a.isEmpty || b.isEmpty || a.length < b.length then verdict (qi == [] && ri == a) "short-cut"
        else verdict (S.canon qi && S.canon ri && a == S.addSpec (S.mulSpec qi b) ri && ri.length < b.length) "rational-division"
      | _ => "fail:unexpected-" ++ impl
    (s!"{showRats q} {showRats r}", v)
  | _ => bad

/-- ring laws evaluated by the implementation itself: the answer is a string of 0/1 flags,
all of which must be 1 (commutativity, associativity, distributivity, units, negation,
evaluation homomorphism, product rule). -/
def opLaws : Handler := fun _ impl =>
  let n := impl.length
  ("1".pushn '1' (n - 1), verdict (n > 0 && impl.all (· == '1')) ("law-" ++ impl))

def opFromRaw : Handler := fun args impl =>
  match args.mapM parseInts? with
  | some [a] =>
    let v := match parseInts? impl with
      | some r => verdict (r == S.norm a) "from-raw"
      | none => "fail:unexpected-" ++ impl
    (showInts (fromRaw a), v)
  | _ => bad

def ops : List (String × Handler) :=
  [("z.add", binZ add S.addSpec), ("z.sub", binZ sub S.subSpec), ("z.mul", binZ mul S.mulSpec),
   ("q.add", binQ add S.addSpec), ("q.sub", binQ sub S.subSpec), ("q.mul", binQ mul S.mulSpec),
   ("z.neg", opNegZ),
   -- the operator impls on owned values (separate code in polynomial.rs): same specification
   ("z.add.o", binZ add S.addSpec), ("z.sub.o", binZ sub S.subSpec), ("z.mul.o", binZ mul S.mulSpec),
   ("q.add.o", binQ add S.addSpec), ("q.sub.o", binQ sub S.subSpec), ("q.mul.o", binQ mul S.mulSpec),
   ("z.neg.o", opNegZ), ("z.of", opOfZ), ("q.of", opOfQ), ("z.diff", opDiff), ("z.contpp", opContPP),
   ("z.pseudo", opPseudo), ("z.divmonic", opDivRemMonic), ("z.divexact", opDivExact),
   ("q.divrem", opDivRemQ), ("z.laws", opLaws), ("q.laws", opLaws), ("z.fromraw", opFromRaw)]

end NTV.Driver.C09
