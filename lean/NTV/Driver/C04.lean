import NTV.Driver.Parse
import NTV.Model.Resultant
import NTV.Spec.Resultant
/-! Driver ops for C04 (resultant = Sylvester determinant). `res` / `res.raw` = `resultant::resultant`
on integer polynomials (`res.raw`: the coefficient list is passed as `Polynomial { dat }` without
normalisation, as the CLI does), `resq` = `resultant_rational`, `resscale` / `resscale.z` = the
scaling law Res(s f, t g) = s^deg g · t^deg f · Res(f, g) on the implementation's own values. -/
namespace NTV.Driver.C04
open NTV.Parse NTV.PolyG NTV.Res
namespace S
export NTV.Spec.Poly (canon norm scaleSpec)
export NTV.Spec.Res (sylvesterDet sylvesterDetQ)
end S

def verdict (b : Bool) (why : String) : String := if b then "ok" else "fail:" ++ why

/-- `res f g`: model value compared textually; oracle: the Sylvester determinant -/
def opRes : Handler := fun args impl =>
  match args.mapM parseInts? with
  | some [f, g] =>
    let r := resultantSmartE f g
    let v :=
      if !exact r then "fail:inexact-division-in-model"
      else if !(S.canon f && S.canon g) then "skip:outside-domain"
      else match impl.toInt? with
        | some x => verdict (x == S.sylvesterDet f g) "sylvester-determinant"
        | none => "fail:unexpected-" ++ impl
    (render toString r, v)
  | _ => bad

/-- `resq f g`: `resultant_rational` on rational coefficient lists -/
def opResQ : Handler := fun args impl =>
  match args.mapM parseRats? with
  | some [f, g] =>
    let v := match parseRat? impl with
      | some x => verdict (x == S.sylvesterDetQ f g) "sylvester-determinant"
      | none => "fail:unexpected-" ++ impl
    (showRat (resultantRational f g), v)
  | _ => bad

def ratPowS (x : Rat) (n : Nat) : Rat := NTV.Spec.Poly.powR x n

/-- `resscale s t f g` ⇒ `Res(s f, t g) Res(f, g)` as computed by `resultant_rational` -/
def opResScale : Handler := fun args impl =>
  match args with
  | [ss, ts, fs, gs] => match parseRat? ss, parseRat? ts, parseRats? fs, parseRats? gs with
    | some s, some t, some f, some g =>
      let sf := S.scaleSpec s f
      let tg := S.scaleSpec t g
      let model := s!"{showRat (resultantRational sf tg)} {showRat (resultantRational f g)}"
      let v :=
        if s == 0 || t == 0 then "skip:outside-domain"
        else match (impl.splitOn " ").mapM parseRat? with
          | some [r1, r0] =>
            if f.isEmpty || g.isEmpty then verdict (r1 == 0 && r0 == 0) "zero-polynomial"
            else verdict (r1 == ratPowS s (g.length - 1) * ratPowS t (f.length - 1) * r0) "scaling-law"
          | _ => "fail:unexpected-" ++ impl
      (model, v)
    | _, _, _, _ => bad
  | _ => bad

/-- `resscale.z s t f g`: the same law on `resultant::resultant` (integers) -/
def opResScaleZ : Handler := fun args impl =>
  match args with
  | [ss, ts, fs, gs] => match ss.toInt?, ts.toInt?, parseInts? fs, parseInts? gs with
    | some s, some t, some f, some g =>
      let m1 := resultantSmartE (S.scaleSpec s f) (S.scaleSpec t g)
      let m0 := resultantSmartE f g
      let model := match [render toString m1, render toString m0].find? (fun x => x.startsWith "panic" || x.startsWith "inconclusive") with
        | some x => x
        | none => s!"{render toString m1} {render toString m0}"
      let v :=
        if !(exact m1 && exact m0) then "fail:inexact-division-in-model"
        else if s == 0 || t == 0 then "skip:outside-domain"
        else match (impl.splitOn " ").mapM (·.toInt?) with
          | some [r1, r0] =>
            if f.isEmpty || g.isEmpty then verdict (r1 == 0 && r0 == 0) "zero-polynomial"
            else verdict (r1 == s ^ (g.length - 1) * t ^ (f.length - 1) * r0) "scaling-law"
          | _ => "fail:unexpected-" ++ impl
      (model, v)
    | _, _, _, _ => bad
  | _ => bad

/-- process level: the CLI normalises its coefficient lists, so `cli.res f g` must behave as `res` on
the canonical forms; a panic of the process is `panic <kind>` -/
def opCliRes : Handler := fun args impl =>
  match args.mapM parseInts? with
  | some [f, g] => opRes [showInts (NTV.PolyG.fromRaw f), showInts (NTV.PolyG.fromRaw g)] impl
  | _ => bad

def ops : List (String × Handler) :=
  [("cli.res", opCliRes), ("res", opRes), ("res.raw", opRes), ("resq", opResQ), ("resscale", opResScale),
   ("resscale.z", opResScaleZ)]

end NTV.Driver.C04
