import NTV.Driver.Parse
import NTV.Model.Prime
import NTV.Spec.Elementary
/-! Driver ops for C13 (Miller–Rabin). `isprime n hint draws`: hint ∈ {p, c, u} is what the harness knows
by construction about n (prime / composite / unknown); `isprime.s` = scripted (adversarial) draws. -/
namespace NTV.Driver.C13
open NTV.Parse

def verdict (b : Bool) (why : String) : String := if b then "ok" else "fail:" ++ why

/-- decode the bases that the implementation drew (all accepted values in [1, n)) -/
def basesOf (n : Nat) : Nat → NTV.Draw.Stream → List Nat
  | 0, _ => []
  | k + 1, s => match NTV.Draw.range 1 (n : Int) s with
    | none => []
    | some (r, s') => r.toNat :: basesOf n k s'

def isPrimeOp (scripted : Bool) : Handler := fun args impl =>
  match args with
  | [ns, hint, ds] =>
    match ns.toInt? with
    | some n =>
      let s := parseChunks ds
      -- the stream is the complete log of what the implementation drew: the model must consume
      -- exactly that (running out or leaving chunks unused is a disagreement, not an inconclusive run)
      let model := match NTV.Prime.isPrimeS n s with
        | some (b, []) => toString b
        | some (b, rest) => s!"{b} but {rest.length} drawn chunks unused by the model"
        | none => "model draws more than the implementation did"
      let truth : Option Bool :=
        if n < 0 then some false else
        match NTV.Spec.Elem.isPrimeRef n.toNat with
        | some b => some b
        | none => if hint == "p" then some true else if hint == "c" then some false else none
      let v := match impl with
        | "true" | "false" =>
          let ans := impl == "true"
          match truth with
          | some true => verdict ans "prime-rejected"
          | some false =>
            if !ans then "ok"
            else if n ≤ 2 || n % 2 == 0 then "fail:composite-accepted"
            else
              -- accepted composite: legitimate only if every drawn base is a strong liar
              -- (fewer than 20 bases cannot give the 4^-20 bound)
              let bs := basesOf n.toNat 21 s
              if bs.length == 20 && bs.all (fun a => NTV.Spec.Elem.sprp n.toNat a) then
                (if scripted then "ok" else "fail:composite-accepted-on-unscripted-draws")
              else if bs.length != 20 then s!"fail:composite-accepted-after-{bs.length}-bases"
              else "fail:composite-accepted-with-a-witness-among-the-bases"
          | none => "skip:no-reference-for-this-size"
        | _ => "fail:unexpected-" ++ impl
      (model, v)
    | none => bad
  | _ => bad

/-- exact count of strong liars of an odd composite n in [1, n) must be ≤ (n−1)/4 (Rabin–Monier);
computed with the *model's* round function. The implementation is not involved (impl = `-`). -/
def opLiars : Handler := fun args _ =>
  match args.mapM parseNat? with
  | some [n] =>
    let (d, c) := NTV.Prime.splitTwos n (n - 1) 0
    let liars := ((List.range n).filter (fun r => r ≥ 1 && NTV.Prime.mrRoundFast n d c r)).length
    let composite := !(NTV.Spec.Elem.isPrimeNat n)
    ("-", if composite then verdict (4 * liars ≤ n - 1) s!"liars-{liars}" else verdict (liars == n - 1) "prime-has-a-witness")
  | _ => bad

def ops : List (String × Handler) :=
  [("isprime", isPrimeOp false), ("isprime.s", isPrimeOp true), ("liars", opLiars)]
end NTV.Driver.C13
