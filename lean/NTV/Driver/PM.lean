import NTV.Driver.Parse
import NTV.Model.PolyMod
import NTV.Spec.PolyMod
/-! Driver ops for the primitives of src/poly_mod/prim.rs (shared by C12, C11, C08).
All polynomial arguments are canonical coefficient lists; the modulus is never 0. -/
namespace NTV.Driver.PM
open NTV.Parse NTV.PolyMod
namespace S
export NTV.Spec.PolyMod (primeModulus reduced red mulP addP subP scaleP invMod evalP monicP divModP modP gcdP
  powModP lead bezoutOk)
export NTV.Spec.Poly (canon)
end S

def verdict (b : Bool) (why : String) : String := if b then "ok" else "fail:" ++ why

def showM (f : α → String) : Except String α → String
  | .ok a => f a
  | .error e => e

def show2 (x : List Int × List Int) : String := s!"{showInts x.1} {showInts x.2}"
def show3 (x : List Int × List Int × List Int) : String := s!"{showInts x.1} {showInts x.2.1} {showInts x.2.2}"

/-- skip unless the oracle knows that p is prime -/
def withPrime (p : Int) (k : Unit → String) : String :=
  match S.primeModulus p with
  | some true => k ()
  | some false => "skip:modulus-not-prime"
  | none => "skip:modulus-of-unknown-primality"

def parsePolys (impl : String) : Option (List (List Int)) := (impl.splitOn " ").mapM parseInts?

def opModpow : Handler := fun args impl =>
  match args.mapM parseInt? with
  | some [x, e, m] =>
    if m == 0 then bad else
    let v := match impl.toInt? with
      | some r =>
        if x ≥ 0 && e ≥ 1 && m ≥ 1 then
          verdict (r == (NTV.Spec.Elem.powMod x.toNat e.toNat m.toNat : Int)) "modpow"
        else if e ≤ 0 then verdict (r == 1) "modpow-nonpositive-exponent"
        else if m ≥ 1 then
          -- negative base: truncated remainders; congruent to the true power, magnitude below m
          verdict ((r - (NTV.Spec.Elem.powMod (x % m).toNat e.toNat m.toNat : Int)) % m == 0 && r.natAbs < m.natAbs) "modpow-negative-base"
        else "skip:negative-modulus"
      | none => "fail:unexpected-" ++ impl
    (toString (modpow x e m), v)
  | _ => bad

def opModinv : Handler := fun args impl =>
  match args.mapM parseInt? with
  | some [x, p] =>
    if p == 0 then bad else
    let v := match impl.toInt? with
      | some r => withPrime p (fun _ =>
          if x % p == 0 then "skip:not-invertible" else verdict ((x * r) % p == 1 % p) "modinv")
      | none => "fail:unexpected-" ++ impl
    (toString (modinv x p), v)
  | _ => bad

/-- f, scalar -/
def polyScalar (zeroOk : Bool) (model : List Int → Int → List Int) (spec : List Int → Int → Option (List Int)) : Handler :=
  fun args impl =>
  match args with
  | [fs, ps] => match parseInts? fs, ps.toInt? with
    | some f, some p =>
      if p == 0 && !zeroOk then bad else
      let v := match parseInts? impl with
        | some r => match spec f p with
          | some s => verdict (r == s) "coefficientwise"
          | none => "skip:out-of-oracle-domain"
        | none => "fail:unexpected-" ++ impl
      (showInts (model f p), v)
    | _, _ => bad
  | _ => bad

def specPolyMod (f : List Int) (p : Int) : Option (List Int) := if p > 0 then some (S.red p f) else none
/-- floor quotient c = d·q + r with 0 ≤ r < d (d > 0) is Lean's `/` -/
def specPolyDiv (f : List Int) (d : Int) : Option (List Int) :=
  if d > 0 then some (NTV.Spec.Poly.norm (f.map (fun c => c / d))) else none
def specPolyMul (f : List Int) (m : Int) : Option (List Int) := some (NTV.Spec.Poly.scaleSpec m f)
def specDiff (f : List Int) (p : Int) : Option (List Int) :=
  if p > 0 then
    some (S.red p ((List.range (f.length - 1)).map (fun i => NTV.Spec.Poly.coeff f (i + 1) * ((i : Int) + 1))))
  else none

def opOfMod : Handler := fun args impl =>
  match args with
  | [fs, as, ps] => match parseInts? fs, as.toInt?, ps.toInt? with
    | some f, some a, some p =>
      if p == 0 then bad else
      let v := match impl.toInt? with
        | some r =>
          if p > 0 then verdict ((r - S.evalP p f a) % p == 0 && r.natAbs < p.natAbs
                                 && (!(f.all (· ≥ 0) && a ≥ 0) || r ≥ 0)) "evaluation"
          else "skip:negative-modulus"
        | none => "fail:unexpected-" ++ impl
      (toString (polyOfMod f a p), v)
    | _, _, _ => bad
  | _ => bad

def opModSub : Handler := fun args impl =>
  match args with
  | [as, bs, ps] => match parseInts? as, parseInts? bs, ps.toInt? with
    | some a, some b, some p =>
      if p == 0 then bad else
      let v := match parseInts? impl with
        | some r => if p > 0 then verdict (r == S.subP p a b) "mod-sub" else "skip:negative-modulus"
        | none => "fail:unexpected-" ++ impl
      (showInts (polyModSub a b p), v)
    | _, _, _ => bad
  | _ => bad

/-- the division oracle applies when p is prime and p ∤ lc(b) -/
def opDivrem : Handler := fun args impl =>
  match args with
  | [as, bs, ps] => match parseInts? as, parseInts? bs, ps.toInt? with
    | some a, some b, some p =>
      if p == 0 then bad else
      let v := match parsePolys impl with
        | some [q, r] =>
          if a.isEmpty || b.isEmpty || a.length < b.length then verdict (q == [] && r == a) "short-cut"
          else withPrime p (fun _ =>
            if S.lead b % p == 0 then "skip:leading-coefficient-vanishes"
            else verdict (S.reduced p q && S.reduced p r && r.length < b.length
                          && S.addP p (S.mulP p q b) r == S.red p a) "division")
        | _ => "fail:unexpected-" ++ impl
      (show2 (polyDivrem a b p), v)
    | _, _, _ => bad
  | _ => bad

def lcOk (p : Int) (a : List Int) : Bool := a.isEmpty || S.lead a % p != 0

def opGcd : Handler := fun args impl =>
  match args with
  | [as, bs, ps] => match parseInts? as, parseInts? bs, ps.toInt? with
    | some a, some b, some p =>
      if p == 0 then bad else
      let v := match parseInts? impl with
        | some g => withPrime p (fun _ =>
            if !(lcOk p a && lcOk p b) then "skip:leading-coefficient-vanishes"
            else verdict (S.monicP p g == S.gcdP p a b) "gcd")
        | none => "fail:unexpected-" ++ impl
      (showM showInts (polyGcd a b p), v)
    | _, _, _ => bad
  | _ => bad

def opExtGcd : Handler := fun args impl =>
  match args with
  | [as, bs, ps] => match parseInts? as, parseInts? bs, ps.toInt? with
    | some a, some b, some p =>
      if p == 0 then bad else
      let v := match parsePolys impl with
        | some [g, u, v] => withPrime p (fun _ =>
            if !(lcOk p a && lcOk p b) then "skip:leading-coefficient-vanishes"
            else verdict (S.monicP p g == S.gcdP p a b
                          && S.addP p (S.mulP p a u) (S.mulP p b v) == S.red p g) "bezout")
        | _ => "fail:unexpected-" ++ impl
      (showM show3 (polyExtGcd a b p), v)
    | _, _, _ => bad
  | _ => bad

/-- C11 clause: a·u + b·v ≡ 1 (mod p) for every pair coprime over F_p -/
def opWitness : Handler := fun args impl =>
  match args with
  | [as, bs, ps] => match parseInts? as, parseInts? bs, ps.toInt? with
    | some a, some b, some p =>
      if p == 0 then bad else
      let v := withPrime p (fun _ =>
        if !(lcOk p a && lcOk p b) then "skip:leading-coefficient-vanishes"
        else if S.gcdP p a b != [1] then "skip:not-coprime"
        else match parsePolys impl with
          | some [u, v] => verdict (S.reduced p u && S.reduced p v && S.bezoutOk p a b u v) "witness"
          | _ => "fail:unexpected-" ++ impl)
      (showM show2 (polyCoprimeWitness a b p), v)
    | _, _, _ => bad
  | _ => bad

def opModpowPoly : Handler := fun args impl =>
  match args with
  | [xs, es, gs, ps] => match parseInts? xs, es.toInt?, parseInts? gs, ps.toInt? with
    | some x, some e, some g, some p =>
      if p == 0 then bad else
      let v := match parseInts? impl with
        | some r =>
          if e ≤ 0 then verdict (r == [1]) "power-zero"
          else withPrime p (fun _ =>
            if (S.red p g).length != g.length || g.length < 2 then "skip:modulus-polynomial-degenerate"
            else verdict (r == S.powModP p g x e.toNat) "power")
        | none => "fail:unexpected-" ++ impl
      (showInts (polyModpow x e g p), v)
    | _, _, _, _ => bad
  | _ => bad

def opDivXA : Handler := fun args impl =>
  match args with
  | [fs, as, ps] => match parseInts? fs, as.toInt?, ps.toInt? with
    | some f, some a, some p =>
      if p == 0 then bad else
      let v :=
        if p < 0 then "skip:negative-modulus"
        else if f.isEmpty || S.evalP p f a != 0 then "skip:not-a-root"
        else match parseInts? impl with
          | some q => verdict (S.reduced p q && S.mulP p q [(-a) % p, 1] == S.red p f) "synthetic-division"
          | none => "fail:unexpected-" ++ impl
      (showM showInts (divideByXA f a p), v)
    | _, _, _ => bad
  | _ => bad

def ops : List (String × Handler) :=
  [("pm.modpow", opModpow), ("pm.modinv", opModinv),
   ("pm.polymod", polyScalar false polyMod specPolyMod), ("pm.polydiv", polyScalar false polyDiv specPolyDiv),
   ("pm.polymul", polyScalar true polyMul specPolyMul), ("pm.diff", polyScalar false differentialMod specDiff),
   ("pm.ofmod", opOfMod), ("pm.modsub", opModSub), ("pm.divrem", opDivrem), ("pm.gcd", opGcd),
   ("pm.extgcd", opExtGcd), ("pm.witness", opWitness), ("pm.modpowpoly", opModpowPoly),
   ("pm.divxa", opDivXA)]

end NTV.Driver.PM
