import NTV.Driver.Parse
import NTV.Model.Resultant
import NTV.Spec.Resultant
/-! Driver op for C10: `gcd f g` = `resultant::resultant_gcd`. -/
namespace NTV.Driver.C10
open NTV.Parse NTV.PolyG NTV.Res
namespace S
export NTV.Spec.Poly (canon)
export NTV.Spec.Res (gcdVerdict)
end S

def verdict (b : Bool) (why : String) : String := if b then "ok" else "fail:" ++ why

def opGcd : Handler := fun args impl =>
  match args.mapM parseInts? with
  | some [f, g] =>
    let r := resultantSmartGcdE f g
    let v :=
      if !exact r then "fail:inexact-division-in-model"
      else if !(S.canon f && S.canon g) || (f.isEmpty && g.isEmpty) then "skip:outside-domain"
      else match parseInts? impl with
        | some d =>
          if f.isEmpty then verdict (d == g || d == neg g) "gcd(0,g)-is-not-±g"
          else if g.isEmpty then verdict (d == f || d == neg f) "gcd(f,0)-is-not-±f"
          else S.gcdVerdict f g d
        | none => "fail:unexpected-" ++ impl
    (render showInts r, v)
  | _ => bad

def ops : List (String × Handler) := [("gcd", opGcd)]

end NTV.Driver.C10
