import NTV.Driver.Parse
import NTV.Model.LllOps
import NTV.Spec.Mat
import NTV.Spec.Lll
import NTV.Spec.Enum
import NTV.Spec.Muk
/-! Driver ops for C20 (LLL, short vectors of a quadratic form, roots of unity). The code under test is
floating point; the oracles are exact-arithmetic checkers applied to the implementation's outputs. -/
namespace NTV.Driver.C20
open NTV.Parse

def first (l : List (Bool × String)) : String :=
  match l.find? (fun p => !p.1) with
  | some (_, why) => "fail:" ++ why
  | none => "ok"

/-- parameters of the property with the floating-point tolerance: δ = 3/4 − 10⁻⁶, η = 1/2 + 10⁻⁶ -/
def delta : Rat := 3 / 4 - 1 / 1000000
def eta : Rat := 1 / 2 + 1 / 1000000

def two53 : Nat := 9007199254740992

/-- `lll B` ⇒ `B'|H` (`nonint|H` when an entry of the returned basis is not an exact integer).
Oracle = the property: H integer with |det H| = 1, B' = H·B, B' LLL-reduced (δ, η above).
Model answer: `lllRat` when no decision of the exact run was within the ambiguity zone, else `-`. -/
def opLll : Handler := fun args impl =>
  match args.mapM parseMat? with
  | some [b] =>
    let n := b.length
    if n < 2 || !(NTV.Spec.Lll.isSquare b n) then ("-", "skip:not-a-square-basis-of-dimension-at-least-2")
    else if NTV.Spec.Lll.det b == 0 then ("-", "skip:singular-basis")
    else
      let (model, inDomain) := match NTV.LllOps.lllRat b with
        | .ok (some r) =>
          -- the two layers of the model must agree: replaying the logged `red`/`swap` operations on
          -- (B, 1) gives the returned pair
          let replayed := NTV.LllOps.applyOps (NTV.LllOps.init b) r.ops
          if replayed.B != r.basis || replayed.H != r.h then ("model-ops-replay-mismatch", true)
          else (if r.ambiguous then "-" else s!"{showMat r.basis}|{showMat r.h}", decide (r.maxAbs < two53))
        | .ok none => ("inconclusive fuel", true)
        | .error e => ("panic " ++ e, true)
      if !inDomain then (model, "skip:intermediate-integers-exceed-2^53") else
      let v := match impl.splitOn "|" with
        | [bs, hs] =>
          match parseMat? hs with
          | some h =>
            if bs == "nonint" then "fail:returned-basis-not-integral"
            else match parseMat? bs with
              | some b' =>
                let why := NTV.Spec.Lll.whyNotReduced b' delta eta
                first [
                  (NTV.Spec.Lll.isSquare h n, "H-shape"),
                  (NTV.Spec.Lll.isSquare b' n, "B'-shape"),
                  ((NTV.Spec.Lll.det h).natAbs == 1, "det-H-not-unit"),
                  (NTV.Spec.Lll.mul h b == b', "B'-differs-from-H*B"),
                  (NTV.Spec.Lll.isReduced b' delta eta, why)]
              | none => "fail:unexpected-" ++ impl
          | none => "fail:unexpected-" ++ impl
        | _ => "fail:unexpected-" ++ impl
      (model, v)
  | _ => bad

/-- `lll.x B`: as `lll`, for bases on which the floating-point run is exact by construction: the oracle
is applied whatever the size of the intermediate integers; no textual comparison -/
def opLllX : Handler := fun args impl =>
  match args.mapM parseMat? with
  | some [b] =>
    let n := b.length
    if n < 2 || !(NTV.Spec.Lll.isSquare b n) || NTV.Spec.Lll.det b == 0 then ("-", "skip:not-a-non-singular-square-basis")
    else
      let v := match impl.splitOn "|" with
        | [bs, hs] =>
          match parseMat? hs with
          | some h =>
            if bs == "nonint" then "fail:returned-basis-not-integral"
            else match parseMat? bs with
              | some b' =>
                let why := NTV.Spec.Lll.whyNotReduced b' delta eta
                first [
                  (NTV.Spec.Lll.isSquare h n, "H-shape"),
                  (NTV.Spec.Lll.isSquare b' n, "B'-shape"),
                  ((NTV.Spec.Lll.det h).natAbs == 1, "det-H-not-unit"),
                  (NTV.Spec.Lll.mul h b == b', "B'-differs-from-H*B"),
                  (NTV.Spec.Lll.isReduced b' delta eta, why)]
              | none => "fail:unexpected-" ++ impl
          | none => "fail:unexpected-" ++ impl
        | _ => "fail:unexpected-" ++ impl
      ("-", v)
  | _ => bad

/-- parse `x1,x2,…:val` -/
def parseEntry? (s : String) : Option (List Int × Option Int) :=
  match s.splitOn ":" with
  | [xs, vs] => (parseInts? xs).map (fun x => (x, vs.toInt?))
  | _ => none

def toQMat (q : List (List Int)) : List (List Rat) := NTV.Spec.Mat.toQ q

/-- largest box the brute force is asked to walk through -/
def maxVolume : Nat := 400000

/-- `enum Q c` ⇒ `x:val;x:val;…` (`_` when empty), the pairs returned by
`Cholesky::find(Q).find_short_vectors(c)`; `val` is the reported value rounded to the nearest integer
(`nonint` if further than 10⁻⁶ from one). Oracle: every `x` is a non-zero integer vector of the right
length with `xᵀQx = val ≤ c` exactly; no two equal up to sign; the set modulo sign is the brute-force
set of the complete box. -/
def opEnum : Handler := fun args impl =>
  match args with
  | [qs, cs] =>
    match parseMat? qs, parseRat? cs with
    | some qi, some c =>
      let q := toQMat qi
      let n := q.length
      if !(NTV.Spec.Enum.isPosDef q) then ("-", "skip:not-positive-definite")
      else match NTV.Spec.Enum.box q c with
        | none => ("-", "skip:not-invertible")
        | some bx =>
          if NTV.Spec.Enum.boxVolume bx > maxVolume then ("-", "skip:box-too-large")
          else
            match (splitEntries impl).mapM parseEntry? with
            | none => ("-", "fail:unexpected-" ++ impl)
            | some es =>
              let truth := NTV.Spec.Enum.shortVectors q c bx
              let got := NTV.Spec.Enum.sortVecs (es.map (fun e => NTV.Spec.Enum.canon e.1))
              let want := NTV.Spec.Enum.sortVecs (truth.map (·.1))
              let v := first [
                (es.all (fun e => e.1.length == n), "vector-length"),
                (es.all (fun e => e.1.any (· != 0)), "zero-vector-returned"),
                (es.all (fun e => e.2.isSome), "reported-value-not-integral"),
                (es.all (fun e => match e.2 with
                  | some v => NTV.Spec.Enum.quadVal q e.1 == (v : Rat)
                  | none => false), "reported-value-differs-from-xQx"),
                (es.all (fun e => decide (NTV.Spec.Enum.quadVal q e.1 ≤ c)), "value-exceeds-bound"),
                (NTV.Spec.Enum.noDupSorted got, "vector-returned-twice-up-to-sign"),
                (want.all (fun x => got.contains x), "short-vector-missing"),
                (got == want, "returned-set-differs-from-brute-force")]
              ("-", v)
    | _, _ => bad
  | _ => bad
where
  splitEntries (s : String) : List String := if s == "_" || s == "" then [] else s.splitOn ";"

/-- `chval Q x` ⇒ `Cholesky::find(Q).find_value(x)` rounded to the nearest integer (`nonint` if not
within 10⁻⁶); oracle and model answer: the exact `xᵀQx`. -/
def opChval : Handler := fun args impl =>
  match args with
  | [qs, xs] =>
    match parseMat? qs, parseInts? xs with
    | some qi, some x =>
      let q := toQMat qi
      if !(NTV.Spec.Enum.isPosDef q) then ("-", "skip:not-positive-definite")
      else if x.length != q.length then ("-", "skip:length")
      else
        let v := NTV.Spec.Enum.quadVal q x
        (showRat v, if impl == showRat v then "ok" else "fail:value-differs-from-xQx")
    | _, _ => bad
  | _ => bad

/-- `muk f kind seed` ⇒ `find_muk` of the field `ℚ[x]/(f)`. `kind` names the closed form
(`cyc:n`, `real`, `imquad`, `given:n`), which is re-verified exactly on `f` before it is used. -/
def opMuk : Handler := fun args impl =>
  match args with
  | [fs, kind, _seed] =>
    match parseInts? fs with
    | some f =>
      match NTV.Spec.Muk.expected f kind with
      | none => ("-", "skip:closed-form-not-verified")
      | some w =>
        (toString w, if impl == toString w then "ok" else s!"fail:roots-of-unity-count-{impl}-expected-{w}")
    | none => bad
  | _ => bad

/-- `nroots f seed` ⇒ `r|s|valid`: the Newton root finder on a squarefree integer polynomial must return
exactly the real roots (their number by Sturm's theorem, exact) and the complex pairs, all of them
finite, accurate and distinct (validated in the harness) -/
def opNroots : Handler := fun args impl =>
  match args with
  | [fs, _seed] => match parseInts? fs with
    | some f =>
      let n := f.length - 1
      let r := NTV.Spec.Muk.realRootCount f
      let v := match impl.splitOn "|" with
        | [rs, ss, flag] => match rs.toNat?, ss.toNat? with
          | some ri, some si =>
            if flag != "valid" then "fail:returned-values-are-not-the-roots"
            else if ri != r then s!"fail:real-root-count-{ri}-instead-of-{r}"
            else if ri + 2 * si != n then "fail:root-count"
            else "ok"
          | _, _ => "fail:unexpected-" ++ impl
        | _ => "fail:unexpected-" ++ impl
      ("-", v)
    | none => bad
  | _ => bad

def ops : List (String × Handler) :=
  [("lll", opLll), ("lll.x", opLllX), ("lll.scaled", fun args impl => match args with
      | [b, k] => if k.toInt?.isSome then opLll [b] impl else bad
      | _ => bad), ("enum", opEnum), ("chval", opChval), ("muk", opMuk), ("nroots", opNroots)]
end NTV.Driver.C20
