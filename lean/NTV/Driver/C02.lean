import NTV.Driver.Parse
import NTV.Model.Hnf
import NTV.Spec.Mat
/-! Driver ops for C02 / C03 (Hermite normal form, transformation matrix, kernel). -/
namespace NTV.Driver.C02
open NTV.Parse
namespace S
export NTV.Spec.Mat (isHNF inSpanHNF rank det mul vecMul isZeroRow rect cols identity)
end S

def verdict (b : Bool) (why : String) : String := if b then "ok" else "fail:" ++ why
def first (l : List (Bool × String)) : String :=
  match l.find? (fun p => !p.1) with
  | some (_, why) => "fail:" ++ why
  | none => "ok"

/-- `hnfu A` ⇒ `H|k|U` (U is a certificate: compared through the oracle only) -/
def opHnfU : Handler := fun args impl =>
  match args.mapM parseMat? with
  | some [a] =>
    let parts := impl.splitOn "|"
    match parts with
    | [hs, ks, us] =>
      match parseMat? hs, ks.toNat?, parseMat? us with
      | some h, some k, some u =>
        let n := a.length
        let model := match NTV.Hnf.hnfWithU a with
          | some (hm, _, km) => s!"{showMat hm}|{km}|{us}"
          | none => "inconclusive fuel"
        let ua := S.mul u a
        let v := first [
          (u.length == n && u.all (fun r => r.length == n), "U-shape"),
          ((S.det u).natAbs == 1, "det-U-not-unit"),
          ((ua.take k).all S.isZeroRow, "first-k-rows-of-UA-not-zero"),
          (ua.drop k == h, "UA-tail-differs-from-H"),
          (S.isHNF h, "H-not-in-normal-form"),
          (k + h.length == n, "k-plus-rows"),
          (h.length == S.rank a, "rows-of-H-differ-from-rank")]
        (model, v)
      | _, _, _ => ("-", "fail:unexpected-" ++ impl)
    | _ => ("-", "fail:unexpected-" ++ impl)
  | _ => bad

/-- `hnfnew A` ⇒ `H` -/
def opHnfNew : Handler := fun args impl =>
  match args.mapM parseMat? with
  | some [a] =>
    let model := match NTV.Hnf.hnfNew a with
      | some h => showMat h
      | none => "inconclusive fuel"
    let v := match parseMat? impl with
      | some h => first [
          (S.isHNF h, "H-not-in-normal-form"),
          (h.length == S.rank a, "rows-of-H-differ-from-rank"),
          (a.all (S.inSpanHNF h), "row-of-A-not-in-span-of-H")]
      | none => "fail:unexpected-" ++ impl
    (model, v)
  | _ => bad

/-- `kernel A` ⇒ `K` (a basis, not canonical: certified through the oracle) -/
def opKernel : Handler := fun args impl =>
  match args.mapM parseMat? with
  | some [a] =>
    match parseMat? impl with
    | some k =>
      let n := a.length
      -- both the returned rows and the model's kernel (proved saturated) are reduced to normal form
      let sameLattice := match NTV.Hnf.kernel a with
        | some km =>
          if km.isEmpty || k.isEmpty then km.isEmpty && k.isEmpty
          else NTV.Hnf.hnfNew km == NTV.Hnf.hnfNew k
        | none => false
      let v := first [
        (k.all (fun r => r.length == n), "kernel-vector-length"),
        (k.all (fun r => S.isZeroRow (S.vecMul r a)), "kernel-vector-does-not-annihilate"),
        (k.length + S.rank a == n, "kernel-dimension"),
        (S.rank k == k.length, "kernel-vectors-dependent"),
        (sameLattice, "kernel-not-saturated")]
      (impl, v)
    | none => ("-", "fail:unexpected-" ++ impl)
  | _ => bad

/-- `hnfsame A B` ⇒ `1` iff HNF::new(A) == HNF::new(B); the harness only sends pairs generating the
same lattice, and the oracle re-checks that with the model's proved-canonical normal form -/
def opSame : Handler := fun args impl =>
  match args.mapM parseMat? with
  | some [a, b] =>
    let same := NTV.Hnf.hnfNew a == NTV.Hnf.hnfNew b
    -- independent decision: the two row lattices contain one another (membership by back-substitution
    -- in the proved normal forms)
    let v := match NTV.Hnf.hnfNew a, NTV.Hnf.hnfNew b with
      | some ha, some hb =>
        let sameLat := S.cols a == S.cols b && a.all (S.inSpanHNF hb) && b.all (S.inSpanHNF ha)
        if sameLat then verdict (impl == "1") "same-lattice-different-normal-form"
        else verdict (impl == "0") "different-lattices-compare-equal"
      | _, _ => "skip:inconclusive"
    (if same then "1" else "0", v)
  | _ => bad

/-- `union A B` ⇒ HNF of the stacked generators (inputs are HNFs) -/
def opUnion : Handler := fun args impl =>
  match args.mapM parseMat? with
  | some [a, b] =>
    let model := match NTV.Hnf.union a b with
      | .ok (some h) => showMat h
      | .ok none => "inconclusive fuel"
      | .error e => "panic " ++ e
    let v := match parseMat? impl with
      | some h => first [
          (S.isHNF h, "H-not-in-normal-form"),
          ((a ++ b).all (S.inSpanHNF h), "argument-not-contained-in-union"),
          (h.length == S.rank (a ++ b), "rank")]
      | none => if model.startsWith "panic" && impl.startsWith "panic" then "ok" else "fail:unexpected-" ++ impl
    (model, v)
  | _ => bad

/-- `hnfdet A` ⇒ `HNF::new(A).determinant()`; for square full-rank input it is |det A| -/
def opDet : Handler := fun args impl =>
  match args.mapM parseMat? with
  | some [a] =>
    let model := match NTV.Hnf.hnfNew a with
      | some h => toString (NTV.Hnf.determinant h)
      | none => "inconclusive fuel"
    let v := match impl.toInt? with
      | some d =>
        -- claim only for square full-rank lattices: the determinant is the index |det A|
        if a.length == S.cols a && S.rank a == a.length then verdict (d == (S.det a).natAbs) "determinant-is-not-the-index"
        else "ok"
      | none => "fail:unexpected-" ++ impl
    (model, v)
  | _ => bad

def ops : List (String × Handler) :=
  [("hnfu", opHnfU), ("hnfnew", opHnfNew), ("kernel", opKernel), ("hnfsame", opSame),
   ("union", opUnion), ("hnfdet", opDet)]
end NTV.Driver.C02
