import NTV.Driver.Parse
import NTV.Driver.C19
import NTV.Driver.C09
import NTV.Driver.C02
import NTV.Driver.C13
import NTV.Driver.C04
import NTV.Driver.C05
import NTV.Driver.C10
import NTV.Driver.C01
import NTV.Driver.PM
import NTV.Driver.C12
import NTV.Driver.C11
import NTV.Driver.C08
import NTV.Driver.C18
import NTV.Driver.C20
import NTV.Driver.C07
import NTV.Driver.C06
import NTV.Driver.C16
import NTV.Driver.C17
import NTV.Driver.C14
import NTV.Driver.C15
/-! Line-protocol driver. Input line: `op<TAB>arg…<TAB>=><TAB>implAnswer`.
Output line: `modelAnswer<TAB>verdict`. -/
open NTV.Parse

def allOps : List (String × Handler) :=
  NTV.Driver.C19.ops ++ NTV.Driver.C09.ops ++ NTV.Driver.C02.ops ++ NTV.Driver.C13.ops ++ NTV.Driver.C04.ops ++ NTV.Driver.C05.ops ++ NTV.Driver.C10.ops ++ NTV.Driver.C01.ops ++ NTV.Driver.PM.ops ++ NTV.Driver.C12.ops ++ NTV.Driver.C11.ops ++ NTV.Driver.C08.ops ++ NTV.Driver.C18.ops ++ NTV.Driver.C20.ops ++ NTV.Driver.C07.ops ++ NTV.Driver.C06.ops ++ NTV.Driver.C16.ops ++ NTV.Driver.C17.ops ++ NTV.Driver.C14.ops ++ NTV.Driver.C15.ops

def handleLine (line : String) : String :=
  let fields := line.splitOn "\t"
  match fields with
  | op :: rest =>
    let (args, impl) :=
      match rest.span (· != "=>") with
      | (a, _ :: i) => (a, "\t".intercalate i)
      | (a, []) => (a, "")
    match allOps.lookup op with
    | some h => let (m, v) := h args impl; m ++ "\t" ++ v
    | none => "bad-op\tskip:unknown-op"
  | [] => "bad-op\tskip:empty"

partial def loop (hin : IO.FS.Stream) (hout : IO.FS.Stream) : IO Unit := do
  let line ← hin.getLine
  if line.isEmpty then return ()
  let line := if line.back == '\n' then line.dropRight 1 else line
  hout.putStrLn (handleLine line)
  loop hin hout

def main : IO Unit := do
  let hin ← IO.getStdin
  let hout ← IO.getStdout
  loop hin hout
  hout.flush
