import NTV.Driver.Parse
import NTV.Model.Resultant
import NTV.Spec.Resultant
/-! Driver ops for C05 (discriminant). `disc f` ⇒ `disc(f) gcd(f, f')` (both from the
implementation), `disc.shift f c` ⇒ `disc(f) disc(f(x+c))`, `disc.neg f` ⇒ `disc(f) disc(f(-x))`,
`disc.mul f g` ⇒ `disc(fg) disc(f) disc(g) Res(f, g)`. `disc.raw` = `disc` on an un-normalised
coefficient list (as the CLI passes it). -/
namespace NTV.Driver.C05
open NTV.Parse NTV.PolyG NTV.Res
namespace S
export NTV.Spec.Poly (canon norm mulSpec)
export NTV.Spec.Res (discSpec deriv gcdDegQ shift negArg)
end S

def verdict (b : Bool) (why : String) : String := if b then "ok" else "fail:" ++ why

/-- several implementation calls inside one `run`: the first panic (or fuel exhaustion) is the
whole answer, otherwise the values separated by spaces -/
def joinRuns (xs : List String) : String :=
  match xs.find? (fun x => x.startsWith "panic" || x.startsWith "inconclusive") with
  | some x => x
  | none => " ".intercalate xs

/-- the property's domain: canonical, degree ≥ 1 -/
def inDomain (f : List Int) : Bool := S.canon f && f.length ≥ 2

def opDisc : Handler := fun args impl =>
  match args.mapM parseInts? with
  | some [f] =>
    let d := discriminantE f
    let g := resultantSmartGcdE f (differential f)
    let model := joinRuns [render toString d, render showInts g]
    let v :=
      if !(exact d && exact g) then "fail:inexact-division-in-model"
      else if !inDomain f then "skip:outside-domain"
      else match impl.splitOn " " with
        | [ds, gs] => match ds.toInt?, parseInts? gs with
          | some di, some gi =>
            if some di != S.discSpec f then "fail:discriminant-value"
            else if (di == 0) != (S.gcdDegQ f (S.deriv f) ≥ 1) then "fail:zero-iff-repeated-factor"
            else verdict ((di == 0) == (gi.length ≥ 2)) "zero-iff-gcd-nonconstant"
          | _, _ => "fail:unexpected-" ++ impl
        | _ => "fail:unexpected-" ++ impl
    (model, v)
  | _ => bad

/-- two discriminants that must coincide -/
def invariance (f f2 : List Int) (impl : String) : String × String :=
  let d1 := discriminantE f
  let d2 := discriminantE f2
  let model := joinRuns [render toString d1, render toString d2]
  let v :=
    if !(exact d1 && exact d2) then "fail:inexact-division-in-model"
    else if !inDomain f then "skip:outside-domain"
    else match (impl.splitOn " ").mapM (·.toInt?) with
      | some [a, b] => verdict (a == b) "invariance"
      | _ => "fail:unexpected-" ++ impl
  (model, v)

def opShift : Handler := fun args impl =>
  match args with
  | [fs, cs] => match parseInts? fs, cs.toInt? with
    | some f, some c => invariance f (S.shift f c) impl
    | _, _ => bad
  | _ => bad

def opNeg : Handler := fun args impl =>
  match args.mapM parseInts? with
  | some [f] => invariance f (S.negArg f) impl
  | _ => bad

def opMul : Handler := fun args impl =>
  match args.mapM parseInts? with
  | some [f, g] =>
    let fg := S.mulSpec f g
    let ms := [discriminantE fg, discriminantE f, discriminantE g, resultantSmartE f g]
    let model := joinRuns (ms.map (render toString))
    let v :=
      if !(ms.all exact) then "fail:inexact-division-in-model"
      else if !(inDomain f && inDomain g) then "skip:outside-domain"
      else match (impl.splitOn " ").mapM (·.toInt?) with
        | some [dfg, df, dg, r] => verdict (dfg == df * dg * r * r) "product-formula"
        | _ => "fail:unexpected-" ++ impl
    (model, v)
  | _ => bad

/-- process level: `cli.disc f` prints the discriminant of the normalised list -/
def opCliDisc : Handler := fun args impl =>
  match args.mapM parseInts? with
  | some [f0] =>
    let f := NTV.PolyG.fromRaw f0
    let d := discriminantE f
    let model := render toString d
    let v :=
      if !(exact d) then "fail:inexact-division-in-model"
      else if !inDomain f then "skip:outside-domain"
      else match impl.toInt? with
        | some di => verdict (some di == S.discSpec f) "discriminant-value"
        | none => "fail:unexpected-" ++ impl
    (model, v)
  | _ => bad

def ops : List (String × Handler) :=
  [("cli.disc", opCliDisc), ("disc", opDisc), ("disc.raw", opDisc), ("disc.shift", opShift), ("disc.neg", opNeg),
   ("disc.mul", opMul)]

end NTV.Driver.C05
