import NTV.Driver.Parse
import NTV.Model.Ideal
import NTV.Spec.Ideal
/-! Driver ops for C16 (ideal arithmetic in an order given by its multiplication table).
Wire format: a table `T` is its blocks `T[i]` (matrices, rows `;`) separated by `|`; an ideal is its
HNF (a matrix, `_` for the zero ideal); an element is its coordinate list.
`id.principal T x ⇒ H|norm`, `id.add T I J ⇒ H`, `id.mul T I J ⇒ H|N(IJ)|N(I)|N(J)`,
`id.norm T I ⇒ N(I)`, `id.capz T I ⇒ m`, `id.contains T I x ⇒ 0/1`, `id.inv T I ⇒ d|N`
(`I.inv(&T.get_inv_diff())`), `id.invdiff T disc ⇒ denom|numer` (disc = `Order::discriminant`),
`id.laws T I J K ⇒ five flags` (the implementation's answers to IJ = JI, (IJ)K = I(JK),
I(J+K) = IJ + IK, I+J = J+I, (I+J)+K = I+(J+K)). -/
namespace NTV.Driver.C16
open NTV.Parse
namespace S
export NTV.Spec.Ideal (Checks isOrderTable isIdeal checkSum checkProduct checkNorms checkPrincipal checkCapZ
  checkInv checkInvDiff wellFormed)
export NTV.Spec.Mat (inSpanHNF)
end S
namespace M
export NTV.Ideal (principal add mul norm capZ contains inv getInvDiff)
end M

def first (l : S.Checks) : String :=
  match l.find? (fun p => !p.1) with
  | some (_, why) => "fail:" ++ why
  | none => "ok"

def render {α : Type} (sh : α → String) : Except String α → String
  | .ok v => sh v
  | .error e => e

def parseTable? (s : String) : Option (List (List (List Int))) :=
  if s == "_" || s == "" then some [] else (s.splitOn "|").mapM parseMat?

def unexpected (impl : String) : String := "fail:unexpected-" ++ impl
def badTable : String := "skip:table-is-not-that-of-an-order-with-first-basis-vector-1"
def badArg : String := "skip:argument-is-not-a-non-zero-ideal"

def parseArgs (ts : String) (ms : List String) : Option (List (List (List Int)) × List (List (List Int))) := do
  let t ← parseTable? ts
  let l ← ms.mapM parseMat?
  pure (t, l)

/-- `id.principal T x ⇒ H|norm` -/
def opPrincipal : Handler := fun args impl =>
  match args with
  | [ts, xs] => match parseTable? ts, parseInts? xs with
    | some t, some x =>
      if !S.wellFormed t then bad else
      let model := render (fun h => s!"{showMat h}|{M.norm h}") (M.principal t x)
      let v :=
        if !S.isOrderTable t then badTable
        else if x.length != t.length then "skip:element-of-the-wrong-length"
        else if x.all (· == 0) then "skip:zero-element"
        else match impl.splitOn "|" with
          | [hs, ns] => match parseMat? hs, ns.toInt? with
            | some h, some nrm => first (S.checkPrincipal t x h nrm)
            | _, _ => unexpected impl
          | _ => unexpected impl
      (model, v)
    | _, _ => bad
  | _ => bad

/-- `id.add T I J ⇒ H` -/
def opAdd : Handler := fun args impl =>
  match args with
  | [ts, is, js] => match parseArgs ts [is, js] with
    | some (t, [i, j]) =>
      if !S.wellFormed t then bad else
      let model := render showMat (M.add i j)
      let v :=
        if !S.isOrderTable t then badTable
        else if !(S.isIdeal t i && S.isIdeal t j) then badArg
        else match parseMat? impl with
          | some s => first (S.checkSum t i j s)
          | none => unexpected impl
      (model, v)
    | _ => bad
  | _ => bad

/-- `id.mul T I J ⇒ H|N(IJ)|N(I)|N(J)` -/
def opMul : Handler := fun args impl =>
  match args with
  | [ts, is, js] => match parseArgs ts [is, js] with
    | some (t, [i, j]) =>
      if !S.wellFormed t then bad else
      let model := render (fun h => s!"{showMat h}|{M.norm h}|{M.norm i}|{M.norm j}") (M.mul t i j)
      let v :=
        if !S.isOrderTable t then badTable
        else if !(S.isIdeal t i && S.isIdeal t j) then badArg
        else match impl.splitOn "|" with
          | [hs, a, b, c] => match parseMat? hs, a.toInt?, b.toInt?, c.toInt? with
            | some p, some nij, some ni, some nj => first (S.checkProduct t i j p ++ S.checkNorms i j p nij ni nj)
            | _, _, _, _ => unexpected impl
          | _ => unexpected impl
      (model, v)
    | _ => bad
  | _ => bad

/-- `id.norm T I ⇒ N(I)` = index of the lattice -/
def opNorm : Handler := fun args impl =>
  match args with
  | [ts, is] => match parseArgs ts [is] with
    | some (t, [i]) =>
      if !S.wellFormed t then bad else
      let model := toString (M.norm i)
      let v :=
        if !S.isOrderTable t then badTable
        else if !S.isIdeal t i then badArg
        else match impl.toInt? with
          | some n => first [(n == (NTV.Spec.Ideal.index i : Int), "norm-is-not-the-index-of-the-lattice")]
          | none => unexpected impl
      (model, v)
    | _ => bad
  | _ => bad

/-- `id.capz T I ⇒ m` with I ∩ Z = mZ, m > 0 -/
def opCapZ : Handler := fun args impl =>
  match args with
  | [ts, is] => match parseArgs ts [is] with
    | some (t, [i]) =>
      if !S.wellFormed t then bad else
      let model := render toString (M.capZ i)
      let v :=
        if !S.isOrderTable t then badTable
        else if !S.isIdeal t i then badArg
        else match impl.toInt? with
          | some m => first (S.checkCapZ t i m)
          | none => unexpected impl
      (model, v)
    | _ => bad
  | _ => bad

/-- `id.contains T I x ⇒ 0/1` -/
def opContains : Handler := fun args impl =>
  match args with
  | [ts, is, xs] => match parseArgs ts [is], parseInts? xs with
    | some (t, [i]), some x =>
      if !S.wellFormed t then bad else
      let model := render (fun (b : Bool) => if b then "1" else "0") (M.contains t i x)
      let v :=
        if !S.isOrderTable t then badTable
        else if !S.isIdeal t i then badArg
        else if x.length != t.length then "skip:element-of-the-wrong-length"
        else if impl == "1" || impl == "0" then
          first [((impl == "1") == S.inSpanHNF i x, "membership-answer-differs-from-lattice-membership")]
        else unexpected impl
      (model, v)
    | _, _ => bad
  | _ => bad

/-- `id.inv T I ⇒ d|N` with I · N = (d) -/
def opInv : Handler := fun args impl =>
  match args with
  | [ts, is] => match parseArgs ts [is] with
    | some (t, [i]) =>
      if !S.wellFormed t then bad else
      let model := render (fun (r : NTV.Ideal.FracIdeal) => s!"{r.1}|{showMat r.2}")
        (M.getInvDiff t >>= fun dd => M.inv t i dd)
      let v :=
        if !S.isOrderTable t then badTable
        else if !S.isIdeal t i then badArg
        else match impl.splitOn "|" with
          | [ds, ns] => match ds.toInt?, parseMat? ns with
            | some d, some nn => first (S.checkInv t i nn d)
            | _, _ => unexpected impl
          | _ => unexpected impl
      (model, v)
    | _ => bad
  | _ => bad

/-- `id.invdiff T disc ⇒ denom|numer` -/
def opInvDiff : Handler := fun args impl =>
  match args with
  | [ts, ds] => match parseTable? ts, ds.toInt? with
    | some t, some disc =>
      if !S.wellFormed t then bad else
      let model := render (fun (r : NTV.Ideal.FracIdeal) => s!"{r.1}|{showMat r.2}") (M.getInvDiff t)
      let v :=
        if !S.isOrderTable t then badTable
        else if disc == 0 then "skip:discriminant-zero"
        else match impl.splitOn "|" with
          | [dn, ns] => match dn.toInt?, parseMat? ns with
            | some denom, some numer => first (S.checkInvDiff t disc denom numer)
            | _, _ => unexpected impl
          | _ => unexpected impl
      (model, v)
    | _, _ => bad
  | _ => bad

def flag (b : Bool) : String := if b then "1" else "0"

/-- `id.laws T I J K ⇒ c,a,d,c+,a+`: the laws evaluated on the implementation -/
def opLaws : Handler := fun args impl =>
  match args with
  | [ts, is, js, ks] => match parseArgs ts [is, js, ks] with
    | some (t, [i, j, k]) =>
      if !S.wellFormed t then bad else
      let run : Except String String := do
        let ij ← M.mul t i j
        let ji ← M.mul t j i
        let ijk ← M.mul t ij k
        let jk ← M.mul t j k
        let ijk' ← M.mul t i jk
        let jpk ← M.add j k
        let l ← M.mul t i jpk
        let ik ← M.mul t i k
        let r ← M.add ij ik
        let ipj ← M.add i j
        let jpi ← M.add j i
        let s1 ← M.add ipj k
        let s2 ← M.add i jpk
        pure (",".intercalate [flag (ij == ji), flag (ijk == ijk'), flag (l == r), flag (ipj == jpi), flag (s1 == s2)])
      let model := render id run
      let v :=
        if !S.isOrderTable t then badTable
        else if !(S.isIdeal t i && S.isIdeal t j && S.isIdeal t k) then badArg
        else match impl.splitOn "," with
          | [c, a, d, cp, ap] => first [
              (c == "1", "product-not-commutative"),
              (a == "1", "product-not-associative"),
              (d == "1", "product-does-not-distribute-over-sum"),
              (cp == "1", "sum-not-commutative"),
              (ap == "1", "sum-not-associative")]
          | _ => unexpected impl
      (model, v)
    | _ => bad
  | _ => bad

def ops : List (String × Handler) :=
  [("id.principal", opPrincipal), ("id.add", opAdd), ("id.mul", opMul), ("id.norm", opNorm),
   ("id.capz", opCapZ), ("id.contains", opContains), ("id.inv", opInv), ("id.invdiff", opInvDiff),
   ("id.laws", opLaws)]
end NTV.Driver.C16
