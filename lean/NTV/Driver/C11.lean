import NTV.Driver.Parse
import NTV.Driver.PM
import NTV.Model.PolyModHensel
import NTV.Spec.PolyMod
/-! Driver op for C11 (`lift_factorization`): `pm.lift c factors p e => lifted factors`
(lists of polynomials are `;`-separated). The Bezout-witness clause is the op `pm.witness` of
`NTV.Driver.PM`. -/
namespace NTV.Driver.C11
open NTV.Parse NTV.PolyMod
namespace S
export NTV.Spec.PolyMod (primeModulus liftPre liftOk)
end S

def verdict (b : Bool) (why : String) : String := if b then "ok" else "fail:" ++ why

def opLift : Handler := fun args impl =>
  match args with
  | [cs, fs, ps, es] => match parseInts? cs, parseMat? fs, ps.toInt?, es.toNat? with
    | some c, some factors, some p, some e =>
      if p ≤ 1 then bad else
      let model := NTV.Driver.PM.showM showMat (liftFactorization p e c factors)
      let v :=
        match S.primeModulus p with
        | some false => "skip:modulus-not-prime"
        | none => "skip:modulus-of-unknown-primality"
        | some true =>
          if e == 0 then "skip:precondition-exponent"
          else match S.liftPre p c factors with
            | none => "fail:oracle-inconsistent"
            | some false => "skip:precondition"
            | some true => match parseMat? impl with
              | some gs => verdict (S.liftOk p e c factors gs) "lift"
              | none => "fail:unexpected-" ++ impl
      (model, v)
    | _, _, _, _ => bad
  | _ => bad

def ops : List (String × Handler) := [("pm.lift", opLift)]
end NTV.Driver.C11
