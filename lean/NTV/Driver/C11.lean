import NTV.Driver.Parse
import NTV.Driver.PM
import NTV.Model.PolyModHensel
import NTV.Spec.PolyMod
/-! Driver op for C11 (`lift_factorization`): `pm.lift c factors p e => lifted factors`
(lists of polynomials are `;`-separated). The Bezout-witness clause is the op `pm.witness` of
`NTV.Driver.PM`. -/
namespace NTV.Driver.C11
open NTV.Parse NTV.PolyMod
namespace S
export NTV.Spec.PolyMod (primeModulus liftPre liftOk)
end S

def verdict (b : Bool) (why : String) : String := if b then "ok" else "fail:" ++ why

def opLift : Handler := fun args impl =>
  match args with
  | [cs, fs, ps, es] => match parseInts? cs, parseMat? fs, ps.toInt?, es.toNat? with
    | some c, some factors, some p, some e =>
      if p ≤ 1 then bad else
      let model := NTV.Driver.PM.showM showMat (liftFactorization p e c factors)
      let v :=
        match S.primeModulus p with
        | some false => "skip:modulus-not-prime"
        | none => "skip:modulus-of-unknown-primality"
        | some true =>
          if e == 0 then "skip:precondition-exponent"
          else match S.liftPre p c factors with
            | none => "fail:oracle-inconsistent"
            | some false => "skip:precondition"
            | some true => match parseMat? impl with
              | some gs => verdict (S.liftOk p e c factors gs) "lift"
              | none => "fail:unexpected-" ++ impl
      (model, v)
    | _, _, _, _ => bad
  | _ => bad

/-- `pm.hlift p q c a b u v` ⇒ `a1|b1|qr`: one Hensel step. Oracle = the conclusion of Cohen 3.5.5 (what
`henselLift_full` proves about the model): when c ≡ a·b (mod q) and a·u + b·v ≡ 1 (mod gcd(p,q)), then
qr = q·gcd(p,q), c ≡ a1·b1 (mod qr), a1 ≡ a and b1 ≡ b (mod q); otherwise outside the domain -/
def opHlift : Handler := fun args impl =>
  match args with
  | [ps, qs, cs, as, bs, us, vs] =>
    match ps.toInt?, qs.toInt?, parseInts? cs, parseInts? as, parseInts? bs, parseInts? us, parseInts? vs with
    | some p, some q, some c, some a, some b, some u, some v =>
      if p == 0 || q == 0 then bad else
      let (a1, b1, qr) := henselLift p q c a b u v
      let model := s!"{showInts a1}|{showInts b1}|{qr}"
      let r : Int := Int.gcd p q
      let congr (m : Int) (x y : List Int) : Bool :=
        (NTV.Spec.Poly.subSpec x y).all (fun t => t % m == 0)
      let pre := congr q c (NTV.Spec.Poly.mulSpec a b) &&
        congr r (NTV.Spec.Poly.addSpec (NTV.Spec.Poly.mulSpec a u) (NTV.Spec.Poly.mulSpec b v)) [1]
      let vd :=
        if !pre then "skip:precondition"
        else match impl.splitOn "|" with
          | [x, y, z] => match parseInts? x, parseInts? y, z.toInt? with
            | some ia, some ib, some iqr =>
              if iqr != q * r then "fail:modulus"
              else if !(congr (q * r) c (NTV.Spec.Poly.mulSpec ia ib)) then "fail:c-not-congruent-to-a1*b1"
              else if !(congr q ia a && congr q ib b) then "fail:factors-changed-modulo-q"
              else "ok"
            | _, _, _ => "fail:unexpected-" ++ impl
          | _ => "fail:unexpected-" ++ impl
      (model, vd)
    | _, _, _, _, _, _, _ => bad
  | _ => bad

/-- `pm.lift.i128`: the same generic routine instantiated at `i128` (deterministic: same specification
and the same textual answer as the BigInt instantiation) -/
def ops : List (String × Handler) := [("pm.lift", opLift), ("pm.lift.i128", opLift), ("pm.hlift", opHlift)]
end NTV.Driver.C11
