import NTV.Driver.Parse
import NTV.Driver.C16
import NTV.Model.Ideal
import NTV.Spec.Ideal
/-! Driver ops for C17 (decomposition of a rational prime in the maximal order).
`pd.decompose f B T p draws ⇒ H:e|H:e|…` (the list exactly as returned, in the order of the modular
factorization, which depends on the draws) or `panic other` when p divides the index.
`cli.pd f B T p ref ⇒ norm:e|norm:e|…`: the answer of `rust-number-theory <config>` with
to_find = prime-decomposition; `ref` is the in-process answer for the same (f, p), which the oracle
certifies itself before comparing the multisets of (norm, e) (the process draws its own random numbers,
so the order may differ). -/
namespace NTV.Driver.C17
open NTV.Parse
namespace S
export NTV.Spec.Ideal (Checks validField indexOfZTheta checkDecomposition index)
export NTV.Spec.PolyMod (primeModulus)
end S

def first (l : S.Checks) : String :=
  match l.find? (fun p => !p.1) with
  | some (_, why) => "fail:" ++ why
  | none => "ok"

def showIdeals (l : List (List (List Int) × Nat)) : String :=
  if l.isEmpty then "_" else "|".intercalate (l.map (fun (h, e) => s!"{showMat h}:{e}"))

def parseIdeals? (s : String) : Option (List (List (List Int) × Nat)) :=
  if s == "_" || s == "" then some []
  else (s.splitOn "|").mapM (fun item =>
    match item.splitOn ":" with
    | [h, e] => do
      let h ← parseMat? h
      let e ← e.toNat?
      pure (h, e)
    | _ => none)

def parseNormList? (s : String) : Option (List (Int × Nat)) :=
  if s == "_" || s == "" then some []
  else (s.splitOn "|").mapM (fun item =>
    match item.splitOn ":" with
    | [n, e] => do
      let n ← n.toInt?
      let e ← e.toNat?
      pure (n, e)
    | _ => none)

/-- the verdict of C17 on one in-process answer -/
def judge (f : List Int) (b : List (List Rat)) (t : List (List (List Int))) (p : Int) (impl : String) : String :=
  if !S.validField f b t then "skip:input-is-not-an-order-of-Q(theta)-with-its-table"
  else match S.primeModulus p with
    | some false => "skip:p-not-prime"
    | none => "skip:p-of-unknown-primality"
    | some true =>
      match S.indexOfZTheta b with
      | none => "skip:order-does-not-contain-Z[theta]"
      | some idx =>
        if idx % p == 0 then
          (if impl.startsWith "panic" then "ok" else "fail:no-refusal-for-p-dividing-the-index")
        else match parseIdeals? impl with
          | some res => first (S.checkDecomposition f b t p res)
          | none => "fail:unexpected-" ++ impl

/-- `pd.decompose f B T p draws` -/
def opDecompose : Handler := fun args impl =>
  match args with
  | [fs, bs, ts, ps, ds] => match parseInts? fs, parseRatMat? bs, NTV.Driver.C16.parseTable? ts, ps.toInt? with
    | some f, some b, some t, some p =>
      let model := NTV.Driver.C16.render showIdeals (NTV.Ideal.decompose f b t p (parseChunks ds))
      (model, judge f b t p impl)
    | _, _, _, _ => bad
  | _ => bad

def insertSorted (x : Int × Nat) : List (Int × Nat) → List (Int × Nat)
  | [] => [x]
  | y :: ys => if x.1 < y.1 || (x.1 == y.1 && x.2 ≤ y.2) then x :: y :: ys else y :: insertSorted x ys
def sortPairs (l : List (Int × Nat)) : List (Int × Nat) := l.foldr insertSorted []

/-- `cli.pd f B T p ref ⇒ norm:e|…` (process level; oracle only) -/
def opCli : Handler := fun args impl =>
  match args with
  | [fs, bs, ts, ps, ref] => match parseInts? fs, parseRatMat? bs, NTV.Driver.C16.parseTable? ts, ps.toInt? with
    | some f, some b, some t, some p =>
      let jr := judge f b t p ref
      let v :=
        if jr != "ok" then "skip:reference-answer-not-certified-" ++ jr
        else if ref.startsWith "panic" then
          (if impl.startsWith "panic" then "ok" else "fail:no-refusal-for-p-dividing-the-index")
        else match parseIdeals? ref, parseNormList? impl with
          | some res, some l =>
            first [(sortPairs l == sortPairs (res.map (fun (h, e) => ((S.index h : Int), e))),
                    "norms-and-exponents-differ-from-the-certified-decomposition")]
          | _, _ => "fail:unexpected-" ++ impl
      ("-", v)
    | _, _, _, _ => bad
  | _ => bad

def ops : List (String × Handler) := [("pd.decompose", opDecompose), ("cli.pd", opCli)]
end NTV.Driver.C17
