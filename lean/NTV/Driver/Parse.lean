/-! Line-protocol (de)serialisation shared by all driver ops. Import-free.
Integers: decimal; lists: comma separated, `_` for the empty list; matrices: rows separated by `;`,
`_` for no rows; rationals `p/q` (or plain integer). -/
namespace NTV.Parse

def parseInt? (s : String) : Option Int := s.toInt?
def parseNat? (s : String) : Option Nat := s.toNat?

def splitList (s : String) : List String :=
  if s == "_" || s == "" then [] else s.splitOn ","

def parseInts? (s : String) : Option (List Int) := (splitList s).mapM parseInt?
def parseNats? (s : String) : Option (List Nat) := (splitList s).mapM parseNat?

def parseMat? (s : String) : Option (List (List Int)) :=
  if s == "_" || s == "" then some [] else (s.splitOn ";").mapM parseInts?

def parseRat? (s : String) : Option Rat :=
  match s.splitOn "/" with
  | [p] => p.toInt?.map (fun (n : Int) => (n : Rat))
  | [p, q] => do
    let n ← p.toInt?
    let d ← q.toInt?
    if d == 0 then none else some ((n : Rat) / (d : Rat))
  | _ => none

def parseRats? (s : String) : Option (List Rat) := (splitList s).mapM parseRat?
def parseRatMat? (s : String) : Option (List (List Rat)) :=
  if s == "_" || s == "" then some [] else (s.splitOn ";").mapM parseRats?

def showList (f : α → String) (l : List α) : String :=
  if l.isEmpty then "_" else ",".intercalate (l.map f)
def showInts (l : List Int) : String := showList toString l
def showNats (l : List Nat) : String := showList toString l
def showMat (m : List (List Int)) : String :=
  if m.isEmpty then "_" else ";".intercalate (m.map showInts)
def showRat (r : Rat) : String := if r.den == 1 then toString r.num else s!"{r.num}/{r.den}"
def showRats (l : List Rat) : String := showList showRat l
def showRatMat (m : List (List Rat)) : String :=
  if m.isEmpty then "_" else ";".intercalate (m.map showRats)

/-- hex string -> bytes -/
def hexVal (c : Char) : Nat :=
  if '0' ≤ c ∧ c ≤ '9' then c.toNat - '0'.toNat
  else if 'a' ≤ c ∧ c ≤ 'f' then c.toNat - 'a'.toNat + 10 else 0
def parseHex : List Char → List Nat
  | a :: b :: rest => (hexVal a * 16 + hexVal b) :: parseHex rest
  | _ => []
/-- draw log: chunks separated by `,`, each chunk hex bytes -/
def parseChunks (s : String) : List (List Nat) := (splitList s).map (fun c => parseHex c.toList)

/-- A handler gets the argument fields and the implementation's answer and returns
(model answer, oracle verdict). Model answer `-` means "no textual comparison". Verdict is
`ok`, `skip:<why>` or `fail:<why>`. -/
abbrev Handler := List String → String → String × String

def bad : String × String := ("bad-op", "skip:bad-op")
end NTV.Parse
