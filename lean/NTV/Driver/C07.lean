import NTV.Driver.Parse
import NTV.Model.PolyZ
import NTV.Spec.PolyZ
import NTV.Spec.PolyZBound
/-! Driver ops for C07 (`poly_z::factorize`).
`pz.factor a expected draws => c|f1^e1;f2^e2;…` (the list exactly as returned: its order is determined by
the algorithm and the draws of the modular factorizer, so the comparison with the model is textual; `_` =
no factor). `expected` is `-` or the factorization `c|f^e;…` the harness built the input from (factors
irreducible by construction), used by the oracle only when its own irreducibility certificates are undecided.
`cli.pz a => c|f^e;…`: the same answer as printed by `rust-number-theory <config>` with
to_find = factorization (the random history of that process is not captured: oracle only). -/
namespace NTV.Driver.C07
open NTV.Parse
namespace S
export NTV.Spec.PolyZ (judge radicalDegree)
export NTV.Spec.Poly (canon)
end S

abbrev Fac := List (List Int × Nat)

def showFac (l : Fac) : String :=
  if l.isEmpty then "_" else ";".intercalate (l.map (fun fe => s!"{showInts fe.1}^{fe.2}"))

def showAnswer (r : Int × Fac) : String := s!"{r.1}|{showFac r.2}"

def parseFac? (s : String) : Option Fac :=
  if s == "_" || s == "" then some []
  else (s.splitOn ";").mapM (fun item =>
    match item.splitOn "^" with
    | [g, e] => do
      let g ← parseInts? g
      let e ← e.toNat?
      pure (g, e)
    | _ => none)

def parseAnswer? (s : String) : Option (Int × Fac) :=
  match s.splitOn "|" with
  | [c, fs] => do
    let c ← c.toInt?
    let fac ← parseFac? fs
    pure (c, fac)
  | _ => none

/-- the conclusion of C07 on one answer of the implementation -/
def verdictOf (a : List Int) (expected : Option (Int × Fac)) (impl : String) : String :=
  if !S.canon a then "skip:outside-domain"
  else if impl.startsWith "panic" then
    -- at most deg(squarefree part) lifted factors: within the recombination limit no panic is legal
    if a.length ≤ 1 || S.radicalDegree a ≤ 25 then "fail:" ++ impl.replace " " "-"
    else "skip:beyond-the-recombination-limit"
  else match parseAnswer? impl with
    | none => "fail:unexpected-" ++ impl
    | some (c, fac) => S.judge a c fac expected

def parseExpected (s : String) : Option (Option (Int × Fac)) :=
  if s == "-" then some none else (parseAnswer? s).map some

def opFactor : Handler := fun args impl =>
  match args with
  | [as, es, ds] => match parseInts? as, parseExpected es with
    | some a, some expected =>
      let model := match NTV.PolyZ.factorize a (parseChunks ds) with
        | .ok r => showAnswer r
        | .error e => e
      -- the subresultant gcd of the model divides with truncation: every such division must be exact
      let exact := a.length ≤ 1 ||
        (let pp := (NTV.PolyG.contPP a).2
         NTV.Res.exact (NTV.Res.resultantSmartGcdE pp (NTV.PolyG.differential pp)))
      let v0 := if !exact then "fail:inexact-division-in-model" else verdictOf a expected impl
      -- where the direct oracle cannot decide irreducibility, the model's answer on the same history is
      -- THE factorisation (theorems `factors_irreducible`, `product_identity`, `complete`): an answer with
      -- other factors (as a multiset) is wrong
      let v :=
        if v0.startsWith "skip" then
          match NTV.PolyZ.factorize a (parseChunks ds), parseAnswer? impl with
          | .ok r, some (c, fac) =>
            let key := fun (l : Fac) => (l.map (fun fe => s!"{showInts fe.1}^{fe.2}")).mergeSort (· ≤ ·)
            if c == r.1 && key fac == key r.2 then v0 else "fail:differs-from-the-proved-factorisation"
          | _, _ => v0
        else v0
      (model, v)
    | _, _ => bad
  | _ => bad

def opCli : Handler := fun args impl =>
  match args with
  | as :: rest => match parseInts? as, parseExpected (rest.headD "-") with
    | some a, some expected =>
      -- the CLI normalises its input with `from_raw`
      if rest.length > 1 then bad else ("-", verdictOf (NTV.PolyG.fromRaw a) expected impl)
    | _, _ => bad
  | _ => bad

/-- `pz.bound a => B`: the bound the implementation chose for the squarefree primitive `a` must satisfy the
hypothesis `boundOk a B` of `NTV.PolyZ.mignotte_symmetric_range_boundOk` (the one place where the correctness
proof uses the bound). The model's own bound is shown for information only: a different bound that still
satisfies the hypothesis is not an error. -/
def opBound : Handler := fun args impl =>
  match args with
  | [as] => match parseInts? as, impl.toInt? with
    | some a, some B =>
      if a.length < 2 then bad
      else
        let v := if NTV.Spec.PolyZ.boundOk a B then "ok"
          else s!"fail:hyp:NTV.C07.accepted_bound_suffices:modulus-bound-below-the-proved-requirement(model={NTV.PolyZ.coeffBound a (a.length - 1)})"
        ("-", v)
    | _, _ => bad
  | _ => bad

def ops : List (String × Handler) := [("pz.factor", opFactor), ("cli.pz", opCli), ("pz.bound", opBound)]
end NTV.Driver.C07
