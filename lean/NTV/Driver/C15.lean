import NTV.Driver.Parse
import NTV.Model.Order
import NTV.Spec.Field
/-! Driver ops for C15 (orders as canonical lattices). An order argument is any ℚ-basis `B` (rows);
implementation and model both build the order with `Order::from_basis(B)`. Answers: a stored basis
(rational matrix), integers, flag strings, or `panic <kind>`. -/
namespace NTV.Driver.C15
open NTV.Parse
namespace S
export NTV.Spec.Field (goodModulus degOf reduced fullRank contains sameModule canonical checkStored
  checkIndex checkUnion indexSpec discSpec closedUnderMul startingRows powerRows isInt)
export NTV.Spec.LinAlg (isSquare isShape qidentity)
export NTV.Spec.Poly (canon)
end S
namespace M
export NTV.Ord (fromBasis singlyGenOf trivialOrderMonic nonMonicInitialOrder discriminantOrd index union)
end M

abbrev QMat := List (List Rat)

def first (l : List (Bool × String)) : String :=
  match l.find? (fun p => !p.1) with
  | some (_, why) => "fail:" ++ why
  | none => "ok"
def render {α : Type} (sh : α → String) : Except String α → String
  | .ok v => sh v
  | .error e => e
def outside : String := "skip:outside-domain"
def unexpected (impl : String) : String := "fail:unexpected-" ++ impl
def isPanic (s : String) : Bool := s.startsWith "panic"

/-- a full-rank basis of dimension ≥ 1 -/
def basisDomain (b : QMat) : Bool := b.length ≥ 1 && S.fullRank b
def sameDim (a b : QMat) : Bool := a.length == b.length

/-- verdict for an answer that is a stored basis of the module spanned by `gens` -/
def storedVerdict (gens : QMat) (impl : String) : String :=
  if isPanic impl then unexpected impl
  else match parseRatMat? impl with
    | some s => first (S.checkStored gens s)
    | none => unexpected impl

/-- `ord.frombasis B` ⇒ stored basis | `panic index` for a singular "basis" -/
def opFromBasis : Handler := fun args impl =>
  match args.mapM parseRatMat? with
  | some [b] =>
    let model := render showRatMat (M.fromBasis b)
    let v :=
      if !(S.isSquare b && b.length ≥ 1) then outside
      else if !S.fullRank b then "skip:singular-basis"
      else storedVerdict b impl
    (model, v)
  | _ => bad

/-- `ord.same B1 B2` ⇒ `1` iff the two orders are equal; demanded when the modules are equal -/
def opSame : Handler := fun args impl =>
  match args.mapM parseRatMat? with
  | some [b1, b2] =>
    let model := match M.fromBasis b1, M.fromBasis b2 with
      | .ok o1, .ok o2 => if o1 == o2 then "1" else "0"
      | .error e, _ => e
      | _, .error e => e
    let v :=
      if !(basisDomain b1 && basisDomain b2 && sameDim b1 b2) then outside
      else if S.sameModule b1 b2 then (if impl == "1" then "ok" else "fail:same-module-different-orders")
      else (if impl == "0" then "ok" else if impl == "1" then "fail:different-modules-equal-orders" else unexpected impl)
    (model, v)
  | _ => bad

/-- `ord.singlygen f α` ⇒ stored basis of Z[α] (rows 1, α, …, α^(n−1)); θ itself is `0,1` -/
def opSinglyGen : Handler := fun args impl =>
  match args with
  | [fs, as] => match parseInts? fs, parseRats? as with
    | some f, some a =>
      let model := render showRatMat (M.singlyGenOf f a)
      let v :=
        if !(S.goodModulus f && S.reduced f a) then outside
        else
          let rows := S.powerRows f a
          if !S.fullRank rows then "skip:powers-of-the-generator-dependent"
          else storedVerdict rows impl
      (model, v)
    | _, _ => bad
  | _ => bad

/-- `ord.trivial f` ⇒ the power basis 1, θ, …, θ^(n−1) -/
def opTrivial : Handler := fun args impl =>
  match args.mapM parseInts? with
  | some [f] =>
    let model := render showRatMat (M.trivialOrderMonic f)
    let v :=
      if !S.goodModulus f then outside
      else match parseRatMat? impl with
        | some s => first [(s == S.qidentity (S.degOf f), "trivial-order-is-not-the-power-basis")]
        | none => unexpected impl
    (model, v)
  | _ => bad

/-- `ord.nonmonic f` ⇒ Z[θ] ∩ Z[1/θ]: spanned by 1, aₙθ, aₙθ² + aₙ₋₁θ, …; a ring -/
def opNonMonic : Handler := fun args impl =>
  match args.mapM parseInts? with
  | some [f] =>
    let model := render showRatMat (M.nonMonicInitialOrder f)
    let v :=
      if !S.goodModulus f then outside
      else if isPanic impl then unexpected impl
      else match parseRatMat? impl with
        | some s => first (S.checkStored (S.startingRows f) s ++
            [(S.closedUnderMul s f, "starting-order-not-closed-under-multiplication")])
        | none => unexpected impl
    (model, v)
  | _ => bad

/-- the lattice `B` lives in ℚ[x]/(f) -/
def fieldDomain (b : QMat) (f : List Int) : Bool :=
  S.goodModulus f && basisDomain b && b.length == S.degOf f

/-- verdict for one discriminant answer: the determinant of the trace form; `panic assert` claims a
non-integral value, which excludes an order -/
def discVerdict (b : QMat) (f : List Int) (impl : String) : String :=
  let (d, agree) := S.discSpec b f
  if !agree then "fail:ORACLE-determinants-disagree"
  else if impl == "panic assert" then
    (if S.isInt d then "fail:integrality-assertion-for-an-integral-discriminant" else "skip:discriminant-not-integral-(not-an-order)")
  else match impl.toInt? with
    | some x => if (x : Rat) == d then "ok" else "fail:discriminant-is-not-the-determinant-of-the-trace-form"
    | none => unexpected impl

/-- `ord.disc B f` -/
def opDisc : Handler := fun args impl =>
  match args with
  | [bs, fs] => match parseRatMat? bs, parseInts? fs with
    | some b, some f =>
      let model := render toString (do let o ← M.fromBasis b; M.discriminantOrd o f)
      let v := if !fieldDomain b f then outside else discVerdict b f impl
      (model, v)
    | _, _ => bad
  | _ => bad

/-- `ord.index A B` ⇒ (A : B) | `panic other` (quotient of determinants not an integer) -/
def opIndex : Handler := fun args impl =>
  match args.mapM parseRatMat? with
  | some [a, b] =>
    let model := render toString (do let oa ← M.fromBasis a; let ob ← M.fromBasis b; M.index oa ob)
    let v :=
      if !(basisDomain a && basisDomain b && sameDim a b) then outside
      else if !S.contains a b then "skip:second-module-not-inside-the-first"
      else match impl.toInt? with
        | some i => first (S.checkIndex a b i)
        | none => unexpected impl
    (model, v)
  | _ => bad

/-- `ord.chain A B C` ⇒ `(A:B) (B:C) (A:C)` for A ⊃ B ⊃ C -/
def opChain : Handler := fun args impl =>
  match args.mapM parseRatMat? with
  | some [a, b, c] =>
    let model := render (fun (t : Int × Int × Int) => s!"{t.1} {t.2.1} {t.2.2}") (do
      let oa ← M.fromBasis a; let ob ← M.fromBasis b; let oc ← M.fromBasis c
      let i1 ← M.index oa ob; let i2 ← M.index ob oc; let i3 ← M.index oa oc
      pure (i1, i2, i3))
    let v :=
      if !(basisDomain a && basisDomain b && basisDomain c && sameDim a b && sameDim b c) then outside
      else if !(S.contains a b && S.contains b c) then "skip:not-a-chain"
      else match (impl.splitOn " ").mapM String.toInt? with
        | some [i1, i2, i3] =>
          first (S.checkIndex a b i1 ++ S.checkIndex b c i2 ++ S.checkIndex a c i3 ++
                 [(i3 == i1 * i2, "index-not-multiplicative")])
        | _ => unexpected impl
    (model, v)
  | _ => bad

/-- `ord.discindex A B f` ⇒ `disc(A) disc(B) (A:B)` for A ⊃ B -/
def opDiscIndex : Handler := fun args impl =>
  match args with
  | [as, bs, fs] => match parseRatMat? as, parseRatMat? bs, parseInts? fs with
    | some a, some b, some f =>
      let model := render (fun (t : Int × Int × Int) => s!"{t.1} {t.2.1} {t.2.2}") (do
        let oa ← M.fromBasis a; let ob ← M.fromBasis b
        let da ← M.discriminantOrd oa f; let db ← M.discriminantOrd ob f; let i ← M.index oa ob
        pure (da, db, i))
      let v :=
        if !(fieldDomain a f && fieldDomain b f) then outside
        else if !S.contains a b then "skip:second-module-not-inside-the-first"
        else if impl == "panic assert" then
          -- one of the two discriminants is claimed non-integral
          (if S.isInt (S.discSpec a f).1 && S.isInt (S.discSpec b f).1 then "fail:integrality-assertion-for-integral-discriminants"
           else "skip:discriminant-not-integral-(not-an-order)")
        else match (impl.splitOn " ").mapM String.toInt? with
          | some [da, db, i] =>
            first ([(discVerdict a f (toString da) == "ok", "disc(A)-is-not-the-determinant-of-the-trace-form"),
                    (discVerdict b f (toString db) == "ok", "disc(B)-is-not-the-determinant-of-the-trace-form")] ++
                   S.checkIndex a b i ++ [(db == i * i * da, "disc(B)-differs-from-index^2*disc(A)")])
          | _ => unexpected impl
      (model, v)
    | _, _, _ => bad
  | _ => bad

/-- `ord.union A B` ⇒ stored basis of A + B -/
def opUnion : Handler := fun args impl =>
  match args.mapM parseRatMat? with
  | some [a, b] =>
    let model := render showRatMat (do let oa ← M.fromBasis a; let ob ← M.fromBasis b; M.union oa ob)
    let v :=
      if !(basisDomain a && basisDomain b && sameDim a b) then outside
      else if isPanic impl then unexpected impl
      else match parseRatMat? impl with
        | some u => first (S.checkUnion a b u)
        | none => unexpected impl
    (model, v)
  | _ => bad

/-- flags computed by the implementation (`ord.unionlaws A B`, `ord.absorb A B` with B ⊂ A) -/
def opFlags (needContain : Bool) : Handler := fun args impl =>
  match args.mapM parseRatMat? with
  | some [a, b] =>
    let n := impl.length
    let v :=
      if !(basisDomain a && basisDomain b && sameDim a b) then outside
      else if needContain && !S.contains a b then "skip:second-module-not-inside-the-first"
      else if n > 0 && impl.all (· == '1') then "ok" else "fail:law-" ++ impl
    (if isPanic impl then "-" else "1".pushn '1' (n - 1), v)
  | _ => bad

/-- `ord.sgdisc f` ⇒ `disc(Z[θ]) discriminant(f)`; equal for monic f (and both equal to the
Sylvester-determinant discriminant) -/
def opSgDisc : Handler := fun args impl =>
  match args.mapM parseInts? with
  | some [f] =>
    let model := render (fun (t : Int × Int) => s!"{t.1} {t.2}") (do
      let o ← NTV.Ord.singlyGen f
      let d ← M.discriminantOrd o f
      let df ← match NTV.Res.discriminant f with
        | .ok (d, _) => .ok d
        | .error e => .error ("panic " ++ e)
      pure (d, df))
    let v :=
      if !(S.goodModulus f && f.getLastD 0 == 1 && S.degOf f ≥ 2) then outside
      else match (impl.splitOn " ").mapM String.toInt?, NTV.Spec.Res.discSpec f with
        | some [d, df], some ds =>
          first [(d == df, "disc(Z[theta])-differs-from-disc(f)"), (df == ds, "disc(f)-differs-from-the-Sylvester-discriminant"),
                 (discVerdict (S.qidentity (S.degOf f)) f (toString d) == "ok", "disc(Z[theta])-is-not-the-determinant-of-the-trace-form")]
        | _, _ => unexpected impl
    (model, v)
  | _ => bad

def ops : List (String × Handler) :=
  [("ord.frombasis", opFromBasis), ("ord.same", opSame), ("ord.singlygen", opSinglyGen),
   ("ord.trivial", opTrivial), ("ord.nonmonic", opNonMonic), ("ord.disc", opDisc),
   ("ord.index", opIndex), ("ord.chain", opChain), ("ord.discindex", opDiscIndex),
   ("ord.union", opUnion), ("ord.unionlaws", opFlags false), ("ord.absorb", opFlags true),
   ("ord.sgdisc", opSgDisc)]

end NTV.Driver.C15
