import NTV.Driver.Parse
import NTV.Model.Ecm
import NTV.Model.Trial
import NTV.Spec.Factor
/-! Driver ops for C01 (integer factorisation).

Wire formats: point = `x,y,z`; batch = rows separated by `;` (`x,y,z` for `ecmp.simplify`,
`x1,y1,z1,x2,y2,z2,a` for `ecmp.adds`, `x,y,z,a` for `ecmp.oneshot`); factorisation = `p:e,p:e,…`
(`_` = empty); profile = `dev` | `release` (what the harness binary was built with: it decides
overflow behaviour and whether `debug_assert!(!is_prime(n))` draws from the RNG); draws = hex chunks.

  ecm.add p q a n            => ok x,y,z | err d
  ecm.mul p e a n            => ok x,y,z | err d
  ecm.oneshot p a n b1 b2 prof  => ok | err d | panic <kind>
  ecmp.simplify batch n      => ok batch | err d
  ecmp.adds batch n          => ok batch | err d | panic index
  ecmp.oneshot batch n b1 b2 prof => ok | err d | panic <kind>
  ecm.ecm n b1 b2 prof draws   => fac count        (same for ecmp.ecm)
  selectb n                  => b
  ecm.factorize n b expected prof draws => p:e,…|curve_count   (b = select_b(n), one bound for the run)
  ecmp.factorize n b expected prof draws btab => p:e,…|curve_count   (the batched driver calls select_b per
      work item: b = select_b(n), btab = `d:b,d:b,…` (`_` = empty) lists select_b(d) for the other items
      d > 1000 handed to ECM; an item missing from the table gives `inconclusive no-bound-for-item`)
  td.factorize n [expected]  => p:e,…
  rfactor mode n             => stdout of `rfactor [--json] n`, newlines escaped
-/
namespace NTV.Driver.C01
open NTV.Parse NTV.Ecm

def parseProfile? : String → Option Profile
  | "dev" => some .dev
  | "release" => some .release
  | _ => none

def parsePoint? (s : String) : Option Point :=
  match parseInts? s with
  | some [x, y, z] => some ⟨x, y, z⟩
  | _ => none

def showPoint (p : Point) : String := s!"{p.x},{p.y},{p.z}"
def showPoints (l : List Point) : String := if l.isEmpty then "_" else ";".intercalate (l.map showPoint)

def parsePairs? (s : String) : Option (List (Int × Nat)) :=
  (splitList s).mapM (fun t => match t.splitOn ":" with
    | [p, e] => do
      let p ← p.toInt?
      let e ← e.toNat?
      pure (p, e)
    | _ => none)

def showPairs (l : List (Int × Nat)) : String := showList (fun pe => s!"{pe.1}:{pe.2}") l

def showExceptPt : Except Int Point → String
  | .ok p => "ok " ++ showPoint p
  | .error d => s!"err {d}"

def showStop : Stop → String
  | .done => "ok"
  | .factor d => s!"err {d}"
  | .panic k => "panic " ++ k
  | .fuel => "inconclusive fuel"

/-- verdict for an answer of the point arithmetic: `err d` must be a divisor > 1 of n; `ok …` is
checked by `okCheck`; a panic is outside what these ops may do (unless `panicOk`) -/
def lowVerdict (n : Int) (impl : String) (panicOk : Bool) (okCheck : String → String) : String :=
  match impl.splitOn " " with
  | ["err", ds] => match ds.toInt? with
    | some d => NTV.Spec.Factor.checkErr n d
    | none => "fail:parse"
  | ["ok"] => okCheck ""
  | ["ok", r] => okCheck r
  | "panic" :: _ => if panicOk then "skip:empty-batch-or-u64-boundary(outside-the-range-of-select_b)" else "fail:panic"
  | _ => "fail:unexpected-" ++ impl

def normalised (n : Int) (p : Point) : Bool := p.z == 1 && 0 ≤ p.x && p.x < n && 0 ≤ p.y && p.y < n

def opAdd : Handler := fun args impl =>
  match args with
  | [ps, qs, as, ns] =>
    match parsePoint? ps, parsePoint? qs, as.toInt?, ns.toInt? with
    | some p, some q, some a, some n =>
      let model := showExceptPt (addPt p q a n)
      let v := lowVerdict n impl false (fun r =>
        match parsePoint? r with
        | none => "fail:parse"
        | some res =>
          if p.isInf then (if res == q then "ok" else "fail:inf+q")
          else if q.isInf then (if res == p then "ok" else "fail:p+inf")
          else if res.z != 0 && res.z != 1 then "fail:not-normalised"
          else if res.z == 1 && normalised n p && normalised n q then
            (if NTV.Spec.Factor.affineSumOk n a p.x p.y q.x q.y res.x res.y then "ok" else "fail:group-law")
          else "ok")
      (model, v)
    | _, _, _, _ => bad
  | _ => bad

def opMul : Handler := fun args impl =>
  match args with
  | [ps, es, as, ns] =>
    match parsePoint? ps, es.toInt?, as.toInt?, ns.toInt? with
    | some p, some e, some a, some n =>
      let model := showExceptPt (mulPt p e a n)
      let v := lowVerdict n impl false (fun r =>
        match parsePoint? r with
        | none => "fail:parse"
        | some res =>
          -- from a normalised start every multiple is normalised (z ∈ {0, 1})
          if (p.z == 0 || p.z == 1) && res.z != 0 && res.z != 1 then "fail:not-normalised" else "ok")
      (model, v)
    | _, _, _, _ => bad
  | _ => bad

def boundary (b1 b2 : Nat) : Bool := b1 + 1 ≥ two64 || b2 + 6 ≥ two64

def opOneshot : Handler := fun args impl =>
  match args with
  | [ps, as, ns, b1s, b2s, profs] =>
    match parsePoint? ps, as.toInt?, ns.toInt?, b1s.toNat?, b2s.toNat?, parseProfile? profs with
    | some p, some a, some n, some b1, some b2, some prof =>
      (showStop (ecmOneshot p a n b1 b2 prof), lowVerdict n impl (boundary b1 b2) (fun _ => "ok"))
    | _, _, _, _, _, _ => bad
  | _ => bad

def rowsToPoints? (m : List (List Int)) : Option (List Point) :=
  m.mapM (fun r => match r with | [x, y, z] => some (⟨x, y, z⟩ : Point) | _ => none)

def opSimplify : Handler := fun args impl =>
  match args with
  | [ms, ns] =>
    match (parseMat? ms).bind rowsToPoints?, ns.toInt? with
    | some pts, some n =>
      let model := match manySimplify pts n with
        | .ok r => "ok " ++ showPoints r
        | .error d => s!"err {d}"
      let v := lowVerdict n impl false (fun r =>
        match (parseMat? r).bind rowsToPoints? with
        | none => "fail:parse"
        | some res =>
          -- every output is the projective normalisation of its input: z ∈ {0,1}, x'·z ≡ x, y'·z ≡ y
          if res.length != pts.length then "fail:length"
          else if (pts.zip res).all (fun (p, q) =>
              if p.z == 0 then q == inf
              else q.z == 1 && NTV.Spec.Factor.congr n (q.x * p.z) p.x && NTV.Spec.Factor.congr n (q.y * p.z) p.y)
            then "ok" else "fail:not-the-normalisation")
      (model, v)
    | _, _ => bad
  | _ => bad

def rowsToTriples? (m : List (List Int)) : Option (List (Point × Point × Int)) :=
  m.mapM (fun r => match r with
    | [x1, y1, z1, x2, y2, z2, a] => some ((⟨x1, y1, z1⟩ : Point), (⟨x2, y2, z2⟩ : Point), a)
    | _ => none)

def opAdds : Handler := fun args impl =>
  match args with
  | [ms, ns] =>
    match (parseMat? ms).bind rowsToTriples?, ns.toInt? with
    | some ts, some n =>
      let model := match manyAdds ts n with
        | .ok r => "ok " ++ showPoints r
        | .error s => showStop s
      let v := lowVerdict n impl ts.isEmpty (fun r =>
        match (parseMat? r).bind rowsToPoints? with
        | none => "fail:parse"
        | some res =>
          if res.length != ts.length then "fail:length"
          else if (ts.zip res).all (fun ((p, q, a), r) =>
              if r.z == 1 && normalised n p && normalised n q then
                NTV.Spec.Factor.affineSumOk n a p.x p.y q.x q.y r.x r.y
              else r.z == 0 || r.z == 1)
            then "ok" else "fail:group-law")
      (model, v)
    | _, _ => bad
  | _ => bad

def rowsToJoint? (m : List (List Int)) : Option (List Point × List Int) :=
  (m.mapM (fun r => match r with
    | [x, y, z, a] => some ((⟨x, y, z⟩ : Point), a)
    | _ => none)).map List.unzip

def opOneshotPar : Handler := fun args impl =>
  match args with
  | [ms, ns, b1s, b2s, profs] =>
    match (parseMat? ms).bind rowsToJoint?, ns.toInt?, b1s.toNat?, b2s.toNat?, parseProfile? profs with
    | some (pts, as), some n, some b1, some b2, some prof =>
      (showStop (ecmOneshotParallel pts as n b1 b2 prof),
       lowVerdict n impl (boundary b1 b2 || pts.isEmpty) (fun _ => "ok"))
    | _, _, _, _, _ => bad
  | _ => bad

def showEcmRes : EcmRes → String
  | .found fac count rest =>
    s!"{fac} {count}" ++ (if rest.isEmpty then "" else s!" unconsumed-chunks={rest.length}")
  | .panic k => "panic " ++ k
  | .inconclusive w => "inconclusive " ++ w

def opEcm (par : Bool) : Handler := fun args impl =>
  match args with
  | [ns, b1s, b2s, profs, ds] =>
    match ns.toInt?, b1s.toNat?, b2s.toNat?, parseProfile? profs with
    | some n, some b1, some b2, some prof =>
      let s := parseChunks ds
      let r := if par then ecmParallel n b1 b2 s (s.length + 1) prof else ecm n b1 b2 s (s.length + 1) prof
      let v := match impl.splitOn " " with
        | "panic" :: _ =>
          if n < 4 || boundary b1 b2 || (par && b1 == 0) then "skip:outside-the-domain-of-ecm" else "fail:panic"
        | [fs, _] => match fs.toInt? with
          | some d => NTV.Spec.Factor.checkDivisor n d
          | none => "fail:parse"
        | _ => "fail:unexpected-" ++ impl
      (showEcmRes r, v)
    | _, _, _, _ => bad
  | _ => bad

def opSelectB : Handler := fun args impl =>
  match args with
  | [ns] =>
    match ns.toInt? with
    | some n =>
      let model := match selectBExact n with
        | some b => toString b
        | none => "-"
      let v := match impl.toNat? with
        | some b =>
          if n ≤ 1000 then (if b == 4 then "ok" else "fail:small-n-must-give-4")
          else if 100 * b < two64 then "ok" else "fail:100*b-overflows-u64"
        | none => "fail:unexpected-" ++ impl
      (model, v)
    | none => bad
  | _ => bad

def showFacRes : FacRes → String
  | .ok result count rest =>
    showPairs result ++ s!"|{count}" ++ (if rest.isEmpty then "" else s!" unconsumed-chunks={rest.length}")
  | .panic k => "panic " ++ k
  | .inconclusive w => "inconclusive " ++ w

/-- verdict of a `factorize` answer (`p:e,…` optionally followed by `|count`) -/
def facVerdict (n : Int) (expected : List (Int × Nat)) (impl : String) : String :=
  if impl.startsWith "panic" then
    (if n ≤ 0 then (if impl == "panic other" || impl == "panic assert" then "ok" else "fail:wrong-panic-for-n<=0")
     else "fail:panic")
  else if n ≤ 0 then "fail:n<=0-must-panic"
  else
    match parsePairs? ((impl.splitOn "|").headD "") with
    | some ans => NTV.Spec.Factor.checkFactorization n ans expected
    | none => "fail:unexpected-" ++ impl

/-- common part of `ecm.factorize` / `ecmp.factorize`; `btab = none` selects the sequential driver -/
def runFactorize (btab : Option (List (Int × Nat))) (ns bs es profs ds impl : String) : String × String :=
  match ns.toInt?, bs.toNat?, parsePairs? es, parseProfile? profs with
  | some n, some b, some expected, some prof =>
    let s := parseChunks ds
    let fuel := 16 * (NTV.Elem.bits n.natAbs) + 64
    let r := match btab with
      | some tab => factorizePar n b tab s fuel prof
      | none => factorizeSeq n b s fuel prof
    -- the b handed to the model must be select_b(n) wherever that is exact
    let bv := match selectBExact n with
      | some b0 => if b0 == b then "" else "fail:b-is-not-select_b"
      | none => ""
    let v := if bv != "" then bv else facVerdict n expected impl
    (showFacRes r, v)
  | _, _, _, _ => bad

/-- `ecm.factorize n b expected prof draws` (5 arguments) and
`ecmp.factorize n b expected prof draws btab` (6 arguments, `btab` last) -/
def opFactorize (par : Bool) : Handler := fun args impl =>
  match par, args with
  | false, [ns, bs, es, profs, ds] => runFactorize none ns bs es profs ds impl
  | true, [ns, bs, es, profs, ds, ts] =>
    match parsePairs? ts with
    | some tab => runFactorize (some tab) ns bs es profs ds impl
    | none => bad
  | _, _ => bad

def opTrial : Handler := fun args impl =>
  match args with
  | ns :: rest =>
    match ns.toInt?, parsePairs? (rest.headD "_") with
    | some n, some expected =>
      let model :=
        if n < 1 then "panic assert"
        else showPairs ((NTV.Trial.factorize n.toNat).map (fun pe => ((pe.1 : Int), pe.2)))
      (model, facVerdict n expected impl)
    | _, _ => bad
  | _ => bad

/-- `rfactor mode n` (mode = plain | json): stdout of the `rfactor` process with `\n` written `\\n`.
The implementation's RNG is not hooked there; the output is determined by the factorisation alone, so
the model answer is `present` applied to the (proved) trial-division factorisation of n. -/
def opRfactor : Handler := fun args impl =>
  match args with
  | [mode, ns] =>
    match ns.toInt? with
    | some n =>
      if n ≤ 0 then ("panic other", if impl.startsWith "panic" then "ok" else "fail:n<=0-must-panic")
      else if n < 2 ^ 50 then
        let l := (NTV.Trial.factorize n.toNat).map (fun pe => ((pe.1 : Int), pe.2))
        let model := (present (mode == "json") l).replace "\n" "\\n"
        (model, if impl == model then "ok" else "fail:stdout-is-not-the-rendering-of-the-factorisation")
      else
        -- no reference factorisation: read the factorisation back from the rendering (it must be the
        -- rendering of what it says) and judge it like any other answer
        let back : Option (List (Int × Nat)) :=
          if mode == "json" then
            let ps := (impl.splitOn "\"p\": \"").drop 1 |>.map (fun t => ((t.splitOn "\"").headD "").toInt?)
            let es := (impl.splitOn "\"e\": ").drop 1 |>.map (fun t => (String.ofList (t.toList.takeWhile Char.isDigit)).toNat?)
            if ps.length == es.length then (List.zip ps es).mapM (fun (p, e) => do pure ((← p), (← e))) else none
          else
            let toks := ((impl.replace "\\n" "").splitOn " ").filter (· != "")
            match toks.mapM String.toInt? with
            | some l => some (l.foldr (fun p acc => match acc with
                | (q, e) :: rest => if q == p then (q, e + 1) :: rest else (p, 1) :: acc
                | [] => [(p, 1)]) [])
            | none => none
        match back with
        | none => ("-", "fail:unexpected-" ++ impl)
        | some l =>
          let model := (present (mode == "json") l).replace "\n" "\\n"
          if impl != model then ("-", "fail:stdout-is-not-a-rendering-of-a-factorisation")
          else ("-", NTV.Spec.Factor.checkFactorization n l [])
    | none => bad
  | _ => bad

/-- `cli.fact n => p:e,…`: stdout of `rust-number-theory <config>` with `to_find = factorization` and an
integer input (unhooked RNG: judged by the oracle; below 2^50 also compared with trial division) -/
def opCliFact : Handler := fun args impl =>
  match args with
  | [ns] =>
    match ns.toInt? with
    | some n =>
      let model :=
        if n ≥ 1 && n < 2 ^ 50 then showPairs ((NTV.Trial.factorize n.toNat).map (fun pe => ((pe.1 : Int), pe.2)))
        else "-"
      (model, facVerdict n [] impl)
    | none => bad
  | _ => bad

def ops : List (String × Handler) :=
  [("cli.fact", opCliFact), ("ecm.add", opAdd), ("ecm.mul", opMul), ("ecm.oneshot", opOneshot),
   ("ecmp.simplify", opSimplify), ("ecmp.adds", opAdds), ("ecmp.oneshot", opOneshotPar),
   ("ecm.ecm", opEcm false), ("ecmp.ecm", opEcm true), ("selectb", opSelectB),
   ("ecm.factorize", opFactorize false), ("ecmp.factorize", opFactorize true),
   ("td.factorize", opTrial), ("rfactor", opRfactor)]
end NTV.Driver.C01
