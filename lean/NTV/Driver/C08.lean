import NTV.Driver.Parse
import NTV.Driver.PM
import NTV.Model.PolyModFactor
import NTV.Spec.PolyMod
/-! Driver ops for C08 (`factorize_mod_p`).
`pm.factor f p pusize draws => g:e;g:e;…` (the list exactly as returned: the function does not sort, the
order is determined by the algorithm and the draws, so the comparison with the model is textual).
`pm.factor.same f p draws => r0|r7|rp`: the answers for pusize ∈ {0, 7, p mod 2^64} on the same draws
(p ≥ 2^64): they must coincide. -/
namespace NTV.Driver.C08
open NTV.Parse NTV.PolyMod
namespace S
export NTV.Spec.PolyMod (primeModulus red factorShapeOk allIrreducible)
end S

def verdict (b : Bool) (why : String) : String := if b then "ok" else "fail:" ++ why

def showFactors (l : Factors) : String :=
  if l.isEmpty then "_" else ";".intercalate (l.map (fun (g, e) => s!"{showInts g}:{e}"))

def parseFactors? (s : String) : Option Factors :=
  if s == "_" || s == "" then some []
  else (s.splitOn ";").mapM (fun item =>
    match item.splitOn ":" with
    | [g, e] => do
      let g ← parseInts? g
      let e ← e.toNat?
      pure (g, e)
    | _ => none)

/-- the conclusion of C08 on one answer -/
def judge (p : Int) (f : List Int) (impl : String) : String :=
  match S.primeModulus p with
  | some false => "skip:modulus-not-prime"
  | none => "skip:modulus-of-unknown-primality"
  | some true =>
    if (S.red p f).isEmpty then "skip:zero-polynomial"
    else match parseFactors? impl with
      | none => "fail:unexpected-" ++ impl
      | some fac =>
        if !S.factorShapeOk p f fac then "fail:shape-distinctness-or-product"
        else match S.allIrreducible p fac with
          | none => "fail:oracle-inconsistent"
          | some b => verdict b "reducible-factor"

def opFactor : Handler := fun args impl =>
  match args with
  | [fs, ps, us, ds] => match parseInts? fs, ps.toInt?, us.toNat? with
    | some f, some p, some pusize =>
      if p ≤ 1 then bad else
      let model := NTV.Driver.PM.showM showFactors (factorizeModP f p pusize (parseChunks ds))
      -- the machine-word copy must be p itself when p fits a word (what every caller passes)
      let v := if p < 2 ^ 64 && (pusize : Int) != p then "skip:pusize-is-not-p" else judge p f impl
      (model, v)
    | _, _, _ => bad
  | _ => bad

def opSame : Handler := fun args impl =>
  match args with
  | [fs, ps, ds] => match parseInts? fs, ps.toInt? with
    | some f, some p =>
      if p ≤ 1 then bad else
      let s := parseChunks ds
      let run := fun (u : Nat) => NTV.Driver.PM.showM showFactors (factorizeModP f p u s)
      let model := "|".intercalate [run 0, run 7, run (p % 2 ^ 64).toNat]
      let v :=
        if p < 2 ^ 64 then "skip:modulus-fits-a-word"
        else match impl.splitOn "|" with
          | [a, b, c] => verdict (a == b && b == c) "result-depends-on-pusize"
          | _ => "fail:unexpected-" ++ impl
      (model, v)
    | _, _ => bad
  | _ => bad

/-! ### per-stage correspondence (private functions reached through `poly_mod::verif`): the stage
outputs are compared textually with the model; the property-level oracle is applied to the whole
routine (`pm.factor`), so these ops answer `skip:stage-correspondence-only`. -/

def opSqfree : Handler := fun args _ =>
  match args with
  | [fs, ps, us] => match parseInts? fs, ps.toInt?, us.toNat? with
    | some f, some p, some pusize =>
      if p ≤ 1 then bad else
      (NTV.Driver.PM.showM showFactors (squarefree f p pusize), "skip:stage-correspondence-only")
    | _, _, _ => bad
  | _ => bad

def opDegree : Handler := fun args _ =>
  match args with
  | [fs, ps] => match parseInts? fs, ps.toInt? with
    | some f, some p =>
      if p ≤ 1 then bad else
      (NTV.Driver.PM.showM showFactors (degree f p), "skip:stage-correspondence-only")
    | _, _ => bad
  | _ => bad

def showPolys (l : List (List Int)) : String :=
  if l.isEmpty then "_" else ";".intercalate (l.map showInts)

def opFsplit : Handler := fun args _ =>
  match args with
  | [fs, ps, dstr, ds] => match parseInts? fs, ps.toInt?, dstr.toNat? with
    | some f, some p, some d =>
      if p ≤ 1 then bad else
      let model := match finalSplit f p d (parseChunks ds) with
        | .ok (l, []) => showPolys l
        | .ok (_, rest) => s!"model left {rest.length} drawn chunks unused"
        | .error e => e
      (model, "skip:stage-correspondence-only")
    | _, _, _ => bad
  | _ => bad

/-- `cli.fmp f p1,p2,… => p1=g:e;…|p2=…`: stdout of `rust-number-theory <config>` with
`to_find = factorization-mod-p`. The binary draws from its own generator, so there is no history to
replay: each answer goes through the oracle only (the factorization is unique up to order). One block
per requested modulus, in the order requested, labelled with that modulus. -/
def opCli : Handler := fun args impl =>
  match args with
  | [fs, pss] => match parseInts? fs, parseInts? pss with
    | some f0, some ps =>
      if ps.any (· ≤ 1) || ps.isEmpty then bad else
      let f := NTV.PolyG.fromRaw f0
      let v :=
        if impl.startsWith "panic" then
          (if ps.any (fun p => (S.red p f).isEmpty) then "skip:zero-polynomial" else "fail:panic-on-legal-input")
        else
          let blocks := impl.splitOn "|"
          if blocks.length != ps.length then "fail:one-block-per-modulus-expected-" ++ impl
          else
            let vs := (List.zip ps blocks).map (fun (p, b) =>
              match b.splitOn "=" with
              | [m, l] => if m.toInt? != some p then "fail:block-for-wrong-modulus-" ++ b else judge p f l
              | _ => "fail:unexpected-" ++ b)
            match vs.find? (·.startsWith "fail") with
            | some w => w
            | none => match vs.find? (·.startsWith "skip") with
              | some w => w
              | none => "ok"
      ("-", v)
    | _, _ => bad
  | _ => bad

/-- `pm.factor.i128 f p pusize`: the generic routine instantiated at `i128` (other arithmetic, other
random sampler: no history to replay) — oracle only -/
def opFactorMachine : Handler := fun args impl =>
  match args with
  | [fs, ps, us] => ("-", (opFactor [fs, ps, us, "_"] impl).2)
  | _ => bad

def ops : List (String × Handler) :=
  [("cli.fmp", opCli), ("pm.factor.i128", opFactorMachine), ("pm.sqfree", opSqfree), ("pm.degree", opDegree), ("pm.fsplit", opFsplit), ("pm.factor", opFactor), ("pm.factor.same", opSame)]
end NTV.Driver.C08
