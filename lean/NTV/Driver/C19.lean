import NTV.Driver.Parse
import NTV.Model.Inv
import NTV.Model.Kron
import NTV.Model.Elementary
import NTV.Spec.Elementary
/-! Driver ops for C19. -/
namespace NTV.Driver.C19
open NTV.Parse

def verdict (b : Bool) (why : String) : String := if b then "ok" else "fail:" ++ why

def opInv : Handler := fun args impl =>
  match args.mapM parseInt? with
  | some [a, m] =>
    let model := match NTV.inv a m with
      | .ok x => s!"ok {x}"
      | .error g => s!"err {g}"
    let g : Int := Int.gcd a m
    let v := match impl.splitOn " " with
      | ["ok", xs] => match xs.toInt? with
        | some x => verdict (g == 1 && 0 ≤ x && x < m && (a * x - 1) % m == 0) "inverse"
        | none => "fail:parse"
      | ["err", gs] => match gs.toInt? with
        | some gi => verdict (g != 1 && gi == g) "gcd"
        | none => "fail:parse"
      | _ => "fail:unexpected-" ++ impl
    (model, v)
  | _ => bad

def opZmod : Handler := fun args impl =>
  match args.mapM parseInt? with
  | some [x, m] =>
    let v := match impl.toInt? with
      | some r => verdict (0 ≤ r && r < m && (r - x) % m == 0) "zmod"
      | none => "fail:parse"
    (toString (NTV.zmod x m), v)
  | _ => bad

def opPP : Handler := fun args impl =>
  match args.mapM parseInt? with
  | some [n] =>
    let model := match NTV.Elem.perfectPower n with
      | some (b, k) => s!"{b} {k}"
      | none => "panic other"
    let v :=
      if n < 0 then verdict (impl.startsWith "panic") "neg-must-panic"
      else match impl.splitOn " " with
      | [bs, ks] => match bs.toInt?, ks.toNat? with
        | some b, some k =>
          let nn := n.toNat
          let bits := NTV.Elem.bits nn
          if n ≤ 1 then verdict (b == n && k == 1) "small"
          else
            let okPow := 0 ≤ b && b ^ k == n && 1 ≤ k
            -- no larger exponent admits a root (exponents above the bit length are impossible)
            let larger := (List.range (bits + 1)).any (fun k' => k' > k && NTV.Spec.Elem.isKthPower nn k')
            verdict (okPow && !larger) "not-maximal-or-wrong"
        | _, _ => "fail:parse"
      | _ => "fail:unexpected-" ++ impl
    (model, v)
  | _ => bad

def opIsPP : Handler := fun args impl =>
  match args with
  | [ns, ks] => match ns.toNat?, ks.toNat? with
    | some n, some k =>
      let model := match NTV.Elem.isPerfectPower n k with
        | some x => s!"some {x}" | none => "none"
      let isP := NTV.Spec.Elem.isKthPower n k
      let v := match impl.splitOn " " with
        | ["some", xs] => verdict (isP && (xs.toNat?.map (fun x => x ^ k == n)).getD false) "root"
        | ["none"] => verdict (!isP) "missed"
        | _ => "fail:unexpected"
      (model, v)
    | _, _ => bad
  | _ => bad

def opKron : Handler := fun args impl =>
  match args.mapM parseInt? with
  | some [a, b] =>
    let v := if b.natAbs > 2 ^ 40 then "skip:too-large-for-spec" else
      match impl.toInt? with
      | some r => verdict (r == NTV.Spec.Elem.kronSpec a b) "kronecker"
      | none => "fail:parse"
    (toString (NTV.Kron.kronecker a b), v)
  | _ => bad

/-- a whole row: `kronrow a B` answers (a/b) for b = -B..B -/
def opKronRow : Handler := fun args impl =>
  match args.mapM parseInt? with
  | some [a, bb] =>
    let bs := (List.range (2 * bb.toNat + 1)).map (fun (i : Nat) => (i : Int) - bb)
    let model := bs.map (NTV.Kron.kronecker a)
    let spec := bs.map (NTV.Spec.Elem.kronSpec a)
    let v := match parseInts? impl with
      | some l => verdict (l == spec) "kronecker-row"
      | none => "fail:parse"
    (showInts model, v)
  | _ => bad

def opPrimes : Handler := fun args impl =>
  match args.mapM parseNat? with
  | some [bound] =>
    let spec := (List.range (bound + 1)).filter NTV.Spec.Elem.isPrimeNat
    let v := match parseNats? impl with
      | some l => verdict (l == spec) "primes"
      | none => "fail:parse"
    (showNats (NTV.Elem.primes bound), v)
  | _ => bad

def opPrimesIter : Handler := fun args impl =>
  match args.mapM parseNat? with
  | some [cnt] =>
    let v := match parseNats? impl with
      | some l =>
        -- increasing primes with no prime skipped: every number up to the last is in the list iff prime
        let last := l.getLastD 1
        verdict (l.length == cnt && l == (List.range (last + 1)).filter NTV.Spec.Elem.isPrimeNat) "iter"
      | none => "fail:parse"
    (showNats (NTV.Elem.primesIter cnt 2), v)
  | _ => bad

def ops : List (String × Handler) :=
  [("inv", opInv), ("zmod", opZmod), ("zmod.i64", opZmod), ("zmod.i128", opZmod), ("pp", opPP), ("ispp", opIsPP), ("kron", opKron),
   ("kronrow", opKronRow), ("primes", opPrimes), ("primesiter", opPrimesIter)]

end NTV.Driver.C19
