import NTV.Driver.Parse
import NTV.Driver.PM
import NTV.Model.PolyModLinear
import NTV.Spec.PolyMod
/-! Driver op for C12 (`find_linear_factors`).
`pm.roots f p planted draws => roots as returned`: `planted` is `-` or a multiset of roots claimed by the
harness (untrusted: certified by the oracle before use); `draws` is the RNG history of the run. -/
namespace NTV.Driver.C12
open NTV.Parse NTV.PolyMod
namespace S
export NTV.Spec.PolyMod (primeModulus red rootsBrute rootsCertified sortInts)
end S

def verdict (b : Bool) (why : String) : String := if b then "ok" else "fail:" ++ why

/-- bound below which the roots are found by evaluating at every residue -/
def bruteBound : Int := 2000

def opRoots : Handler := fun args impl =>
  match args with
  | [fs, ps, planted, ds] => match parseInts? fs, ps.toInt? with
    | some f, some p =>
      if p ≤ 1 then bad else
      let model := NTV.Driver.PM.showM showInts (findLinearFactors f p (parseChunks ds))
      let v :=
        match S.primeModulus p with
        | some false => "skip:modulus-not-prime"
        | none => "skip:modulus-of-unknown-primality"
        | some true =>
          if (S.red p f).isEmpty then "skip:zero-polynomial"
          else match parseInts? impl with
            | none => "fail:unexpected-" ++ impl
            | some r =>
              let inRange := r.all (fun x => decide (0 ≤ x) && decide (x < p))
              let sorted := S.sortInts r
              let plantedOk : Option Bool :=
                if planted == "-" then none
                else match parseInts? planted with
                  | some pl => some (S.rootsCertified p f pl && sorted == S.sortInts pl)
                  | none => some false
              if !inRange then "fail:root-out-of-range"
              else if p ≤ bruteBound then
                verdict (sorted == S.rootsBrute p f && plantedOk != some false) "root-multiset"
              else match plantedOk with
                | some b => verdict b "root-multiset-or-certificate"
                | none => "skip:no-reference-for-this-size"
      (model, v)
    | _, _ => bad
  | _ => bad

/-- the machine-integer instantiations `find_linear_factors::<i128>` / `::<i64>` (same generic code,
other arithmetic and another random sampler: no history to replay) are judged by the oracle only -/
def opRootsMachine : Handler := fun args impl =>
  match args with
  | [fs, ps, planted] => ("-", (opRoots [fs, ps, planted, "_"] impl).2)
  | _ => bad

def ops : List (String × Handler) :=
  [("pm.roots", opRoots), ("pm.roots.i128", opRootsMachine), ("pm.roots.i64", opRootsMachine)]
end NTV.Driver.C12
