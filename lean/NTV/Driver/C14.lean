import NTV.Driver.Parse
import NTV.Model.Algebraic
import NTV.Model.Order
import NTV.Spec.Field
/-! Driver ops for C14 (arithmetic in ℚ[x]/(f) and multiplication tables).

`alg.*`: `f` = `min_poly` (integers, low degree first), elements = rational coefficient lists.
`ord.toz*`, `mt.*`: an order is given by a basis `S`; the implementation and the model both go through
`Order::from_basis(S)`. The oracle speaks about coordinates in the *stored* basis, so it applies when
`S` is already in the canonical stored form (the harness always sends `order.basis()`).
`mtr.*`: `MultTable` methods on a raw table `T` (`i`-blocks separated by `|`, each block a matrix). -/
namespace NTV.Driver.C14
open NTV.Parse
namespace S
export NTV.Spec.Field (goodModulus degOf reduced checkMul checkAdd checkSub checkPow checkAsCoefs
  checkTable checkTMul checkTrace checkNorm checkInv checkCoords inModule closedUnderMul canonical
  fullRank specNorm elemOf ratsOf tableShape rawMul rawRegular pad)
export NTV.Spec.LinAlg (isSquare detChecked qvecMul)
export NTV.Spec.Poly (canon)
end S
namespace M
export NTV.Ord (fromBasis getMultTable tmul ttrace tnorm tinv toZBasis toZBasisInt)
end M

abbrev Table := List (List (List Int))

def first (l : List (Bool × String)) : String :=
  match l.find? (fun p => !p.1) with
  | some (_, why) => "fail:" ++ why
  | none => "ok"

/-- `NTV.Ord` results: the error already reads `panic <kind>` / `inconclusive …` -/
def render {α : Type} (sh : α → String) : Except String α → String
  | .ok v => sh v
  | .error e => e
/-- `NTV.Alg` results: the error is the bare panic kind -/
def renderA {α : Type} (sh : α → String) : Except String α → String
  | .ok v => sh v
  | .error e => "panic " ++ e

def outside : String := "skip:outside-domain"
def unexpected (impl : String) : String := "fail:unexpected-" ++ impl

def parseTable? (s : String) : Option Table :=
  if s == "_" || s == "" then some [] else (s.splitOn "|").mapM parseMat?
def showTable (t : Table) : String :=
  if t.isEmpty then "_" else "|".intercalate (t.map showMat)

/-! ### `alg.*` -/

/-- `alg.add f a b`, `alg.sub f a b`, `alg.mul f a b` -/
def opBin (which : String) : Handler := fun args impl =>
  match args with
  | [fs, as, bs] => match parseInts? fs, parseRats? as, parseRats? bs with
    | some f, some a, some b =>
      let model := match which with
        | "add" => showRats (NTV.Alg.add a b)
        | "sub" => showRats (NTV.Alg.sub a b)
        | _ => renderA showRats (NTV.Alg.mul f a b)
      let dom := if which == "mul" then S.goodModulus f && S.reduced f a && S.reduced f b
                 else S.canon a && S.canon b
      let v :=
        if !dom then outside
        else match parseRats? impl with
          | some r => first (match which with
            | "add" => S.checkAdd a b r
            | "sub" => S.checkSub a b r
            | _ => S.checkMul f a b r)
          | none => unexpected impl
      (model, v)
    | _, _, _ => bad
  | _ => bad

/-- `alg.pow f a e` (`Pow<u64>`), `alg.powbig f a e` (`Pow<BigInt>`; a negative exponent leaves the
loop at once and answers 1) -/
def opPow : Handler := fun args impl =>
  match args with
  | [fs, as, es] => match parseInts? fs, parseRats? as, es.toInt? with
    | some f, some a, some e =>
      let model := if e < 0 then showRats [1] else renderA showRats (NTV.Alg.pow f a e.toNat)
      let v :=
        if !(S.goodModulus f && S.reduced f a && e ≥ 0) then outside
        else if e > 400 then
          -- beyond the direct oracle: the model's value is the power (theorem `power_is_remainder`)
          (if impl == model then "ok" else "fail:not-the-power")
        else match parseRats? impl with
          | some r => first (S.checkPow f a e.toNat r)
          | none => unexpected impl
      (model, v)
    | _, _, _ => bad
  | _ => bad

/-- `alg.ascoefs f a` -/
def opAsCoefs : Handler := fun args impl =>
  match args with
  | [fs, as] => match parseInts? fs, parseRats? as with
    | some f, some a =>
      let model := renderA showRats (NTV.Alg.asCoefsE f a)
      let v :=
        if !(S.goodModulus f && S.reduced f a) then outside
        else match parseRats? impl with
          | some r => first (S.checkAsCoefs f a r)
          | none => unexpected impl
      (model, v)
    | _, _ => bad
  | _ => bad

/-- `alg.withexpr f a` ⇒ the stored expression | `panic assert` (debug assertion on the degree; the
zero expression has the sentinel degree `usize::MAX` and is rejected too, see the model) -/
def opWithExpr : Handler := fun args impl =>
  match args with
  | [fs, as] => match parseInts? fs, parseRats? as with
    | some f, some a =>
      let model := renderA showRats (NTV.Alg.withExpr f a)
      let v :=
        if !(S.goodModulus f && S.reduced f a) then outside
        else if a.isEmpty then "skip:constructor-rejects-the-zero-expression-in-debug-builds"
        else match parseRats? impl with
          | some r => first [(r == a, "stored-expression-differs")]
          | none => unexpected impl
      (model, v)
    | _, _ => bad
  | _ => bad

/-- the quotient-ring laws need a modulus of degree ≥ 1 and reduced elements -/
def opAlgLaws : Handler := fun args impl =>
  match args with
  | [fs, as, bs, cs, _, _] => match parseInts? fs, parseRats? as, parseRats? bs, parseRats? cs with
    | some f, some a, some b, some c =>
      if S.goodModulus f && S.reduced f a && S.reduced f b && S.reduced f c then
        let n := impl.length
        ("1".pushn '1' (n - 1), if n > 0 && impl.all (· == '1') then "ok" else "fail:law-" ++ impl)
      else ("-", outside)
    | _, _, _, _ => bad
  | _ => bad

/-! ### orders: coordinates -/

/-- the order's basis is in stored form, of the dimension of the field -/
def orderDomain (s : List (List Rat)) (f : List Int) : Bool :=
  S.goodModulus f && S.isSquare s && s.length == S.degOf f && S.canonical s && S.fullRank s

/-- `ord.tozbasis S a` ⇒ rational coordinates of `a` in the stored basis -/
def opToZ : Handler := fun args impl =>
  match args with
  | [ss, as] => match parseRatMat? ss, parseRats? as with
    | some s, some a =>
      let model := render showRats (do let o ← M.fromBasis s; M.toZBasis o a)
      let v :=
        if !(S.isSquare s && s.length ≥ 1 && S.canonical s && S.canon a && a.length ≤ s.length) then outside
        else match parseRats? impl with
          | some x => first (S.checkCoords s a x)
          | none => unexpected impl
      (model, v)
    | _, _ => bad
  | _ => bad

/-- `ord.tozbasisint S a` ⇒ integer coordinates | `panic assert` when `a` is not in the module -/
def opToZInt : Handler := fun args impl =>
  match args with
  | [ss, as] => match parseRatMat? ss, parseRats? as with
    | some s, some a =>
      let model := render showInts (do let o ← M.fromBasis s; M.toZBasisInt o a)
      let v :=
        if !(S.isSquare s && s.length ≥ 1 && S.canonical s && S.canon a && a.length ≤ s.length) then outside
        else if impl == "panic assert" then
          (if S.inModule s a then "fail:assertion-for-an-element-of-the-module" else "ok")
        else match parseInts? impl with
          | some x => first (S.checkCoords s a (S.ratsOf x))
          | none => unexpected impl
      (model, v)
    | _, _ => bad
  | _ => bad

/-! ### `mt.*`: the table of an order -/

def withTable {α : Type} (s : List (List Rat)) (f : List Int) (k : Table → Except String α) : Except String α := do
  let o ← M.fromBasis s
  let t ← M.getMultTable o f
  k t

/-- common part of the `mt.*` verdicts: domain, and `panic assert` = some product of basis vectors is
not in the module (not an order: outside the property) -/
def tableVerdict (s : List (List Rat)) (f : List Int) (lens : Bool) (impl : String) (k : Unit → String) : String :=
  if !(orderDomain s f && lens) then outside
  else if impl == "panic assert" then
    (if S.closedUnderMul s f then "fail:integrality-assertion-although-closed-under-multiplication"
     else "skip:module-not-closed-under-multiplication")
  else k ()

/-- `mt.table S f` ⇒ the multiplication table -/
def opTable : Handler := fun args impl =>
  match args with
  | [ss, fs] => match parseRatMat? ss, parseInts? fs with
    | some s, some f =>
      let model := render showTable (withTable s f (fun t => .ok t))
      let v := tableVerdict s f true impl (fun _ =>
        match parseTable? impl with
        | some t => first (S.checkTable s f t)
        | none => unexpected impl)
      (model, v)
    | _, _ => bad
  | _ => bad

/-- `mt.mul S f a b` -/
def opTMul : Handler := fun args impl =>
  match args with
  | [ss, fs, as, bs] => match parseRatMat? ss, parseInts? fs, parseInts? as, parseInts? bs with
    | some s, some f, some a, some b =>
      let model := render showInts (withTable s f (fun t => M.tmul t a b))
      let v := tableVerdict s f (a.length == s.length && b.length == s.length) impl (fun _ =>
        match parseInts? impl with
        | some z => first (S.checkTMul s f a b z)
        | none => unexpected impl)
      (model, v)
    | _, _, _, _ => bad
  | _ => bad

/-- `mt.trace S f a` -/
def opTTrace : Handler := fun args impl =>
  match args with
  | [ss, fs, as] => match parseRatMat? ss, parseInts? fs, parseInts? as with
    | some s, some f, some a =>
      let model := render toString (withTable s f (fun t => M.ttrace t a))
      let v := tableVerdict s f (a.length == s.length) impl (fun _ =>
        match impl.toInt? with
        | some t => first (S.checkTrace s f a t)
        | none => unexpected impl)
      (model, v)
    | _, _, _ => bad
  | _ => bad

/-- `mt.norm S f a` -/
def opTNorm : Handler := fun args impl =>
  match args with
  | [ss, fs, as] => match parseRatMat? ss, parseInts? fs, parseInts? as with
    | some s, some f, some a =>
      let model := render toString (withTable s f (fun t => M.tnorm t a))
      let v := tableVerdict s f (a.length == s.length) impl (fun _ =>
        match impl.toInt? with
        | some t => first (S.checkNorm s f a t)
        | none => unexpected impl)
      (model, v)
    | _, _, _ => bad
  | _ => bad

/-- `mt.inv S f a` ⇒ `b d` | `panic unwrap` (the multiplication map is singular: zero or a zero
divisor of a reducible `f`, about which the property says nothing) -/
def opTInv : Handler := fun args impl =>
  match args with
  | [ss, fs, as] => match parseRatMat? ss, parseInts? fs, parseInts? as with
    | some s, some f, some a =>
      let model := render (fun (p : List Int × Int) => s!"{showInts p.1} {p.2}") (withTable s f (fun t => M.tinv t a))
      let v := tableVerdict s f (a.length == s.length) impl (fun _ =>
        if impl == "panic unwrap" then
          if a.all (· == 0) then "skip:zero-element"
          else if (S.specNorm f (S.elemOf s (S.ratsOf a))).1 == 0 then "skip:zero-divisor"
          else "fail:inverse-refused-for-an-invertible-element"
        else match impl.splitOn " " with
          | [bs, ds] => match parseInts? bs, ds.toInt? with
            | some b, some d => first (S.checkInv s f a b d)
            | _, _ => unexpected impl
          | _ => unexpected impl)
      (model, v)
    | _, _, _ => bad
  | _ => bad

/-- `mt.laws S f a b c`: flags computed by the implementation on the table of the order -/
def opTLaws : Handler := fun args impl =>
  match args with
  | [ss, fs, as, bs, cs] => match parseRatMat? ss, parseInts? fs, parseInts? as, parseInts? bs, parseInts? cs with
    | some s, some f, some a, some b, some c =>
      let n := s.length
      let v := tableVerdict s f (a.length == n && b.length == n && c.length == n) impl (fun _ =>
        let k := impl.length
        if k > 0 && impl.all (fun ch => ch == '1' || ch == '-') then "ok" else "fail:law-" ++ impl)
      -- `-` marks a law that does not apply (inverse of a non-invertible element)
      let model := if impl.startsWith "panic" then render (fun (_ : Table) => impl) (withTable s f (fun t => .ok t))
                   else String.ofList (impl.toList.map (fun ch => if ch == '-' then '-' else '1'))
      (model, v)
    | _, _, _, _, _ => bad
  | _ => bad

/-! ### `mtr.*`: `MultTable` methods on a raw table -/

def rawDomain (t : Table) (vs : List (List Int)) : Bool :=
  S.tableShape t t.length && vs.all (fun v => v.length == t.length)

def opRMul : Handler := fun args impl =>
  match args with
  | [ts, as, bs] => match parseTable? ts, parseInts? as, parseInts? bs with
    | some t, some a, some b =>
      let model := render showInts (M.tmul t a b)
      let v := if !rawDomain t [a, b] then outside
        else match parseInts? impl with
          | some z => first [(z == S.rawMul t a b, "bilinear-formula")]
          | none => unexpected impl
      (model, v)
    | _, _, _ => bad
  | _ => bad

def opRTrace : Handler := fun args impl =>
  match args with
  | [ts, as] => match parseTable? ts, parseInts? as with
    | some t, some a =>
      let model := render toString (M.ttrace t a)
      let v := if !rawDomain t [a] then outside
        else match impl.toInt? with
          | some x =>
            let m := S.rawRegular t a
            first [((x : Rat) == (List.range t.length).foldl (fun s j => s + (m.getD j []).getD j 0) 0,
                    "trace-of-the-regular-representation")]
          | none => unexpected impl
      (model, v)
    | _, _ => bad
  | _ => bad

def opRNorm : Handler := fun args impl =>
  match args with
  | [ts, as] => match parseTable? ts, parseInts? as with
    | some t, some a =>
      let model := render toString (M.tnorm t a)
      let v := if !rawDomain t [a] then outside
        else match impl.toInt? with
          | some x =>
            let (d, agree) := S.detChecked (S.rawRegular t a)
            first [(agree, "ORACLE-determinants-disagree"), ((x : Rat) == d, "determinant-of-the-regular-representation")]
          | none => unexpected impl
      (model, v)
    | _, _ => bad
  | _ => bad

/-- `(y, d)`: `d = |det M_a|` and `y · M_a = d · e₀` -/
def opRInv : Handler := fun args impl =>
  match args with
  | [ts, as] => match parseTable? ts, parseInts? as with
    | some t, some a =>
      let model := render (fun (p : List Int × Int) => s!"{showInts p.1} {p.2}") (M.tinv t a)
      let n := t.length
      let m := S.rawRegular t a
      let (d, agree) := S.detChecked m
      let v := if !rawDomain t [a] then outside
        else if impl == "panic unwrap" then (if d == 0 then "skip:singular" else "fail:inverse-refused-for-a-regular-matrix")
        else match impl.splitOn " " with
          | [ys, ds] => match parseInts? ys, ds.toInt? with
            | some y, some dd =>
              first [(agree, "ORACLE-determinants-disagree"),
                     (y.length == n, "inverse-vector-length"),
                     ((dd : Rat) == (if d < 0 then -d else d), "denominator-is-not-|det|"),
                     (S.qvecMul (S.ratsOf y) m n == (List.range n).map (fun i => if i = 0 then (dd : Rat) else 0),
                      "y*M-differs-from-d*e0")]
            | _, _ => unexpected impl
          | _ => unexpected impl
      (model, v)
    | _, _ => bad
  | _ => bad

def ops : List (String × Handler) :=
  [("alg.add", opBin "add"), ("alg.sub", opBin "sub"), ("alg.mul", opBin "mul"),
   ("alg.pow", opPow), ("alg.powbig", opPow), ("alg.ascoefs", opAsCoefs), ("alg.withexpr", opWithExpr), ("alg.laws", opAlgLaws),
   ("ord.tozbasis", opToZ), ("ord.tozbasisint", opToZInt),
   ("mt.table", opTable), ("mt.mul", opTMul), ("mt.trace", opTTrace), ("mt.norm", opTNorm),
   ("mt.inv", opTInv), ("mt.laws", opTLaws),
   ("mtr.mul", opRMul), ("mtr.trace", opRTrace), ("mtr.norm", opRNorm), ("mtr.inv", opRInv)]

end NTV.Driver.C14
