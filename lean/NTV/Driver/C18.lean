import NTV.Driver.Parse
import NTV.Model.LinAlg
import NTV.Spec.LinAlg
/-! Driver ops for C18 (exact rational linear algebra).
Answers: a value (`p/q`, list, matrix), the name of the Rust error value (`MatrixNotInvertible`,
`LinearlyDependent`, `NotInImage`, `InsufficientRank`) or `panic <kind>`. -/
namespace NTV.Driver.C18
open NTV.Parse
namespace S
export NTV.Spec.LinAlg (Checks isSquare isShape width checkDet checkInvOk checkSingular checkSolveOk
  checkIimOk checkIimDependent checkIimNotInImage checkSuppOk checkSuppErr checkImage
  checkMulInvOk checkMulInvErr checkMulInvPanic)
end S
namespace M
export NTV.LinAlg (determinant inv solve iim supplementBasis imageModP mulInvFromRightExact)
end M

def first (l : S.Checks) : String :=
  match l.find? (fun p => !p.1) with
  | some (_, why) => "fail:" ++ why
  | none => "ok"

def render {α : Type} (sh : α → String) : Except String α → String
  | .ok v => sh v
  | .error e => e

def outside : String := "skip:outside-the-stated-shapes"
def unexpected (impl : String) : String := "fail:unexpected-" ++ impl

/-- `la.det A` ⇒ determinant -/
def opDet : Handler := fun args impl =>
  match args.mapM parseRatMat? with
  | some [a] =>
    let model := render showRat (M.determinant a)
    let v :=
      if !S.isSquare a then outside
      else match parseRat? impl with
        | some d => first (S.checkDet a d)
        | none => unexpected impl
    (model, v)
  | _ => bad

/-- `la.inv A` ⇒ inverse | `MatrixNotInvertible` -/
def opInv : Handler := fun args impl =>
  match args.mapM parseRatMat? with
  | some [a] =>
    let model := render showRatMat (M.inv a)
    let v :=
      if !S.isSquare a then outside
      else if impl == "MatrixNotInvertible" then first (S.checkSingular a)
      else if impl.startsWith "panic" then unexpected impl
      else match parseRatMat? impl with
        | some b => first (S.checkInvOk a b)
        | none => unexpected impl
    (model, v)
  | _ => bad

/-- `la.solve A b` ⇒ x with x·A = b | `MatrixNotInvertible` -/
def opSolve : Handler := fun args impl =>
  match args with
  | [as, bs] => match parseRatMat? as, parseRats? bs with
    | some a, some b =>
      let model := render showRats (M.solve a b)
      let v :=
        if !(S.isSquare a && b.length == a.length) then outside
        else if impl == "MatrixNotInvertible" then first (S.checkSingular a)
        else if impl.startsWith "panic" then unexpected impl
        else match parseRats? impl with
          | some x => first (S.checkSolveOk a b x)
          | none => unexpected impl
      (model, v)
    | _, _ => bad
  | _ => bad

/-- `la.iim M V` ⇒ X with X·M = V | `LinearlyDependent` | `NotInImage` -/
def opIim : Handler := fun args impl =>
  match args.mapM parseRatMat? with
  | some [m, v] =>
    let model := render showRatMat (M.iim m v)
    let w := S.width m
    let verdict :=
      if !(m.length ≥ 1 && v.length ≥ 1 && w ≥ 1 && S.isShape m m.length w && S.isShape v v.length w) then outside
      else if impl == "LinearlyDependent" then first (S.checkIimDependent m)
      else if impl == "NotInImage" then first (S.checkIimNotInImage m v)
      else if impl.startsWith "panic" then unexpected impl
      else match parseRatMat? impl with
        | some x => first (S.checkIimOk m v x)
        | none => unexpected impl
    (model, verdict)
  | _ => bad

/-- `la.supp M` ⇒ n×n basis whose first k rows are M | `InsufficientRank` -/
def opSupp : Handler := fun args impl =>
  match args.mapM parseRatMat? with
  | some [m] =>
    let model := render showRatMat (M.supplementBasis m)
    let w := S.width m
    let verdict :=
      if !(m.length ≥ 1 && w ≥ 1 && S.isShape m m.length w) then outside
      else if impl == "InsufficientRank" then first (S.checkSuppErr m)
      else if impl.startsWith "panic" then unexpected impl
      else match parseRatMat? impl with
        | some b => first (S.checkSuppOk m b)
        | none => unexpected impl
    (model, verdict)
  | _ => bad

/-- `la.imagep M p` ⇒ rows of M forming a basis of the row space over F_p. The oracle applies to
prime `p` and entries with |entry| < p (an entry that is a non-zero multiple of `p` is not a
representative the routine is specified for: textual comparison only). -/
def opImageP : Handler := fun args impl =>
  match args with
  | [ms, ps] => match parseMat? ms, ps.toInt? with
    | some m, some p =>
      let model := render showMat (M.imageModP m p)
      let w := S.width m
      let isPrime := p ≥ 2 && p < 100000 && (List.range (p.toNat - 2)).all (fun d => p.toNat % (d + 2) != 0)
      let verdict :=
        if !(m.length ≥ 1 && w ≥ 1 && S.isShape m m.length w) then outside
        else if !isPrime then "skip:modulus-not-prime"
        else if !(m.all (fun r => r.all (fun x => x.natAbs < p.toNat))) then "skip:entries-not-reduced"
        else if impl.startsWith "panic" then unexpected impl
        else match parseMat? impl with
          | some out => first (S.checkImage m p out)
          | none => unexpected impl
      (model, verdict)
    | _, _ => bad
  | _ => bad

/-- `la.mulinv A B` ⇒ C with C·B = A | `MatrixNotInvertible` | `panic assert` (no integer quotient) -/
def opMulInv : Handler := fun args impl =>
  match args.mapM parseMat? with
  | some [a, b] =>
    let model := render showMat (M.mulInvFromRightExact a b)
    let n := a.length
    let verdict :=
      if !(S.isShape a n n && S.isShape b n n) then outside
      else if impl == "MatrixNotInvertible" then first (S.checkMulInvErr b)
      else if impl == "panic assert" then first (S.checkMulInvPanic a b)
      else if impl.startsWith "panic" then unexpected impl
      else match parseMat? impl with
        | some c => first (S.checkMulInvOk a b c)
        | none => unexpected impl
    (model, verdict)
  | _ => bad

def ops : List (String × Handler) :=
  [("la.det", opDet), ("la.inv", opInv), ("la.solve", opSolve), ("la.iim", opIim),
   ("la.supp", opSupp), ("la.imagep", opImageP), ("la.mulinv", opMulInv)]
end NTV.Driver.C18
