#!/usr/bin/env python3
"""mutate.py — systematic syntactic mutation of /repo to measure what the checks catch.

  lib/mutate.py list                     enumerate mutation sites -> /tmp/mut/sites.json
  lib/mutate.py run <worker> <nworkers>  process every <nworkers>-th site in a private copy
                                         (/tmp/mw_<worker>/{repo,verif}); results -> /tmp/mut/results_<worker>.jsonl
  lib/mutate.py report                   summary of /tmp/mut/results_*.jsonl

A mutant is one token replaced on one line (comparison and arithmetic operators, small constants,
boolean connectives, loop bounds). Mutants that do not compile or that the repository's own test
suite kills are dropped (the task is about changes the suite cannot see). For the survivors the
checks of the properties anchored in the mutated file are run (quick tier). Nothing here touches
/repo or /verif: everything happens in scratch copies, which the caller removes afterwards.
"""
import json, os, re, subprocess, sys, time, shutil

OUT = "/tmp/mut"
FILES = {
    "number-theory-linear/src/hnf.rs": ["C02", "C03", "C15", "C16"],
    "number-theory-linear/src/determinant.rs": ["C18", "C14"],
    "number-theory-linear/src/matrix.rs": ["C18", "C14", "C16"],
    "number-theory-linear/src/solve_linear_system.rs": ["C18", "C14"],
    "number-theory-linear/src/subspace.rs": ["C18"],
    "number-theory-linear/src/triangular.rs": ["C18", "C16"],
    "number-theory-linear/src/lll.rs": ["C20"],
    "number-theory-linear/src/cholesky.rs": ["C20"],
    "number-theory-elementary/src/kronecker.rs": ["C19"],
    "number-theory-elementary/src/primes.rs": ["C19"],
    "src/inverse.rs": ["C19"],
    "src/perfect_power.rs": ["C19", "C01"],
    "src/prime.rs": ["C13", "C01"],
    "src/factorize.rs": ["C01"],
    "src/ecm.rs": ["C01"],
    "src/ecm_parallel.rs": ["C01"],
    "src/polynomial.rs": ["C09", "C04", "C10", "C07"],
    "src/resultant.rs": ["C04", "C05", "C10"],
    "src/discriminant.rs": ["C05"],
    "src/poly_mod/prim.rs": ["C08", "C12", "C11"],
    "src/poly_mod/factorize_mod_p.rs": ["C08", "C17"],
    "src/poly_mod/hensel.rs": ["C11", "C07"],
    "src/poly_mod/linear.rs": ["C12"],
    "src/poly_z/mod.rs": ["C07"],
    "src/algebraic.rs": ["C14"],
    "src/mult_table.rs": ["C14", "C16"],
    "src/order.rs": ["C15", "C14", "C06"],
    "src/ideal.rs": ["C16", "C17"],
    "src/prime_decomp/simple.rs": ["C17"],
    "src/integral_basis/mod.rs": ["C06"],
    "src/integral_basis/round2.rs": ["C06"],
    "src/numerical_roots.rs": ["C20"],
    "src/embeddings.rs": ["C20"],
    "src/main.rs": ["C04", "C05", "C06", "C07", "C08", "C17", "C01"],
    "src/bin/rfactor.rs": ["C01"],
}
# (regex, replacement) applied to ONE occurrence on a line
RULES = [
    (r"(?<![<>=!\-])<=(?!=)", "<"), (r"(?<![<>=!\-])<(?![<=])", "<="),
    (r"(?<![<>=!\-])>=(?!=)", ">"), (r"(?<![<>=!\->])>(?![>=])", ">="),
    (r"==", "!="), (r"!=", "=="),
    (r"&&", "||"), (r"\|\|", "&&"),
    (r"(?<![\+\w\)\]]\s)\+ 1\b", "+ 2"), (r" \+ 1\b", " - 1"), (r" - 1\b", " + 1"), (r" - 1\b", ""),
    (r" \+ ", " - "), (r" - ", " + "), (r" \* ", " + "),
    (r"\+= ", "-= "), (r"-= ", "+= "),
    (r"\b0\.\.", "1.."), (r"\b1\.\.", "0.."), (r"\.\.=", ".."), (r"(?<!\.)\.\.(?![.=])", "..="),
    (r"\.is_zero\(\)", ".is_one()"), (r"\.is_one\(\)", ".is_zero()"),
    (r"\bBigInt::zero\(\)", "BigInt::one()"), (r"\bBigInt::one\(\)", "BigInt::zero()"),
    (r"\bInt::zero\(\)", "Int::one()"), (r"\bInt::one\(\)", "Int::zero()"),
    (r"\btrue\b", "false"), (r"\bfalse\b", "true"),
    (r"\.mod_floor\(", ".rem("), (r"\.div_floor\(", ".div("),
    (r"\bcontinue;", "break;"), (r"\bbreak;", "continue;"),
    (r"= -", "= "), (r"\(-", "("),
    (r"\.abs\(\)", ""),
    (r"\b2\b", "3"), (r"\b4\b", "5"), (r"\b20\b", "19"), (r"\b100\b", "10"),
]


def sites():
    res = []
    for rel in FILES:
        path = os.path.join("/repo", rel)
        if not os.path.exists(path):
            continue
        lines = open(path).read().split("\n")
        intest = False
        skipnext = False
        for ln, line in enumerate(lines):
            st = line.strip()
            if st.startswith("#[cfg(test)]"):
                intest = True
            if intest:
                continue
            if "verif-hooks" in line or "verif_hooks" in line:
                skipnext = True
                continue
            if skipnext:
                skipnext = False
                continue
            if st.startswith("//") or st.startswith("#[") or st.startswith("use ") or not st:
                continue
            if "assert" in st or "eprintln" in st or "println" in st or "panic!" in st:
                continue
            code = line.split("//")[0]
            for ri, (pat, rep) in enumerate(RULES):
                for k, m in enumerate(re.finditer(pat, code)):
                    # skip generics / lifetimes / arrows / attributes that the operator patterns may hit
                    ctx = code[max(0, m.start() - 2): m.end() + 2]
                    if "->" in ctx or "=>" in ctx or "::<" in code[max(0, m.start() - 3): m.end()] :
                        continue
                    if pat in (r"(?<![<>=!\-])<(?![<=])", r"(?<![<>=!\->])>(?![>=])") and re.search(r"(fn |impl|struct|where|Vec<|Option<|Result<|: &|<Int|<R|Polynomial<|Ratio<|HashMap<)", code):
                        continue
                    new = code[:m.start()] + rep + code[m.end():] + ("//" + line.split("//", 1)[1] if "//" in line else "")
                    if new == line:
                        continue
                    res.append({"file": rel, "line": ln + 1, "rule": ri, "occ": k, "old": line, "new": new})
    return res


def sh(cmd, cwd=None, timeout=None, env=None):
    """Runs cmd in its own process group and kills the WHOLE group on timeout (a mutant can make a test
    binary spin forever: killing only `cargo test` would leave it running)."""
    import signal
    p = subprocess.Popen(cmd, cwd=cwd, env=env, stdout=subprocess.PIPE, stderr=subprocess.STDOUT, text=True,
                         start_new_session=True)
    try:
        out, _ = p.communicate(timeout=timeout)
        return p.returncode, out
    except subprocess.TimeoutExpired:
        try:
            os.killpg(p.pid, signal.SIGKILL)
        except ProcessLookupError:
            pass
        try:
            out, _ = p.communicate(timeout=10)
        except Exception:
            out = ""
        return -999, out or ""


def run(worker, nworkers, limit=None):
    allsites = json.load(open(os.path.join(OUT, "sites.json")))
    mine = [s for i, s in enumerate(allsites) if i % nworkers == worker]
    if limit:
        mine = mine[:limit]
    base = f"/tmp/mw_{worker}"
    repo, verif = os.path.join(base, "repo"), os.path.join(base, "verif")
    os.makedirs(base, exist_ok=True)
    sh(["rsync", "-a", "--delete", "--exclude", "target", "/repo/", repo + "/"])
    sh(["rsync", "-a", "--delete", "--exclude", ".cache", "--exclude", "replays", "--exclude", ".git", "/verif/", verif + "/"])
    cargo = os.path.join(verif, "harness", "Cargo.toml")
    txt = open(cargo).read().replace('path = "/repo', f'path = "{repo}')
    open(cargo, "w").write(txt)
    env = dict(os.environ, CARGO_NET_OFFLINE="true", NTV_REPO=repo)
    resf = open(os.path.join(OUT, f"results_{worker}.jsonl"), "a")
    done = set()
    try:
        for l in open(os.path.join(OUT, f"results_{worker}.jsonl")):
            d = json.loads(l)
            done.add((d["file"], d["line"], d["rule"], d["occ"]))
    except Exception:
        pass
    for s in mine:
        key = (s["file"], s["line"], s["rule"], s["occ"])
        if key in done:
            continue
        path = os.path.join(repo, s["file"])
        orig = open(path).read()
        lines = orig.split("\n")
        if lines[s["line"] - 1] != s["old"]:
            continue
        lines[s["line"] - 1] = s["new"]
        open(path, "w").write("\n".join(lines))
        rec = dict(s)
        t0 = time.time()
        rc, out = sh(["cargo", "build", "--offline", "--workspace", "--bins", "--lib"], cwd=repo, timeout=600, env=env)
        if rc != 0:
            rec["outcome"] = "no-compile"
        else:
            rc, out = sh(["cargo", "test", "--workspace", "--offline", "--no-fail-fast"], cwd=repo, timeout=420, env=env)
            if rc != 0:
                rec["outcome"] = "killed-by-suite" if rc != -999 else "suite-timeout"
            else:
                rec["outcome"] = "survived"
                rec["checks"] = {}
                for prop in FILES[s["file"]]:
                    rc, out = sh(["./check", prop, "--tier", "quick"], cwd=verif, timeout=2400, env=env)
                    last = [x for x in out.strip().split("\n") if x.startswith("VIOLATION") or x.startswith("OK ")]
                    rec["checks"][prop] = (last[-1][:160] if last else f"rc={rc}")
                    if rc != 0:
                        rec["outcome"] = "detected"
                        rec["by"] = prop
                        break
        rec["secs"] = round(time.time() - t0)
        open(path, "w").write(orig)
        resf.write(json.dumps(rec) + "\n")
        resf.flush()


def report():
    import glob, collections
    recs = []
    for f in glob.glob(os.path.join(OUT, "results_*.jsonl")):
        recs += [json.loads(l) for l in open(f)]
    c = collections.Counter(r["outcome"] for r in recs)
    print(dict(c))
    for r in recs:
        if r["outcome"] == "survived":
            print(f'{r["file"]}:{r["line"]}  [{r["old"].strip()[:70]}]  ->  [{r["new"].strip()[:70]}]')


if __name__ == "__main__":
    os.makedirs(OUT, exist_ok=True)
    if sys.argv[1] == "list":
        s = sites()
        # deterministic shuffle so that workers see a mix of files
        import random
        random.Random(7).shuffle(s)
        json.dump(s, open(os.path.join(OUT, "sites.json"), "w"))
        import collections
        print(len(s), collections.Counter(x["file"] for x in s).most_common(8))
    elif sys.argv[1] == "run":
        run(int(sys.argv[2]), int(sys.argv[3]), int(sys.argv[4]) if len(sys.argv) > 4 else None)
    elif sys.argv[1] == "report":
        report()
