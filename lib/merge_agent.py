#!/usr/bin/env python3
"""merge_agent.py <agent_verif_dir> <Cxx> : take over a proof agent's Lean work for one property:
new/changed files under lean/NTV/Proofs (only those that differ), and the property's entry of obligations.json.
Model/Spec/Driver files are NOT copied (reported if they differ)."""
import sys, os, json, shutil, filecmp
src, prop = sys.argv[1], sys.argv[2]
dst = "/verif"
changed = []
for root, _, files in os.walk(os.path.join(src, "lean/NTV")):
    for f in files:
        if not f.endswith(".lean"):
            continue
        a = os.path.join(root, f)
        rel = os.path.relpath(a, src)
        b = os.path.join(dst, rel)
        if os.path.exists(b) and filecmp.cmp(a, b, shallow=False):
            continue
        if "/Proofs/" not in rel:
            print("DIFFERS (not copied):", rel)
            continue
        base = os.path.basename(rel)
        if rel.startswith("lean/NTV/Proofs/C") and base != prop + ".lean":
            print("other property file differs (not copied):", rel)
            continue
        changed.append(rel)
for rel in changed:
    os.makedirs(os.path.dirname(os.path.join(dst, rel)), exist_ok=True)
    shutil.copy2(os.path.join(src, rel), os.path.join(dst, rel))
    print("copied", rel)
oa = json.load(open(os.path.join(src, "lean/obligations.json")))
ob = json.load(open(os.path.join(dst, "lean/obligations.json")))
have = {t["name"] for t in ob[prop]["theorems"]}
for t in oa[prop]["theorems"]:
    if t["name"] not in have:
        ob[prop]["theorems"].append(t)
        print("obligation +", t["name"], t["grade"])
json.dump(ob, open(os.path.join(dst, "lean/obligations.json"), "w"), indent=1, ensure_ascii=False)
