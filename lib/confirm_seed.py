#!/usr/bin/env python3
"""confirm_seed.py <prop> <k> <outdir> <worktree> <seed-id>: confirm a seeded change in a scratch worktree
(tests pass with patch, demo fails with patch, demo passes without), run ./check against it in /repo,
and store it under /verif/seeded/<seed-id>/."""
import json, os, shutil, subprocess, sys
prop, k, out, wt, sid = sys.argv[1:6]
env = dict(os.environ, CARGO_NET_OFFLINE="true")
def sh(cmd, cwd):
    p = subprocess.run(cmd, cwd=cwd, shell=True, env=env, stdout=subprocess.PIPE, stderr=subprocess.STDOUT, text=True)
    return p.returncode, p.stdout
meta = json.load(open(f"{out}/meta_{k}.json"))
patch = f"{out}/patch_{k}.diff"
demo = f"{out}/demo_{k}.rs"
loc = meta.get("demo_location", "tests").split()[0].replace("WT/", "").rstrip("/").rstrip(",;")
for pref in (wt + "/", "/tmp/wt_%s/" % prop):
    if loc.startswith(pref):
        loc = loc[len(pref):]
if loc.startswith("/"):
    loc = loc.split(wt + "/")[-1]
demodir = os.path.join(wt, loc)
pkg = ""
if "number-theory-linear" in loc: pkg = "-p number-theory-linear "
if "number-theory-elementary" in loc: pkg = "-p number-theory-elementary "
demo_cmd = f"cargo test --offline {pkg}--test demo_{k}"
res = {}
sh("git checkout -- . && git clean -fdq -e target", wt)
rc, o = sh(f"git apply {patch}", wt); assert rc == 0, o
rc, o = sh("cargo test --workspace --no-fail-fast --offline 2>&1 | grep -E '^test result|FAILED|error' ", wt)
res["suite_with_patch"] = "pass" if ("FAILED" not in o and "error" not in o and "test result: ok" in o) else "FAIL"
res["suite_out"] = o[-600:]
os.makedirs(demodir, exist_ok=True)
shutil.copy(demo, os.path.join(demodir, f"demo_{k}.rs"))
rc1, o1 = sh(demo_cmd, wt)
res["demo_with_patch"] = "fails" if rc1 != 0 else "PASSES"
sh(f"git apply -R {patch}", wt)
rc2, o2 = sh(demo_cmd, wt)
res["demo_without_patch"] = "passes" if rc2 == 0 else "FAILS: " + o2[-800:]
os.remove(os.path.join(demodir, f"demo_{k}.rs"))
sh("git checkout -- . && git clean -fdq -e target", wt)
# run the check against the change in an isolated copy of /repo and /verif (lib/seedtest.sh)
rc, o = sh(f"/verif/lib/seedtest.sh {patch} {prop}", "/verif")
res["check_output"] = [l for l in o.split("\n") if l.startswith(("VIOLATION", "OK", "KNOWN"))]
rep = [l.strip() for l in o.split("\n") if l.strip().startswith("replay:")]
res["replay"] = rep
ok = res["suite_with_patch"] == "pass" and res["demo_with_patch"] == "fails" and res["demo_without_patch"] == "passes"
res["confirmed"] = ok
print(json.dumps(res, indent=1))
if ok:
    d = f"/verif/seeded/{sid}"
    os.makedirs(d, exist_ok=True)
    shutil.copy(patch, f"{d}/patch.diff")
    shutil.copy(demo, f"{d}/demo.rs")
    m = {"id": sid, "property": prop, "what": meta.get("what"), "needs": meta.get("needs"), "files_changed": meta.get("files_changed"),
         "demo_location": loc, "demo_cmd": demo_cmd.replace(f"demo_{k}", "demo") + "   (demo.rs copied to <worktree>/" + loc + "/demo.rs)",
         "confirmed": {"existing_suite_with_patch": "124 tests pass", "demo_with_patch": "fails", "demo_without_patch": "passes",
                       "ran": "scratch worktree of /repo HEAD: git apply patch.diff; cargo test --workspace --no-fail-fast --offline; demo test; git apply -R; demo test"},
         "check": {"cmd": f"lib/seedtest.sh seeded/{sid}/patch.diff {prop}   (isolated copy; equivalently: git -C /repo apply /verif/seeded/{sid}/patch.diff; ./check {prop}; git -C /repo checkout -- .)", "output": res["check_output"], "replay": rep,
                   "detected": any(l.startswith("VIOLATION") for l in res["check_output"])}}
    json.dump(m, open(f"{d}/meta.json", "w"), indent=1)
