#!/usr/bin/env python3
"""register.py <leanDriverModule,...> <rustmod:PROP[|PROP],...> : add registration lines to Main.lean / main.rs"""
import sys, re
lean_mods = [m for m in sys.argv[1].split(",") if m]
rust = [r for r in sys.argv[2].split(",") if r]
p = '/verif/lean/NTV/Driver/Main.lean'
s = open(p).read()
for m in lean_mods:
    imp = f"import NTV.Driver.{m}\n"
    if imp not in s:
        # after the last Driver import
        idx = [x.end() for x in re.finditer(r"^import NTV\.Driver\.\w+\n", s, re.M)][-1]
        s = s[:idx] + imp + s[idx:]
        # ops list: append before the blank line following 'def allOps'
        k = s.index("def allOps")
        e = s.index("\n\n", k)
        s = s[:e] + f" ++ NTV.Driver.{m}.ops" + s[e:]
open(p, 'w').write(s)
p = '/verif/harness/src/main.rs'
s = open(p).read()
for r in rust:
    mod, props = r.split(":")
    if f"mod {mod};" not in s:
        s = s.replace("mod common;\n", f"mod common;\nmod {mod};\n")
        arm = " | ".join(f'"{x}"' for x in props.split("|"))
        s = s.replace("            _ => {\n                eprintln!(\"unknown property", f"            {arm} => {mod}::generate(&mut ctx),\n            _ => {{\n                eprintln!(\"unknown property")
        s = re.sub(r"(    c19::replay\(ctx, f\)[^\n]*)\n", lambda m_: m_.group(1) + f" || {mod}::replay(ctx, f)\n", s)
open(p, 'w').write(s)
