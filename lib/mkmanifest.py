#!/usr/bin/env python3
"""Regenerates /verif/MANIFEST.json from lib/propinfo.py + lean/obligations.json."""
import json, os, subprocess, sys
ROOT = os.path.dirname(os.path.dirname(os.path.abspath(__file__)))
sys.path.insert(0, os.path.join(ROOT, "lib"))
import propinfo
ids = [json.loads(l)["id"] for l in open(os.path.join(ROOT, "properties.jsonl"))]
obs = json.load(open(os.path.join(ROOT, "lean", "obligations.json")))
hooks = subprocess.check_output(["git", "-C", "/repo", "log", "--format=%h %s", "c3ea44d..HEAD"], text=True).strip().split("\n")
hook_commits = [l.split()[0] for l in hooks if "verif-hooks" in l]
checks, na = [], []
for i in ids:
    info = propinfo.INFO.get(i)
    if info is None or i not in obs:
        na.append({"property_id": i, "reason": "not yet claimed: model/correspondence under construction (DESIGN.md section 7)"})
        continue
    ths = obs[i]["theorems"]
    full = [t["name"].split(".")[-1] for t in ths if t["grade"] == "full"]
    part = [t["name"].split(".")[-1] for t in ths if t["grade"] != "full"]
    checks.append({
        "property_id": i,
        "quick_cmd": f"./check {i} --tier quick",
        "thorough_cmd": f"./check {i} --tier thorough",
        "evidence_file": f"/verif/evidence/{i}.json",
        "replay_cmd_template": f"./check {i} --replay {{path}}",
        "engine": "check",
        "level_claimed": {"category": "proof", "text": info["level_text"], "design_ref": info.get("design_ref", "DESIGN.md section 5 " + i)},
        "level_note": info["level_note"] + " Theorems (full): " + ", ".join(full) + ("; (partial/checker): " + ", ".join(part) if part else "") + ".",
        "technique": info.get("technique", "Lean 4 theorems about a hand-written executable model + differential correspondence check against the implementation + Lean spec oracle on implementation outputs"),
    })
m = {
    "version": 1,
    "setup_cmd": "./setup",
    "hooks": {"guard": "cargo feature verif-hooks", "enable": "harness/Cargo.toml depends on rust-number-theory by path with features = [\"verif-hooks\"]",
              "baseline_off_cmd": "cd /repo && cargo test --workspace --no-fail-fast --offline", "source_commits": hook_commits, "add_only": True},
    "engines": [{"name": "check", "path": "/verif/check", "serves_properties": [c["property_id"] for c in checks],
                 "kind_free_text": "Lean 4 (lake project lean/: models, theorems, spec oracles, line-protocol driver) + Rust correspondence harness (harness/) + python orchestrator"}],
    "checks": checks,
    "notes": "Every check: (1) lake build of the property's theorem module + #print axioms audit + forbidden-construct grep, (2) cargo build of the harness against /repo's working tree with feature verif-hooks, (3) generated + corpus cases run on the implementation and on the Lean model, outputs diffed, (4) Lean spec oracle on every implementation output. See DESIGN.md.",
    "not_applicable": na,
}
json.dump(m, open(os.path.join(ROOT, "MANIFEST.json"), "w"), indent=1)
print(f"{len(checks)} checks, {len(na)} not claimed")
