"""Per-property metadata used by ./check: non-triviality rules, trusted base, gaps."""

COMMON_TRUSTED = [
    "Lean 4.33.0 kernel; axioms allowed: propext, Classical.choice, Quot.sound (audited with #print axioms on every run); no native_decide, no bv_decide, no sorry, no axioms of our own",
    "Mathlib v4.33.0 definitions used in theorem statements",
    "hand-written Lean model tied to /repo by the correspondence check (ntvh harness + ntvdriver): generator coverage is what is reported here, not more",
    "num-bigint / num-rational / num-integer arithmetic identified with Lean Int / Nat / Rat operations (/ = Int.tdiv, % = Int.tmod, div_floor = Int.fdiv, mod_floor = Int.fmod)",
    "line (de)serialisers and canonicalisers on both sides",
]


def _digits(args):
    return sum(ch.isdigit() for a in args for ch in a)


def _default_rule(op, args, impl):
    return _digits(args) >= 4


def _c19_rule(op, args, impl):
    try:
        if op == "inv":
            a, m = int(args[0]), int(args[1])
            return abs(a) > 1 and m > 2
        if op == "zmod":
            return abs(int(args[0])) >= int(args[1]) > 1
        if op in ("pp", "ispp"):
            return int(args[0]) >= 4
        if op == "kron":
            return abs(int(args[0])) > 1 and abs(int(args[1])) > 1
        if op == "kronrow":
            return abs(int(args[0])) > 1
        if op in ("primes", "primesiter"):
            return int(args[0]) >= 2
    except ValueError:
        return False
    return True


def _c09_rule(op, args, impl):
    # non-trivial: at least one operand of degree >= 1 and no zero-polynomial operand (laws: always)
    polys = [a for a in args if ("," in a) or a == "_"]
    if op.endswith("laws"):
        return any("," in a for a in args)
    return any("," in a for a in args) and "_" not in args[:2]


def _c02_rule(op, args, impl):
    # non-trivial: at least 2 rows and 2 columns and a non-zero entry
    a = args[0]
    return ";" in a and "," in a and any(ch in a for ch in "123456789")


_HNF_RULE = "every integer matrix of the small shapes (1x1 in [-3,3]; 2x2 in [-2,2]; 1x3, 3x1, 2x3, 3x2 in [-1,1]; thorough adds 3x3 and 4x2 in [-1,1] and wider ranges) through hnf_with_u and kernel; then seeded random matrices up to 10x8 with entries up to 2^66 (thorough 2^512): plain, forced rank-deficient (rows = small combinations of r others, shuffled), zero rows/columns, huge multiples; for each a second generating set of the same lattice (unimodular row operations, permutations, appended combinations and zero rows) and unions with random / equal / sub-lattices; tall matrices n > rank for the kernel. Non-trivial: >= 2 rows, >= 2 columns, not all zero; distinct = distinct (op,args)."

def _c13_rule(op, args, impl):
    try:
        return abs(int(args[0])) > 3
    except ValueError:
        return False


def _poly_pair_rule(op, args, impl):
    # non-trivial: at least one polynomial argument of degree >= 2 and none of them zero
    polys = [a for a in args if ("," in a) or a == "_"]
    return any(a.count(",") >= 2 for a in args) and "_" not in args


_RES_GEN = "all pairs of integer polynomials with <= 3 (thorough 4) coefficients in a small range; seeded random pairs of degree <= 12 with coefficients up to 2^64: common factors h*f1, h*g1 (deg h <= 6), f = g, f | g, degree gaps delta >= 2 in both orders, non-primitive and negative leading coefficients, sparse, constants, zero; un-normalised coefficient lists (outside the domain: oracle skips, model still mirrors). Non-trivial: some argument has degree >= 2 and none is zero; distinct = distinct (op,args)."

def _c01_rule(op, args, impl):
    # non-trivial: point arithmetic modulo n > 3; ecm / factorize on n > 3 (n <= 0 and 1, 2, 3 are the trivial ones)
    try:
        if op in ("ecm.add", "ecm.mul"):
            return abs(int(args[3])) > 3
        if op == "ecm.oneshot":
            return abs(int(args[2])) > 3
        if op in ("ecmp.simplify", "ecmp.adds", "ecmp.oneshot"):
            return args[0] != "_" and abs(int(args[1])) > 3
        if op in ("ecm.ecm", "ecmp.ecm", "ecm.factorize", "ecmp.factorize", "td.factorize", "selectb"):
            return int(args[0]) > 3
        if op == "rfactor":
            return int(args[1]) > 3
    except (ValueError, IndexError):
        return False
    return True


def _pm_rule(op, args, impl):
    # non-trivial: a polynomial argument of degree >= 2
    return any(a.count(",") >= 2 for a in args[:2])


_PM_TRUST = ["hooked RNG + Lean draw decoder (gen_range for BigInt = gen_bigint_range)",
             "primality of the modulus for the oracle: reference test below 2^64, fixed list of known primes above (2^64+13, 2^89-1, 2^107-1, 2^127-1)",
             "private stages (squarefree, degree, final_split*, hensel_lift, find_linear_factors_impl) are exercised only through the public entry points"]

def _c18_rule(op, args, impl):
    # non-trivial: at least a 2 x 2 matrix argument with a non-zero entry
    a = args[0]
    return ";" in a and "," in a and any(ch in a for ch in "123456789")


def _c20_rule(op, args, impl):
    a = args[0]
    return (";" in a) or a.count(",") >= 2


def _c07_rule(op, args, impl):
    return args[0].count(",") >= 2


def _field_rule(op, args, impl):
    return any(a.count(",") >= 2 or ";" in a for a in args[:3])


def _c14_rule(op, args, impl):
    # non-trivial: a modulus / order of degree >= 2 and a non-zero operand
    if op.startswith("alg."):
        return args[0].count(",") >= 2 and any(ch in "".join(args[1:3]) for ch in "123456789")
    return (";" in args[0] or "|" in args[0]) and any(ch in "".join(args[1:]) for ch in "123456789")


def _c15_rule(op, args, impl):
    # non-trivial: dimension / degree >= 2
    return ";" in args[0] or args[0].count(",") >= 2


INFO = {
    "C14": {
        "rule": "alg.*: every product (and fifth power) of elements with coefficients in {-1,0,1} modulo every quadratic f with low coefficients in {-1,0,1} and leading coefficient in {1,2} (thorough: also -1, 3); seeded random f of degree 1..6 with coefficients up to 2^40, monic and non-monic, every fourth one a product of two random factors (reducible), elements of degree < n with numerators up to 2^40 and denominators up to 12: add, sub, mul, squares, as_coefs, pow (u64 and BigInt exponents up to 40), and 13 law flags evaluated on the implementation (commutativity, associativity, distributivity, units, subtraction, a^(s+t) = a^s a^t, (ab)^s = a^s b^s, (a^s)^t = a^(st), owned vs by-reference operators, u64 vs BigInt exponent). mt.* / ord.toz*: for seeded random f of degree 2..6 the orders Z[theta] (monic f), Z[theta] meet Z[1/theta] (non_monic_initial_order), Z + m O for m in 2..6, and find_integral_basis for degree <= 4 (small f and f(x) = k^n g(x/k), whose maximal order has denominators): the table, and on coordinate vectors up to 2^40 (degree <= 3; 2^24 for degree 4; 2^12 above) mul, trace, norm, inv, 9 law flags (commutative, associative, distributive, norm multiplicative, trace additive and homogeneous, unit, norm/trace of integers, a * inv(a) = |norm a|), to_z_basis / to_z_basis_int on members and on random elements; zero element, -1, zero divisors g(theta) of f = g h; lattices that are not rings (integrality assertion: oracle checks that some product of basis vectors is outside the module and skips). mtr.*: MultTable methods on raw commutative integer tables up to 4x4x4, the Gaussian table with operands of wrong length, the empty table. Edge cases outside the statement (degree-1 f with theta, constant and zero min_poly, unreduced operands) are run for the panic behaviour of the model only. Non-trivial: degree >= 2 and a non-zero operand; distinct = distinct (op,args).",
        "rulefn": _c14_rule,
        "trusted": ["Polynomial<BigRational> / Vec<Vec<BigRational>> / Vec<Vec<Vec<BigInt>>> identified with List Rat / List (List Rat) / List (List (List Int))",
                    "an order is passed as its stored basis and rebuilt with Order::from_basis (the field is private); the oracle applies when that basis is in stored form, which C15 checks to be a fixed point of from_basis",
                    "the table is read back through MultTable::mul on unit vectors (cross-checked against its Debug rendering on every case)"],
        "gaps": ["trace/norm are stated for the matrix of multiplication-by-a in the order basis (regular_is_mult_matrix) and linked to Algebra.norm / the resultant; no basis-free LinearMap.trace statement"],
        "assumptions": ["f canonical of degree >= 1, operands reduced (canonical, degree < n); for the table clauses: the lattice is closed under multiplication and contains 1 (w_0 = 1), dimension = degree of f; inv: the multiplication map of a is invertible (a non-zero in a field)"],
        "level_text": "Theorems for every f of degree n >= 1 (any non-zero leading coefficient) about the Lean model of algebraic.rs, order.rs (get_mult_table) and mult_table.rs: the product in Q[x]/(f) is the remainder of the polynomial product, ring laws, exponent laws; for every non-singular basis matrix: get_mult_table succeeds exactly when the lattice is closed under multiplication (else the integrality assertion fires) and its entries are the coordinates of the products of basis vectors; MultTable::mul agrees with the quotient-ring product on coordinate vectors; `regular t a` is the matrix of multiplication by a; trace and norm are its trace and determinant (exact integers), trace additive, norm multiplicative; inv returns (b, |norm a|) with a*b = |norm a| whenever norm a != 0 and w_0 = 1 (norm != 0 for every non-zero a when f is irreducible); norm(g(theta)) * lc(f)^deg g = Res(f, g) (Mathlib's resultant; general order basis over Q, power basis over Z). Model tied to the code by differential testing; outputs also decided by independent oracles.",
        "level_note": "Trusted: Lean kernel + 3 standard axioms; Mathlib polynomials; BigInt/BigRational identified with Int/Rat; correspondence generator coverage. Partial: table clauses certified per explored case, not proved.",
    },
    "C15": {
        "rule": "from_basis on every 2x2 basis with entries in {-1,0,1,1/2}; seeded random non-singular rational bases of dimension 1..6 (numerators up to 2^40 for dimension <= 3, 2^20 above; denominators up to 12 or one common denominator): stored form, a unimodular rebasing U*A (equal orders demanded), the stored form as a fixed point, sub-lattices M*A with M = unimodular * lower triangular of prescribed diagonal (index), chains A > B > C (multiplicativity), the reversed pair (non-integral quotient: explicit panic), union of two sub-lattices in both orders with 5 law flags (commutative, idempotent, absorbing, positive integer indices, stored form stable), absorption of a sub-lattice; unrelated pairs; singular bases (repeated / zero row: index panic of hnf_reduce, mirrored). Fields: seeded random f of degree 2..6 (monic and not, coefficients up to 2^30 for degree <= 3) and f(x) = k^n g(x/k): trivial_order_monic, non_monic_initial_order (same module as 1, a_n theta, a_n theta^2 + a_(n-1) theta, ...; closed under multiplication), singly_gen of theta, c*theta and random elements, disc(Z[theta]) = discriminant(f) for monic f, discriminant of the starting order, of Z + m O, of the computed maximal order (degree <= 4) and of random lattices (non-integral: assertion, skipped), disc(B) = (A:B)^2 disc(A) on pairs order/sub-order, maximal/starting, lattice/sub-lattice. Edge cases outside the statement (empty basis, ragged or wide rows, dimension mismatch, degree-1 / constant / zero min_poly) are run for the panic behaviour of the model only. Non-trivial: dimension or degree >= 2; distinct = distinct (op,args).",
        "rulefn": _c15_rule,
        "trusted": ["Vec<Vec<BigRational>> identified with List (List Rat)",
                    "orders are built with Order::from_basis from the basis given in the op line (the field is private); orders produced by other constructors are passed as their stored basis"],
        "gaps": ["the Polynomial.discr form of the power-basis discriminant is conditional on the exactness flag of C05"],
        "assumptions": ["square non-singular rational bases of dimension n >= 1; index / chains: the second module is contained in the first; discriminants: dimension = degree of f, f canonical of degree >= 1; disc(Z[theta]) = disc(f): f monic of degree >= 2 (Algebraic::new of a linear f is not reduced and singly_gen asserts)"],
        "level_text": "Theorems for all non-singular n x n rational bases about the Lean model of order.rs: from_basis never panics and stores U*A with U integral unimodular (same Z-module); two bases of one module give identical stored orders; stored orders are fixed points; index(A,B) = det B / det A, the change-of-basis determinant, multiplicative, disc(B) = (A:B)^2 disc(A) and integral; union never panics, its module is exactly the sum of the two modules (smallest module containing both), it is commutative, idempotent, absorbs a sub-module, and contains each argument with integer index; for monic f the power-basis order is the identity matrix and its discriminant is disc(f) (singly_gen for degree >= 2; a degree-1 min_poly always trips an assertion, proved). Model tied to the code by differential testing; outputs also decided by independent oracles.",
        "level_note": "Trusted: Lean kernel + 3 standard axioms; Mathlib Matrix/det (through C18's determinant theorem); BigInt/BigRational identified with Int/Rat; correspondence generator coverage. Partial: canonical-form and union clauses certified per explored case, not proved.",
    },
    "C06": {
        "cli": True,
        "rule": "find_integral_basis on: the unit tests; quadratic x^2-d and x^2+bx+c with large square factors in the discriminant (prime-power indices 2^k, 3^k, 5^k); pure cubics x^3-m incl. m = +-1 mod 9; cyclotomic Phi_n (n <= 12); biquadratics; non-monic f; random irreducible f of degree <= 5 (thorough 6) with coefficients in [-5,5] (irreducible modulo a small prime or from a fixed list; discriminant cofactor bounded so that the implementation's trial division stays short); changes of generator theta+k, -theta, c*theta (c <= 6), 1/theta; closed-form field discriminants; the CLI (to_find = integral_basis) as a process; the private Round 2 step one_step through the feature-guarded wrapper. Non-trivial: degree >= 2.",
        "rulefn": _field_rule,
        "trusted": ["irreducibility of the generated f is guaranteed by the harness (irreducible modulo a small prime / known family), not re-checked by the oracle (which requires f primitive, squarefree, degree >= 1)",
                    "closed-form field discriminants (quadratic, pure cubic, cyclotomic, biquadratic) computed in the harness"],
        "gaps": ["termination of the Round 2 loop (and of the discriminant factorisation by trial division) is not proved: the theorems are about runs that return"],
        "assumptions": ["f irreducible (squarefree) of degree >= 1"],
        "level_text": "Full theorems about the Lean model of integral_basis/mod.rs and round2.rs (Pohst-Zassenhaus Round 2), for every canonical f of degree >= 1 (monic or not) and runs that return: the starting order Z[theta] meet Z[1/theta] is a ring; every Round 2 step computes exactly the multiplier ring of the p-radical (semantics of mul_mod_p, pow_mod_p, the Frobenius kernel I_p, the U_p loop), returns a ring containing its argument with index p^howmany, and howmany = 0 only for a p-maximal order; the result O of find_integral_basis is a full-rank module that contains 1 and the starting order, is CLOSED UNDER MULTIPLICATION, is P-MAXIMAL AT EVERY PRIME, and NO STRICTLY LARGER ORDER EXISTS (every multiplicatively closed lattice containing O equals O); disc(start) = index^2 * disc(O); for irreducible f the Z-span of O is exactly the integral closure of Z in Q[x]/(f), disc(O) is Mathlib's NumberField.discr of that field, and it is the same for every polynomial defining an isomorphic field (theta+k, -theta, c*theta, 1/theta as instances); the discriminant of every order is an integer, and these are the two numbers the CLI prints. Model tied to the code by differential testing (whole routine and each Round 2 step through a feature-guarded wrapper); every output also decided by independent maximality oracles; CLI cases.",
        "level_note": "Trusted: Lean kernel + 3 standard axioms; Mathlib (commutative algebra, AdjoinRoot, discriminants); correspondence coverage.",
    },
    "C16": {
        "rule": "maximal orders (find_integral_basis) of quadratic fields x^2+-d, pure cubics, quartics and quintics from a fixed verified list and random monic irreducible cubics; ideals generated by 1..3 random elements, prime ideals from decompose, principal ideals, powers; all pairs and some triples for sum, product, laws; membership of random and constructed elements; inverse w.r.t. the implementation's inverse different; inverse different vs the order's discriminant. Non-trivial: matrix arguments of dimension >= 2.",
        "rulefn": _field_rule,
        "trusted": ["maximality of the order is not re-verified here (C06); the oracle checks that B is a ring basis with first vector 1 containing Z[theta] and that its structure constants are T",
                    "Ideal has no accessor for its HNF: the harness reads it from the derived Debug output and re-validates each extraction with HNF::new(rows) == rows"],
        "gaps": ["every clause is a theorem; the clauses that are false for non-maximal orders (norm multiplicativity, I * I^-1 = (d)) are proved for Dedekind tables and, unconditionally, for the table of the order computed by find_integral_basis with irreducible f, with kernel-checked counterexamples in Z[sqrt(-3)] showing the hypothesis is needed"],
        "assumptions": ["ideals of a maximal order given by HNF bases relative to an integral basis whose first vector is 1"],
        "level_text": "Theorems about the Lean model of ideal.rs and get_inv_diff for every multiplication table of the right shape (ring axioms of the table where stated, as the decidable predicate TableRing): sum = smallest lattice containing both; product = lattice spanned by all pairwise products (never an error); product commutative, associative, distributive over sum as equalities of the returned HNFs; principal ideals, sums, products of O-ideals are O-ideals; `contains` <=> membership; cap_z = positive generator of I meet Z; norm = lattice index = |O/I| = Mathlib's Ideal.absNorm of the corresponding ideal of the ring built from the table; norm of a principal ideal = |norm of the generator| (generator of non-zero norm); norm multiplicative for Dedekind tables, and for the table of every order returned by find_integral_basis with irreducible f (such a table is a domain, integrally closed and Dedekind: proved from C06's maximality theorem); inverse different: get_inv_diff returns (d, H) exactly when the trace matrix is non-singular, with d^n = norm(H) * |disc| where disc = det(trace matrix) = the order's discriminant (any f, any order basis), and H = d * (dual lattice under the trace form). the inverse routine never panics on a full-rank ideal with non-degenerate trace form, returns (a, N) with a = cap_z(I), N/a the colon ideal (O : I) (dual-lattice description via the trace form), and I * N = (a) for Dedekind tables and for the computed maximal order. Model tied to the code by differential testing; each output decided by an independent oracle.",
        "level_note": "Trusted: Lean kernel + 3 standard axioms; correspondence coverage. Partial: ring-theoretic clauses are certified per explored case, not proved.",
    },
    "C17": {
        "cli": True,
        "rule": "decompose on the fields of C16 (incl. fields with non-trivial index so that primes dividing the index occur and must be refused) for all primes <= 60 (thorough 200) and three primes beyond 2^64; ramified, inert, split and mixed types; random history of factorize_mod_p captured and replayed; the CLI (to_find = prime-decomposition) as a process. Non-trivial: matrix arguments of dimension >= 2.",
        "rulefn": _field_rule,
        "trusted": ["hooked RNG + Lean draw decoder", "primality of p beyond 2^64 from a fixed list; irreducibility over such p by Rabin's test alone"],
        "gaps": ["the product clause prod P_i^e_i = (p) is FALSE for a non-maximal order with p not dividing the index (kernel-checked counterexample x^2+4, p = 2): it is proved for integrally closed tables, unramified p, under Dedekind's criterion, and — unconditionally — for the order computed by find_integral_basis (kummer_dedekind_maximal_order); termination is probabilistic (no_panic: the only non-answer is an exhausted stream)"],
        "assumptions": ["monic irreducible f, maximal order, p prime"],
        "level_text": "Theorems about the Lean model of prime_decomp/simple.rs for every monic f, order O containing Z[theta] with 1 as first basis vector, prime p not dividing the index, every stream of draws, runs that return: O/pO is isomorphic to F_p[x]/(f mod p) (ring isomorphism constructed); each P_i = (p, g_i(theta)) has norm p^(deg g_i), P_i meet Z = pZ (cap_z = p), is proper, PRIME and MAXIMAL; the P_i are pairwise comaximal and distinct; exponents are those of the (fully verified) modular factorisation and sum e_i f_i = n; prod P_i^e_i is contained in (p), with equality iff p lies in every P_i^e_i, and equality is PROVED for integrally closed tables, for unramified p and under Dedekind's criterion (the model's iterated `mul` returns the HNF of pO); the routine refuses when p divides the index; for O = the output of find_integral_basis (f monic irreducible) the whole Kummer-Dedekind statement holds with no further hypothesis (the table of a maximal order is integrally closed: proved from C06); no Rust panic is reachable on legal input. Model tied to the code by replaying the captured random history; outputs decided by an independent oracle; CLI cases.",
        "level_note": "Trusted: Lean kernel + 3 standard axioms; RNG hook/decoder; correspondence coverage. Partial: Kummer-Dedekind is certified per explored case, not proved.",
    },
    "C07": {
        "cli": True,
        "rule": "all integer polynomials with <= 5 coefficients in a small range; products of 1..4 factors irreducible by construction (Eisenstein, irreducible modulo a prime, cyclotomic, Swinnerton-Dyer type x^4+1, x^4-10x^2+1, degree 8 and 16) with multiplicities up to 12 (>= 7 included), contents, negative and non-monic leading coefficients, large coefficients, x^n - 1, zero and constants, 25 and 26 linear factors (recombination limit); the random history of factorize_mod_p inside is captured and replayed into the model; CLI (to_find = factorization, polynomials) as a process; after every factorisation the modulus bound the running code chose for each squarefree part (hook poly_z::verif::take_bounds, op pz.bound) is tested against the hypothesis boundOk of theorem accepted_bound_suffices. Non-trivial: degree >= 2.",
        "rulefn": _c07_rule,
        "trusted": ["hooked RNG + Lean draw decoder", "hook take_bounds reports the bound actually used (one guarded line after its computation)", "irreducibility certificates of the oracle: degree 1; irreducible modulo a prime (Rabin test / brute force); incompatible factor-degree sets modulo several primes; brute-force divisor search for small cases; otherwise the construction-time expectation supplied by the harness (191 of 5093 quick cases)"],
        "gaps": ["termination: for deg a <= 25 (the routine's recombination limit) no Rust panic is reachable and the only non-answers are 'stream ran out' and exhaustion of the model's prime-search fuel (100000 primes; the Rust loop has no bound) — theorem no_panic / fuel_only_prime_search; that a random stream suffices with probability 1 is not formalised"],
        "assumptions": ["squarefree part of degree <= 25 modular factors (the implementation asserts lifted.len() <= 25; beyond that the oracle skips)"],
        "level_text": "Full theorems about the Lean model of poly_z/mod.rs (Berlekamp-Zassenhaus) for every non-zero canonical a and EVERY stream of draws, for runs that return (c, fs): every returned factor is irreducible in Z[x] and over Q, canonical, non-constant, primitive with positive leading coefficient; the factors are pairwise distinct and coprime; every exponent is >= 1 and is the true multiplicity; c is the signed content; c * prod f^e = a EXACTLY; and the factorisation is complete (every irreducible divisor of positive degree is associated to exactly one returned factor). Proved via: the Landau-Mignotte bound (Mathlib's Mahler measure) instantiated for the routine's coefficient bound, uniqueness of Hensel lifting (subsets of lifted factors <-> divisors), the recombination loop invariant (subsets of increasing size, symmetric residues), the prime search (a genuine prime < 2^31 not dividing lc with a squarefree mod p), the fully verified modular factoriser (C08) and lifting (C11), and the unconditional integer gcd (C10). Zero and constants. The single use of the coefficient bound in the proof is also proved for ANY bound B with 2^deg(a)*|a|_1 < B (accepted_bound_suffices; the unchanged bound satisfies it: model_bound_accepted), and the check evaluates this executable hypothesis on the bound the running code reports, so a weakened bound is reported as a broken proof obligation even where no failing input is known, while a different valid bound is not. Model tied to the code by replaying the captured random history; outputs also decided by an independent oracle; CLI cases.",
        "level_note": "Trusted: Lean kernel + 3 standard axioms; Mathlib (Mahler measure, Gauss lemma, UFD); RNG hook/decoder; correspondence coverage.",
    },
    "C20": {
        "rule": "lll on integer bases of dimension 2..8: plain random, nearly dependent rows, already reduced, unimodular images of reduced bases, knapsack-type, identity (entries up to 10^4 for the ill-conditioned families, larger for well-conditioned ones in the thorough tier; only non-singular bases, checked with an exact determinant); find_short_vectors / find_value on Gram matrices B*B^T of dimension <= 5 with bounds c = k + 1/2; find_muk on cyclotomic fields Phi_3..Phi_30, imaginary and real quadratic, cubic, quartic, quintic..octic fields with a real embedding and some totally complex fields, each repeated over the (hooked, seeded) random Newton starts. Non-trivial: a matrix argument or a polynomial of degree >= 2; distinct = distinct (op,args).",
        "rulefn": _c20_rule,
        "trusted": ["floating point (f64) is NOT modelled: lllRat is an exact-rational replay of the control flow, compared with the implementation only on runs where no decision is within 1e-6 (scaled for ill-conditioning) of its threshold; the harness prints f64 outputs as integers only when they are exact integers below 2^53",
                    "closed forms for the number of roots of unity: re-verified in Lean for cyclotomic (f = Phi_n by polynomial products), real-root witnesses and imaginary quadratic fields; a few totally complex fields are literature values"],
        "gaps": ["B' LLL-reduced (delta = 3/4, eta = 1/2 up to 1e-6), exactness/completeness of find_short_vectors and the unit count of find_muk are not implied by any theorem about f64: decided on every explored output by the proved-sound exact checkers (Spec.Lll.isReduced, Spec.Enum.shortVectors, closed forms over repeated random starts)", "termination of lll; Newton convergence from random starts", "open finding D16: on ill-conditioned integer bases (transformation entries beyond 2^53, e.g. 6 x 6 lower triangular with entries <= 10^4 and tiny determinant) the f64 implementation returns bases that are not size-reduced; two witnesses are listed in known_findings.jsonl and replayed on every run; H unimodular and B' = H*B still hold there"],
        "assumptions": ["non-singular integer-valued bases with entries small enough for exact f64 representation; positive-definite Gram matrices"],
        "level_text": "Floating point is not modelled, so no theorem speaks about lll / find_short_vectors / find_muk themselves beyond the integer bookkeeping: for every sequence of the operations lll performs on (basis, H), H stays unimodular and the basis equals H*B0 whatever multipliers and swaps the f64 part chooses. Everything that depends on f64 is decided per explored case by exact rational checkers applied to the implementation's real outputs, and the checkers are proved to decide exactly the mathematical notions (grade 'checker'): isReduced <=> rows independent, |mu_ij| <= eta, Lovasz condition for the Gram-Schmidt data (own Gram-Schmidt proved orthogonal with the stated recursion); isPosDef <=> symmetric positive definite (Sylvester's criterion proved over Q); the enumeration box |x_i| <= floor(sqrt(c (Q^-1)_ii)) contains every integer vector with x^T Q x <= c (Cauchy-Schwarz), so the brute-force reference list is complete, sound, duplicate-free and sign-canonical; det and matrix product of the oracles are Mathlib's. Labelled partial.",
        "level_note": "Trusted: Lean kernel + 3 standard axioms; Mathlib Matrix/det; exactness of integer-valued f64 below 2^53; correspondence coverage. Partial: f64 behaviour is outside any theorem.",
    },
    "C18": {
        "rule": "every matrix over {-1,0,1} of the small shapes: 1x1 (entries -2..2), 2x2, 3x3 through determinant, inv and solve_linear_system (2x2 with every right-hand side over {-1,0,1}); iim for M 1x1..2x3 with every V of one row (and 1x2 with two rows), sampled 3x2, 2x3 with two rows, 3x3, 2x4 (thorough: denser); supplement_basis for 1x1..3x3, 2x4, 1x5, sampled 3x4; image_mod_p for all 0/1 matrices up to 4x3/3x4 over F_2, all residue matrices up to 3x3 over F_3, 2x2 and sampled 3x2 over F_5, {-1,0,1} 3x3 for p = 5, 7; mul_inv_from_right_exact for all pairs of 2x2 matrices over {-1,0,1} and 1x1 in [-6,6]. Then seeded random: square matrices up to 7x7 with fractions (numerators up to 2^40, thorough 2^90; denominators up to 30): plain, forced rank deficiency (rows = rational combinations of r others, shuffled), zero row/column, sparse, staircase with the pivot of an early row in a late column, signed permutation-like matrices; right-hand sides random or in the row space; n x m (n <= 5, m <= 7, mostly m > n) for iim and supplement_basis in the same styles and with the columns reversed, V rows inside the span, perturbed by one coordinate, or random; F_p matrices up to 7x7 for p in {2,3,5,7,101} with dependent, repeated and proportional rows, balanced representatives, and unreduced entries (model comparison only); exact right division on A = C*B, on A = C*B + E_rs, on random A, with triangular and singular B, up to 6x6 with 40-bit entries. Shapes outside the statement (non-square, width mismatch, empty) and moduli that are not prime (0, 1, 4, 6, 9, -5) are run for the panic/truncation behaviour of the model only. Non-trivial: first argument has >= 2 rows, >= 2 columns and a non-zero entry; distinct = distinct (op,args).",
        "rulefn": _c18_rule,
        "trusted": ["Vec<Vec<Ratio<BigInt>>> / Vec<Vec<BigInt>> identified with List (List Rat) / List (List Int); Ratio<BigInt> is always reduced with positive denominator, like core Rat; toM maps rectangular lists to Mathlib matrices",
                    "the model answers `inconclusive ragged` on arguments whose rows have different lengths (never generated)"],
        "gaps": [],
        "assumptions": ["square n x n input for determinant / inv / solve_linear_system (b of length n) / mul_inv_from_right_exact (n >= 1); rectangular n x m and r x m arguments with n, r >= 1 for iim, k x n with k >= 1 for supplement_basis; other shapes are run through the correspondence only",
                        "image_mod_p: p prime and entries that represent elements of F_p faithfully (the only entry divisible by p is 0, e.g. entries in 0..p or -p..p): the routine tests the integer entries of its input against 0, not their residues, so image_mod_p([[5]], 5) = [[5]] (theorem image_mod_p_total shows it still never panics; two decide-checked examples in Proofs/C18.lean show the hypothesis cannot be dropped)"],
        "level_text": "Theorems for every square rational (integer) matrix about the Lean model of determinant.rs, matrix.rs, solve_linear_system.rs and triangular.rs: determinant = Matrix.det; inv returns B with B*A = 1 exactly when det A != 0 and MatrixNotInvertible otherwise; solve_linear_system returns x with x*A = b exactly when det A != 0 and MatrixNotInvertible otherwise; mul_inv_from_right_exact returns C with C*B = A, errs only for singular B and asserts only when no integer quotient exists; iim (n x m, r x m, any m) reports LinearlyDependent exactly for dependent rows of M and otherwise returns X with X*M = V or NotInImage according to whether every row of V is in the span; supplement_basis (k x n) returns an invertible n x n matrix starting with the input rows exactly when they are independent, InsufficientRank otherwise; image_mod_p (n x m, p prime, entries faithful representatives) never fails and returns rows of the input at distinct indices that are linearly independent over ZMod p and span every input row. All routines are additionally cross-checked per case by independent oracles (cofactor determinant, adjugate inverse, ranks over Q, exact products).",
        "level_note": "Trusted: Lean kernel + 3 standard axioms; Mathlib Matrix/det; BigInt/BigRational identified with Int/Rat; correspondence generator coverage.",
    },
    "C12": {
        "rule": "primitives of prim.rs (divrem, gcd, modpow, ext-gcd witness, x-a division, evaluation) on random and edge inputs; find_linear_factors on every polynomial up to a degree bound over F_2..F_13, random f of degree <= 12 over primes up to 2^61 (and beyond 2^64) built as c*prod (x-r_i)^e_i * g with g root-free by construction; scripted histories where the drawn shift is a root and where draws never split; the random history of every run is replayed into the model. Non-trivial: polynomial of degree >= 2; distinct = distinct (op,args incl. history).",
        "rulefn": _pm_rule,
        "trusted": _PM_TRUST,
        "gaps": ["termination is probabilistic: the only possible non-answer on legal input is 'the stream of draws ran out' (theorem no_panic: the Fermat debug assertion, the synthetic-division assertion and all fuels are unreachable; p = 2 is total)"],
        "assumptions": ["p prime, f mod p non-zero"],
        "level_text": "Theorems for every prime p, every f with f mod p non-zero and EVERY stream of random draws, about the Lean model of linear.rs and prim.rs (the stream is an explicit argument): if find_linear_factors returns res then every value is in [0,p), every value is a root and prod (x - r) divides f mod p, and the multiset of res equals Mathlib's Polynomial.roots of f over ZMod p (with multiplicity); hence empty when f has no root, of length deg when f splits, and two histories give permutations of one another; p = 2 branch included; poly_gcd is a greatest common divisor. Model tied to the code by replaying the captured random history of every run; each implementation output also decided by an independent oracle.",
        "level_note": "Trusted: Lean kernel + 3 standard axioms; RNG hook/decoder; correspondence coverage. Partial: the root multiset statement is certified per explored case, not proved.",
    },
    "C11": {
        "rule": "lift_factorization on c built from known distinct monic irreducibles mod p (brute-force enumeration for small p; linear and x^2-n factors for large p) times a unit plus p*noise; p in {2,3,5,7,13,101,2^61-1}, e <= 12, 1..8 factors, non-monic c, negative coefficients; poly_coprime_witness on coprime and non-coprime pairs; precondition violations (repeated factor, p | lc, e = 0) are run through the model only. Non-trivial: polynomial of degree >= 2.",
        "rulefn": _pm_rule,
        "trusted": _PM_TRUST,
        "gaps": ["irreducibility of the given modular factors is used only through pairwise coprimality over F_p, which is the stated hypothesis of the theorem; the correspondence covers the cases outside the hypotheses (non-coprime factors, p | lc c) textually only"],
        "assumptions": ["p prime, p not dividing lc(c), c squarefree mod p, factors = its distinct monic irreducible factors"],
        "level_text": "Theorems for every prime p, e >= 1, c with p not dividing lc(c) and every non-empty list of monic, reduced, pairwise coprime (over F_p) factors with c = lc(c) * prod f_i mod p, about the Lean model of hensel.rs and prim.rs: lift_factorization returns (never an error) a list g_i of the same length and order with every g_i monic, canonical, with coefficients in [0, p^e), deg g_i = deg f_i, g_i = f_i mod p, and lc(c) * prod g_i = c mod p^e (equivalently prod g_i = c * lc(c)^-1); e = 1 returns the factors unchanged; poly_coprime_witness returns u, v with a*u + b*v = 1 mod p for every coprime pair (also for unreduced monic inputs as used inside the lift); one hensel_lift call lifts a two-factor congruence for any quotient. Model tied to the code by differential testing (deterministic code, textual comparison) and every implementation output re-checked by an independent oracle.",
        "level_note": "Trusted: Lean kernel + 3 standard axioms; correspondence coverage. Partial: see gaps.",
    },
    "C08": {
        "cli": True,
        "rule": "factorize_mod_p on every polynomial up to a degree bound over F_2, F_3, F_5, F_7, random degree <= 16 over primes up to 2^61 and beyond 2^64 (pusize in {0, 7, p mod 2^64} on the same captured history), p-th powers, products of equal-degree irreducibles, leading coefficient divisible by p; primitives of prim.rs. Non-trivial: polynomial of degree >= 2.",
        "rulefn": _pm_rule,
        "trusted": _PM_TRUST,
        "gaps": ["termination is probabilistic: for every legal input the ONLY possible non-answer of the model is 'the stream of random draws ran out' (theorem no_panic: no Rust panic is reachable and the fuel always suffices, p = 2 included); that a random stream is long enough with probability 1 is not formalised"],
        "assumptions": ["p prime, f mod p non-zero; for p < 2^64 callers pass pusize = p"],
        "level_text": "Theorems for every prime p, every f in Z[x], every value of the machine-word copy allowed by the property (pusize = p when p < 2^64; arbitrary otherwise) and EVERY stream of random draws, about the Lean model of factorize_mod_p.rs and prim.rs: if factorize_mod_p returns fs then every g is monic, canonical, with coefficients in [0,p), of degree >= 1, irreducible over ZMod p (Mathlib Irreducible; distinct-degree stage via the finite-field lemma natDegree_dvd_iff_dvd_X_pow_card_pow_sub_X), the g pairwise distinct, every e >= 1, and lc(f mod p) * prod g^e = f mod p; constant input gives the empty list; for p >= 2^64 the result is the same for every pusize; stage theorems for squarefree decomposition (with p-th roots), distinct-degree and equal-degree splitting. Model tied to the code by replaying the captured random history of every run (whole routine and each private stage through feature-guarded wrappers); outputs also decided by an independent oracle (Rabin test cross-checked by brute force).",
        "level_note": "Trusted: Lean kernel + 3 standard axioms; RNG hook/decoder; correspondence coverage. Partial: see gaps.",
    },
    "C01": {
        "cli": True,
        "rule": "point add/mul, ecm_oneshot and the batched many_simplify/many_adds/ecm_oneshot_parallel on random curves and points (finite, infinite, equal, opposite, multiples of one another, un-normalised) modulo 53 moduli: small composites, primes, prime powers, products up to 2^92, B1 in 0..30 and at the u64 boundary; select_b on [-5, 1005] and on sizes up to 100000 bits; ecm / ecm_parallel::ecm on composites with B1 = select_b, small B1 and B1 = 0; the three factorize entry points on every n in [1, 3000] (thorough 10^5), n <= 0, prime powers up to 2^70, 2^a*m, Carmichael numbers, semiprimes, cubes and fifth powers of primes up to 2^32 (thorough 2^40), smooth x rough products, products of three primes, 2*p and p for Mersenne primes up to 2^607-1 (batched driver up to 2^127-1); scripted histories (first doubling not invertible, draws 1 and n-1, a batch whose curves fail at different primes so that gcd = n, singular curve modulo one factor, liar bases before a witness); every run's random history (curves, points and the Miller-Rabin bases drawn inside the drivers) is captured by the hook and replayed into the model, in a dev-profile and a release-profile build of the harness; with RFACTOR_BIN set, stdout of `rfactor n` / `rfactor --json n`. Non-trivial: n > 3; distinct = distinct (op,args incl. history).",
        "rulefn": _c01_rule,
        "release_pass": True,
        "trusted": ["hooked RNG (feature verif-hooks), its Lean decoder (NTV.Draw) and the feature-guarded wrappers ecm::verif / ecm_parallel::verif",
                    "reference primality for the oracle: trial division below 2^32, 12-base deterministic Miller-Rabin below 2^64, above that only the primes the harness built n from (Mersenne primes)",
                    "select_b(n) for n > 1000 (floating point) is read from the implementation and handed to the model; (b1 as f64).sqrt() is modelled as the integer square root (exact below 2^52)"],
        "gaps": ["termination of the curve loop is probabilistic (false for a constant stream): the theorems are about runs that return; every explored run terminated", "primality of the returned p rests on Miller-Rabin (C13): a history in which 20 bases are all strong liars makes the drivers return a composite 'prime' (probability <= 4^-20 per call by the proved Rabin-Monier bound; recorded open finding); uniqueness is a theorem under 'every acceptance along the run was correct'; on every explored case each returned p is re-checked by the reference primality test", "release profile: multiplicities are u64 and wrap silently, so the product theorem needs x < 2^(2^64) (kernel-checked counterexample at x = 2^(2^64), physically unreachable); select_b's float branch and the f64 square root are not modelled", "the batched driver now chooses its bound per work item (fix D15); select_b above 1000 is floating-point code and is not modelled: its values for the divisors of n are supplied by the harness in a table, and a run that needs a missing entry is dropped as inconclusive"],
        "assumptions": ["n >= 1 (n <= 0 is the documented panic, checked by the correspondence)"],
        "level_text": "Theorems about the Lean model of ecm.rs / ecm_parallel.rs / factorize.rs for every input, every sequence of random draws and both build profiles: any Err(d) of the point arithmetic, of ecm_oneshot and of its batched version divides n; ecm and ecm_parallel::ecm only return proper divisors; the work-stack drivers preserve the product (if they return, the product of the returned prime powers is x); dev profile: the stage-2 start exponents and ecm_oneshot never overflow for B1+1, B2+6 < 2^64; trial division is fully correct. Model tied to the code by replaying the captured random history of every run (dev and release builds); every implementation answer is re-checked by an independent oracle (strictly increasing, reference-prime, positive exponents, product n).",
        "level_note": "Trusted: Lean kernel + 3 standard axioms; RNG hook + decoder; harness-supplied select_b for n > 1000. Partial: termination and primality of the returned factors are not theorems (probabilistic).",
    },
    "C04": {
        "cli": True,
        "rule": _RES_GEN,
        "rulefn": _poly_pair_rule,
        "trusted": ["Mathlib Polynomial.resultant (determinant of the Sylvester matrix) as the specification"],
        "gaps": [],
        "assumptions": [],
        "level_text": "Full theorems about the Lean model of resultant.rs for all non-zero canonical polynomials: resultant_rational = Mathlib's Sylvester-determinant resultant; resultant_smart (subresultant pseudo-remainder sequence, Cohen 3.3.7) never panics, never runs out of fuel, every truncated division it performs is exact (the fundamental theorem of subresultants, proved via determinant polynomials and the invariant a^(m-j) b^(n-j-1) | S_j, defective degree drops included) and its value is Polynomial.resultant; degenerate cases; scaling law. Model tied to the code by differential testing; every value also compared with an independent Sylvester-determinant oracle; process-level CLI cases.",
        "level_note": "Trusted: Lean kernel + 3 standard axioms; Mathlib resultant/determinants; correspondence coverage.",
    },
    "C05": {
        "cli": True,
        "rule": _RES_GEN + " For C05: f of degree >= 1, repeated factors, every residue of deg mod 4; metamorphic ops x->x+c, x->-x, disc(f g).",
        "rulefn": _poly_pair_rule,
        "trusted": ["Mathlib Polynomial.resultant as the specification of Res(f, f')"],
        "gaps": [],
        "assumptions": ["deg f >= 1 (constants and zero are mirrored by the model and skipped by the oracle)"],
        "level_text": "Full theorems about the Lean model of discriminant.rs: for every canonical f of degree >= 1 the routine returns (never panics) Mathlib's Polynomial.discr f, i.e. (-1)^(n(n-1)/2) Res(f, f')/lc(f) with all divisions exact; the sign rule for every n; degree 1; refusal of the zero polynomial. Model tied to the code by differential testing; values also compared with the Sylvester determinant of (f, f'); metamorphic laws evaluated on the implementation; CLI cases.",
        "level_note": "Trusted: Lean kernel + 3 standard axioms; Mathlib resultant/discr; correspondence coverage.",
    },
    "C10": {
        "rule": _RES_GEN + " For C10: pairs h*f1, h*g1 with arbitrary contents and signs, coprime, nested, equal, constants, zero.",
        "rulefn": _poly_pair_rule,
        "trusted": [],
        "gaps": [],
        "assumptions": ["not both arguments zero"],
        "level_text": "Full theorems about the Lean model of resultant_smart_gcd for all non-zero canonical f, g: the routine returns (no panic, fuel suffices, all divisions exact) a polynomial that divides f and g in Z[x], that every common divisor in Z[x] divides (Gauss's lemma from Mathlib), equal to gcd(cont f, cont g) times a primitive polynomial with positive leading coefficient; such a gcd is unique; gcd(0,g) = g. Model tied to resultant.rs by differential testing; each explored case additionally certified by independent exact computations.",
        "level_note": "Trusted: Lean kernel + 3 standard axioms; Mathlib Polynomial/GaussLemma; correspondence coverage.",
    },
    "C13": {
        "rule": "every n in [-3, 2^13) (thorough 2^17); Carmichael numbers by Korselt search below 2*10^5 (thorough 5*10^6); published strong pseudoprimes psi_1..psi_8 and others, repeated; scripted all-liar histories (bases 1 and n-1) and liar histories broken by a witness in the last round for composites; scripted and seeded histories for primes up to 2^61-1; Mersenne primes up to 2^607-1, their products, random odd numbers and semiprimes up to 512 bits; the random history (raw RNG chunks) of every run is captured by the hook and replayed into the model. Exhaustive strong-liar counts for odd n below 2^10 (thorough 2^13) on the model. Non-trivial: |n| > 3; distinct = distinct (op,args incl. history).",
        "rulefn": _c13_rule,
        "trusted": ["hooked RNG (feature verif-hooks) and the Lean decoding of num-bigint 0.4.4's gen_biguint_below (checked by the correspondence itself: 20 decoded bases per run)",
                    "reference classification: trial division below 2^32, 12-base deterministic Miller-Rabin below 2^64 (Sorenson-Webster), construction hints above (Mersenne primes, products)"],
        "gaps": ["the measure-theoretic statement is about independent uniform bases (PMF.uniformOfFinset on the 20-fold product, shown equal to the product of the marginals); that the byte-stream decoder with rejection turns independent uniform chunks into such bases is proved only as 'every base has the same number of chunk preimages', not as a statement about a measure on streams"],
        "assumptions": [],
        "level_text": "Theorems about the Lean model of prime.rs, the random history being an explicit argument: n <= 1 and even n > 2 rejected; every prime accepted on every stream (one-sided error); one round = the textbook strong-probable-prime condition; the Rabin-Monier bound in full: for EVERY odd composite n at most (n-1)/4 of the bases in [1, n-1] pass a round (tight at n = 9), hence at most ((n-1)/4)^20 of the (n-1)^20 vectors of 20 bases are accepted, i.e. error at most 4^-20 under independent uniform bases, for every composite n, also as a statement about Mathlib's uniform PMF on base vectors: P(accept) <= (1/4)^20; the verdict of is_prime on a stream equals the verdict on the 20 bases decoded from it, the decoded bases lie in [1, n-1], and each base has the same number of chunk preimages (uniformity of gen_bigint_range as modelled). Model tied to prime.rs by replaying the captured RNG chunks of every run; implementation answers checked against deterministic references.",
        "level_note": "Trusted: Lean kernel + 3 standard axioms; Mathlib ZMod/group theory; RNG hook + decoder (checked by the correspondence: 20 decoded bases per run); correspondence generator coverage.",
    },
    "C02": {
        "rule": _HNF_RULE,
        "rulefn": _c02_rule,
        "trusted": ["Vec<Vec<BigInt>> identified with List (List Int); toM maps rectangular lists to Mathlib matrices"],
        "gaps": [],
        "assumptions": ["rectangular input with n >= 1 rows and m >= 1 columns (the 0-row and 0-column cases are run through the correspondence only)"],
        "level_text": "Theorems for every rectangular integer matrix about the Lean model of hnf.rs: termination, normal-form shape, equality of row lattices, independence (rank), canonicity (same lattice => identical output, via a uniqueness theorem for Hermite normal forms), and determinant = lattice index for square full-rank input. Model tied to hnf.rs by differential testing; every implementation output re-checked by an independent Lean oracle (shape predicate, rank by rational elimination, lattice membership by back-substitution, U*A product and det U).",
        "level_note": "Trusted: Lean kernel + 3 standard axioms; Mathlib Matrix/det; BigInt identified with Int; correspondence generator coverage.",
    },
    "C03": {
        "rule": _HNF_RULE,
        "rulefn": _c02_rule,
        "trusted": ["Vec<Vec<BigInt>> identified with List (List Int); toM maps rectangular lists to Mathlib matrices"],
        "gaps": [],
        "assumptions": ["rectangular input with n >= 1 rows and m >= 1 columns"],
        "level_text": "Theorems for every rectangular integer matrix about the Lean model of hnf_with_u / hnf_with_ker / HNF::kernel: termination, det U a unit, U*A = [0;H], k = n - rank, and the first k rows of U form a saturated Z-basis of the left kernel. Model tied to hnf.rs by differential testing (H and k textually; U and kernel bases through the proved-sound certificate check U*A = [0;H], |det U| = 1, same lattice as the model's kernel).",
        "level_note": "Trusted: Lean kernel + 3 standard axioms; Mathlib Matrix/det/nonsingular inverse; BigInt identified with Int; correspondence generator coverage.",
    },
    "C09": {
        "rule": "all canonical integer polynomials with <= 3 coefficients in [-1,1] (thorough: [-2,2]) for every unary op and every ordered pair for every binary op; then seeded random polynomials up to degree 20 with coefficients up to 2^128 (integers) and 30-bit fractions (rationals), with dividend/divisor pairs that are arbitrary, exact multiples, multiples with one coefficient off by one, and monic divisors; ring-law flags evaluated on the implementation. Non-trivial: some operand has degree >= 1 and no operand is the zero polynomial; distinct = distinct (op,args).",
        "rulefn": _c09_rule,
        "trusted": ["Polynomial<BigInt> / Polynomial<BigRational> identified with List Int / List Rat (low degree first)"],
        "gaps": [],
        "assumptions": [],
        "level_text": "Refinement theorems (for every commutative ring R, in particular Int and Rat): the list model of Add/Sub/Neg/Mul/of/differential computes the operations of Mathlib's R[X] on canonical lists, so the ring laws, canonicity, evaluation homomorphism and product rule hold for all inputs; division contracts (pseudo, monic, rational, exact division as an iff, content/primitive part) proved for all inputs including exactness of every inner truncated division. Model tied to polynomial.rs by differential testing; every implementation output checked by coefficient-formula oracles.",
        "level_note": "Trusted: Lean kernel + 3 standard axioms; Mathlib Polynomial; BigInt/BigRational arithmetic identified with Int/Rat; correspondence generator coverage.",
    },
    "C19": {
        "rule": "exhaustive boxes (inverse: |a|,m <= box; perfect power: all n < bound; Kronecker: full rows b in [-B,B] for every a in [-B,B]; sieve: every bound <= B) followed by random large operands from the seeded generator; a case is non-trivial when its operands are not units/zero (inv: |a|>1, m>2; pp: n>=4; kron: |a|,|b|>1; primes: bound>=2); distinct = distinct (op,args)",
        "rulefn": _c19_rule,
        "trusted": ["BigInt::nth_root is library code, modelled as the floor root (binary search) and tied by correspondence",
                    "i64 arithmetic of kronecker_symbol_i64 modelled on unbounded Int (no intermediate exceeds the inputs in absolute value); two's-complement `& 1`, `& 7`, `& 2` modelled by floor-mod"],
        "gaps": [],
        "assumptions": ["modulus m >= 1 for inv/zmod (documented precondition)"],
        "level_text": "Theorems for all inputs about the Lean model of inverse.rs, perfect_power.rs, kronecker.rs and primes.rs, with the model tied to the code by differential testing on exhaustive small boxes and random large operands, and every implementation output checked by an independent Lean specification (gcd, Euler criterion + multiplicativity, Newton root, trial division).",
        "level_note": "Trusted: Lean kernel + 3 standard axioms; num-bigint arithmetic and nth_root identified with Int/Nat operations; correspondence generator coverage.",
    },
}


def nontrivial_rule(prop):
    return INFO.get(prop, {}).get("rulefn", _default_rule)
