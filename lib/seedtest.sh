#!/bin/sh
# seedtest.sh <patch> <prop> [tier]: run ./check <prop> against /repo + patch in an isolated copy
# (/tmp/st/{repo,verif}), so that neither /repo nor /verif is disturbed.
set -e
PATCH=$1; PROP=$2; TIER=${3:-quick}
mkdir -p /tmp/st
rsync -a --delete --exclude target /repo/ /tmp/st/repo/
rsync -a --delete --exclude replays --exclude .cache /verif/ /tmp/st/verif/
sed -i 's|path = "/repo|path = "/tmp/st/repo|g' /tmp/st/verif/harness/Cargo.toml
cd /tmp/st/repo && git checkout -q -- . && git apply "$PATCH"
cd /tmp/st/verif && (NTV_REPO=/tmp/st/repo ./check "$PROP" --tier "$TIER" || true)
for f in /tmp/st/verif/replays/$PROP-*.json; do [ -f "$f" ] && python3 -c "
import json,sys
d=json.load(open('$f'))
print('  replay:', d.get('kind'), (d.get('line') or '')[:200], d.get('verdict'), str(d.get('broken'))[:300])"; done
#rm -rf /tmp/st/verif/replays
