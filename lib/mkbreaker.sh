#!/bin/sh
# mkbreaker.sh <Cxx> <tag>: scratch worktree /tmp/wt<tag>_<Cxx> of /repo HEAD + prompt file /tmp/breaker<tag>_<Cxx>.txt
# (the prompt contains only the property text; nothing from /verif). Extra constraints may be appended to the prompt file.
set -e
P=$1; T=$2
WT=/tmp/wt${T}_$P; OUT=/tmp/out${T}_$P
git -C /repo worktree add --detach -f "$WT" HEAD >/dev/null 2>&1
python3 - "$P" "$WT" "$OUT" "/tmp/breaker${T}_$P.txt" <<'PY'
import json,sys
p,wt,out,dst=sys.argv[1:]
for l in open('/verif/properties.jsonl'):
    d=json.loads(l)
    if d['id']==p:
        text=d['title']+"\n\n"+d['statement']+"\n\nQuantified over: "+d['quantifier']['text']+"\n\nCode anchors: "+", ".join(d['anchors']['files'])+"\nObservable at: "+"; ".join(d['anchors'].get('observe_at',[]))
t=open('/verif/notes/breaker_prompt.txt').read().replace('PROPTEXT',text).replace('WT',wt).replace('OUT',out)
open(dst,'w').write(t)
PY
echo "$WT $OUT /tmp/breaker${T}_$P.txt"
